import CoapVerif.Model.Retransmit
/-! Helper lemmas for C06: the call list, the pending table, the transmission log and the invariant
that ties them together, with its preservation by every event of `Model.Retransmit`. -/
set_option linter.unusedSimpArgs false
set_option linter.unusedVariables false
namespace CoapVerif.Lemmas.Retransmit
open CoapVerif.Model.Retransmit CoapVerif.Generated.Retransmit

/-! ### the call list -/

/-- Functions used to update a call keep its identity and message. -/
def Keeps0 (f : Call → Call) : Prop := ∀ c, (f c).id = c.id ∧ (f c).msg = c.msg

/-- … and, for the updates the connection itself makes, the caller's message and the ghost flag as well. -/
def Keeps (f : Call → Call) : Prop :=
  ∀ c, (f c).id = c.id ∧ (f c).msg = c.msg ∧ (f c).req = c.req ∧ (f c).touched = c.touched

theorem Keeps.zero {f : Call → Call} (h : Keeps f) : Keeps0 f := fun c => ⟨(h c).1, (h c).2.1⟩

theorem keeps_setPhase (p : Phase) : Keeps (setPhase p) := fun _ => ⟨rfl, rfl, rfl, rfl⟩
theorem keeps_setBuf (t : Nat) : Keeps (setBuf t) := fun _ => ⟨rfl, rfl, rfl, rfl⟩
theorem keeps0_editReq (m : Nat) : Keeps0 (editReq m) := fun _ => ⟨rfl, rfl⟩

theorem map_id_updCall (cs : List Call) (id : Nat) (f : Call → Call) (hf : Keeps0 f) :
    (updCall cs id f).map (·.id) = cs.map (·.id) := by
  unfold updCall
  induction cs with
  | nil => rfl
  | cons c t ih =>
    simp only [List.map_cons]
    rw [ih]
    by_cases h : c.id = id
    · simp [h, (hf c).1]
    · simp [h]

theorem mem_updCall {cs : List Call} {id : Nat} {f : Call → Call} {c' : Call} (h : c' ∈ updCall cs id f) :
    ∃ c ∈ cs, c' = if c.id = id then f c else c := by
  unfold updCall at h
  obtain ⟨c, hc, rfl⟩ := List.mem_map.mp h
  exact ⟨c, hc, rfl⟩

theorem mem_updCall_of_mem {cs : List Call} (id : Nat) (f : Call → Call) {c : Call} (h : c ∈ cs) :
    (if c.id = id then f c else c) ∈ updCall cs id f := by
  unfold updCall
  exact List.mem_map.mpr ⟨c, h, rfl⟩

theorem findCall_some {cs : List Call} {id : Nat} {c : Call} (h : findCall cs id = some c) : c ∈ cs ∧ c.id = id := by
  unfold findCall at h
  have h1 := List.mem_of_find?_eq_some h
  have h2 := List.find?_some h
  simp at h2
  exact ⟨h1, h2⟩

theorem findCall_none {cs : List Call} {id : Nat} (h : findCall cs id = none) : ∀ c ∈ cs, c.id ≠ id := by
  unfold findCall at h
  intro c hc heq
  have := List.find?_eq_none.mp h c hc
  simp [heq] at this

theorem findCall_isSome_of_mem {cs : List Call} {id : Nat} {c : Call} (hc : c ∈ cs) (h : c.id = id) :
    (findCall cs id).isSome = true := by
  cases hf : findCall cs id with
  | some _ => rfl
  | none => exact (findCall_none hf c hc h).elim

/-- With distinct identifiers a call is determined by its identifier. -/
theorem eq_of_id_eq {cs : List Call} (hn : (cs.map (·.id)).Nodup) {a b : Call} (ha : a ∈ cs) (hb : b ∈ cs)
    (h : a.id = b.id) : a = b := by
  induction cs with
  | nil => cases ha
  | cons c t ih =>
    simp only [List.map_cons, List.nodup_cons] at hn
    cases ha with
    | head =>
      cases hb with
      | head => rfl
      | tail _ hb =>
        exfalso; apply hn.1
        rw [h]; exact List.mem_map.mpr ⟨b, hb, rfl⟩
    | tail _ ha =>
      cases hb with
      | head =>
        exfalso; apply hn.1
        rw [← h]; exact List.mem_map.mpr ⟨a, ha, rfl⟩
      | tail _ hb => exact ih hn.2 ha hb

/-! ### slots -/

theorem inflight_updCall_le (cs : List Call) (id : Nat) (p : Phase) (hp : p ≠ .waitAck) :
    inflight (updCall cs id (setPhase p)) ≤ inflight cs := by
  unfold inflight updCall
  rw [List.countP_map]
  apply List.countP_mono_left
  intro x _ hx
  by_cases h : x.id = id
  · simp [h, setPhase, hp] at hx
  · simpa [h] using hx

theorem inflight_setBuf (cs : List Call) (id tag : Nat) : inflight (updCall cs id (setBuf tag)) = inflight cs := by
  unfold inflight updCall
  rw [List.countP_map]
  apply List.countP_congr
  intro x _
  by_cases h : x.id = id
  · simp [h, setBuf]
  · simp [h]

theorem inflight_admit_le (cs : List Call) (id : Nat) (hn : (cs.map (·.id)).Nodup) :
    inflight (updCall cs id (setPhase .waitAck)) ≤ inflight cs + 1 := by
  unfold inflight updCall
  induction cs with
  | nil => simp
  | cons c t ih =>
    simp only [List.map_cons, List.nodup_cons] at hn
    simp only [List.map_cons, List.countP_cons]
    by_cases h : c.id = id
    · -- no other call carries this identifier: the tail is unchanged
      have htail : t.map (fun c => if c.id = id then setPhase .waitAck c else c) = t := by
        have : ∀ x ∈ t, (if x.id = id then setPhase .waitAck x else x) = x := by
          intro x hx
          have : x.id ≠ id := by
            intro hx'
            apply hn.1
            rw [h, ← hx']
            exact List.mem_map.mpr ⟨x, hx, rfl⟩
          simp [this]
        calc t.map (fun c => if c.id = id then setPhase .waitAck c else c) = t.map (fun c => c) := List.map_congr_left this
          _ = t := List.map_id' t
      rw [htail]
      simp only [h, if_true]
      by_cases h1 : (c.phase == Phase.waitAck) = true <;> simp [h1, setPhase] <;> omega
    · simp only [h, if_false]
      have := ih hn.2
      omega


/-! ### the transmission log -/

def isTx (id : Nat) : Entry → Bool
  | .tx i _ _ _ => i == id
  | _ => false

def txCount (log : List Entry) (id : Nat) : Nat := log.countP (isTx id)

theorem txCount_cons_ret (log : List Entry) (id i : Nat) (r : Res) (t : Nat) :
    txCount (.ret i r t :: log) id = txCount log id := by
  simp [txCount, List.countP_cons, isTx]

theorem txCount_cons_stop (log : List Entry) (id i t : Nat) : txCount (.stop i t :: log) id = txCount log id := by
  simp [txCount, List.countP_cons, isTx]

theorem txCount_cons_got (log : List Entry) (id i t : Nat) : txCount (.got i t :: log) id = txCount log id := by
  simp [txCount, List.countP_cons, isTx]

theorem txCount_cons_tx (log : List Entry) (id i k t m : Nat) :
    txCount (.tx i k t m :: log) id = txCount log id + (if i = id then 1 else 0) := by
  simp [txCount, List.countP_cons, isTx]

/-- Ghost entries and returns do not count as transmissions. -/
def NotTx : Entry → Prop
  | .tx _ _ _ _ => False
  | _ => True

theorem txCount_cons_notTx (log : List Entry) (id : Nat) (x : Entry) (hx : NotTx x) :
    txCount (x :: log) id = txCount log id := by
  cases x with
  | tx _ _ _ _ => cases hx
  | ret _ _ _ => exact txCount_cons_ret _ _ _ _ _
  | stop _ _ => exact txCount_cons_stop _ _ _ _
  | got _ _ => exact txCount_cons_got _ _ _ _

/-- The label of a transmission is the number of earlier transmissions of the same request. -/
def Lab : List Entry → Prop
  | [] => True
  | .tx id k _ _ :: l => k = txCount l id ∧ Lab l
  | _ :: l => Lab l

/-- `e` records that the writer of `id` stopped (woken by its message ID, context ended) or that the call returned. -/
def StopOf (id : Nat) : Entry → Prop
  | .stop i _ => i = id
  | .ret i _ _ => i = id
  | _ => False

/-- No transmission of a request is more recent than a stop / return of that request. -/
def Quiet : List Entry → Prop
  | [] => True
  | .tx id _ _ _ :: l => (∀ e ∈ l, ¬ StopOf id e) ∧ Quiet l
  | _ :: l => Quiet l

theorem lab_cons_notTx {l : List Entry} (x : Entry) (hx : NotTx x) (h : Lab l) : Lab (x :: l) := by
  cases x with
  | tx _ _ _ _ => cases hx
  | ret _ _ _ => exact h
  | stop _ _ => exact h
  | got _ _ => exact h

theorem quiet_cons_notTx {l : List Entry} (x : Entry) (hx : NotTx x) (h : Quiet l) : Quiet (x :: l) := by
  cases x with
  | tx _ _ _ _ => cases hx
  | ret _ _ _ => exact h
  | stop _ _ => exact h
  | got _ _ => exact h

/-! ### the invariant -/

structure Inv (P : Params) (s : State) : Prop where
  ids : (s.calls.map (·.id)).Nodup
  pid : (s.pend.map (·.id)).Nodup
  pa : ∀ e ∈ s.pend, ∃ c ∈ s.calls, c.id = e.id ∧ c.phase = .waitAck ∧ c.msg = e.msg
  ns : inflight s.calls ≤ P.nstart
  wr : ∀ c ∈ s.calls, c.phase = .waitResp → c.buf = none
  rt : ∀ id r t, Entry.ret id r t ∈ s.log → ∃ c ∈ s.calls, c.id = id ∧ c.phase = .done
  cnt : ∀ e ∈ s.pend, txCount s.log e.id = e.n + 1 ∧ e.n ≤ P.maxRetransmit ∧ ∃ m0, Entry.tx e.id 0 e.start m0 ∈ s.log
  bound : ∀ id, txCount s.log id ≤ P.maxRetransmit + 1
  ws : ∀ c ∈ s.calls, c.phase = .waitSem → txCount s.log c.id = 0
  unk : ∀ id, (∀ c ∈ s.calls, c.id ≠ id) → txCount s.log id = 0
  sp : ∀ id k t m, Entry.tx id k t m ∈ s.log → k ≤ P.maxRetransmit ∧
        (∃ c ∈ s.calls, c.id = id ∧ (1 ≤ k → c.msg = m) ∧ (k = 0 → c.touched = false → c.msg = m)) ∧
        (1 ≤ k → ∃ t0 m0, Entry.tx id 0 t0 m0 ∈ s.log ∧ t0 + k * P.ackTimeout < t)
  ut : ∀ c ∈ s.calls, c.touched = false → c.phase = .waitSem → c.req = c.msg
  lab : Lab s.log
  qt : Quiet s.log
  sw : ∀ id t, Entry.stop id t ∈ s.log → ∃ c ∈ s.calls, c.id = id ∧ (c.phase = .waitResp ∨ c.phase = .done)
  src1 : ∀ id tag t, Entry.ret id (.ok tag) t ∈ s.log → Entry.got id tag ∈ s.log
  src2 : ∀ c ∈ s.calls, ∀ tag, c.buf = some tag → Entry.got c.id tag ∈ s.log

theorem inv_init (P : Params) : Inv P init where
  ids := by simp [init]
  pid := by simp [init]
  pa := by intro e he; cases he
  ns := by simp [init, inflight]
  wr := by intro c hc; cases hc
  rt := by intro id r t h; cases h
  cnt := by intro e he; cases he
  bound := by intro id; simp [init, txCount]
  ws := by intro c hc; cases hc
  unk := by intro id _; simp [init, txCount]
  sp := by intro id k t m h; cases h
  ut := by intro c hc; cases hc
  lab := trivial
  qt := trivial
  sw := by intro id t h; cases h
  src1 := by intro id tag t h; cases h
  src2 := by intro c hc; cases hc

/-- Time passes. -/
theorem inv_advance {P : Params} {s : State} (h : Inv P s) (d : Nat) : Inv P { s with now := s.now + d } :=
  ⟨h.ids, h.pid, h.pa, h.ns, h.wr, h.rt, h.cnt, h.bound, h.ws, h.unk, h.sp, h.ut, h.lab, h.qt, h.sw, h.src1, h.src2⟩

/-- Updating one call in place. -/
theorem inv_updCall' {P : Params} {s : State} (h : Inv P s) (id : Nat) (f : Call → Call) (hf : Keeps0 f)
    (hpa : ∀ e ∈ s.pend, e.id = id → ∀ c, c.phase = .waitAck → (f c).phase = .waitAck)
    (hns : inflight (updCall s.calls id f) ≤ P.nstart)
    (hwr : ∀ c ∈ s.calls, c.id = id → (f c).phase = .waitResp → (f c).buf = none)
    (hrt : ∀ c ∈ s.calls, c.id = id → c.phase = .done → (f c).phase = .done)
    (hws : ∀ c ∈ s.calls, c.id = id → (f c).phase = .waitSem → c.phase = .waitSem)
    (hsw : ∀ c ∈ s.calls, c.id = id → (c.phase = .waitResp ∨ c.phase = .done) →
      ((f c).phase = .waitResp ∨ (f c).phase = .done))
    (hbuf : ∀ c ∈ s.calls, c.id = id → ∀ tag, (f c).buf = some tag → c.buf = some tag ∨ Entry.got id tag ∈ s.log)
    (htouch : ∀ c ∈ s.calls, c.id = id → (f c).touched = false →
      c.touched = false ∧ ((f c).phase = .waitSem → (f c).req = c.req)) :
    Inv P { s with calls := updCall s.calls id f } where
  ids := by simp only; rw [map_id_updCall _ _ _ hf]; exact h.ids
  pid := h.pid
  pa := by
    intro e he
    obtain ⟨c, hc, h1, h2, h3⟩ := h.pa e he
    refine ⟨_, mem_updCall_of_mem id f hc, ?_⟩
    by_cases hid : c.id = id
    · simp only [hid, if_true]
      exact ⟨by rw [(hf c).1]; exact h1, hpa e he (by rw [← h1]; exact hid) c h2, by rw [(hf c).2]; exact h3⟩
    · simp only [hid, if_false]; exact ⟨h1, h2, h3⟩
  ns := hns
  wr := by
    intro c' hc' hp
    obtain ⟨c, hc, rfl⟩ := mem_updCall hc'
    by_cases hid : c.id = id
    · simp only [hid, if_true] at hp ⊢; exact hwr c hc hid hp
    · simp only [hid, if_false] at hp ⊢; exact h.wr c hc hp
  rt := by
    intro i r t hm
    obtain ⟨c, hc, h1, h2⟩ := h.rt i r t hm
    refine ⟨_, mem_updCall_of_mem id f hc, ?_⟩
    by_cases hid : c.id = id
    · simp only [hid, if_true]; exact ⟨by rw [(hf c).1]; exact h1, hrt c hc hid h2⟩
    · simp only [hid, if_false]; exact ⟨h1, h2⟩
  cnt := h.cnt
  bound := h.bound
  ws := by
    intro c' hc' hp
    obtain ⟨c, hc, rfl⟩ := mem_updCall hc'
    by_cases hid : c.id = id
    · simp only [hid, if_true] at hp ⊢
      rw [(hf c).1]; exact h.ws c hc (hws c hc hid hp)
    · simp only [hid, if_false] at hp ⊢; exact h.ws c hc hp
  unk := by
    intro i hi
    apply h.unk i
    intro c hc heq
    have := mem_updCall_of_mem id f hc
    by_cases hid : c.id = id
    · simp only [hid, if_true] at this
      exact hi _ this (by rw [(hf c).1]; exact heq)
    · simp only [hid, if_false] at this
      exact hi _ this heq
  sp := by
    intro i k t m hm
    obtain ⟨h1, ⟨c, hc, h2, h3, h3'⟩, h4⟩ := h.sp i k t m hm
    refine ⟨h1, ⟨_, mem_updCall_of_mem id f hc, ?_⟩, h4⟩
    by_cases hid : c.id = id
    · simp only [hid, if_true]
      refine ⟨by rw [(hf c).1]; exact h2, fun hk => by rw [(hf c).2]; exact h3 hk, fun hk ht => ?_⟩
      rw [(hf c).2]; exact h3' hk (htouch c hc hid ht).1
    · simp only [hid, if_false]; exact ⟨h2, h3, h3'⟩
  ut := by
    intro c' hc' ht hp
    obtain ⟨c, hc, rfl⟩ := mem_updCall hc'
    by_cases hid : c.id = id
    · simp only [hid, if_true] at ht hp ⊢
      obtain ⟨t1, t2⟩ := htouch c hc hid ht
      rw [t2 hp, (hf c).2]
      exact h.ut c hc t1 (hws c hc hid hp)
    · simp only [hid, if_false] at ht hp ⊢; exact h.ut c hc ht hp
  lab := h.lab
  qt := h.qt
  sw := by
    intro i t hm
    obtain ⟨c, hc, h1, h2⟩ := h.sw i t hm
    refine ⟨_, mem_updCall_of_mem id f hc, ?_⟩
    by_cases hid : c.id = id
    · simp only [hid, if_true]; exact ⟨by rw [(hf c).1]; exact h1, hsw c hc hid h2⟩
    · simp only [hid, if_false]; exact ⟨h1, h2⟩
  src1 := h.src1
  src2 := by
    intro c' hc' tag hb
    obtain ⟨c, hc, rfl⟩ := mem_updCall hc'
    by_cases hid : c.id = id
    · simp only [hid, if_true] at hb ⊢
      rw [(hf c).1]
      rcases hbuf c hc hid tag hb with h1 | h1
      · exact h.src2 c hc tag h1
      · rw [hid]; exact h1
    · simp only [hid, if_false] at hb ⊢; exact h.src2 c hc tag hb

/-- The same for the updates the connection makes itself (they do not touch the caller's message). -/
theorem inv_updCall {P : Params} {s : State} (h : Inv P s) (id : Nat) (f : Call → Call) (hf : Keeps f)
    (hpa : ∀ e ∈ s.pend, e.id = id → ∀ c, c.phase = .waitAck → (f c).phase = .waitAck)
    (hns : inflight (updCall s.calls id f) ≤ P.nstart)
    (hwr : ∀ c ∈ s.calls, c.id = id → (f c).phase = .waitResp → (f c).buf = none)
    (hrt : ∀ c ∈ s.calls, c.id = id → c.phase = .done → (f c).phase = .done)
    (hws : ∀ c ∈ s.calls, c.id = id → (f c).phase = .waitSem → c.phase = .waitSem)
    (hsw : ∀ c ∈ s.calls, c.id = id → (c.phase = .waitResp ∨ c.phase = .done) →
      ((f c).phase = .waitResp ∨ (f c).phase = .done))
    (hbuf : ∀ c ∈ s.calls, c.id = id → ∀ tag, (f c).buf = some tag → c.buf = some tag ∨ Entry.got id tag ∈ s.log) :
    Inv P { s with calls := updCall s.calls id f } :=
  inv_updCall' h id f hf.zero hpa hns hwr hrt hws hsw hbuf
    (fun c _ _ ht => ⟨by rw [← (hf c).2.2.2]; exact ht, fun _ => (hf c).2.2.1⟩)

/-- Adding a log entry that is not a transmission (a return or a ghost entry). -/
theorem inv_addEntry {P : Params} {s : State} (h : Inv P s) (x : Entry) (hx : NotTx x)
    (hret : ∀ id r t, x = .ret id r t → ∃ c ∈ s.calls, c.id = id ∧ c.phase = .done)
    (hstop : ∀ id t, x = .stop id t → ∃ c ∈ s.calls, c.id = id ∧ (c.phase = .waitResp ∨ c.phase = .done))
    (hok : ∀ id tag t, x = .ret id (.ok tag) t → Entry.got id tag ∈ s.log) :
    Inv P { s with log := x :: s.log } where
  ids := h.ids
  pid := h.pid
  pa := h.pa
  ns := h.ns
  wr := h.wr
  rt := by
    intro i r' t' hm
    cases hm with
    | head => exact hret i r' t' rfl
    | tail _ hm => exact h.rt i r' t' hm
  cnt := by
    intro e he
    obtain ⟨h1, h2, m0, h3⟩ := h.cnt e he
    exact ⟨by simp only [txCount_cons_notTx _ _ _ hx]; exact h1, h2, m0, List.mem_cons_of_mem _ h3⟩
  bound := by intro i; simp only [txCount_cons_notTx _ _ _ hx]; exact h.bound i
  ws := by intro c hc hp; simp only [txCount_cons_notTx _ _ _ hx]; exact h.ws c hc hp
  unk := by intro i hi; simp only [txCount_cons_notTx _ _ _ hx]; exact h.unk i hi
  sp := by
    intro i k t' m hm
    cases hm with
    | head => cases hx
    | tail _ hm =>
      obtain ⟨h1, h2, h3⟩ := h.sp i k t' m hm
      refine ⟨h1, h2, fun hk => ?_⟩
      obtain ⟨t0, m0, h5, h6⟩ := h3 hk
      exact ⟨t0, m0, List.mem_cons_of_mem _ h5, h6⟩
  ut := h.ut
  lab := lab_cons_notTx x hx h.lab
  qt := quiet_cons_notTx x hx h.qt
  sw := by
    intro i t hm
    cases hm with
    | head => exact hstop i t rfl
    | tail _ hm => exact h.sw i t hm
  src1 := by
    intro i tag t hm
    cases hm with
    | head => exact List.mem_cons_of_mem _ (hok i tag t rfl)
    | tail _ hm => exact List.mem_cons_of_mem _ (h.src1 i tag t hm)
  src2 := fun c hc tag hb => List.mem_cons_of_mem _ (h.src2 c hc tag hb)

theorem inv_addRet {P : Params} {s : State} (h : Inv P s) (id : Nat) (r : Res) (t : Nat)
    (hd : ∃ c ∈ s.calls, c.id = id ∧ c.phase = .done) (hok : ∀ tag, r = .ok tag → Entry.got id tag ∈ s.log) :
    Inv P { s with log := .ret id r t :: s.log } :=
  inv_addEntry h (.ret id r t) trivial
    (fun i r' t' heq => by injection heq with h1 h2 h3; subst h1; exact hd)
    (fun i t' heq => by cases heq)
    (fun i tag t' heq => by injection heq with h1 h2 h3; subst h1; exact hok tag h2)

theorem inv_addStop {P : Params} {s : State} (h : Inv P s) (id : Nat)
    (hc : ∃ c ∈ s.calls, c.id = id ∧ (c.phase = .waitResp ∨ c.phase = .done)) : Inv P (addStop s id) :=
  inv_addEntry h (.stop id s.now) trivial
    (fun i r' t' heq => by cases heq)
    (fun i t' heq => by injection heq with h1 h2; subst h1; exact hc)
    (fun i tag t' heq => by cases heq)

theorem inv_addGot {P : Params} {s : State} (h : Inv P s) (id tag : Nat) : Inv P { s with log := .got id tag :: s.log } :=
  inv_addEntry h (.got id tag) trivial
    (fun i r' t' heq => by cases heq)
    (fun i t' heq => by cases heq)
    (fun i tag t' heq => by cases heq)

/-- Removing pending entries. -/
theorem inv_dropPend {P : Params} {s : State} (h : Inv P s) (id : Nat) : Inv P { s with pend := dropPend s.pend id } where
  ids := h.ids
  pid := by
    simp only [dropPend]
    exact List.Nodup.sublist (List.Sublist.map _ List.filter_sublist) h.pid
  pa := fun e he => h.pa e (List.mem_filter.mp he).1
  ns := h.ns
  wr := h.wr
  rt := h.rt
  cnt := fun e he => h.cnt e (List.mem_filter.mp he).1
  bound := h.bound
  ws := h.ws
  unk := h.unk
  sp := h.sp
  ut := h.ut
  lab := h.lab
  qt := h.qt
  sw := h.sw
  src1 := h.src1
  src2 := h.src2

theorem not_mem_dropPend (ps : List Pend) (id : Nat) : ∀ e ∈ dropPend ps id, e.id ≠ id := by
  intro e he
  have := (List.mem_filter.mp he).2
  simpa using this

/-- The call returns (phase `done`, `ret` entry); it must not be in the pending table any more. -/
theorem inv_finish {P : Params} {s : State} (h : Inv P s) (id : Nat) (r : Res)
    (hp : ∀ e ∈ s.pend, e.id ≠ id) (hc : ∃ c ∈ s.calls, c.id = id)
    (hok : ∀ tag, r = .ok tag → Entry.got id tag ∈ s.log) : Inv P (finish s id r) := by
  have h1 : Inv P { s with calls := updCall s.calls id (setPhase .done) } :=
    inv_updCall h id (setPhase .done) (keeps_setPhase _)
      (fun e he heq => (hp e he heq).elim)
      (Nat.le_trans (inflight_updCall_le _ _ _ (by decide)) h.ns)
      (fun c _ _ hph => by simp [setPhase] at hph)
      (fun _ _ _ _ => rfl)
      (fun c _ _ hph => by simp [setPhase] at hph)
      (fun _ _ _ _ => Or.inr rfl)
      (fun _ _ _ tag hb => Or.inl hb)
  obtain ⟨c, hc1, hc2⟩ := hc
  have hd : ∃ c' ∈ updCall s.calls id (setPhase .done), c'.id = id ∧ c'.phase = .done := by
    refine ⟨_, mem_updCall_of_mem id (setPhase .done) hc1, ?_⟩
    simp [hc2, setPhase]
  exact inv_addRet h1 id r s.now hd hok

/-- After `finish` the call is marked done. -/
theorem finish_done {s : State} {id : Nat} (r : Res) (hc : ∃ c ∈ s.calls, c.id = id) :
    ∃ c' ∈ (finish s id r).calls, c'.id = id ∧ (c'.phase = .waitResp ∨ c'.phase = .done) := by
  obtain ⟨c, hc1, hc2⟩ := hc
  refine ⟨_, mem_updCall_of_mem id (setPhase .done) hc1, ?_⟩
  simp [hc2, setPhase]

/-- No stop / return of a request whose call is still queued or waiting for its acknowledgement. -/
theorem no_stop_of_phase {P : Params} {s : State} (h : Inv P s) {c : Call} (hc : c ∈ s.calls)
    (hph : c.phase = .waitSem ∨ c.phase = .waitAck) : ∀ e ∈ s.log, ¬ StopOf c.id e := by
  intro e he hs
  cases e with
  | tx _ _ _ _ => exact hs
  | got _ _ => exact hs
  | stop i t =>
    simp only [StopOf] at hs; subst hs
    obtain ⟨c', hc', h1, h2⟩ := h.sw _ t he
    have := eq_of_id_eq h.ids hc' hc h1
    subst this
    rcases hph with hp | hp <;> rcases h2 with h2 | h2 <;> rw [hp] at h2 <;> cases h2
  | ret i r t =>
    simp only [StopOf] at hs; subst hs
    obtain ⟨c', hc', h1, h2⟩ := h.rt _ r t he
    have := eq_of_id_eq h.ids hc' hc h1
    subst this
    rcases hph with hp | hp <;> rw [hp] at h2 <;> cases h2

/-- First transmission of a call that just got its slot. -/
theorem inv_addTx0 {P : Params} {s : State} (h : Inv P s) (c : Call) (hc : c ∈ s.calls) (hph : c.phase = .waitAck)
    (h0 : txCount s.log c.id = 0) (hnp : ∀ e ∈ s.pend, e.id ≠ c.id) (t : Nat) (dl : Option Nat)
    (hreq : c.touched = false → c.req = c.msg) :
    Inv P { s with pend := s.pend ++ [⟨c.id, t, dl, 0, c.msg⟩], log := .tx c.id 0 t c.req :: s.log } where
  ids := h.ids
  pid := by
    simp only [List.map_append, List.map_cons, List.map_nil]
    rw [List.nodup_append]
    refine ⟨h.pid, by simp, ?_⟩
    intro a ha b hb
    simp at hb
    subst hb
    obtain ⟨e, he, rfl⟩ := List.mem_map.mp ha
    exact hnp e he
  pa := by
    intro e he
    rcases List.mem_append.mp he with he | he
    · exact h.pa e he
    · simp at he; subst he; exact ⟨c, hc, rfl, hph, rfl⟩
  ns := h.ns
  wr := h.wr
  rt := by
    intro i r t' hm
    cases hm with
    | tail _ hm => exact h.rt i r t' hm
  cnt := by
    intro e he
    rcases List.mem_append.mp he with he | he
    · obtain ⟨h1, h2, m0, h3⟩ := h.cnt e he
      have hne : ¬ c.id = e.id := fun heq => hnp e he heq.symm
      exact ⟨by simp only [txCount_cons_tx, hne, if_false]; exact h1, h2, m0, List.mem_cons_of_mem _ h3⟩
    · simp at he; subst he
      exact ⟨by simp only [txCount_cons_tx, if_true, h0], Nat.zero_le _, c.req, List.mem_cons_self⟩
  bound := by
    intro i
    simp only [txCount_cons_tx]
    by_cases hi : c.id = i
    · subst hi; simp only [if_true, h0]; omega
    · simp only [hi, if_false]; exact h.bound i
  ws := by
    intro c' hc' hp'
    have hne : ¬ c.id = c'.id := by
      intro heq
      have := eq_of_id_eq h.ids hc hc' heq
      rw [this, hp'] at hph; cases hph
    simp only [txCount_cons_tx, hne, if_false]
    exact h.ws c' hc' hp'
  unk := by
    intro i hi
    have hne : ¬ c.id = i := fun heq => hi c hc heq
    simp only [txCount_cons_tx, hne, if_false]
    exact h.unk i hi
  sp := by
    intro i k t' m hm
    cases hm with
    | head => exact ⟨Nat.zero_le _, ⟨c, hc, rfl, fun hk => by omega, fun _ ht => (hreq ht).symm⟩, fun hk => by omega⟩
    | tail _ hm =>
      obtain ⟨h1, h2, h3⟩ := h.sp i k t' m hm
      refine ⟨h1, h2, fun hk => ?_⟩
      obtain ⟨t0, m0, h5, h6⟩ := h3 hk
      exact ⟨t0, m0, List.mem_cons_of_mem _ h5, h6⟩
  ut := h.ut
  lab := ⟨h0.symm, h.lab⟩
  qt := ⟨no_stop_of_phase h hc (Or.inr hph), h.qt⟩
  sw := by
    intro i t' hm
    cases hm with
    | tail _ hm => exact h.sw i t' hm
  src1 := by
    intro i tag t' hm
    cases hm with
    | tail _ hm => exact List.mem_cons_of_mem _ (h.src1 i tag t' hm)
  src2 := fun c' hc' tag hb => List.mem_cons_of_mem _ (h.src2 c' hc' tag hb)

theorem inv_admitNext {P : Params} {s : State} (h : Inv P s) : Inv P (admitNext P s) := by
  unfold admitNext
  by_cases hlt : inflight s.calls < P.nstart
  · simp only [hlt, if_true]
    cases hf : s.calls.find? (fun c => c.phase == .waitSem) with
    | none => exact h
    | some c =>
      simp only
      have hc : c ∈ s.calls := List.mem_of_find?_eq_some hf
      have hph : c.phase = .waitSem := by have := List.find?_some hf; simpa using this
      have hnp : ∀ e ∈ s.pend, e.id ≠ c.id := by
        intro e he heq
        obtain ⟨c', hc', h1, h2, _⟩ := h.pa e he
        have := eq_of_id_eq h.ids hc' hc (by rw [h1, heq])
        rw [this, hph] at h2; cases h2
      have hcontra : ∀ c' ∈ s.calls, c'.id = c.id → c'.phase ≠ .waitSem → False := by
        intro c' hc' hid hp
        have := eq_of_id_eq h.ids hc' hc hid
        rw [this] at hp; exact hp hph
      have h1 : Inv P { s with calls := updCall s.calls c.id (setPhase .waitAck) } :=
        inv_updCall h c.id (setPhase .waitAck) (keeps_setPhase _)
          (fun _ _ _ _ _ => rfl)
          (by have := inflight_admit_le s.calls c.id h.ids; omega)
          (fun c' _ _ hp => by simp [setPhase] at hp)
          (fun c' hc' hid hp => (hcontra c' hc' hid (by rw [hp]; decide)).elim)
          (fun c' _ _ hp => by simp [setPhase] at hp)
          (fun c' hc' hid hp => (hcontra c' hc' hid (by rcases hp with hp | hp <;> rw [hp] <;> decide)).elim)
          (fun _ _ _ tag hb => Or.inl hb)
      have hc' : setPhase .waitAck c ∈ updCall s.calls c.id (setPhase .waitAck) := by
        have := mem_updCall_of_mem c.id (setPhase .waitAck) hc
        simpa using this
      exact inv_addTx0 h1 (setPhase .waitAck c) hc' rfl (h.ws c hc hph) hnp s.now c.deadline
        (fun ht => h.ut c hc ht hph)
  · simp only [hlt, if_false]; exact h

/-- No pending entry belongs to a call that is not waiting for its acknowledgement. -/
theorem no_pend_of_phase {P : Params} {s : State} (h : Inv P s) {c : Call} (hc : c ∈ s.calls) (hph : c.phase ≠ .waitAck) :
    ∀ e ∈ s.pend, e.id ≠ c.id := by
  intro e he heq
  obtain ⟨c', hc', h1, h2, _⟩ := h.pa e he
  have := eq_of_id_eq h.ids hc' hc (by rw [h1, heq])
  rw [this] at h2; exact hph h2

theorem inv_ackedPre {P : Params} {s : State} (h : Inv P s) (c : Call) (hc : c ∈ s.calls) (hph : c.phase = .waitAck) :
    Inv P (ackedPre s c) := by
  unfold ackedPre
  have h1 := inv_dropPend h c.id
  have hnp := not_mem_dropPend s.pend c.id
  cases hb : c.buf with
  | some tag =>
    simp only
    exact inv_addStop (inv_finish h1 c.id (.ok tag) hnp ⟨c, hc, rfl⟩
      (fun tag' heq => by injection heq with heq; subst heq; exact h.src2 c hc tag hb)) c.id
      (finish_done _ ⟨c, hc, rfl⟩)
  | none =>
    simp only
    refine inv_addStop (inv_updCall h1 c.id (setPhase .waitResp) (keeps_setPhase _)
      (fun e he heq => (hnp e he heq).elim)
      (Nat.le_trans (inflight_updCall_le _ _ _ (by decide)) h.ns)
      (fun c' hc' hid _ => by
        have := eq_of_id_eq h.ids hc' hc hid
        rw [this]; exact hb)
      (fun c' hc' hid hp => by
        have := eq_of_id_eq h.ids hc' hc hid
        rw [this, hph] at hp; cases hp)
      (fun c' _ _ hp => by simp [setPhase] at hp)
      (fun _ _ _ _ => Or.inl rfl)
      (fun _ _ _ tag hb => Or.inl hb)) c.id ?_
    refine ⟨_, mem_updCall_of_mem c.id (setPhase .waitResp) hc, ?_⟩
    simp [setPhase]

theorem inv_acked {P : Params} {s : State} (h : Inv P s) (c : Call) (hc : c ∈ s.calls) (hph : c.phase = .waitAck) :
    Inv P (acked P s c) := inv_admitNext (inv_ackedPre h c hc hph)

theorem isPending_iff {ps : List Pend} {id : Nat} : isPending ps id = true ↔ ∃ e ∈ ps, e.id = id := by
  unfold isPending
  simp [List.any_eq_true]

/-- The call a pending entry belongs to is the one `findCall` returns, and it waits for its acknowledgement. -/
theorem pending_call {P : Params} {s : State} (h : Inv P s) {id : Nat} (hp : isPending s.pend id = true) :
    ∃ c, findCall s.calls id = some c ∧ c ∈ s.calls ∧ c.phase = .waitAck := by
  obtain ⟨e, he, heid⟩ := isPending_iff.mp hp
  obtain ⟨c', hc', h1, h2, _⟩ := h.pa e he
  cases hf : findCall s.calls id with
  | none => exact (findCall_none hf c' hc' (by rw [h1, heid])).elim
  | some c =>
    obtain ⟨hc, hid⟩ := findCall_some hf
    have := eq_of_id_eq h.ids hc hc' (by rw [hid, h1, heid])
    exact ⟨c, rfl, hc, by rw [this]; exact h2⟩

theorem inv_deliver {P : Params} {s : State} (h : Inv P s) (id tag : Nat) : Inv P (deliver P s id tag) := by
  unfold deliver
  cases hf : findCall s.calls id with
  | none => exact h
  | some c =>
    obtain ⟨hc, hid⟩ := findCall_some hf
    have hg := inv_addGot h id tag
    simp only
    -- the response is put into the call's (empty) channel
    have hbuf : c.phase ≠ .waitResp → c.buf = none →
        Inv P { s with log := .got id tag :: s.log, calls := updCall s.calls id (setBuf tag) } := by
      intro hnw hb
      exact inv_updCall hg id (setBuf tag) (keeps_setBuf _)
        (fun _ _ _ c' hp => hp)
        (by rw [inflight_setBuf]; exact h.ns)
        (fun c' hc' hid' hp => by
          have := eq_of_id_eq h.ids hc' hc (by rw [hid', hid])
          rw [this] at hp; exact (hnw hp).elim)
        (fun c' _ _ hp => hp)
        (fun c' _ _ hp => hp)
        (fun c' _ _ hp => hp)
        (fun c' _ _ tag' hb' => by
          simp only [setBuf] at hb'; injection hb' with hb'; subst hb'
          exact Or.inr List.mem_cons_self)
    cases hph : c.phase with
    | done => exact hg
    | waitResp =>
      simp only
      refine inv_finish hg id (.ok tag) ?_ ⟨c, hc, hid⟩ ?_
      · rw [← hid]; exact no_pend_of_phase h hc (by rw [hph]; decide)
      · intro tag' heq; injection heq with heq; subst heq; exact List.mem_cons_self
    | waitSem =>
      simp only
      cases hb : c.buf with
      | some _ => exact hg
      | none =>
        have := hbuf (by rw [hph]; decide) hb
        simpa using this
    | waitAck =>
      simp only
      cases hb : c.buf with
      | some _ => exact hg
      | none =>
        simp only
        have h1 := hbuf (by rw [hph]; decide) hb
        split
        · refine inv_acked h1 (setBuf tag c) ?_ (by simp [setBuf, hph])
          have := mem_updCall_of_mem id (setBuf tag) hc
          simpa [hid] using this
        · exact h1

theorem inv_recvMid {P : Params} {s : State} (h : Inv P s) (id : Nat) (k : Kind) : Inv P (recvMid P s id k) := by
  unfold recvMid
  have h1 : Inv P (if isPending s.pend id then
      (match findCall s.calls id with | some c => acked P s c | none => s) else s) := by
    by_cases hp : isPending s.pend id = true
    · obtain ⟨c, hf, hc, hph⟩ := pending_call h hp
      simp only [hp, if_true, hf]
      exact inv_acked h c hc hph
    · simp only [hp]; exact h
  cases k with
  | ack => exact h1
  | rst => exact h1
  | pig tag => exact inv_deliver h1 id tag

theorem inv_cancel {P : Params} {s : State} (h : Inv P s) (id : Nat) (why : Why) : Inv P (cancel P s id why) := by
  unfold cancel
  cases hf : findCall s.calls id with
  | none => exact h
  | some c =>
    obtain ⟨hc, hid⟩ := findCall_some hf
    have hnook : ∀ tag, why.res = .ok tag → Entry.got id tag ∈ s.log := by
      intro tag heq; cases why <;> cases heq
    simp only
    cases hph : c.phase with
    | done => exact h
    | waitSem =>
      refine inv_addStop (inv_finish h id _ ?_ ⟨c, hc, hid⟩ hnook) id (finish_done _ ⟨c, hc, hid⟩)
      rw [← hid]; exact no_pend_of_phase h hc (by rw [hph]; decide)
    | waitResp =>
      refine inv_addStop (inv_finish h id _ ?_ ⟨c, hc, hid⟩ hnook) id (finish_done _ ⟨c, hc, hid⟩)
      rw [← hid]; exact no_pend_of_phase h hc (by rw [hph]; decide)
    | waitAck =>
      apply inv_admitNext
      exact inv_addStop (inv_finish (inv_dropPend h id) id _ (not_mem_dropPend s.pend id) ⟨c, hc, hid⟩ hnook) id
        (finish_done _ ⟨c, hc, hid⟩)

/-- A new call is registered (it either waits for a slot or has failed at once). -/
theorem inv_addCall {P : Params} {s : State} (h : Inv P s) (id msg : Nat) (dl : Option Nat) (ph : Phase)
    (hnew : ∀ c ∈ s.calls, c.id ≠ id) (hph : ph = .waitSem ∨ ph = .done) :
    Inv P { s with calls := s.calls ++ [⟨id, msg, dl, ph, none, msg, false⟩] } where
  ids := by
    simp only [List.map_append, List.map_cons, List.map_nil]
    rw [List.nodup_append]
    refine ⟨h.ids, by simp, ?_⟩
    intro a ha b hb
    simp at hb; subst hb
    obtain ⟨c, hc, rfl⟩ := List.mem_map.mp ha
    exact hnew c hc
  pid := h.pid
  pa := by
    intro e he
    obtain ⟨c, hc, h1⟩ := h.pa e he
    exact ⟨c, List.mem_append_left _ hc, h1⟩
  ns := by
    have : inflight (s.calls ++ [⟨id, msg, dl, ph, none, msg, false⟩]) = inflight s.calls := by
      unfold inflight
      rw [List.countP_append]
      rcases hph with hp | hp <;> subst hp <;> simp [List.countP_cons]
    simp only [this]; exact h.ns
  wr := by
    intro c hc hp
    rcases List.mem_append.mp hc with hc | hc
    · exact h.wr c hc hp
    · simp at hc; subst hc; rfl
  rt := by
    intro i r t hm
    obtain ⟨c, hc, h1⟩ := h.rt i r t hm
    exact ⟨c, List.mem_append_left _ hc, h1⟩
  cnt := h.cnt
  bound := h.bound
  ws := by
    intro c hc hp
    rcases List.mem_append.mp hc with hc | hc
    · exact h.ws c hc hp
    · simp at hc; subst hc; exact h.unk id hnew
  unk := by
    intro i hi
    exact h.unk i (fun c hc => hi c (List.mem_append_left _ hc))
  sp := by
    intro i k t m hm
    obtain ⟨h1, ⟨c, hc, h2⟩, h3⟩ := h.sp i k t m hm
    exact ⟨h1, ⟨c, List.mem_append_left _ hc, h2⟩, h3⟩
  ut := by
    intro c hc ht hp
    rcases List.mem_append.mp hc with hc | hc
    · exact h.ut c hc ht hp
    · simp at hc; subst hc; rfl
  lab := h.lab
  qt := h.qt
  sw := by
    intro i t hm
    obtain ⟨c, hc, h1⟩ := h.sw i t hm
    exact ⟨c, List.mem_append_left _ hc, h1⟩
  src1 := h.src1
  src2 := by
    intro c hc tag hb
    rcases List.mem_append.mp hc with hc | hc
    · exact h.src2 c hc tag hb
    · simp at hc; subst hc; cases hb

theorem inv_send {P : Params} {s : State} (h : Inv P s) (id msg : Nat) (dl : Option Nat) : Inv P (send P s id msg dl) := by
  unfold send
  cases hf : findCall s.calls id with
  | some c => simp only [Option.isSome_some, if_true]; exact h
  | none =>
    have hnew := findCall_none hf
    simp only [Option.isSome_none, Bool.false_eq_true, if_false]
    by_cases hn : P.nstart = 0
    · simp only [hn, if_true]
      have h1 := inv_addCall h id msg dl .done hnew (Or.inr rfl)
      exact inv_addRet h1 id .nstart s.now ⟨_, List.mem_append_right _ (List.mem_singleton.mpr rfl), rfl, rfl⟩
        (fun tag heq => by cases heq)
    · simp only [hn, if_false]
      exact inv_admitNext (inv_addCall h id msg dl .waitSem hnew (Or.inl rfl))

/-! ### a housekeeping tick -/

def dropped (P : Params) (t : Nat) (e : Pend) : Bool :=
  pastDeadline t e.deadline || (exhausted P e.n && lastTimeoutPassed P t e)
def due (P : Params) (t : Nat) (e : Pend) : Bool := decide (t > e.start + (e.n + retransmitAddend) * P.ackTimeout)
def bumped (P : Params) (t : Nat) (e : Pend) : Bool := !dropped P t e && due P t e

theorem tickEntry_eq (P : Params) (t : Nat) (e : Pend) :
    tickEntry P t e = if dropped P t e then (none, none)
      else if due P t e then (some { e with n := e.n + 1 }, some (.tx e.id (e.n + 1) t e.msg)) else (some e, none) := by
  unfold tickEntry dropped due
  by_cases h1 : (pastDeadline t e.deadline || (exhausted P e.n && lastTimeoutPassed P t e)) = true
  · simp [h1]
  · simp only [h1]
    -- the entry is not dropped in the pass that wrote the copy: regenerated fact
    have hd : dropsInPassOfLastCopy = false := rfl
    by_cases h2 : t > e.start + (e.n + retransmitAddend) * P.ackTimeout <;> simp [h2, hd]

/-- An entry that is retransmitted in this pass had not used up its retransmissions: a due entry whose copies are
    all out has, by the same timeout, also passed the window of its last copy and is dropped instead. -/
theorem not_exhausted_of_kept_due {P : Params} {t : Nat} {e : Pend} (hd : dropped P t e = false) (hdue : due P t e = true) :
    exhausted P e.n = false := by
  simp only [dropped, Bool.or_eq_false_iff, Bool.and_eq_false_iff] at hd
  rcases hd.2 with h | h
  · exact h
  · -- the last copy's timeout is the timeout of the next retransmission (same addend), or the conjunct is absent
    exfalso
    have hadd : exhaustionWaitsLastTimeout = false ∨ lastCopyAddend = retransmitAddend := by decide
    rcases hadd with hw | ha
    · simp [lastTimeoutPassed, hw] at h
    · simp only [lastTimeoutPassed, Bool.or_eq_false_iff, ha] at h
      simp only [due] at hdue
      exact (of_decide_eq_false h.2) (of_decide_eq_true hdue)

theorem tickList_cons (P : Params) (t : Nat) (e : Pend) (r : List Pend) :
    tickList P t (e :: r) =
      if dropped P t e then tickList P t r
      else if due P t e then ({ e with n := e.n + 1 } :: (tickList P t r).1, .tx e.id (e.n + 1) t e.msg :: (tickList P t r).2)
      else (e :: (tickList P t r).1, (tickList P t r).2) := by
  simp only [tickList, tickEntry_eq]
  by_cases h1 : dropped P t e = true
  · simp [h1]
  · simp only [h1]
    by_cases h2 : due P t e = true <;> simp [h2]

theorem tick_mem_pend (P : Params) (t : Nat) : ∀ (ps : List Pend) (e' : Pend), e' ∈ (tickList P t ps).1 →
    ∃ e ∈ ps, dropped P t e = false ∧
      ((due P t e = false ∧ e' = e) ∨ (due P t e = true ∧ e' = { e with n := e.n + 1 }))
  | [], e', h => by simp [tickList] at h
  | e :: r, e', h => by
    rw [tickList_cons] at h
    by_cases h1 : dropped P t e = true
    · simp only [h1, if_true] at h
      obtain ⟨x, hx, hh⟩ := tick_mem_pend P t r e' h
      exact ⟨x, List.mem_cons_of_mem _ hx, hh⟩
    · simp only [h1] at h
      have h1' : dropped P t e = false := by simpa using h1
      by_cases h2 : due P t e = true
      · simp only [h2, if_true] at h
        cases h with
        | head => exact ⟨e, List.mem_cons_self, h1', Or.inr ⟨h2, rfl⟩⟩
        | tail _ h =>
          obtain ⟨x, hx, hh⟩ := tick_mem_pend P t r e' h
          exact ⟨x, List.mem_cons_of_mem _ hx, hh⟩
      · simp only [h2] at h
        have h2' : due P t e = false := by simpa using h2
        cases h with
        | head => exact ⟨e, List.mem_cons_self, h1', Or.inl ⟨h2', rfl⟩⟩
        | tail _ h =>
          obtain ⟨x, hx, hh⟩ := tick_mem_pend P t r e' h
          exact ⟨x, List.mem_cons_of_mem _ hx, hh⟩

theorem tick_mem_log (P : Params) (t : Nat) : ∀ (ps : List Pend) (x : Entry), x ∈ (tickList P t ps).2 →
    ∃ e ∈ ps, bumped P t e = true ∧ x = .tx e.id (e.n + 1) t e.msg
  | [], x, h => by simp [tickList] at h
  | e :: r, x, h => by
    rw [tickList_cons] at h
    by_cases h1 : dropped P t e = true
    · simp only [h1, if_true] at h
      obtain ⟨y, hy, hh⟩ := tick_mem_log P t r x h
      exact ⟨y, List.mem_cons_of_mem _ hy, hh⟩
    · simp only [h1] at h
      by_cases h2 : due P t e = true
      · simp only [h2, if_true] at h
        cases h with
        | head => exact ⟨e, List.mem_cons_self, by simp [bumped, h1, h2], rfl⟩
        | tail _ h =>
          obtain ⟨y, hy, hh⟩ := tick_mem_log P t r x h
          exact ⟨y, List.mem_cons_of_mem _ hy, hh⟩
      · simp only [h2] at h
        obtain ⟨y, hy, hh⟩ := tick_mem_log P t r x h
        exact ⟨y, List.mem_cons_of_mem _ hy, hh⟩

theorem tick_ids_sublist (P : Params) (t : Nat) : ∀ (ps : List Pend),
    ((tickList P t ps).1.map (·.id)).Sublist (ps.map (·.id))
  | [] => by simp [tickList]
  | e :: r => by
    rw [tickList_cons]
    have ih := tick_ids_sublist P t r
    by_cases h1 : dropped P t e = true
    · simp only [h1, if_true]; exact List.Sublist.cons _ ih
    · simp only [h1]
      by_cases h2 : due P t e = true
      · simp only [h2, if_true, List.map_cons]; exact List.Sublist.cons_cons _ ih
      · simp only [h2, List.map_cons]; exact List.Sublist.cons_cons _ ih

theorem tick_count (P : Params) (t : Nat) (id : Nat) : ∀ (ps : List Pend),
    txCount (tickList P t ps).2 id = ps.countP (fun e => e.id == id && bumped P t e)
  | [] => by simp [tickList, txCount]
  | e :: r => by
    rw [tickList_cons, List.countP_cons]
    have ih := tick_count P t id r
    by_cases h1 : dropped P t e = true
    · have hb : bumped P t e = false := by simp [bumped, h1]
      simp only [h1, if_true, hb]
      rw [ih]; simp
    · by_cases h2 : due P t e = true
      · have hb : bumped P t e = true := by simp [bumped, h1, h2]
        simp only [h1, h2, if_true, hb, Bool.false_eq_true, if_false]
        rw [txCount_cons_tx, ih]
        by_cases h3 : e.id = id <;> simp [h3]
      · have hb : bumped P t e = false := by simp [bumped, h2]
        simp only [h1, h2, hb, Bool.false_eq_true, if_false]
        rw [ih]; simp

theorem countP_id_zero (ps : List Pend) (id : Nat) (q : Pend → Bool) (h : ∀ e ∈ ps, e.id ≠ id) :
    ps.countP (fun e => e.id == id && q e) = 0 := by
  apply List.countP_eq_zero.mpr
  intro e he
  simp [h e he]

theorem countP_id_unique (q : Pend → Bool) : ∀ (ps : List Pend), (ps.map (·.id)).Nodup → ∀ e ∈ ps,
    ps.countP (fun e' => e'.id == e.id && q e') = if q e then 1 else 0
  | [], _, e, he => by cases he
  | x :: r, hn, e, he => by
    simp only [List.map_cons, List.nodup_cons] at hn
    rw [List.countP_cons]
    cases he with
    | head =>
      have : r.countP (fun e' => e'.id == x.id && q e') = 0 := by
        apply countP_id_zero
        intro y hy heq
        apply hn.1
        rw [← heq]; exact List.mem_map.mpr ⟨y, hy, rfl⟩
      rw [this]; simp
    | tail _ he =>
      have hne : x.id ≠ e.id := by
        intro heq
        apply hn.1
        rw [heq]; exact List.mem_map.mpr ⟨e, he, rfl⟩
      rw [countP_id_unique q r hn.2 e he]
      simp [hne]

/-- An entry that was retransmitted in a pass is still there after the pass (with its counter advanced). -/
theorem tick_keeps_bumped (P : Params) (t : Nat) : ∀ (ps : List Pend) (e : Pend), e ∈ ps → bumped P t e = true →
    ({ e with n := e.n + 1 } : Pend) ∈ (tickList P t ps).1
  | x :: r, e, he, hb => by
    rw [tickList_cons]
    cases he with
    | head =>
      simp only [bumped, Bool.and_eq_true, Bool.not_eq_true'] at hb
      simp only [hb.1, hb.2, Bool.false_eq_true, if_false, if_true]
      exact List.mem_cons_self
    | tail _ he =>
      have ih := tick_keeps_bumped P t r e he hb
      by_cases h1 : dropped P t x = true
      · simp only [h1, if_true]; exact ih
      · by_cases h2 : due P t x = true
        · simp only [h1, h2, if_true, Bool.false_eq_true, if_false]; exact List.mem_cons_of_mem _ ih
        · simp only [h1, h2, Bool.false_eq_true, if_false]; exact List.mem_cons_of_mem _ ih

theorem lt_of_not_exhausted {P : Params} {n : Nat} (h : exhausted P n = false) : n < P.maxRetransmit := by
  unfold exhausted at h
  simp [expiredWhenGE] at h
  exact h

theorem spacing_of_due {P : Params} {t : Nat} {e : Pend} (h : due P t e = true) :
    e.start + (e.n + 1) * P.ackTimeout < t := by
  unfold due at h
  simp [retransmitAddend] at h
  exact h


theorem txCount_append (a b : List Entry) (id : Nat) : txCount (a ++ b) id = txCount a id + txCount b id := by
  simp [txCount, List.countP_append]

theorem lab_tick (P : Params) (t : Nat) (log : List Entry) (hl : Lab log) : ∀ (ps : List Pend),
    (ps.map (·.id)).Nodup → (∀ e ∈ ps, txCount log e.id = e.n + 1) → Lab ((tickList P t ps).2 ++ log)
  | [], _, _ => by simpa [tickList] using hl
  | e :: r, hn, hc => by
    simp only [List.map_cons, List.nodup_cons] at hn
    have ih := lab_tick P t log hl r hn.2 (fun x hx => hc x (List.mem_cons_of_mem _ hx))
    rw [tickList_cons]
    by_cases h1 : dropped P t e = true
    · simp only [h1, if_true]; exact ih
    · by_cases h2 : due P t e = true
      · simp only [h1, h2, if_true, Bool.false_eq_true, if_false, List.cons_append]
        refine ⟨?_, ih⟩
        rw [txCount_append, tick_count, hc e List.mem_cons_self, countP_id_zero]
        · omega
        · intro y hy heq
          apply hn.1
          rw [← heq]; exact List.mem_map.mpr ⟨y, hy, rfl⟩
      · simp only [h1, h2, Bool.false_eq_true, if_false]; exact ih

theorem quiet_tick (P : Params) (t : Nat) (log : List Entry) (hq : Quiet log) : ∀ (ps : List Pend),
    (∀ e ∈ ps, ∀ x ∈ log, ¬ StopOf e.id x) → Quiet ((tickList P t ps).2 ++ log)
  | [], _ => by simpa [tickList] using hq
  | e :: r, hs => by
    have ih := quiet_tick P t log hq r (fun x hx => hs x (List.mem_cons_of_mem _ hx))
    rw [tickList_cons]
    by_cases h1 : dropped P t e = true
    · simp only [h1, if_true]; exact ih
    · by_cases h2 : due P t e = true
      · simp only [h1, h2, if_true, Bool.false_eq_true, if_false, List.cons_append]
        refine ⟨?_, ih⟩
        intro x hx
        rcases List.mem_append.mp hx with hx | hx
        · obtain ⟨y, _, _, rfl⟩ := tick_mem_log P t r x hx
          exact fun h => h
        · exact hs e List.mem_cons_self x hx
      · simp only [h1, h2, Bool.false_eq_true, if_false]; exact ih

theorem inv_tick {P : Params} {s : State} (h : Inv P s) (ahead : Nat) : Inv P (tick P s ahead) := by
  unfold tick
  generalize ht : s.now + ahead = t
  have hmem := tick_mem_pend P t s.pend
  have hlog := tick_mem_log P t s.pend
  have hcount : ∀ id, txCount ((tickList P t s.pend).2 ++ s.log) id =
      s.pend.countP (fun e => e.id == id && bumped P t e) + txCount s.log id := by
    intro id
    rw [← tick_count P t id s.pend, txCount_append]
  have hzero : ∀ id, (∀ e ∈ s.pend, e.id ≠ id) → txCount ((tickList P t s.pend).2 ++ s.log) id = txCount s.log id := by
    intro id hid
    rw [hcount, countP_id_zero _ _ _ hid]; omega
  have hone : ∀ e ∈ s.pend, txCount ((tickList P t s.pend).2 ++ s.log) e.id =
      (if bumped P t e then 1 else 0) + txCount s.log e.id := by
    intro e he
    rw [hcount, countP_id_unique _ _ h.pid e he]
  have hnopend : ∀ c ∈ s.calls, c.phase ≠ .waitAck → ∀ e ∈ s.pend, e.id ≠ c.id :=
    fun c hc hp => no_pend_of_phase h hc hp
  have hnew : ∀ x ∈ (tickList P t s.pend).2, ∃ i k t' m, x = Entry.tx i k t' m := by
    intro x hx
    obtain ⟨e, _, _, rfl⟩ := hlog x hx
    exact ⟨_, _, _, _, rfl⟩
  refine ⟨h.ids, ?_, ?_, h.ns, h.wr, ?_, ?_, ?_, ?_, ?_, ?_, h.ut, ?_, ?_, ?_, ?_, ?_⟩
  · exact List.Nodup.sublist (tick_ids_sublist P t s.pend) h.pid
  · intro e' he'
    obtain ⟨e, he, _, hh⟩ := hmem e' he'
    obtain ⟨c, hc, h1, h2, h3⟩ := h.pa e he
    rcases hh with ⟨_, heq⟩ | ⟨_, heq⟩
    · rw [heq]; exact ⟨c, hc, h1, h2, h3⟩
    · rw [heq]; exact ⟨c, hc, h1, h2, h3⟩
  · intro i r t' hm
    rcases List.mem_append.mp hm with hm | hm
    · obtain ⟨_, _, _, _, hx⟩ := hnew _ hm
      cases hx
    · exact h.rt i r t' hm
  · intro e' he'
    obtain ⟨e, he, hd, hh⟩ := hmem e' he'
    obtain ⟨c1, c2, m0, c3⟩ := h.cnt e he
    rcases hh with ⟨hdue, heq⟩ | ⟨hdue, heq⟩
    · rw [heq]
      refine ⟨?_, c2, m0, List.mem_append_right _ c3⟩
      rw [hone e he]; simp [bumped, hdue]; exact c1
    · have hlt := lt_of_not_exhausted (P := P) (n := e.n) (not_exhausted_of_kept_due hd hdue)
      rw [heq]
      refine ⟨?_, by simp only; omega, m0, List.mem_append_right _ c3⟩
      simp only
      rw [hone e he]; simp [bumped, hdue, hd]; omega
  · intro id
    by_cases hex : ∃ e ∈ s.pend, e.id = id
    · obtain ⟨e, he, rfl⟩ := hex
      rw [hone e he]
      obtain ⟨c1, c2, _⟩ := h.cnt e he
      by_cases hb : bumped P t e = true
      · simp only [hb, if_true]
        have hb' := hb
        simp only [bumped, Bool.and_eq_true, Bool.not_eq_true'] at hb'
        have hlt := lt_of_not_exhausted (P := P) (n := e.n) (not_exhausted_of_kept_due hb'.1 hb'.2)
        omega
      · simp only [hb]
        have := h.bound e.id
        simpa using this
    · have : ∀ e ∈ s.pend, e.id ≠ id := fun e he heq => hex ⟨e, he, heq⟩
      rw [hzero id this]; exact h.bound id
  · intro c hc hp
    rw [hzero c.id (hnopend c hc (by rw [hp]; decide))]
    exact h.ws c hc hp
  · intro id hid
    have : ∀ e ∈ s.pend, e.id ≠ id := by
      intro e he heq
      obtain ⟨c, hc, h1, _⟩ := h.pa e he
      exact hid c hc (by rw [h1, heq])
    rw [hzero id this]; exact h.unk id hid
  · intro i k t' m hm
    rcases List.mem_append.mp hm with hm | hm
    · obtain ⟨e, he, hb, hx⟩ := hlog _ hm
      injection hx with x1 x2 x3 x4
      subst x1 x2 x3 x4
      simp only [bumped, Bool.and_eq_true, Bool.not_eq_true'] at hb
      have hlt := lt_of_not_exhausted (P := P) (n := e.n) (not_exhausted_of_kept_due hb.1 hb.2)
      obtain ⟨c, hc, h1, _, h3⟩ := h.pa e he
      obtain ⟨_, _, m0, c3⟩ := h.cnt e he
      refine ⟨by omega, ⟨c, hc, h1, fun _ => h3, fun hk0 => by omega⟩,
        fun _ => ⟨e.start, m0, List.mem_append_right _ c3, spacing_of_due hb.2⟩⟩
    · obtain ⟨h1, h2, h3⟩ := h.sp i k t' m hm
      refine ⟨h1, h2, fun hk => ?_⟩
      obtain ⟨t0, m0, h5, h6⟩ := h3 hk
      exact ⟨t0, m0, List.mem_append_right _ h5, h6⟩
  · exact lab_tick P t s.log h.lab s.pend h.pid (fun e he => (h.cnt e he).1)
  · refine quiet_tick P t s.log h.qt s.pend ?_
    intro e he
    obtain ⟨c, hc, h1, h2, _⟩ := h.pa e he
    rw [← h1]
    exact no_stop_of_phase h hc (Or.inr h2)
  · intro i t' hm
    rcases List.mem_append.mp hm with hm | hm
    · obtain ⟨_, _, _, _, hx⟩ := hnew _ hm
      cases hx
    · exact h.sw i t' hm
  · intro i tag t' hm
    rcases List.mem_append.mp hm with hm | hm
    · obtain ⟨_, _, _, _, hx⟩ := hnew _ hm
      cases hx
    · exact List.mem_append_right _ (h.src1 i tag t' hm)
  · exact fun c hc tag hb => List.mem_append_right _ (h.src2 c hc tag hb)

theorem inflight_editReq (cs : List Call) (id m : Nat) : inflight (updCall cs id (editReq m)) = inflight cs := by
  unfold inflight updCall
  rw [List.countP_map]
  apply List.countP_congr
  intro x _
  by_cases h : x.id = id
  · simp [h, editReq]
  · simp [h]

/-- The caller edits the message it handed to `Do`: the clone, the phase and the channel are untouched; the ghost flag
    records an edit made while the call was queued. -/
theorem inv_editReq {P : Params} {s : State} (h : Inv P s) (id m : Nat) :
    Inv P { s with calls := updCall s.calls id (editReq m) } :=
  inv_updCall' h id (editReq m) (keeps0_editReq m)
    (fun _ _ _ _ hp => hp)
    (by rw [inflight_editReq]; exact h.ns)
    (fun c hc _ hp => h.wr c hc hp)
    (fun _ _ _ hp => hp)
    (fun _ _ _ hp => hp)
    (fun _ _ _ hp => hp)
    (fun _ _ _ _ hb => Or.inl hb)
    (fun c _ _ ht => by
      simp only [editReq, Bool.or_eq_false_iff, beq_eq_false_iff_ne] at ht
      exact ⟨ht.1, fun hp => (ht.2 hp).elim⟩)

/-- A pass that wrote a copy of a request leaves that request pending: the answer to this copy — also to the
    last one — can still complete the call. -/
theorem tick_copy_still_pending {P : Params} {s : State} (h : Inv P s) (ahead id : Nat)
    (hc : txCount s.log id < txCount (tick P s ahead).log id) : isPending (tick P s ahead).pend id = true := by
  unfold tick at hc ⊢
  simp only at hc ⊢
  rw [txCount_append, tick_count] at hc
  have hpos : 0 < s.pend.countP (fun e => e.id == id && bumped P (s.now + ahead) e) := by omega
  obtain ⟨e, he, hq⟩ := List.countP_pos_iff.mp hpos
  simp only [Bool.and_eq_true, beq_iff_eq] at hq
  have := tick_keeps_bumped P (s.now + ahead) s.pend e he hq.2
  exact isPending_iff.mpr ⟨_, this, hq.1⟩

theorem inv_step {P : Params} {s : State} (h : Inv P s) (e : Ev) : Inv P (step P s e) := by
  cases e with
  | send id msg dl => exact inv_send h id msg dl
  | advance d => exact inv_advance h d
  | tick ahead => exact inv_tick h ahead
  | recvMid id k => exact inv_recvMid h id k
  | resp id tag => exact inv_deliver h id tag
  | cancel id why => exact inv_cancel h id why
  | «mut» id msg => exact inv_editReq h id msg

theorem inv_runFrom {P : Params} (evs : List Ev) : ∀ s, Inv P s → Inv P (runFrom P s evs) := by
  induction evs with
  | nil => intro s h; exact h
  | cons e t ih => intro s h; exact ih _ (inv_step h e)

theorem inv_run (P : Params) (evs : List Ev) : Inv P (run P evs) := inv_runFrom evs init (inv_init P)


/-! ### what single events do (used by the success / silence theorems) -/

theorem log_admitNext {P : Params} {s : State} {x : Entry} (hx : x ∈ s.log) : x ∈ (admitNext P s).log := by
  unfold admitNext
  split
  · split
    · exact List.mem_cons_of_mem _ hx
    · exact hx
  · exact hx

theorem new_admitNext {P : Params} {s : State} {x : Entry} (hx : x ∈ (admitNext P s).log) :
    x ∈ s.log ∨ ∃ i t m, x = .tx i 0 t m := by
  unfold admitNext at hx
  split at hx
  · split at hx
    · cases hx with
      | head => exact Or.inr ⟨_, _, _, rfl⟩
      | tail _ hx => exact Or.inl hx
    · exact Or.inl hx
  · exact Or.inl hx

/-- A call that is not queued is left alone when the next queued call is admitted. -/
theorem admitNext_keeps {P : Params} {s : State} (h : Inv P s) {c : Call} (hc : c ∈ s.calls) (hph : c.phase ≠ .waitSem) :
    c ∈ (admitNext P s).calls := by
  unfold admitNext
  split
  · split
    · rename_i c2 hf
      have hc2 : c2 ∈ s.calls := List.mem_of_find?_eq_some hf
      have hp2 : c2.phase = .waitSem := by have := List.find?_some hf; simpa using this
      have hne : ¬ c.id = c2.id := by
        intro heq
        have := eq_of_id_eq h.ids hc hc2 heq
        rw [this] at hph; exact hph hp2
      have := mem_updCall_of_mem c2.id (setPhase .waitAck) hc
      simpa [hne] using this
    · exact hc
  · exact hc

theorem findCall_of_mem {cs : List Call} (hn : (cs.map (·.id)).Nodup) {c : Call} (hc : c ∈ cs) :
    findCall cs c.id = some c := by
  cases hf : findCall cs c.id with
  | none => exact (findCall_none hf c hc rfl).elim
  | some c' =>
    obtain ⟨hc', hid⟩ := findCall_some hf
    rw [eq_of_id_eq hn hc' hc hid]

/-- Effect of the writer being woken: the call now waits for its response (nothing buffered) or has returned the
    buffered response; a stop entry is logged. -/
theorem acked_effect {P : Params} {s : State} (h : Inv P s) (c : Call) (hc : c ∈ s.calls) (hph : c.phase = .waitAck) :
    (∃ t, Entry.stop c.id t ∈ (acked P s c).log) ∧
    (c.buf = none → ∃ c' ∈ (acked P s c).calls, c'.id = c.id ∧ c'.phase = .waitResp) ∧
    (∀ tag, c.buf = some tag → Entry.ret c.id (.ok tag) s.now ∈ (acked P s c).log) := by
  have hinv := inv_ackedPre h c hc hph
  unfold acked
  refine ⟨⟨s.now, log_admitNext ?_⟩, ?_, ?_⟩
  · unfold ackedPre
    cases c.buf <;> exact List.mem_cons_self
  · intro hb
    have hmem : setPhase .waitResp c ∈ (ackedPre s c).calls := by
      unfold ackedPre
      simp only [hb, addStop]
      have := mem_updCall_of_mem c.id (setPhase .waitResp) hc
      simpa using this
    exact ⟨_, admitNext_keeps hinv hmem (by simp [setPhase]), rfl, rfl⟩
  · intro tag hb
    apply log_admitNext
    unfold ackedPre
    simp only [hb, addStop, finish]
    exact List.mem_cons_of_mem _ List.mem_cons_self

/-- A response reaching a call that waits for one makes the call return it. -/
theorem deliver_waitResp {P : Params} {s : State} (h : Inv P s) {c : Call} (hc : c ∈ s.calls) (hph : c.phase = .waitResp)
    (tag : Nat) : Entry.ret c.id (.ok tag) s.now ∈ (deliver P s c.id tag).log := by
  unfold deliver
  rw [findCall_of_mem h.ids hc]
  simp only [hph, finish]
  exact List.mem_cons_self

theorem log_acked {P : Params} {s : State} {c : Call} {x : Entry} (hx : x ∈ s.log) : x ∈ (acked P s c).log := by
  unfold acked
  apply log_admitNext
  unfold ackedPre
  cases c.buf <;> simp [addStop, finish, hx]

theorem log_deliver {P : Params} {s : State} {id tag : Nat} {x : Entry} (hx : x ∈ s.log) : x ∈ (deliver P s id tag).log := by
  unfold deliver
  cases findCall s.calls id with
  | none => exact hx
  | some c =>
    simp only
    have hx' : x ∈ Entry.got id tag :: s.log := List.mem_cons_of_mem _ hx
    cases c.phase <;> simp only [finish]
    · cases c.buf <;> simp [hx]
    · cases c.buf
      · simp only
        split
        · exact log_acked hx'
        · exact hx'
      · exact hx'
    · exact List.mem_cons_of_mem _ hx'
    · exact hx'

/-- The response is put into the (empty) channel of a call that does not yet wait for it. -/
theorem inv_setBuf {P : Params} {s : State} (h : Inv P s) {c : Call} (hc : c ∈ s.calls) (hnw : c.phase ≠ .waitResp)
    (tag : Nat) : Inv P { s with log := .got c.id tag :: s.log, calls := updCall s.calls c.id (setBuf tag) } :=
  inv_updCall (inv_addGot h c.id tag) c.id (setBuf tag) (keeps_setBuf _)
    (fun _ _ _ c' hp => hp)
    (by rw [inflight_setBuf]; exact h.ns)
    (fun c' hc' hid' hp => by
      have := eq_of_id_eq h.ids hc' hc hid'
      rw [this] at hp; exact (hnw hp).elim)
    (fun c' _ _ hp => hp)
    (fun c' _ _ hp => hp)
    (fun c' _ _ hp => hp)
    (fun c' _ _ tag' hb' => by
      simp only [setBuf] at hb'; injection hb' with hb'; subst hb'
      exact Or.inr List.mem_cons_self)

/-- A response for a request that is still pending (and whose token handler has not fired yet) wakes the writer:
    the call returns that response at once and a stop entry is logged. -/
theorem deliver_pending {P : Params} {s : State} (h : Inv P s) {id tag : Nat} (hp : isPending s.pend id = true)
    {c : Call} (hf : findCall s.calls id = some c) (hb : c.buf = none) :
    Entry.ret id (.ok tag) s.now ∈ (deliver P s id tag).log ∧ ∃ t, Entry.stop id t ∈ (deliver P s id tag).log := by
  obtain ⟨c', hf', hc, hph⟩ := pending_call h hp
  rw [hf] at hf'; injection hf' with hf'; subst hf'
  have hid := (findCall_some hf).2
  have h1 := inv_setBuf h hc (by rw [hph]; decide) tag
  have hmem : setBuf tag c ∈ updCall s.calls c.id (setBuf tag) := by
    have := mem_updCall_of_mem c.id (setBuf tag) hc
    simpa using this
  obtain ⟨⟨t, ht⟩, _, hsome⟩ := acked_effect h1 (setBuf tag c) hmem (by simp [setBuf, hph])
  have hret := hsome tag rfl
  unfold deliver
  rw [hf]
  simp only [hph, hb, responseWakesWriter, hp, Bool.and_self, if_true]
  subst hid
  exact ⟨hret, t, ht⟩

theorem got_finish {s : State} {id i g : Nat} {r : Res} (hx : Entry.got i g ∈ (finish s id r).log) : Entry.got i g ∈ s.log := by
  simp only [finish] at hx
  cases hx with
  | tail _ hx => exact hx

theorem got_addStop {s : State} {id i g : Nat} (hx : Entry.got i g ∈ (addStop s id).log) : Entry.got i g ∈ s.log := by
  simp only [addStop] at hx
  cases hx with
  | tail _ hx => exact hx

theorem got_admitNext {P : Params} {s : State} {i g : Nat} (hx : Entry.got i g ∈ (admitNext P s).log) :
    Entry.got i g ∈ s.log := by
  rcases new_admitNext hx with h | ⟨_, _, _, h⟩
  · exact h
  · cases h

theorem got_acked {P : Params} {s : State} {c : Call} {i g : Nat} (hx : Entry.got i g ∈ (acked P s c).log) :
    Entry.got i g ∈ s.log := by
  unfold acked at hx
  have h1 := got_admitNext hx
  unfold ackedPre at h1
  have := got_addStop h1
  cases hb : c.buf with
  | none => rw [hb] at this; exact this
  | some tag => rw [hb] at this; exact got_finish this

/-- New `got` entries come from the delivered response only. -/
theorem got_deliver {P : Params} {s : State} {id tag i g : Nat} (hx : Entry.got i g ∈ (deliver P s id tag).log) :
    Entry.got i g ∈ s.log ∨ (i = id ∧ g = tag) := by
  unfold deliver at hx
  cases hf : findCall s.calls id with
  | none => rw [hf] at hx; exact Or.inl hx
  | some c =>
    rw [hf] at hx
    simp only at hx
    have key : Entry.got i g ∈ Entry.got id tag :: s.log → Entry.got i g ∈ s.log ∨ (i = id ∧ g = tag) := by
      intro hl
      cases hl with
      | head => exact Or.inr ⟨rfl, rfl⟩
      | tail _ h1 => exact Or.inl h1
    cases hph : c.phase <;> rw [hph] at hx <;> simp only at hx
    · cases hb : c.buf <;> rw [hb] at hx <;> simp only at hx
      · simp at hx; exact key (by simpa using hx)
      · exact key hx
    · cases hb : c.buf <;> rw [hb] at hx <;> simp only at hx
      · split at hx
        · exact key (got_acked hx)
        · exact key hx
      · exact key hx
    · exact key (got_finish hx)
    · exact key hx

theorem got_step {P : Params} {s : State} {e : Ev} {i g : Nat} (hx : Entry.got i g ∈ (step P s e).log) :
    Entry.got i g ∈ s.log ∨ e = .resp i g ∨ e = .recvMid i (.pig g) := by
  cases e with
  | send id msg dl =>
    simp only [step, send] at hx
    split at hx
    · exact Or.inl hx
    · split at hx
      · cases hx with
        | tail _ hx => exact Or.inl hx
      · have := got_admitNext hx
        exact Or.inl this
  | advance d => exact Or.inl hx
  | tick ahead =>
    simp only [step, tick] at hx
    rcases List.mem_append.mp hx with hx | hx
    · obtain ⟨_, _, _, h⟩ := tick_mem_log P _ s.pend _ hx
      cases h
    · exact Or.inl hx
  | recvMid id k =>
    simp only [step, recvMid] at hx
    have hs1 : ∀ {i g}, Entry.got i g ∈ (if isPending s.pend id then
        (match findCall s.calls id with | some c => acked P s c | none => s) else s).log → Entry.got i g ∈ s.log := by
      intro i g hx
      split at hx
      · cases hf : findCall s.calls id with
        | none => rw [hf] at hx; exact hx
        | some c => rw [hf] at hx; exact got_acked hx
      · exact hx
    cases k with
    | ack => exact Or.inl (hs1 hx)
    | rst => exact Or.inl (hs1 hx)
    | pig tag =>
      rcases got_deliver hx with h | ⟨h1, h2⟩
      · exact Or.inl (hs1 h)
      · subst h1 h2; exact Or.inr (Or.inr rfl)
  | resp id tag =>
    rcases got_deliver hx with h | ⟨h1, h2⟩
    · exact Or.inl h
    · subst h1 h2; exact Or.inr (Or.inl rfl)
  | cancel id why =>
    simp only [step, cancel] at hx
    cases hf : findCall s.calls id with
    | none => rw [hf] at hx; exact Or.inl hx
    | some c =>
      rw [hf] at hx
      simp only at hx
      cases hph : c.phase <;> rw [hph] at hx <;> simp only at hx
      · exact Or.inl (got_finish (got_addStop hx))
      · have := got_finish (got_addStop (got_admitNext hx))
        exact Or.inl this
      · exact Or.inl (got_finish (got_addStop hx))
      · exact Or.inl hx
  | «mut» id msg => exact Or.inl hx

theorem got_runFrom {P : Params} {i g : Nat} : ∀ (evs : List Ev) (s : State),
    Entry.got i g ∈ (runFrom P s evs).log → Entry.got i g ∈ s.log ∨ Ev.resp i g ∈ evs ∨ Ev.recvMid i (.pig g) ∈ evs
  | [], s, h => Or.inl h
  | e :: t, s, h => by
    rcases got_runFrom t (step P s e) h with h1 | h1 | h1
    · rcases got_step h1 with h2 | h2 | h2
      · exact Or.inl h2
      · exact Or.inr (Or.inl (by rw [h2]; exact List.mem_cons_self))
      · exact Or.inr (Or.inr (by rw [h2]; exact List.mem_cons_self))
    · exact Or.inr (Or.inl (List.mem_cons_of_mem _ h1))
    · exact Or.inr (Or.inr (List.mem_cons_of_mem _ h1))

theorem now_admitNext {P : Params} (s : State) : (admitNext P s).now = s.now := by
  unfold admitNext
  split
  · split <;> rfl
  · rfl

theorem now_ackedPre (s : State) (c : Call) : (ackedPre s c).now = s.now := by
  unfold ackedPre
  cases c.buf <;> rfl

theorem now_acked {P : Params} (s : State) (c : Call) : (acked P s c).now = s.now := by
  unfold acked
  rw [now_admitNext, now_ackedPre]

/-! ### the ghost flag `touched` is set by an edit of a queued request only -/

/-- Every call flagged in `cs'` was already flagged in `cs`. -/
def Stable (cs cs' : List Call) : Prop := ∀ c' ∈ cs', c'.touched = true → ∃ c ∈ cs, c.id = c'.id ∧ c.touched = true

theorem stable_refl (cs : List Call) : Stable cs cs := fun c hc ht => ⟨c, hc, rfl, ht⟩

theorem stable_trans {a b c : List Call} (h1 : Stable a b) (h2 : Stable b c) : Stable a c := by
  intro x hx ht
  obtain ⟨y, hy, hid, hyt⟩ := h2 x hx ht
  obtain ⟨z, hz, hid', hzt⟩ := h1 y hy hyt
  exact ⟨z, hz, by rw [hid', hid], hzt⟩

theorem stable_updCall (cs : List Call) (id : Nat) (f : Call → Call) (hf : Keeps f) : Stable cs (updCall cs id f) := by
  intro c' hc' ht
  obtain ⟨c, hc, rfl⟩ := mem_updCall hc'
  by_cases hid : c.id = id
  · simp only [hid, if_true] at ht ⊢
    exact ⟨c, hc, ((hf c).1).symm, by rw [← (hf c).2.2.2]; exact ht⟩
  · simp only [hid, if_false] at ht ⊢
    exact ⟨c, hc, rfl, ht⟩

theorem stable_admitNext (P : Params) (s : State) : Stable s.calls (admitNext P s).calls := by
  unfold admitNext
  split
  · split
    · exact stable_updCall _ _ _ (keeps_setPhase _)
    · exact stable_refl _
  · exact stable_refl _

theorem stable_finish (s : State) (id : Nat) (r : Res) : Stable s.calls (finish s id r).calls :=
  stable_updCall _ _ _ (keeps_setPhase _)

theorem stable_acked (P : Params) (s : State) (c : Call) : Stable s.calls (acked P s c).calls := by
  unfold acked
  refine stable_trans ?_ (stable_admitNext P _)
  unfold ackedPre
  cases c.buf with
  | none => exact stable_updCall _ _ _ (keeps_setPhase _)
  | some tag => exact stable_updCall _ _ _ (keeps_setPhase _)

theorem stable_deliver (P : Params) (s : State) (id tag : Nat) : Stable s.calls (deliver P s id tag).calls := by
  unfold deliver
  cases findCall s.calls id with
  | none => exact stable_refl _
  | some c =>
    simp only
    cases c.phase <;> simp only
    · cases c.buf <;> simp only
      · have h1 : Stable s.calls (updCall s.calls id (setBuf tag)) := stable_updCall _ _ _ (keeps_setBuf _)
        simpa using h1
      · exact stable_refl _
    · cases c.buf <;> simp only
      · have h1 : Stable s.calls (updCall s.calls id (setBuf tag)) := stable_updCall _ _ _ (keeps_setBuf _)
        split
        · exact stable_trans h1 (stable_acked P _ _)
        · exact h1
      · exact stable_refl _
    · exact stable_updCall _ _ _ (keeps_setPhase _)
    · exact stable_refl _

theorem stable_step (P : Params) (s : State) (e : Ev) :
    ∀ c' ∈ (step P s e).calls, c'.touched = true →
      (∃ c ∈ s.calls, c.id = c'.id ∧ c.touched = true) ∨ ∃ m, e = .mut c'.id m := by
  intro c' hc' ht
  cases e with
  | send id msg dl =>
    simp only [step, send] at hc'
    split at hc'
    · exact Or.inl ⟨c', hc', rfl, ht⟩
    · split at hc'
      · rcases List.mem_append.mp hc' with h | h
        · exact Or.inl ⟨c', h, rfl, ht⟩
        · simp at h; subst h; cases ht
      · obtain ⟨c, hc, hid, hct⟩ := stable_admitNext P _ c' hc' ht
        rcases List.mem_append.mp hc with h | h
        · exact Or.inl ⟨c, h, hid, hct⟩
        · simp at h; subst h; cases hct
  | advance d => exact Or.inl ⟨c', hc', rfl, ht⟩
  | tick ahead => exact Or.inl ⟨c', hc', rfl, ht⟩
  | recvMid id k =>
    simp only [step, recvMid] at hc'
    have h1 : Stable s.calls (if isPending s.pend id then
        (match findCall s.calls id with | some c => acked P s c | none => s) else s).calls := by
      split
      · cases findCall s.calls id with
        | none => exact stable_refl _
        | some c => exact stable_acked P s c
      · exact stable_refl _
    cases k with
    | ack => exact Or.inl (h1 c' hc' ht)
    | rst => exact Or.inl (h1 c' hc' ht)
    | pig tag => exact Or.inl (stable_trans h1 (stable_deliver P _ id tag) c' hc' ht)
  | resp id tag => exact Or.inl (stable_deliver P s id tag c' hc' ht)
  | cancel id why =>
    simp only [step, cancel] at hc'
    cases hf : findCall s.calls id with
    | none => rw [hf] at hc'; exact Or.inl ⟨c', hc', rfl, ht⟩
    | some c =>
      rw [hf] at hc'
      simp only at hc'
      cases hph : c.phase <;> rw [hph] at hc' <;> simp only at hc'
      · exact Or.inl (stable_finish s id why.res c' hc' ht)
      · have h1 : Stable s.calls (updCall s.calls id (setPhase .done)) := stable_updCall _ _ _ (keeps_setPhase _)
        exact Or.inl (stable_trans h1 (stable_admitNext P
          (addStop (finish { s with pend := dropPend s.pend id } id why.res) id)) c' hc' ht)
      · exact Or.inl (stable_finish s id why.res c' hc' ht)
      · exact Or.inl ⟨c', hc', rfl, ht⟩
  | «mut» id msg =>
    simp only [step] at hc'
    obtain ⟨c, hc, rfl⟩ := mem_updCall hc'
    by_cases hid : c.id = id
    · simp only [hid, if_true] at ht ⊢
      exact Or.inr ⟨msg, by simp [editReq, hid]⟩
    · simp only [hid, if_false] at ht ⊢
      exact Or.inl ⟨c, hc, rfl, ht⟩

theorem touched_runFrom {P : Params} : ∀ (evs : List Ev) (s : State) (c' : Call),
    c' ∈ (runFrom P s evs).calls → c'.touched = true →
      (∃ c ∈ s.calls, c.id = c'.id ∧ c.touched = true) ∨ ∃ m, Ev.mut c'.id m ∈ evs
  | [], s, c', hc, ht => Or.inl ⟨c', hc, rfl, ht⟩
  | e :: t, s, c', hc, ht => by
    rcases touched_runFrom t (step P s e) c' hc ht with ⟨c, hc1, hid, hct⟩ | ⟨m, hm⟩
    · rcases stable_step P s e c hc1 hct with ⟨c0, h0, hid0, ht0⟩ | ⟨m, hm⟩
      · exact Or.inl ⟨c0, h0, by rw [hid0, hid], ht0⟩
      · exact Or.inr ⟨m, by rw [← hid, hm]; exact List.mem_cons_self⟩
    · exact Or.inr ⟨m, List.mem_cons_of_mem _ hm⟩

/-! ### reading the log -/

theorem lab_split : ∀ (pre : List Entry) (id k t m : Nat) (post : List Entry),
    Lab (pre ++ .tx id k t m :: post) → k = txCount post id
  | [], _, _, _, _, _, h => h.1
  | x :: pre, id, k, t, m, post, h => by
    cases x with
    | tx _ _ _ _ => exact lab_split pre id k t m post h.2
    | ret _ _ _ => exact lab_split pre id k t m post h
    | stop _ _ => exact lab_split pre id k t m post h
    | got _ _ => exact lab_split pre id k t m post h

theorem quiet_split : ∀ (pre : List Entry) (x : Entry) (post : List Entry) (id : Nat),
    Quiet (pre ++ x :: post) → StopOf id x → txCount pre id = 0
  | [], _, _, _, _, _ => rfl
  | y :: pre, x, post, id, h, hs => by
    cases y with
    | tx i k t m =>
      have hne : ¬ i = id := by
        intro heq
        exact h.1 x (List.mem_append_right _ List.mem_cons_self) (heq ▸ hs)
      rw [List.cons_append] at h
      simp only [txCount_cons_tx, hne, if_false]
      exact quiet_split pre x post id h.2 hs
    | ret _ _ _ => rw [txCount_cons_ret]; exact quiet_split pre x post id h hs
    | stop _ _ => rw [txCount_cons_stop]; exact quiet_split pre x post id h hs
    | got _ _ => rw [txCount_cons_got]; exact quiet_split pre x post id h hs

end CoapVerif.Lemmas.Retransmit
