import CoapVerif.Model.RetransmitHistory
import CoapVerif.Lemmas.Retransmit
import CoapVerif.Lemmas.RetransmitWindow
/-!
C06: the specification's judge (`Spec.Retransmit.judge`) accepts every history the model emits
(`Model.RetransmitHistory.history`).  A simulation: the judge's records are tied, message ID by message ID, to the
model's call table, pending table and transmission log (`RelReq`, `RelX`, `R`); every model event keeps the tie and makes
the judge's step return `ok`.
-/
set_option linter.unusedSimpArgs false
set_option linter.unusedVariables false
namespace CoapVerif.Lemmas.RetransmitJudge
open CoapVerif CoapVerif.Model.Retransmit CoapVerif.Model.RetransmitKinds CoapVerif.Model.RetransmitHistory
open CoapVerif.Lemmas.Retransmit CoapVerif.Generated.Retransmit
open CoapVerif.Spec.Retransmit (Cfg Rec JState Tx Ret Step Verdict RKind getRec setRec addRec applyEv checkTx checkRet foldV stepJ
  judgeFrom judge outstanding notExhausted live acknowledges)

/-! ### the judge's table, looked up by ID -/

theorem find_map_set (l : List Rec) (r : Rec) (id : Nat) :
    (l.map (fun x => if x.id == r.id then r else x)).find? (fun x => x.id == id) =
      if id = r.id then (if (l.find? (fun x => x.id == id)).isSome then some r else none)
      else l.find? (fun x => x.id == id) := by
  induction l with
  | nil => simp
  | cons a t ih =>
    simp only [List.map_cons, List.find?_cons]
    by_cases h1 : a.id = r.id <;> by_cases h2 : id = r.id <;> by_cases h3 : a.id = id <;> grind

theorem getRec_setRec (s : JState) (r : Rec) (id : Nat) :
    getRec (setRec s r) id = if id = r.id then (if (getRec s id).isSome then some r else none) else getRec s id := by
  simp only [getRec, setRec]
  exact find_map_set s.recs r id

theorem getRec_id {s : JState} {id : Nat} {r : Rec} (h : getRec s id = some r) : r.id = id := by
  have := List.find?_some h
  simpa using this

theorem getRec_mem {s : JState} {id : Nat} {r : Rec} (h : getRec s id = some r) : r ∈ s.recs := List.mem_of_find?_eq_some h

theorem find_map_keep (l : List Rec) (f : Rec → Rec) (hf : ∀ r, (f r).id = r.id) (id : Nat) :
    (l.map f).find? (fun x => x.id == id) = (l.find? (fun x => x.id == id)).map f := by
  induction l with
  | nil => simp
  | cons a t ih =>
    simp only [List.map_cons, List.find?_cons, hf]
    by_cases h : (a.id == id) = true
    · simp [h]
    · have h' : (a.id == id) = false := by simpa using h
      simp [h', ih]

theorem getRec_map (s : JState) (f : Rec → Rec) (hf : ∀ r, (f r).id = r.id) (id : Nat) :
    getRec { s with recs := s.recs.map f } id = (getRec s id).map f := by
  simp only [getRec]
  exact find_map_keep s.recs f hf id

theorem getRec_append_new (s : JState) (r : Rec) (id : Nat) (hn : getRec s r.id = none) :
    getRec { s with recs := s.recs ++ [r] } id = if id = r.id then some r else getRec s id := by
  simp only [getRec] at *
  rw [List.find?_append]
  by_cases h : id = r.id
  · subst h; simp [hn]
  · have : r.id ≠ id := fun e => h e.symm
    simp [h, this]

theorem ids_setRec (s : JState) (r : Rec) : (setRec s r).recs.map (·.id) = s.recs.map (·.id) := by
  simp only [setRec, List.map_map]
  apply List.map_congr_left
  intro x hx
  by_cases h : x.id = r.id <;> simp [h]

theorem find_of_mem_nodup : ∀ (l : List Rec), (l.map (·.id)).Nodup → ∀ r ∈ l, l.find? (fun x => x.id == r.id) = some r
  | [], _, r, hr => by cases hr
  | a :: t, hn, r, hr => by
    simp only [List.map_cons, List.nodup_cons] at hn
    simp only [List.find?_cons]
    cases hr with
    | head => simp
    | tail _ hr =>
      have : a.id ≠ r.id := by
        intro e; apply hn.1; rw [e]; exact List.mem_map.mpr ⟨r, hr, rfl⟩
      have h' : (a.id == r.id) = false := by simpa using this
      simp [h', find_of_mem_nodup t hn.2 r hr]

theorem getRec_of_mem {s : JState} (hn : (s.recs.map (·.id)).Nodup) {r : Rec} (hr : r ∈ s.recs) : getRec s r.id = some r :=
  find_of_mem_nodup s.recs hn r hr


/-! ### the model's tables, looked up by ID -/

def findP (ps : List Pend) (id : Nat) : Option Pend := ps.find? (fun e => e.id == id)

theorem isPending_eq (ps : List Pend) (id : Nat) : isPending ps id = (findP ps id).isSome := by
  simp only [isPending, findP]
  induction ps with
  | nil => simp
  | cons a t ih =>
    simp only [List.any_cons, List.find?_cons]
    by_cases h : (a.id == id) = true
    · simp [h]
    · have h' : (a.id == id) = false := by simpa using h
      simp [h', ih]

theorem findP_some {ps : List Pend} {id : Nat} {e : Pend} (h : findP ps id = some e) : e ∈ ps ∧ e.id = id := by
  refine ⟨List.mem_of_find?_eq_some h, ?_⟩
  have := List.find?_some h
  simpa using this

theorem findP_none {ps : List Pend} {id : Nat} (h : findP ps id = none) : ∀ e ∈ ps, e.id ≠ id := by
  intro e he heq
  have := List.find?_eq_none.mp h e he
  simp [heq] at this

theorem findP_of_mem : ∀ (ps : List Pend), (ps.map (·.id)).Nodup → ∀ e ∈ ps, findP ps e.id = some e
  | [], _, e, he => by cases he
  | a :: t, hn, e, he => by
    simp only [List.map_cons, List.nodup_cons] at hn
    simp only [findP, List.find?_cons]
    cases he with
    | head => simp
    | tail _ he =>
      have : a.id ≠ e.id := by
        intro h; apply hn.1; rw [h]; exact List.mem_map.mpr ⟨e, he, rfl⟩
      have h' : (a.id == e.id) = false := by simpa using this
      simp only [h']
      exact findP_of_mem t hn.2 e he

theorem findP_dropPend (ps : List Pend) (id id' : Nat) :
    findP (dropPend ps id) id' = if id' = id then none else findP ps id' := by
  simp only [findP, dropPend]
  induction ps with
  | nil => simp
  | cons a t ih =>
    simp only [List.filter_cons]
    by_cases h1 : a.id = id <;> by_cases h2 : id' = id <;> by_cases h3 : a.id = id' <;>
      simp_all [List.find?_cons] <;> grind

theorem findP_append (ps : List Pend) (e : Pend) (id' : Nat) :
    findP (ps ++ [e]) id' = match findP ps id' with
      | some x => some x
      | none => if e.id = id' then some e else none := by
  simp only [findP, List.find?_append]
  cases h : List.find? (fun e => e.id == id') ps with
  | some x => simp
  | none => by_cases h2 : e.id = id' <;> simp [h2]

theorem findCall_updCall (cs : List Call) (id : Nat) (f : Call → Call) (hf : ∀ c, (f c).id = c.id) (id' : Nat) :
    findCall (updCall cs id f) id' = if id' = id then (findCall cs id').map f else findCall cs id' := by
  simp only [findCall, updCall]
  induction cs with
  | nil => simp
  | cons a t ih =>
    simp only [List.map_cons, List.find?_cons]
    by_cases h1 : a.id = id <;> by_cases h2 : id' = id <;> by_cases h3 : a.id = id' <;>
      simp_all [List.find?_cons] <;> grind

theorem findCall_append (cs : List Call) (c : Call) (id' : Nat) :
    findCall (cs ++ [c]) id' = match findCall cs id' with
      | some x => some x
      | none => if c.id = id' then some c else none := by
  simp only [findCall, List.find?_append]
  cases h : List.find? (fun c => c.id == id') cs with
  | some x => simp
  | none => by_cases h2 : c.id = id' <;> simp [h2]

theorem findX_setDone (xs : List XCall) (id id' : Nat) :
    findX (setDone xs id) id' = if id' = id then (findX xs id').map (fun x => { x with waiting := false }) else findX xs id' := by
  simp only [findX, setDone]
  induction xs with
  | nil => simp
  | cons a t ih =>
    simp only [List.map_cons, List.find?_cons]
    by_cases h1 : a.id = id <;> by_cases h2 : id' = id <;> by_cases h3 : a.id = id' <;>
      simp_all [List.find?_cons] <;> grind

theorem findX_append (xs : List XCall) (x : XCall) (id' : Nat) :
    findX (xs ++ [x]) id' = match findX xs id' with
      | some y => some y
      | none => if x.id = id' then some x else none := by
  simp only [findX, List.find?_append]
  cases h : List.find? (fun c => c.id == id') xs with
  | some y => simp
  | none => by_cases h2 : x.id = id' <;> simp [h2]

theorem isX_eq (s : XState) (id : Nat) : isX s id = (findX s.xcalls id).isSome := by
  simp only [isX, findX]
  induction s.xcalls with
  | nil => simp
  | cons a t ih =>
    simp only [List.any_cons, List.find?_cons]
    by_cases h : (a.id == id) = true
    · simp [h]
    · have h' : (a.id == id) = false := by simpa using h
      simp [h', ih]


/-! ### one transmission / one return, as the judge sees them -/

def TxOk (c : Cfg) (r : Rec) (x : Tx) : Prop :=
  r.stopped = false ∧ r.count < 1 + c.maxRetransmit ∧ (1 ≤ r.count → r.t0 + r.count * c.ackTimeout ≤ x.t) ∧
    (x.same = true ∨ r.misused = true)

def bump (x : Tx) (r : Rec) : Rec :=
  { r with count := r.count + 1, t0 := if r.count = 0 then x.t else r.t0, passSince := false }

def RetOk (r : Rec) (y : Ret) : Prop :=
  r.returned = false ∧ (∀ tag, y.res = .ok tag → r.kind = .req ∧ r.resps.contains tag = true) ∧
    (y.res = .acked → r.kind ≠ .req ∧ r.acked = true)

def retd (r : Rec) : Rec := { r with returned := true, stopped := true }

theorem checkTx_ok {c : Cfg} {s : JState} {x : Tx} {r : Rec} (hr : getRec s x.id = some r) (h : TxOk c r x) :
    checkTx c s x = (setRec s (bump x r), .ok) := by
  obtain ⟨h1, h2, h3, h4⟩ := h
  simp only [checkTx, hr]
  rw [if_neg (by simp [h1]), if_neg (by omega), if_neg, if_neg]
  · rfl
  · rcases h4 with h | h <;> simp [h]
  · simp only [Bool.and_eq_true, decide_eq_true_eq]
    intro ⟨a, b⟩
    have := h3 a
    omega

theorem checkRet_ok {s : JState} {y : Ret} {r : Rec} (hr : getRec s y.id = some r) (h : RetOk r y) :
    checkRet s y = (setRec s (retd r), .ok) := by
  obtain ⟨h1, h2, h3⟩ := h
  simp only [checkRet, hr]
  rw [if_neg (by simp [h1]), if_neg]
  · rfl
  · cases hres : y.res with
    | ok tag =>
      obtain ⟨a, b⟩ := h2 tag hres
      simp only [a, b, beq_self_eq_true, Bool.and_self, Bool.not_true, Bool.false_eq_true, not_false_eq_true]
    | acked =>
      obtain ⟨a, b⟩ := h3 hres
      simp [a, b]
    | ctx => simp
    | deadline => simp
    | nstart => simp
    | other => simp

theorem now_setRec (s : JState) (r : Rec) : (setRec s r).now = s.now := rfl

def updTx (ox : Option Tx) (id : Nat) (o : Option Rec) : Option Rec :=
  match ox with
  | some x => if x.id = id then o.map (bump x) else o
  | none => o

def updRet (oy : Option Ret) (id : Nat) (o : Option Rec) : Option Rec :=
  match oy with
  | some y => if y.id = id then o.map retd else o
  | none => o

/-- The judge's step when at most one transmission and at most one return are observed (every step but a
    housekeeping pass): the table afterwards, ID by ID. -/
theorem stepJ_opt (c : Cfg) (js : JState) (ev : Spec.Retransmit.Ev) (s1 : JState) (due : Option (Nat × Spec.Retransmit.Res × Bool))
    (happ : applyEv c js ev = (s1, due)) (ox : Option Tx) (oy : Option Ret)
    (hx : ∀ x, ox = some x → ∃ r, getRec s1 x.id = some r ∧ TxOk c r x)
    (hy : ∀ y, oy = some y → ∃ r, getRec s1 y.id = some r ∧ RetOk r y)
    (hne : ∀ x y, ox = some x → oy = some y → x.id ≠ y.id)
    (hdue : ∀ id res l, due = some (id, res, l) → ∃ y, oy = some y ∧ y.id = id ∧ y.res = res) :
    ∃ s3, s3.now = s1.now ∧ s3.recs.map (·.id) = s1.recs.map (·.id) ∧
      (∀ id, getRec s3 id = updRet oy id (updTx ox id (getRec s1 id))) ∧
      (outstanding s3 ≤ c.nstart → stepJ c js ⟨ev, ox.toList, oy.toList⟩ = (s3, .ok)) := by
  -- the transmission
  have step2 : ∃ s2, foldV (checkTx c) s1 ox.toList = (s2, .ok) ∧ s2.now = s1.now ∧
      s2.recs.map (·.id) = s1.recs.map (·.id) ∧ ∀ id, getRec s2 id = updTx ox id (getRec s1 id) := by
    cases ox with
    | none => exact ⟨s1, rfl, rfl, rfl, fun _ => rfl⟩
    | some x =>
      obtain ⟨r, hr, hok⟩ := hx x rfl
      refine ⟨setRec s1 (bump x r), ?_, rfl, ids_setRec _ _, ?_⟩
      · simp only [Option.toList, foldV, checkTx_ok hr hok]
      · intro id
        rw [getRec_setRec]
        have hid : (bump x r).id = x.id := by simp [bump, getRec_id hr]
        rw [hid]
        simp only [updTx]
        by_cases h : x.id = id
        · subst h; simp [hr]
        · have h' : id ≠ x.id := fun e => h e.symm
          simp [h, h']
  obtain ⟨s2, h2, hn2, hi2, hg2⟩ := step2
  -- the return
  have step3 : ∃ s3, foldV checkRet s2 oy.toList = (s3, .ok) ∧ s3.now = s2.now ∧
      s3.recs.map (·.id) = s2.recs.map (·.id) ∧ ∀ id, getRec s3 id = updRet oy id (getRec s2 id) := by
    cases oy with
    | none => exact ⟨s2, rfl, rfl, rfl, fun _ => rfl⟩
    | some y =>
      obtain ⟨r, hr, hok⟩ := hy y rfl
      have hr2 : getRec s2 y.id = some r := by
        rw [hg2]
        cases ox with
        | none => exact hr
        | some x =>
          have := hne x y rfl rfl
          simp [updTx, this, hr]
      refine ⟨setRec s2 (retd r), ?_, rfl, ids_setRec _ _, ?_⟩
      · simp only [Option.toList, foldV, checkRet_ok hr2 hok]
      · intro id
        rw [getRec_setRec]
        have hid : (retd r).id = y.id := by simp [retd, getRec_id hr2]
        rw [hid]
        simp only [updRet]
        by_cases h : y.id = id
        · subst h; simp [hr2]
        · have h' : id ≠ y.id := fun e => h e.symm
          simp [h, h']
  obtain ⟨s3, h3, hn3, hi3, hg3⟩ := step3
  refine ⟨s3, by rw [hn3, hn2], by rw [hi3, hi2], ?_, ?_⟩
  · intro id
    rw [hg3, hg2]
  · intro hout
    have : ¬ (outstanding s3 > c.nstart) := by omega
    simp only [stepJ, happ, h2, h3]
    cases due with
    | none => simp [this]
    | some d =>
      obtain ⟨id, res, l⟩ := d
      obtain ⟨y, hy1, hy2, hy3⟩ := hdue id res l rfl
      subst hy1
      simp [Option.toList, hy2, hy3, this]


/-! ### the tie between the judge's records and the model -/

def kindOf : XKind → RKind
  | .ping => .ping
  | .wcon => .wcon

/-- What the judge's record must say in each phase of the call it belongs to. -/
def PhRel (P : Params) (c : Call) (pe : Option Pend) (r : Rec) : Prop :=
  match c.phase with
  | .waitSem => r.stopped = false ∧ r.inTime = false ∧ r.resps = [] ∧ c.buf = none
  | .waitAck =>
    match pe with
    | some e => r.stopped = false ∧ r.inTime = false ∧ r.t0 = e.start ∧ r.resps = [] ∧ c.buf = none ∧ e.deadline = c.deadline
    | none => r.cancelled = true ∨ (r.windowClosed = true ∧ r.inTime = false)   -- a pass gave the request up
  | .waitResp => r.stopped = true ∧ r.acked = true ∧ r.resps = [] ∧ 1 ≤ r.count
  | .done => True

structure RelReq (P : Params) (c : Call) (pe : Option Pend) (cnt : Nat) (r : Rec) : Prop where
  kind : r.kind = .req
  count : r.count = cnt
  dl : r.deadline = c.deadline
  ret : r.returned = true ↔ c.phase = .done
  mis : c.touched = true → r.misused = true
  wc : r.windowClosed = true → r.count = P.maxRetransmit + 1
  ph : PhRel P c pe r

def XPhRel (P : Params) (x : XCall) (pe : Option Pend) (r : Rec) : Prop :=
  match pe with
  | some e => x.waiting = true ∧ r.stopped = false ∧ r.inTime = false ∧ r.t0 = e.start ∧ r.count = e.n + 1 ∧
      e.n ≤ P.maxRetransmit ∧ (e.deadline = none ∨ e.deadline = r.deadline)
  | none => x.waiting = false ∨ r.cancelled = true ∨ (r.windowClosed = true ∧ r.inTime = false)

structure RelX (P : Params) (x : XCall) (pe : Option Pend) (r : Rec) : Prop where
  kind : r.kind = kindOf x.kind
  ret : r.returned = true ↔ x.waiting = false
  wc : r.windowClosed = true → r.count = P.maxRetransmit + 1
  pos : 1 ≤ r.count
  ph : XPhRel P x pe r

/-- The tie for one message ID: what the judge's table holds for it (`o`) against the model's tables. -/
def RelO (P : Params) (s : XState) (o : Option Rec) (id : Nat) : Prop :=
  match o with
  | none => findCall s.base.calls id = none ∧ findX s.xcalls id = none
  | some r =>
    (∃ c, findCall s.base.calls id = some c ∧ findX s.xcalls id = none ∧
      RelReq P c (findP s.base.pend id) (txCount s.base.log id) r) ∨
    (∃ x, findX s.xcalls id = some x ∧ findCall s.base.calls id = none ∧ RelX P x (findP s.xpend id) r)

def RelId (P : Params) (s : XState) (js : JState) (id : Nat) : Prop := RelO P s (getRec js id) id

structure R (P : Params) (s : XState) (js : JState) : Prop where
  inv : Inv P s.base
  now : js.now = s.base.now
  nd : (js.recs.map (·.id)).Nodup
  xpid : (s.xpend.map (·.id)).Nodup
  xown : ∀ e ∈ s.xpend, (findX s.xcalls e.id).isSome = true
  rel : ∀ id, RelId P s js id

theorem kindOf_ne (k : XKind) : kindOf k ≠ .req := by cases k <;> simp [kindOf]

/-! ### NSTART: the judge's count of outstanding requests is bounded by the calls holding a slot -/

theorem length_le_of_nodup_subset : ∀ (l₁ l₂ : List Nat), l₁.Nodup → (∀ a ∈ l₁, a ∈ l₂) → l₁.length ≤ l₂.length
  | [], _, _, _ => by simp
  | a :: t, l₂, hn, hs => by
    simp only [List.nodup_cons] at hn
    have ha : a ∈ l₂ := hs a List.mem_cons_self
    have ht : ∀ b ∈ t, b ∈ l₂.erase a := by
      intro b hb
      have hne : b ≠ a := fun e => hn.1 (e ▸ hb)
      exact (List.mem_erase_of_ne hne).mpr (hs b (List.mem_cons_of_mem _ hb))
    have ih := length_le_of_nodup_subset t (l₂.erase a) hn.2 ht
    have hl := List.length_erase_of_mem ha
    have hpos : 0 < l₂.length := List.length_pos_of_mem ha
    simp only [List.length_cons]
    omega

theorem outstanding_le {P : Params} {s : XState} {js : JState} (h : R P s js) : outstanding js ≤ P.nstart := by
  have hns := h.inv.ns
  refine Nat.le_trans ?_ hns
  -- every counted record belongs to a call that holds a slot
  let cnt : Rec → Bool := fun r => r.kind == .req && decide (r.count ≥ 1) && !r.acked && !r.returned
  have hl : outstanding js = ((js.recs.filter cnt).map (·.id)).length := by simp [outstanding, cnt]
  have hr : inflight s.base.calls = ((s.base.calls.filter (fun c => c.phase == .waitAck)).map (·.id)).length := by
    simp [inflight, List.countP_eq_length_filter]
  rw [hl, hr]
  apply length_le_of_nodup_subset
  · exact (List.Sublist.map _ List.filter_sublist).nodup h.nd
  · intro a ha
    obtain ⟨r, hr1, hr2⟩ := List.mem_map.mp ha
    obtain ⟨hmem, hc⟩ := List.mem_filter.mp hr1
    have hg := getRec_of_mem h.nd hmem
    have hrel := h.rel r.id
    simp only [RelId, RelO, hg] at hrel
    simp only [cnt, Bool.and_eq_true, decide_eq_true_eq, Bool.not_eq_true', beq_iff_eq] at hc
    obtain ⟨⟨⟨hk, hcnt⟩, hack⟩, hret⟩ := hc
    rcases hrel with ⟨c, hfc, _, hq⟩ | ⟨x, _, _, hq⟩
    · obtain ⟨hcm, hcid⟩ := findCall_some hfc
      refine List.mem_map.mpr ⟨c, List.mem_filter.mpr ⟨hcm, ?_⟩, by rw [hcid, hr2]⟩
      have hph := hq.ph
      have hret' := hq.ret
      cases hp : c.phase with
      | waitAck => rfl
      | waitSem =>
        exfalso
        have := h.inv.ws c hcm hp
        rw [hcid] at this
        have := hq.count
        omega
      | waitResp =>
        exfalso
        simp only [PhRel, hp] at hph
        rw [hph.2.1] at hack
        cases hack
      | done =>
        exfalso
        rw [hret'.mpr hp] at hret
        cases hret
    · exfalso
      have := hq.kind
      rw [hk] at this
      exact kindOf_ne _ this.symm


/-! ### the effect of a stimulus on the judge's table, ID by ID -/

def mutRec (r : Rec) : Rec := if r.count = 0 && !r.returned then { r with misused := true } else r
def cancelRec (r : Rec) : Rec := { r with cancelled := true, stopped := true }

theorem applyEv_mut (c : Cfg) (js : JState) (id : Nat) :
    (applyEv c js (.mut id)).2 = none ∧ (applyEv c js (.mut id)).1.now = js.now ∧
    (applyEv c js (.mut id)).1.recs.map (·.id) = js.recs.map (·.id) ∧
    ∀ id', getRec (applyEv c js (.mut id)).1 id' = if id' = id then (getRec js id').map mutRec else getRec js id' := by
  simp only [applyEv]
  cases hr : getRec js id with
  | none =>
    refine ⟨rfl, rfl, rfl, fun id' => ?_⟩
    by_cases h : id' = id
    · subst h; simp [hr]
    · simp [h]
  | some r =>
    have hid := getRec_id hr
    by_cases hc : (r.count = 0 && !r.returned) = true
    · simp only [hc, if_true]
      refine ⟨by first | rfl | trivial, by first | rfl | trivial, ids_setRec _ _, fun id' => ?_⟩
      rw [getRec_setRec]
      by_cases h : id' = id
      · subst h; simp [hr, hid, mutRec, hc]
      · simp [h, hid]
    · simp only [hc, if_false]
      refine ⟨rfl, rfl, rfl, fun id' => ?_⟩
      by_cases h : id' = id
      · subst h; simp [hr, mutRec, hc]
      · simp [h]

theorem applyEv_cancel (c : Cfg) (js : JState) (id : Nat) :
    (applyEv c js (.cancel id)).2 = none ∧ (applyEv c js (.cancel id)).1.now = js.now ∧
    (applyEv c js (.cancel id)).1.recs.map (·.id) = js.recs.map (·.id) ∧
    ∀ id', getRec (applyEv c js (.cancel id)).1 id' = if id' = id then (getRec js id').map cancelRec else getRec js id' := by
  simp only [applyEv]
  cases hr : getRec js id with
  | none =>
    refine ⟨rfl, rfl, rfl, fun id' => ?_⟩
    by_cases h : id' = id
    · subst h; simp [hr]
    · simp [h]
  | some r =>
    have hid := getRec_id hr
    refine ⟨rfl, rfl, ids_setRec _ _, fun id' => ?_⟩
    rw [getRec_setRec]
    by_cases h : id' = id
    · subst h; simp [hr, hid, cancelRec]
    · simp [h, hid]

/-- The record after a housekeeping pass whose clock is `t`. -/
def tickRec (c : Cfg) (t : Nat) (r : Rec) : Rec :=
  let r := { r with passSince := true,
                    windowClosed := r.windowClosed || (r.count == c.maxRetransmit + 1 &&
                      decide (t > r.t0 + (c.maxRetransmit + 1) * c.ackTimeout)) }
  match r.deadline with
  | some d => if t > d then { r with cancelled := true } else r
  | none => r

theorem tickRec_id (c : Cfg) (t : Nat) (r : Rec) : (tickRec c t r).id = r.id := by
  simp only [tickRec]
  cases r.deadline with
  | none => rfl
  | some d => by_cases h : t > d <;> simp [h]

theorem applyEv_tick (c : Cfg) (js : JState) (a : Nat) :
    applyEv c js (.tick a) = ({ js with recs := js.recs.map (tickRec c (js.now + a)) }, none) := rfl

def addedRec (js : JState) (id : Nat) (dl : Option Nat) (k : RKind) : Rec :=
  { id := id, deadline := dl.map (· + js.now), kind := k }

theorem addRec_get (js : JState) (id : Nat) (dl : Option Nat) (k : RKind) :
    (addRec js id dl k).now = js.now ∧
    (∀ id', getRec (addRec js id dl k) id' =
      if id' = id then (match getRec js id with | some r => some r | none => some (addedRec js id dl k)) else getRec js id') ∧
    ((getRec js id).isSome = true → addRec js id dl k = js) ∧
    (getRec js id = none → (addRec js id dl k).recs = js.recs ++ [addedRec js id dl k]) := by
  simp only [addRec]
  cases hr : getRec js id with
  | some r =>
    refine ⟨by simp, fun id' => ?_, by simp, by simp⟩
    by_cases h : id' = id
    · subst h; simp [hr]
    · simp [h]
  | none =>
    refine ⟨by simp, fun id' => ?_, by simp, by simp [addedRec]⟩
    have := getRec_append_new js (addedRec js id dl k) id' (by simpa [addedRec] using hr)
    simp only [addedRec] at this
    simp only [Option.isSome_none, Bool.false_eq_true, if_false, addedRec]
    rw [this]
    try rfl

/-- "Got back in time": the first thing to come back, acknowledging, before the attempts are exhausted. -/
def freshAck (c : Cfg) (now : Nat) (k : Spec.Retransmit.Kind) (r : Rec) : Bool :=
  !r.inTime && !r.stopped && acknowledges r.kind k && notExhausted c now r

def recvResps (k : Spec.Retransmit.Kind) (r : Rec) : List Nat :=
  match k with | .pig tag => if r.kind == .req then r.resps ++ [tag] else r.resps | _ => r.resps

def recvRec (c : Cfg) (now : Nat) (k : Spec.Retransmit.Kind) (r : Rec) : Rec :=
  { r with stopped := true, acked := true, inTime := r.inTime || freshAck c now k r,
           lateWindow := r.lateWindow || (freshAck c now k r && r.count == c.maxRetransmit + 1 && r.passSince),
           resps := recvResps k r }

def recvDue (c : Cfg) (now : Nat) (id : Nat) (k : Spec.Retransmit.Kind) (r : Rec) : Option (Nat × Spec.Retransmit.Res × Bool) :=
  let late := r.lateWindow || (freshAck c now k r && r.count == c.maxRetransmit + 1 && r.passSince)
  if (r.inTime || freshAck c now k r) && live now r then
    (if r.kind == .req then (recvResps k r).head?.map (fun tag => (id, Spec.Retransmit.Res.ok tag, late))
     else some (id, Spec.Retransmit.Res.acked, late))
  else none

theorem applyEv_recv_some {c : Cfg} {js : JState} {id : Nat} {k : Spec.Retransmit.Kind} {r : Rec}
    (hr : getRec js id = some r) (hc : r.count ≠ 0) :
    applyEv c js (.recvMid id k) = (setRec js (recvRec c js.now k r), recvDue c js.now id k r) := by
  simp only [applyEv, hr, hc, if_false, recvRec, recvDue, freshAck, recvResps]
  cases k <;> simp [Bool.and_assoc]

theorem applyEv_recv_zero {c : Cfg} {js : JState} {id : Nat} {k : Spec.Retransmit.Kind} {r : Rec}
    (hr : getRec js id = some r) (hc : r.count = 0) : applyEv c js (.recvMid id k) = (js, none) := by
  simp only [applyEv, hr, hc, if_true]

theorem applyEv_recv_none {c : Cfg} {js : JState} {id : Nat} {k : Spec.Retransmit.Kind}
    (hr : getRec js id = none) : applyEv c js (.recvMid id k) = (js, none) := by
  simp only [applyEv, hr]

def freshResp (c : Cfg) (now : Nat) (r : Rec) : Bool := !r.inTime && !r.stopped && notExhausted c now r

def respRec (c : Cfg) (now : Nat) (tag : Nat) (r : Rec) : Rec :=
  { r with stopped := true, inTime := r.inTime || freshResp c now r,
           lateWindow := r.lateWindow || (freshResp c now r && r.count == c.maxRetransmit + 1 && r.passSince),
           resps := r.resps ++ [tag] }

def respDue (c : Cfg) (now : Nat) (id tag : Nat) (r : Rec) : Option (Nat × Spec.Retransmit.Res × Bool) :=
  let late := r.lateWindow || (freshResp c now r && r.count == c.maxRetransmit + 1 && r.passSince)
  if (r.inTime || freshResp c now r) && live now r then
    (r.resps ++ [tag]).head?.map (fun tag => (id, Spec.Retransmit.Res.ok tag, late))
  else none

theorem applyEv_resp_some {c : Cfg} {js : JState} {id tag : Nat} {con : Bool} {r : Rec}
    (hr : getRec js id = some r) (hc : r.count ≠ 0) (hk : r.kind = .req) :
    applyEv c js (.resp id con tag) = (setRec js (respRec c js.now tag r), respDue c js.now id tag r) := by
  simp only [applyEv, hr, hc, if_false, hk, respRec, respDue, freshResp]
  simp [Bool.and_assoc]

theorem applyEv_resp_zero {c : Cfg} {js : JState} {id tag : Nat} {con : Bool} {r : Rec}
    (hr : getRec js id = some r) (hc : r.count = 0) : applyEv c js (.resp id con tag) = (js, none) := by
  simp only [applyEv, hr, hc, if_true]

theorem applyEv_resp_kind {c : Cfg} {js : JState} {id tag : Nat} {con : Bool} {r : Rec}
    (hr : getRec js id = some r) (hk : r.kind ≠ .req) : applyEv c js (.resp id con tag) = (js, none) := by
  simp only [applyEv, hr]
  by_cases hc : r.count = 0
  · simp [hc]
  · simp [hc, hk]

theorem applyEv_resp_none {c : Cfg} {js : JState} {id tag : Nat} {con : Bool}
    (hr : getRec js id = none) : applyEv c js (.resp id con tag) = (js, none) := by
  simp only [applyEv, hr]

theorem getRec_setRec_self {js : JState} {id : Nat} {r r' : Rec} (hr : getRec js id = some r) (hid : r'.id = r.id) (id' : Nat) :
    getRec (setRec js r') id' = if id' = id then some r' else getRec js id' := by
  rw [getRec_setRec, hid, getRec_id hr]
  by_cases h : id' = id
  · subst h; simp [hr]
  · simp [h]

@[simp] theorem mutRec_id (r : Rec) : (mutRec r).id = r.id := by unfold mutRec; split <;> rfl
@[simp] theorem mutRec_deadline (r : Rec) : (mutRec r).deadline = r.deadline := by unfold mutRec; split <;> rfl
@[simp] theorem mutRec_count (r : Rec) : (mutRec r).count = r.count := by unfold mutRec; split <;> rfl
@[simp] theorem mutRec_t0 (r : Rec) : (mutRec r).t0 = r.t0 := by unfold mutRec; split <;> rfl
@[simp] theorem mutRec_stopped (r : Rec) : (mutRec r).stopped = r.stopped := by unfold mutRec; split <;> rfl
@[simp] theorem mutRec_acked (r : Rec) : (mutRec r).acked = r.acked := by unfold mutRec; split <;> rfl
@[simp] theorem mutRec_inTime (r : Rec) : (mutRec r).inTime = r.inTime := by unfold mutRec; split <;> rfl
@[simp] theorem mutRec_passSince (r : Rec) : (mutRec r).passSince = r.passSince := by unfold mutRec; split <;> rfl
@[simp] theorem mutRec_windowClosed (r : Rec) : (mutRec r).windowClosed = r.windowClosed := by unfold mutRec; split <;> rfl
@[simp] theorem mutRec_lateWindow (r : Rec) : (mutRec r).lateWindow = r.lateWindow := by unfold mutRec; split <;> rfl
@[simp] theorem mutRec_cancelled (r : Rec) : (mutRec r).cancelled = r.cancelled := by unfold mutRec; split <;> rfl
@[simp] theorem mutRec_returned (r : Rec) : (mutRec r).returned = r.returned := by unfold mutRec; split <;> rfl
@[simp] theorem mutRec_resps (r : Rec) : (mutRec r).resps = r.resps := by unfold mutRec; split <;> rfl
@[simp] theorem mutRec_kind (r : Rec) : (mutRec r).kind = r.kind := by unfold mutRec; split <;> rfl
@[simp] theorem tickRec_id' (c : Cfg) (t : Nat) (r : Rec) : (tickRec c t r).id = r.id := by
  unfold tickRec; cases r.deadline with
  | none => rfl
  | some d => simp only []; split <;> rfl
@[simp] theorem tickRec_deadline' (c : Cfg) (t : Nat) (r : Rec) : (tickRec c t r).deadline = r.deadline := by
  unfold tickRec; cases r.deadline with
  | none => rfl
  | some d => simp only []; split <;> rfl
@[simp] theorem tickRec_count' (c : Cfg) (t : Nat) (r : Rec) : (tickRec c t r).count = r.count := by
  unfold tickRec; cases r.deadline with
  | none => rfl
  | some d => simp only []; split <;> rfl
@[simp] theorem tickRec_t0' (c : Cfg) (t : Nat) (r : Rec) : (tickRec c t r).t0 = r.t0 := by
  unfold tickRec; cases r.deadline with
  | none => rfl
  | some d => simp only []; split <;> rfl
@[simp] theorem tickRec_stopped' (c : Cfg) (t : Nat) (r : Rec) : (tickRec c t r).stopped = r.stopped := by
  unfold tickRec; cases r.deadline with
  | none => rfl
  | some d => simp only []; split <;> rfl
@[simp] theorem tickRec_acked' (c : Cfg) (t : Nat) (r : Rec) : (tickRec c t r).acked = r.acked := by
  unfold tickRec; cases r.deadline with
  | none => rfl
  | some d => simp only []; split <;> rfl
@[simp] theorem tickRec_inTime' (c : Cfg) (t : Nat) (r : Rec) : (tickRec c t r).inTime = r.inTime := by
  unfold tickRec; cases r.deadline with
  | none => rfl
  | some d => simp only []; split <;> rfl
@[simp] theorem tickRec_lateWindow' (c : Cfg) (t : Nat) (r : Rec) : (tickRec c t r).lateWindow = r.lateWindow := by
  unfold tickRec; cases r.deadline with
  | none => rfl
  | some d => simp only []; split <;> rfl
@[simp] theorem tickRec_returned' (c : Cfg) (t : Nat) (r : Rec) : (tickRec c t r).returned = r.returned := by
  unfold tickRec; cases r.deadline with
  | none => rfl
  | some d => simp only []; split <;> rfl
@[simp] theorem tickRec_resps' (c : Cfg) (t : Nat) (r : Rec) : (tickRec c t r).resps = r.resps := by
  unfold tickRec; cases r.deadline with
  | none => rfl
  | some d => simp only []; split <;> rfl
@[simp] theorem tickRec_kind' (c : Cfg) (t : Nat) (r : Rec) : (tickRec c t r).kind = r.kind := by
  unfold tickRec; cases r.deadline with
  | none => rfl
  | some d => simp only []; split <;> rfl
@[simp] theorem tickRec_misused' (c : Cfg) (t : Nat) (r : Rec) : (tickRec c t r).misused = r.misused := by
  unfold tickRec; cases r.deadline with
  | none => rfl
  | some d => simp only []; split <;> rfl

theorem PhRel_congr {P : Params} {c : Call} {pe : Option Pend} {r r' : Rec} (h1 : r'.stopped = r.stopped)
    (h2 : r'.inTime = r.inTime) (h3 : r'.resps = r.resps) (h4 : r'.t0 = r.t0) (h5 : r'.cancelled = r.cancelled)
    (h6 : r'.windowClosed = r.windowClosed) (h7 : r'.acked = r.acked) (h8 : r'.count = r.count)
    (h : PhRel P c pe r) : PhRel P c pe r' := by
  simp only [PhRel, h1, h2, h3, h4, h5, h6, h7, h8] at *
  exact h

theorem PhRel_call {P : Params} {c c' : Call} {pe : Option Pend} {r : Rec} (h1 : c'.phase = c.phase) (h2 : c'.buf = c.buf)
    (h3 : c'.deadline = c.deadline) (h : PhRel P c pe r) : PhRel P c' pe r := by
  simp only [PhRel, h1, h2, h3] at *
  exact h

/-! ### every model event keeps the tie and is accepted by the judge -/

local notation "xstep" => Model.RetransmitKinds.step

/-- What has to be shown for one event. -/
def StepOk (P : Params) (s : XState) (js : JState) (e : XEv) : Prop :=
  ∃ js', stepJ (cfgOf P) js (stepOf e (xstep P s e).2) = (js', .ok) ∧ R P (xstep P s e).1 js'

theorem RelO_congr {P : Params} {s s' : XState} {o : Option Rec} {id : Nat}
    (h2 : findCall s'.base.calls id = findCall s.base.calls id)
    (h3 : findX s'.xcalls id = findX s.xcalls id) (h4 : findP s'.base.pend id = findP s.base.pend id)
    (h5 : txCount s'.base.log id = txCount s.base.log id) (h6 : findP s'.xpend id = findP s.xpend id)
    (h : RelO P s o id) : RelO P s' o id := by
  simp only [RelO, h2, h3, h4, h5, h6] at *
  exact h

/-- The common part of every step that is not a housekeeping pass: the judge accepts the step, and the tie holds afterwards
    if it holds ID by ID for the table the judge is left with. -/
theorem finish_step {P : Params} {s : XState} {js : JState} (h : R P s js) (e : XEv) (s' : XState) (outs : List Out)
    (hstep : xstep P s e = (s', outs))
    (hinv : Inv P s'.base) (hxpid : (s'.xpend.map (·.id)).Nodup)
    (hxown : ∀ e ∈ s'.xpend, (findX s'.xcalls e.id).isSome = true)
    (ox : Option Tx) (oy : Option Ret) (htx : outs.filterMap txOf = ox.toList) (hret : outs.filterMap retOf = oy.toList)
    (s1 : JState) (due : Option (Nat × Spec.Retransmit.Res × Bool))
    (happ : applyEv (cfgOf P) js (specEv e) = (s1, due)) (hn1 : s1.now = s'.base.now) (hi1 : (s1.recs.map (·.id)).Nodup)
    (hx : ∀ x, ox = some x → ∃ r, getRec s1 x.id = some r ∧ TxOk (cfgOf P) r x)
    (hy : ∀ y, oy = some y → ∃ r, getRec s1 y.id = some r ∧ RetOk r y)
    (hne : ∀ x y, ox = some x → oy = some y → x.id ≠ y.id)
    (hdue : ∀ id res l, due = some (id, res, l) → ∃ y, oy = some y ∧ y.id = id ∧ y.res = res)
    (hrel : ∀ id, RelO P s' (updRet oy id (updTx ox id (getRec s1 id))) id) : StepOk P s js e := by
  obtain ⟨s3, hn, hi, hg, hfin⟩ := stepJ_opt (cfgOf P) js (specEv e) s1 due happ ox oy hx hy hne hdue
  have hR : R P s' s3 := by
    refine ⟨hinv, by rw [hn, hn1], by rw [hi]; exact hi1, hxpid, hxown, fun id => ?_⟩
    simp only [RelId, hg]
    exact hrel id
  refine ⟨s3, ?_, ?_⟩
  · rw [hstep]
    simp only [stepOf, htx, hret]
    exact hfin (outstanding_le hR)
  · rw [hstep]; exact hR

theorem step_advance {P : Params} {s : XState} {js : JState} (h : R P s js) (d : Nat) : StepOk P s js (.advance d) := by
  refine finish_step h (.advance d) _ [] rfl (inv_advance h.inv d) h.xpid h.xown none none rfl rfl
    { js with now := js.now + d } none rfl (by simp [h.now]) h.nd
    (by intro x hx; cases hx) (by intro y hy; cases hy) (by intro x y hx; cases hx) (by intro id res l hd; cases hd) ?_
  intro id
  exact RelO_congr (s := s) rfl rfl rfl rfl rfl (h.rel id)

theorem liftBase_added (s : XState) (b : State) (added : List Entry) (h : b.log = added ++ s.base.log) :
    liftBase s b = ({ s with base := b }, added.filterMap (outOf b.log)) := by
  simp [liftBase, h]

@[simp] theorem setPhase_id (p : Phase) (c : Call) : (setPhase p c).id = c.id := rfl
@[simp] theorem setBuf_id (t : Nat) (c : Call) : (setBuf t c).id = c.id := rfl
@[simp] theorem editReq_id (m : Nat) (c : Call) : (editReq m c).id = c.id := rfl

theorem step_mut {P : Params} {s : XState} {js : JState} (h : R P s js) (id msg : Nat) : StepOk P s js (.mut id msg) := by
  obtain ⟨hd, hn, hi, hg⟩ := applyEv_mut (cfgOf P) js id
  refine finish_step h (.mut id msg) { s with base := { s.base with calls := updCall s.base.calls id (editReq msg) } } []
    (liftBase_added s _ [] rfl) (inv_step h.inv (.mut id msg)) h.xpid h.xown none none rfl rfl
    (applyEv (cfgOf P) js (.mut id)).1 (applyEv (cfgOf P) js (.mut id)).2 rfl (by rw [hn, h.now]) (by rw [hi]; exact h.nd)
    (by intro x hx; cases hx) (by intro y hy; cases hy) (by intro x y hx; cases hx)
    (by intro id res l hd'; rw [hd] at hd'; cases hd') ?_
  intro id'
  simp only [updRet, updTx, hg]
  by_cases hid : id' = id
  · subst hid
    simp only [if_true]
    have hrel := h.rel id'
    simp only [RelId] at hrel
    cases hr : getRec js id' with
    | none =>
      rw [hr] at hrel
      simp only [RelO, Option.map_none] at hrel ⊢
      simp only [findCall_updCall _ _ _ (editReq_id msg), if_true, hrel.1, Option.map_none, hrel.2, and_self]
    | some r =>
      rw [hr] at hrel
      simp only [RelO, Option.map_some] at hrel ⊢
      simp only [findCall_updCall _ _ _ (editReq_id msg), if_true]
      rcases hrel with ⟨c, hfc, hfx, hq⟩ | ⟨x, hfx, hfc, hq⟩
      · left
        refine ⟨editReq msg c, by simp [hfc], hfx, ?_⟩
        obtain ⟨hcm, hcid⟩ := findCall_some hfc
        have hph : (editReq msg c).phase = c.phase := rfl
        have hret : (mutRec r).returned = r.returned := by simp only [mutRec]; split <;> rfl
        refine ⟨?_, ?_, ?_, ?_, ?_, ?_, ?_⟩
        · simp only [mutRec_kind]; exact hq.kind
        · simp only [mutRec_count]; exact hq.count
        · simp only [mutRec_deadline]; exact hq.dl
        · rw [hret, hph]; exact hq.ret
        · intro ht
          simp only [editReq, Bool.or_eq_true, beq_iff_eq] at ht
          rcases ht with ht | ht
          · have := hq.mis ht
            simp only [mutRec]; split <;> simp [this]
          · have hc0 : r.count = 0 := by
              rw [hq.count]
              have := h.inv.ws c hcm ht
              rw [hcid] at this; exact this
            have hr0 : r.returned = false := by
              cases hrr : r.returned with
              | false => rfl
              | true => have := hq.ret.mp hrr; rw [ht] at this; cases this
            simp [mutRec, hc0, hr0]
        · simp only [mutRec_windowClosed, mutRec_count]; exact hq.wc
        · exact PhRel_call rfl rfl rfl (PhRel_congr (by simp) (by simp) (by simp) (by simp) (by simp) (by simp) (by simp) (by simp) hq.ph)
      · right
        refine ⟨x, hfx, by simp [hfc], ?_⟩
        have hne : ¬ ((r.count = 0 && !r.returned) = true) := by
          have := hq.pos
          simp only [Bool.and_eq_true, decide_eq_true_eq, not_and]
          intro h0; omega
        have : mutRec r = r := by unfold mutRec; rw [if_neg hne]
        rw [this]; exact hq
  · simp only [hid, if_false]
    refine RelO_congr (s := s) ?_ rfl rfl rfl rfl (h.rel id')
    simp only [findCall_updCall _ _ _ (editReq_id msg), hid, if_false]

theorem known_iff {P : Params} {s : XState} {js : JState} (h : R P s js) (id : Nat) :
    known s id = (getRec js id).isSome := by
  have hrel := h.rel id
  simp only [RelId, RelO] at hrel
  simp only [known, isX_eq]
  cases hr : getRec js id with
  | none => rw [hr] at hrel; simp [hrel.1, hrel.2]
  | some r =>
    rw [hr] at hrel
    rcases hrel with ⟨c, hfc, _, _⟩ | ⟨x, hfx, _, _⟩
    · simp [hfc]
    · simp [hfx]

theorem xpend_none_of_findX_none {P : Params} {s : XState} {js : JState} (h : R P s js) {id : Nat}
    (hx : findX s.xcalls id = none) : findP s.xpend id = none := by
  cases hp : findP s.xpend id with
  | none => rfl
  | some e =>
    obtain ⟨hm, hid⟩ := findP_some hp
    have := h.xown e hm
    rw [hid, hx] at this
    cases this

theorem step_xsend {P : Params} {s : XState} {js : JState} (h : R P s js) (kind : XKind) (id : Nat) (dl : Option Nat)
    (e : XEv) (he : xstep P s e = xsend s kind id dl)
    (happ : applyEv (cfgOf P) js (specEv e) = (addRec js id dl (kindOf kind), none)) :
    StepOk P s js e := by
  obtain ⟨hn, hg, hsame, hnew⟩ := addRec_get js id dl (kindOf kind)
  have hk := known_iff h id
  by_cases hkn : known s id = true
  · -- the ID is in use: nothing happens on either side
    have hsome : (getRec js id).isSome = true := by rw [← hk]; exact hkn
    have hjs := hsame hsome
    refine finish_step h e s [] (by rw [he]; simp [xsend, hkn]) h.inv h.xpid h.xown none none rfl rfl
      _ _ happ (by rw [hn, h.now]) (by rw [hjs]; exact h.nd)
      (by intro x hx; cases hx) (by intro y hy; cases hy) (by intro x y hx; cases hx) (by intro id res l hd; cases hd) ?_
    intro id'
    rw [hjs]
    exact h.rel id'
  · have hkn' : known s id = false := by simpa using hkn
    have hnone : getRec js id = none := by
      rw [hkn'] at hk
      cases hr : getRec js id with
      | none => rfl
      | some r => rw [hr] at hk; cases hk
    have hrel := h.rel id
    simp only [RelId, RelO, hnone] at hrel
    obtain ⟨hfc, hfx⟩ := hrel
    have hxp := xpend_none_of_findX_none h hfx
    let dlAbs := dl.map (· + s.base.now)
    let x : XCall := ⟨id, kind, dlAbs, true⟩
    let en : Pend := ⟨id, s.base.now, entryDeadline kind dlAbs, 0, 0⟩
    let tx : Tx := ⟨id, s.base.now, true⟩
    have hrecs := hnew hnone
    have hgid : getRec (addRec js id dl (kindOf kind)) id = some (addedRec js id dl (kindOf kind)) := by
      rw [hg]; simp [hnone]
    refine finish_step h e { s with xcalls := s.xcalls ++ [x], xpend := s.xpend ++ [en] } [.tx id s.base.now true]
      (by rw [he]; simp [xsend, hkn', x, en, dlAbs]) h.inv ?_ ?_ (some tx) none rfl rfl
      _ _ happ (by rw [hn, h.now]) ?_ ?_ (by intro y hy; cases hy) (by intro x y _ hy; cases hy)
      (by intro id res l hd; cases hd) ?_
    · -- IDs of the pending table stay distinct
      simp only [List.map_append, List.map_cons, List.map_nil]
      refine List.nodup_append.mpr ⟨h.xpid, by simp, ?_⟩
      intro a ha b hb
      simp only [List.mem_singleton] at hb
      subst hb
      obtain ⟨e', he', hid'⟩ := List.mem_map.mp ha
      intro heq
      exact findP_none hxp e' he' (by rw [hid', heq])
    · intro e' he'
      rcases List.mem_append.mp he' with he' | he'
      · have := h.xown e' he'
        rw [findX_append]
        cases hf : findX s.xcalls e'.id with
        | none => rw [hf] at this; cases this
        | some y => rfl
      · simp only [List.mem_singleton] at he'
        subst he'
        rw [findX_append]
        simp [hfx, en, x]
    · rw [hrecs]
      simp only [List.map_append, List.map_cons, List.map_nil]
      refine List.nodup_append.mpr ⟨h.nd, by simp, ?_⟩
      intro a ha b hb heq
      simp only [List.mem_singleton] at hb
      obtain ⟨r', hr', hid'⟩ := List.mem_map.mp ha
      have := getRec_of_mem h.nd hr'
      have hb' : r'.id = id := by rw [hid', heq, hb]; rfl
      rw [hb', hnone] at this
      cases this
    · intro x' hx'
      cases hx'
      refine ⟨_, hgid, ?_⟩
      refine ⟨rfl, ?_, ?_, Or.inl rfl⟩
      · simp only [addedRec]; omega
      · intro h1; simp [addedRec] at h1
    · intro id'
      simp only [updRet, updTx, tx]
      by_cases hid : id = id'
      · subst hid
        simp only [if_true, hgid, Option.map_some, RelO]
        right
        refine ⟨x, by rw [findX_append]; simp [hfx, x], hfc, ?_⟩
        have hfp : findP (s.xpend ++ [en]) id = some en := by rw [findP_append]; simp [hxp, en]
        refine ⟨by simp [bump, addedRec, x], by simp [bump, addedRec, x], by simp [bump, addedRec], by simp [bump, addedRec], ?_⟩
        simp only [XPhRel, hfp]
        refine ⟨rfl, rfl, rfl, by simp [bump, addedRec, en], by simp [bump, addedRec, en], by simp [en], ?_⟩
        cases kind with
        | ping => left; rfl
        | wcon => right; simp [en, bump, addedRec, dlAbs, h.now, entryDeadline]
      · simp only [hid, if_false]
        have hid' : id' ≠ id := fun e => hid e.symm
        rw [hg]
        simp only [hid', if_false]
        refine RelO_congr (s := s) rfl ?_ rfl rfl ?_ (h.rel id')
        · rw [findX_append]
          cases hf : findX s.xcalls id' <;> simp [x, hid]
        · rw [findP_append]
          cases hf : findP s.xpend id' <;> simp [en, hid]

theorem step_ping {P : Params} {s : XState} {js : JState} (h : R P s js) (id : Nat) (dl : Option Nat) :
    StepOk P s js (.ping id dl) := step_xsend h .ping id dl _ rfl rfl

theorem step_wcon {P : Params} {s : XState} {js : JState} (h : R P s js) (id : Nat) (dl : Option Nat) :
    StepOk P s js (.wcon id dl) := step_xsend h .wcon id dl _ rfl rfl

theorem notExhausted_wc {c : Cfg} {now : Nat} {r : Rec} (h1 : r.windowClosed = true) (h2 : r.count = c.maxRetransmit + 1) :
    notExhausted c now r = false := by
  simp only [notExhausted, h1, h2]
  simp

theorem live_cancelled {now : Nat} {r : Rec} (h : r.cancelled = true) : live now r = false := by simp [live, h]
theorem live_returned {now : Nat} {r : Rec} (h : r.returned = true) : live now r = false := by simp [live, h]

/-- The model's `Kind` and the judge's are the same three cases. -/
theorem isX_some {s : XState} {id : Nat} (h : isX s id = true) : ∃ x, findX s.xcalls id = some x := by
  rw [isX_eq] at h
  cases hf : findX s.xcalls id with
  | none => rw [hf] at h; cases h
  | some x => exact ⟨x, rfl⟩

theorem relX_of_isX {P : Params} {s : XState} {js : JState} (h : R P s js) {id : Nat} {x : XCall}
    (hx : findX s.xcalls id = some x) :
    ∃ r, getRec js id = some r ∧ findCall s.base.calls id = none ∧ RelX P x (findP s.xpend id) r := by
  have hrel := h.rel id
  simp only [RelId, RelO] at hrel
  cases hr : getRec js id with
  | none => rw [hr] at hrel; rw [hrel.2] at hx; cases hx
  | some r =>
    rw [hr] at hrel
    rcases hrel with ⟨c, _, hfx, _⟩ | ⟨x', hfx, hfc, hq⟩
    · rw [hfx] at hx; cases hx
    · rw [hfx] at hx; cases hx; exact ⟨r, rfl, hfc, hq⟩

theorem xown_drop {s : XState} (hown : ∀ e ∈ s.xpend, (findX s.xcalls e.id).isSome = true) (id : Nat) :
    ∀ e ∈ dropPend s.xpend id, (findX (setDone s.xcalls id) e.id).isSome = true := by
  intro e he
  simp only [dropPend, List.mem_filter, bne_iff_ne, ne_eq] at he
  rw [findX_setDone]
  simp only [he.2, if_false]
  exact hown e he.1

theorem nodup_drop {ps : List Pend} (h : (ps.map (·.id)).Nodup) (id : Nat) : ((dropPend ps id).map (·.id)).Nodup :=
  (List.Sublist.map _ List.filter_sublist).nodup h

theorem step_xrecv {P : Params} {s : XState} {js : JState} (h : R P s js) (id : Nat) (k : Kind) (hx : isX s id = true) :
    StepOk P s js (.recvMid id k) := by
  obtain ⟨x, hfx⟩ := isX_some hx
  obtain ⟨r, hr, hfc, hq⟩ := relX_of_isX h hfx
  have hc : r.count ≠ 0 := by have := hq.pos; omega
  have happ := applyEv_recv_some (c := cfgOf P) (k := specKind k) hr hc
  have hget := getRec_setRec_self (r' := recvRec (cfgOf P) js.now (specKind k) r) hr rfl
  have hi1 : ((setRec js (recvRec (cfgOf P) js.now (specKind k) r)).recs.map (·.id)).Nodup := by rw [ids_setRec]; exact h.nd
  have hkind : r.kind ≠ .req := by rw [hq.kind]; exact kindOf_ne _
  cases hp : findP s.xpend id with
  | some e =>
    -- the pending ping / write is completed
    have hph := hq.ph
    simp only [XPhRel, hp] at hph
    have hpend : isPending s.xpend id = true := by rw [isPending_eq, hp]; rfl
    have hret : r.returned = false := by
      cases hrr : r.returned with
      | false => rfl
      | true => have := hq.ret.mp hrr; rw [hph.1] at this; cases this
    refine finish_step h (.recvMid id k) { s with xpend := dropPend s.xpend id, xcalls := setDone s.xcalls id }
      [.ret id .acked s.base.now] (by simp [Model.RetransmitKinds.step, hx, xrecv, hpend]) h.inv (nodup_drop h.xpid id)
      (xown_drop h.xown id) none (some ⟨id, .acked, s.base.now⟩) rfl rfl _ _ happ (by rw [now_setRec, h.now]) hi1
      (by intro x hx; cases hx) ?_ (by intro x y hx; cases hx) ?_ ?_
    · intro y hy
      cases hy
      refine ⟨recvRec (cfgOf P) js.now (specKind k) r, by rw [hget]; simp, ?_⟩
      exact And.intro (by simp [recvRec, hret]) (And.intro (fun tag ht => by cases ht)
        (fun _ => ⟨by simpa [recvRec] using hkind, by simp [recvRec]⟩))
    · intro id' res l hd
      refine ⟨_, rfl, ?_⟩
      simp only [recvDue] at hd
      split at hd
      · simp only [beq_iff_eq, hkind, if_false, Option.some.injEq, Prod.mk.injEq] at hd
        exact ⟨hd.1, hd.2.1⟩
      · cases hd
    · intro id'
      simp only [updRet, updTx, hget]
      by_cases hid : id = id'
      · subst hid
        simp only [if_true, Option.map_some, RelO]
        right
        refine ⟨{ x with waiting := false }, by rw [findX_setDone]; simp [hfx], hfc, ?_⟩
        have hfp : findP (dropPend s.xpend id) id = none := by rw [findP_dropPend]; simp
        refine ⟨by simpa [retd, recvRec] using hq.kind, by simp [retd], by simpa [retd, recvRec] using hq.wc,
          by simpa [retd, recvRec] using hq.pos, ?_⟩
        simp [XPhRel, hfp]
      · have hid' : id' ≠ id := fun e => hid e.symm
        simp only [hid, hid', if_false]
        refine RelO_congr (s := s) rfl ?_ rfl rfl ?_ (h.rel id')
        · rw [findX_setDone]; simp [hid']
        · rw [findP_dropPend]; simp [hid']
  | none =>
    -- nothing is pending under that ID any more: the model does nothing, the judge demands nothing
    have hph := hq.ph
    simp only [XPhRel, hp] at hph
    have hpend : isPending s.xpend id = false := by rw [isPending_eq, hp]; rfl
    have hnodue : recvDue (cfgOf P) js.now id (specKind k) r = none ∧
        (r.windowClosed = true ∧ r.inTime = false → freshAck (cfgOf P) js.now (specKind k) r = false) := by
      have hw : r.windowClosed = true ∧ r.inTime = false → freshAck (cfgOf P) js.now (specKind k) r = false := by
        intro ⟨h1, h2⟩
        simp [freshAck, notExhausted_wc (c := cfgOf P) h1 (hq.wc h1)]
      refine ⟨?_, hw⟩
      simp only [recvDue]
      rcases hph with hw1 | hw1 | hw1
      · have := hq.ret.mpr hw1
        simp [live_returned this]
      · simp [live_cancelled hw1]
      · simp [hw hw1, hw1.2]
    refine finish_step h (.recvMid id k) s [] (by simp [Model.RetransmitKinds.step, hx, xrecv, hpend]) h.inv h.xpid h.xown
      none none rfl rfl _ _ happ (by rw [now_setRec, h.now]) hi1
      (by intro x hx; cases hx) (by intro y hy; cases hy) (by intro x y hx; cases hx)
      (by intro id' res l hd; rw [hnodue.1] at hd; cases hd) ?_
    intro id'
    simp only [updRet, updTx, hget]
    by_cases hid : id' = id
    · subst hid
      simp only [if_true, RelO]
      right
      refine ⟨x, hfx, hfc, ?_⟩
      refine ⟨by simpa [recvRec] using hq.kind, by simpa [recvRec] using hq.ret, by simpa [recvRec] using hq.wc,
        by simpa [recvRec] using hq.pos, ?_⟩
      simp only [XPhRel, hp]
      rcases hph with hw1 | hw1 | hw1
      · left; exact hw1
      · right; left; simpa [recvRec] using hw1
      · right; right
        simp [recvRec, hw1.1, hw1.2, hnodue.2 hw1]
    · simp only [hid, if_false]
      exact h.rel id'

theorem queued_iff (b : State) (id : Nat) : queued b id = true ↔ txCount b.log id = 0 := by
  simp only [queued, txCount]
  induction b.log with
  | nil => simp
  | cons a t ih =>
    cases a with
    | tx i k tt m =>
      by_cases hi : i = id
      · simp [List.countP_cons, isTx, hi]
      · simp [List.countP_cons, isTx, hi] at ih ⊢
        exact ih
    | ret i r tt => simpa [List.countP_cons, isTx] using ih
    | stop i tt => simpa [List.countP_cons, isTx] using ih
    | got i g => simpa [List.countP_cons, isTx] using ih

/-- Nothing happens in the model and the judge's stimulus leaves its table alone and demands nothing. -/
theorem step_noop {P : Params} {s : XState} {js : JState} (h : R P s js) (e : XEv) (hstep : xstep P s e = (s, []))
    (happ : applyEv (cfgOf P) js (specEv e) = (js, none)) : StepOk P s js e := by
  refine finish_step h e s [] hstep h.inv h.xpid h.xown none none rfl rfl js none happ h.now h.nd
    (by intro x hx; cases hx) (by intro y hy; cases hy) (by intro x y hx; cases hx) (by intro id res l hd; cases hd) ?_
  intro id
  exact h.rel id

/-- The judge's record of a request that has not been transmitted has seen no transmission. -/
theorem count_zero_of_queued {P : Params} {s : XState} {js : JState} (h : R P s js) {id : Nat} {r : Rec}
    (hx : isX s id = false) (hq : queued s.base id = true) (hr : getRec js id = some r) : r.count = 0 := by
  have hrel := h.rel id
  simp only [RelId, RelO, hr] at hrel
  rcases hrel with ⟨c, _, _, hc⟩ | ⟨x, hfx, _, _⟩
  · rw [hc.count]; exact (queued_iff _ _).mp hq
  · rw [isX_eq, hfx] at hx; cases hx

theorem step_resp_skipped {P : Params} {s : XState} {js : JState} (h : R P s js) (id tag : Nat)
    (hsk : (isX s id || queued s.base id) = true) : StepOk P s js (.resp id tag) := by
  refine step_noop h _ (by simp [Model.RetransmitKinds.step, hsk]) ?_
  simp only [specEv]
  cases hr : getRec js id with
  | none => exact applyEv_resp_none hr
  | some r =>
    by_cases hx : isX s id = true
    · obtain ⟨x, hfx⟩ := isX_some hx
      obtain ⟨r', hr', _, hq⟩ := relX_of_isX h hfx
      rw [hr] at hr'; cases hr'
      exact applyEv_resp_kind hr (by rw [hq.kind]; exact kindOf_ne _)
    · have hx' : isX s id = false := by simpa using hx
      have hq : queued s.base id = true := by simpa [hx'] using hsk
      exact applyEv_resp_zero hr (count_zero_of_queued h hx' hq hr)

theorem step_pig_skipped {P : Params} {s : XState} {js : JState} (h : R P s js) (id tag : Nat)
    (hx : isX s id = false) (hq : queued s.base id = true) : StepOk P s js (.recvMid id (.pig tag)) := by
  refine step_noop h _ (by simp [Model.RetransmitKinds.step, hx, hq]) ?_
  simp only [specEv]
  cases hr : getRec js id with
  | none => exact applyEv_recv_none hr
  | some r => exact applyEv_recv_zero hr (count_zero_of_queued h hx hq hr)

theorem step_xcancel {P : Params} {s : XState} {js : JState} (h : R P s js) (id : Nat) (why : Why) (hx : isX s id = true) :
    StepOk P s js (.cancel id why) := by
  obtain ⟨x, hfx⟩ := isX_some hx
  obtain ⟨r, hr, hfc, hq⟩ := relX_of_isX h hfx
  obtain ⟨hd, hn, hi, hg⟩ := applyEv_cancel (cfgOf P) js id
  have hgid : getRec (applyEv (cfgOf P) js (.cancel id)).1 id = some (cancelRec r) := by rw [hg]; simp [hr]
  cases hw : x.waiting with
  | true =>
    have hret : r.returned = false := by
      cases hrr : r.returned with
      | false => rfl
      | true => have := hq.ret.mp hrr; rw [hw] at this; cases this
    refine finish_step h (.cancel id why) { s with xpend := dropPend s.xpend id, xcalls := setDone s.xcalls id }
      [.ret id (.base why.res) s.base.now] (by simp [Model.RetransmitKinds.step, hx, xcancel, hfx, hw]) h.inv
      (nodup_drop h.xpid id) (xown_drop h.xown id) none (some ⟨id, specRes (.base why.res), s.base.now⟩) rfl rfl
      (applyEv (cfgOf P) js (.cancel id)).1 (applyEv (cfgOf P) js (.cancel id)).2 rfl (by rw [hn, h.now]) (by rw [hi]; exact h.nd)
      (by intro x hx; cases hx) ?_ (by intro x y hx; cases hx) (by intro id' res l hd'; rw [hd] at hd'; cases hd') ?_
    · intro y hy
      cases hy
      refine ⟨cancelRec r, hgid, ?_⟩
      exact And.intro (by simp [cancelRec, hret]) (And.intro (fun tag ht => by cases why <;> cases ht)
        (fun ht => by cases why <;> cases ht))
    · intro id'
      simp only [updRet, updTx, hg]
      by_cases hid : id = id'
      · subst hid
        simp only [if_true, hr, Option.map_some, RelO]
        right
        refine ⟨{ x with waiting := false }, by rw [findX_setDone]; simp [hfx], hfc, ?_⟩
        have hfp : findP (dropPend s.xpend id) id = none := by rw [findP_dropPend]; simp
        refine ⟨by simpa [retd, cancelRec] using hq.kind, by simp [retd], by simpa [retd, cancelRec] using hq.wc,
          by simpa [retd, cancelRec] using hq.pos, ?_⟩
        simp [XPhRel, hfp]
      · have hid' : id' ≠ id := fun e => hid e.symm
        simp only [hid, hid', if_false]
        refine RelO_congr (s := s) rfl ?_ rfl rfl ?_ (h.rel id')
        · rw [findX_setDone]; simp [hid']
        · rw [findP_dropPend]; simp [hid']
  | false =>
    refine finish_step h (.cancel id why) s [] (by simp [Model.RetransmitKinds.step, hx, xcancel, hfx, hw]) h.inv h.xpid h.xown
      none none rfl rfl (applyEv (cfgOf P) js (.cancel id)).1 (applyEv (cfgOf P) js (.cancel id)).2 rfl (by rw [hn, h.now]) (by rw [hi]; exact h.nd)
      (by intro x hx; cases hx) (by intro y hy; cases hy) (by intro x y hx; cases hx)
      (by intro id' res l hd'; rw [hd] at hd'; cases hd') ?_
    intro id'
    simp only [updRet, updTx, hg]
    by_cases hid : id' = id
    · subst hid
      simp only [if_true, hr, Option.map_some, RelO]
      right
      refine ⟨x, hfx, hfc, ?_⟩
      refine ⟨by simpa [cancelRec] using hq.kind, by simpa [cancelRec] using hq.ret, by simpa [cancelRec] using hq.wc,
        by simpa [cancelRec] using hq.pos, ?_⟩
      have hph := hq.ph
      simp only [XPhRel] at hph ⊢
      cases hp : findP s.xpend id' with
      | none => simp [hw]
      | some e => rw [hp] at hph; rw [hw] at hph; cases hph.1
    · simp only [hid, if_false]
      exact h.rel id'

/-! ### admission of the next queued request (NSTART slot) -/

/-- How the tables of `b'` relate to those of `b1` when the request of call `oc1` (if any) has been admitted in between. -/
def AdmitView (now : Nat) (b1 b' : State) (oc1 : Option Call) : Prop :=
  (oc1 = none → ∀ id', findCall b'.calls id' = findCall b1.calls id' ∧ findP b'.pend id' = findP b1.pend id' ∧
      txCount b'.log id' = txCount b1.log id') ∧
  (∀ c1, oc1 = some c1 → findCall b1.calls c1.id = some c1 ∧ c1.phase = .waitSem ∧ ∀ id',
      (findCall b'.calls id' = if id' = c1.id then some (setPhase .waitAck c1) else findCall b1.calls id') ∧
      (findP b'.pend id' = if id' = c1.id then some ⟨c1.id, now, c1.deadline, 0, c1.msg⟩ else findP b1.pend id') ∧
      (txCount b'.log id' = txCount b1.log id' + if id' = c1.id then 1 else 0))

def admitEntry (now : Nat) (oc1 : Option Call) : List Entry := (oc1.map (fun c1 => Entry.tx c1.id 0 now c1.req)).toList

theorem findP_none_of_phase {P : Params} {b : State} (h : Inv P b) {c : Call} (hc : c ∈ b.calls) (hph : c.phase ≠ .waitAck) :
    findP b.pend c.id = none := by
  cases hp : findP b.pend c.id with
  | none => rfl
  | some e =>
    obtain ⟨hm, hid⟩ := findP_some hp
    exact (no_pend_of_phase h hc hph e hm hid).elim

theorem admitNext_views {P : Params} {b1 : State} (h : Inv P b1) :
    ∃ oc1, AdmitView b1.now b1 (admitNext P b1) oc1 ∧ (admitNext P b1).log = admitEntry b1.now oc1 ++ b1.log ∧
      (admitNext P b1).now = b1.now := by
  have hnone : ∃ oc1, AdmitView b1.now b1 b1 oc1 ∧ b1.log = admitEntry b1.now oc1 ++ b1.log ∧ b1.now = b1.now :=
    ⟨none, And.intro (fun _ _ => ⟨rfl, rfl, rfl⟩) (fun c1 hc => (by cases hc)), rfl, rfl⟩
  unfold admitNext
  by_cases hlt : inflight b1.calls < P.nstart
  · rw [if_pos hlt]
    cases hf : b1.calls.find? (fun c => c.phase == .waitSem) with
    | none => exact hnone
    | some c =>
      have hc : c ∈ b1.calls := List.mem_of_find?_eq_some hf
      have hph : c.phase = .waitSem := by have := List.find?_some hf; simpa using this
      have hfc := findCall_of_mem h.ids hc
      have hnp := findP_none_of_phase h hc (by rw [hph]; decide)
      refine ⟨some c, And.intro (fun hc => (by cases hc)) ?_, rfl, rfl⟩
      intro c1 hc1
      cases hc1
      refine ⟨hfc, hph, fun id' => ⟨?_, ?_, ?_⟩⟩
      · simp only [findCall_updCall _ _ _ (setPhase_id _)]
        by_cases hid : id' = c.id
        · subst hid; simp [hfc]
        · simp [hid]
      · simp only [findP_append]
        by_cases hid : id' = c.id
        · subst hid; simp [hnp]
        · have hid' : c.id ≠ id' := fun e => hid e.symm
          simp only [hid, hid', if_false]
          cases findP b1.pend id' <;> rfl
      · rw [txCount_cons_tx]
        by_cases hid : id' = c.id
        · subst hid; simp
        · have hid' : c.id ≠ id' := fun e => hid e.symm
          simp [hid, hid']
  · rw [if_neg hlt]
    exact hnone

/-- The tie of a queued request carries over to its admission: the first transmission passes the judge's checks
    and the record afterwards fits the freshly stored pending entry. -/
theorem relReq_admit {P : Params} {c1 : Call} {pe : Option Pend} {r1 : Rec} {now : Nat}
    (hq : RelReq P c1 pe 0 r1) (hph : c1.phase = .waitSem) :
    TxOk (cfgOf P) r1 ⟨c1.id, now, true⟩ ∧
    RelReq P (setPhase .waitAck c1) (some ⟨c1.id, now, c1.deadline, 0, c1.msg⟩) (0 + 1) (bump ⟨c1.id, now, true⟩ r1) := by
  have hp := hq.ph
  simp only [PhRel, hph] at hp
  obtain ⟨h1, h2, h3, h4⟩ := hp
  have hc := hq.count
  constructor
  · refine ⟨h1, by rw [hc]; omega, by intro h; omega, Or.inl rfl⟩
  · refine ⟨by simpa [bump] using hq.kind, by simp [bump, hc], by simpa [bump, setPhase] using hq.dl, ?_, by simpa [bump, setPhase] using hq.mis, ?_, ?_⟩
    · have : r1.returned = false := by
        cases hrr : r1.returned with
        | false => rfl
        | true => have := hq.ret.mp hrr; rw [hph] at this; cases this
      simp [bump, setPhase, this]
    · intro hw
      have := hq.wc (by simpa [bump] using hw)
      omega
    · simp only [PhRel, setPhase, bump, hc]
      exact ⟨h1, h2, by simp, h3, h4, by first | rfl | trivial⟩

theorem base_tail {P : Params} {s : XState} {js : JState} (h : R P s js) (e : XEv) (b1 b' : State) (outs : List Out)
    (hstep : xstep P s e = ({ s with base := b' }, outs))
    (hinv1 : Inv P b1) (hinv' : Inv P b') (hnow' : b'.now = s.base.now)
    (oc1 : Option Call) (hadm : AdmitView s.base.now b1 b' oc1) (oy : Option Ret)
    (htx : outs.filterMap txOf = (oc1.map (fun c1 => (⟨c1.id, s.base.now, true⟩ : Tx))).toList)
    (hret : outs.filterMap retOf = oy.toList)
    (s1 : JState) (due : Option (Nat × Spec.Retransmit.Res × Bool))
    (happ : applyEv (cfgOf P) js (specEv e) = (s1, due)) (hn1 : s1.now = js.now) (hi1 : (s1.recs.map (·.id)).Nodup)
    (hy : ∀ y, oy = some y → ∃ r, getRec s1 y.id = some r ∧ RetOk r y)
    (hdue : ∀ id res l, due = some (id, res, l) → ∃ y, oy = some y ∧ y.id = id ∧ y.res = res)
    (hpre : ∀ id, RelO P { s with base := b1 } (updRet oy id (getRec s1 id)) id) : StepOk P s js e := by
  cases oc1 with
  | none =>
    have hv := hadm.1 rfl
    refine finish_step h e { s with base := b' } outs hstep hinv' h.xpid h.xown none oy htx hret s1 due happ
      (by rw [hn1, h.now, hnow']) hi1 (by intro x hx; cases hx) hy (by intro x y hx; cases hx) hdue ?_
    intro id
    simp only [updTx]
    exact RelO_congr (s := { s with base := b1 }) (hv id).1 rfl (hv id).2.1 (hv id).2.2 rfl (hpre id)
  | some c1 =>
    obtain ⟨hfc1, hph1, hv⟩ := hadm.2 c1 rfl
    obtain ⟨hcm, _⟩ := findCall_some hfc1
    have hcnt0 : txCount b1.log c1.id = 0 := hinv1.ws c1 hcm hph1
    -- the record of the admitted request
    have hp1 := hpre c1.id
    have hrec : ∃ r1, getRec s1 c1.id = some r1 ∧ findX s.xcalls c1.id = none ∧
        RelReq P c1 (findP b1.pend c1.id) 0 r1 ∧ ∀ y, oy = some y → y.id ≠ c1.id := by
      simp only [RelO, hfc1] at hp1
      cases ho : updRet oy c1.id (getRec s1 c1.id) with
      | none => rw [ho] at hp1; cases hp1.1
      | some r' =>
        rw [ho] at hp1
        rcases hp1 with ⟨c, hc, hfx, hq⟩ | ⟨x, _, hc, _⟩
        · cases hc
          rw [hcnt0] at hq
          have hnr : r'.returned = false := by
            cases hrr : r'.returned with
            | false => rfl
            | true => have := hq.ret.mp hrr; rw [hph1] at this; cases this
          cases hoy : oy with
          | none =>
            rw [hoy] at ho
            simp only [updRet] at ho
            exact ⟨r', ho, hfx, hq, fun y hy => by cases hy⟩
          | some y =>
            rw [hoy] at ho
            simp only [updRet] at ho
            by_cases hyid : y.id = c1.id
            · exfalso
              simp only [hyid, if_true] at ho
              cases hg : getRec s1 c1.id with
              | none => rw [hg] at ho; cases ho
              | some r0 =>
                rw [hg] at ho
                simp only [Option.map_some, Option.some.injEq] at ho
                rw [← ho] at hnr
                simp [retd] at hnr
            · simp only [hyid, if_false] at ho
              exact ⟨r', ho, hfx, hq, fun y' hy' => by cases hy'; exact hyid⟩
        · cases hc
    obtain ⟨r1, hg1, hfx1, hq1, hyne⟩ := hrec
    obtain ⟨htxok, hq1'⟩ := relReq_admit (now := s.base.now) hq1 hph1
    refine finish_step h e { s with base := b' } outs hstep hinv' h.xpid h.xown (some ⟨c1.id, s.base.now, true⟩) oy htx hret
      s1 due happ (by rw [hn1, h.now, hnow']) hi1 ?_ hy ?_ hdue ?_
    · intro x hx
      cases hx
      exact ⟨r1, hg1, htxok⟩
    · intro x y hx hy'
      cases hx
      exact fun e => hyne y hy' e.symm
    · intro id
      simp only [updTx]
      by_cases hid : id = c1.id
      · subst hid
        simp only [if_true, hg1, Option.map_some]
        have hupd : updRet oy c1.id (some (bump ⟨c1.id, s.base.now, true⟩ r1)) = some (bump ⟨c1.id, s.base.now, true⟩ r1) := by
          cases hoy : oy with
          | none => rfl
          | some y => simp [updRet, hyne y hoy]
        rw [hupd]
        simp only [RelO]
        left
        refine ⟨setPhase .waitAck c1, by rw [(hv c1.id).1]; simp, hfx1, ?_⟩
        rw [(hv c1.id).2.1, (hv c1.id).2.2, hcnt0]
        simp only [if_true]
        exact hq1'
      · have hid' : c1.id ≠ id := fun e => hid e.symm
        simp only [hid', if_false]
        refine RelO_congr (s := { s with base := b1 }) ?_ rfl ?_ ?_ rfl (hpre id)
        · rw [(hv id).1]; simp [hid]
        · rw [(hv id).2.1]; simp [hid]
        · rw [(hv id).2.2]; simp [hid]

def retEntry : Entry → Option Ret
  | .ret id r t => some ⟨id, specRes (.base r), t⟩
  | _ => none

theorem outs_notTx (log : List Entry) : ∀ (added1 : List Entry), (∀ x ∈ added1, NotTx x) →
    (added1.filterMap (outOf log)).filterMap txOf = [] ∧
    (added1.filterMap (outOf log)).filterMap retOf = added1.filterMap retEntry
  | [], _ => ⟨rfl, rfl⟩
  | x :: t, h => by
    have ih := outs_notTx log t (fun y hy => h y (List.mem_cons_of_mem _ hy))
    have hx := h x List.mem_cons_self
    cases x with
    | tx _ _ _ _ => cases hx
    | ret i r tt =>
      simp only [List.filterMap_cons, outOf, txOf, retOf, retEntry]
      exact ⟨ih.1, by rw [ih.2]⟩
    | stop i tt =>
      simp only [List.filterMap_cons, outOf, retEntry]
      exact ih
    | got i g =>
      simp only [List.filterMap_cons, outOf, retEntry]
      exact ih

theorem outs_admit (now : Nat) (oc1 : Option Call) (added1 rest : List Entry) (hnt : ∀ x ∈ added1, NotTx x) :
    ((admitEntry now oc1 ++ added1).filterMap (outOf (admitEntry now oc1 ++ added1 ++ rest))).filterMap txOf =
      (oc1.map (fun c1 => (⟨c1.id, now, true⟩ : Tx))).toList ∧
    ((admitEntry now oc1 ++ added1).filterMap (outOf (admitEntry now oc1 ++ added1 ++ rest))).filterMap retOf =
      added1.filterMap retEntry := by
  cases oc1 with
  | none =>
    simp only [admitEntry, Option.map_none, Option.toList_none, List.nil_append]
    exact outs_notTx _ added1 hnt
  | some c1 =>
    have := outs_notTx (Entry.tx c1.id 0 now c1.req :: (added1 ++ rest)) added1 hnt
    simp only [admitEntry, Option.map_some, Option.toList_some, List.cons_append, List.nil_append, List.filterMap_cons,
      List.append_assoc]
    simp only [outOf, firstMsg, List.findSome?_cons, beq_self_eq_true, if_true, txOf, retOf]
    refine ⟨?_, ?_⟩
    · rw [List.filterMap_cons]; simp only [txOf]; rw [this.1]
    · rw [List.filterMap_cons]; simp only [retOf]; exact this.2

/-- A step of the request machinery that ends with the admission of the next queued request. -/
theorem base_admit {P : Params} {s : XState} {js : JState} (h : R P s js) (e : XEv) (b1 : State) (added1 : List Entry)
    (hstep : xstep P s e = liftBase s (admitNext P b1))
    (hinv1 : Inv P b1) (hnow1 : b1.now = s.base.now) (hlog1 : b1.log = added1 ++ s.base.log)
    (hnt : ∀ x ∈ added1, NotTx x) (oy : Option Ret) (hret : added1.filterMap retEntry = oy.toList)
    (s1 : JState) (due : Option (Nat × Spec.Retransmit.Res × Bool))
    (happ : applyEv (cfgOf P) js (specEv e) = (s1, due)) (hn1 : s1.now = js.now) (hi1 : (s1.recs.map (·.id)).Nodup)
    (hy : ∀ y, oy = some y → ∃ r, getRec s1 y.id = some r ∧ RetOk r y)
    (hdue : ∀ id res l, due = some (id, res, l) → ∃ y, oy = some y ∧ y.id = id ∧ y.res = res)
    (hpre : ∀ id, RelO P { s with base := b1 } (updRet oy id (getRec s1 id)) id) : StepOk P s js e := by
  obtain ⟨oc1, hadm, hlog, hnow⟩ := admitNext_views (P := P) hinv1
  have hlog' : (admitNext P b1).log = (admitEntry b1.now oc1 ++ added1) ++ s.base.log := by
    rw [hlog, hlog1, List.append_assoc]
  have houts := outs_admit b1.now oc1 added1 s.base.log hnt
  rw [← hlog'] at houts
  rw [hnow1] at hadm houts
  refine base_tail h e b1 (admitNext P b1) _ (by rw [hstep, liftBase_added s _ _ hlog']) hinv1 (inv_admitNext hinv1)
    (by rw [hnow, hnow1]) oc1 hadm oy ?_ ?_ s1 due happ hn1 hi1 hy hdue hpre
  · rw [hnow1]; exact houts.1
  · rw [hnow1, houts.2, hret]

/-- A step of the request machinery without admission. -/
theorem base_plain {P : Params} {s : XState} {js : JState} (h : R P s js) (e : XEv) (b1 : State) (added1 : List Entry)
    (hstep : xstep P s e = liftBase s b1)
    (hinv1 : Inv P b1) (hnow1 : b1.now = s.base.now) (hlog1 : b1.log = added1 ++ s.base.log)
    (hnt : ∀ x ∈ added1, NotTx x) (oy : Option Ret) (hret : added1.filterMap retEntry = oy.toList)
    (s1 : JState) (due : Option (Nat × Spec.Retransmit.Res × Bool))
    (happ : applyEv (cfgOf P) js (specEv e) = (s1, due)) (hn1 : s1.now = js.now) (hi1 : (s1.recs.map (·.id)).Nodup)
    (hy : ∀ y, oy = some y → ∃ r, getRec s1 y.id = some r ∧ RetOk r y)
    (hdue : ∀ id res l, due = some (id, res, l) → ∃ y, oy = some y ∧ y.id = id ∧ y.res = res)
    (hpre : ∀ id, RelO P { s with base := b1 } (updRet oy id (getRec s1 id)) id) : StepOk P s js e := by
  have houts := outs_notTx b1.log added1 hnt
  refine base_tail h e b1 b1 _ (by rw [hstep, liftBase_added s _ _ hlog1]) hinv1 hinv1 hnow1 none
    (And.intro (fun _ _ => ⟨rfl, rfl, rfl⟩) (fun c1 hc => (by cases hc))) oy houts.1 (by rw [houts.2, hret])
    s1 due happ hn1 hi1 hy hdue hpre

/-- The record of a request of `Conn.Do`. -/
theorem relReq_of_call {P : Params} {s : XState} {js : JState} (h : R P s js) {id : Nat} {c : Call}
    (hc : findCall s.base.calls id = some c) :
    ∃ r, getRec js id = some r ∧ findX s.xcalls id = none ∧
      RelReq P c (findP s.base.pend id) (txCount s.base.log id) r := by
  have hrel := h.rel id
  simp only [RelId, RelO] at hrel
  cases hr : getRec js id with
  | none => rw [hr] at hrel; rw [hrel.1] at hc; cases hc
  | some r =>
    rw [hr] at hrel
    rcases hrel with ⟨c', hfc, hfx, hq⟩ | ⟨x', _, hfc, _⟩
    · rw [hfc] at hc; cases hc; exact ⟨r, rfl, hfx, hq⟩
    · rw [hfc] at hc; cases hc

theorem getRec_none_of_unknown {P : Params} {s : XState} {js : JState} (h : R P s js) {id : Nat}
    (hc : findCall s.base.calls id = none) (hx : isX s id = false) : getRec js id = none := by
  have hk := known_iff h id
  simp only [known, hc, hx] at hk
  cases hr : getRec js id with
  | none => rfl
  | some r => rw [hr] at hk; cases hk

theorem why_res_cases (why : Why) : specRes (.base why.res) = .ctx ∨ specRes (.base why.res) = .deadline := by
  cases why <;> simp [Why.res, specRes]

theorem step_cancel_base {P : Params} {s : XState} {js : JState} (h : R P s js) (id : Nat) (why : Why)
    (hx : isX s id = false) : StepOk P s js (.cancel id why) := by
  have hstep : xstep P s (.cancel id why) = liftBase s (cancel P s.base id why) := by
    simp [Model.RetransmitKinds.step, hx]
  obtain ⟨hd, hn, hi, hg⟩ := applyEv_cancel (cfgOf P) js id
  have hnd1 : ((applyEv (cfgOf P) js (.cancel id)).1.recs.map (·.id)).Nodup := by rw [hi]; exact h.nd
  have hnodue : ∀ id' res l, (applyEv (cfgOf P) js (.cancel id)).2 = some (id', res, l) → False := by
    intro id' res l hd'; rw [hd] at hd'; cases hd'
  cases hf : findCall s.base.calls id with
  | none =>
    refine step_noop h _ (by rw [hstep]; simp [cancel, hf, liftBase]) ?_
    have := getRec_none_of_unknown h hf hx
    simp [specEv, applyEv, this]
  | some c =>
    obtain ⟨hcm, hcid⟩ := findCall_some hf
    obtain ⟨r, hr, hfx, hq⟩ := relReq_of_call h hf
    have hgid : getRec (applyEv (cfgOf P) js (.cancel id)).1 id = some (cancelRec r) := by rw [hg]; simp [hr]
    by_cases hph : c.phase = .done
    · -- the call has returned already
      refine base_plain h _ s.base [] (by rw [hstep]; simp [cancel, hf, hph]) h.inv rfl rfl (by intro x hx; cases hx) none rfl
        (applyEv (cfgOf P) js (.cancel id)).1 (applyEv (cfgOf P) js (.cancel id)).2 rfl hn hnd1
        (by intro y hy; cases hy) (fun id' res l hd' => (hnodue id' res l hd').elim) ?_
      intro id'
      simp only [updRet, hg]
      by_cases hid : id' = id
      · subst hid
        simp only [if_true, hr, Option.map_some, RelO]
        left
        refine ⟨c, hf, hfx, ?_⟩
        refine ⟨by simpa [cancelRec] using hq.kind, by simpa [cancelRec] using hq.count, by simpa [cancelRec] using hq.dl,
          by simpa [cancelRec] using hq.ret, by simpa [cancelRec] using hq.mis, by simpa [cancelRec] using hq.wc, ?_⟩
        simp [PhRel, hph]
      · simp only [hid, if_false]
        exact h.rel id'
    · -- the call returns the context's error
      have hnook : ∀ tag, why.res = .ok tag → Entry.got id tag ∈ s.base.log := by
        intro tag heq; cases why <;> cases heq
      have hret : r.returned = false := by
        cases hrr : r.returned with
        | false => rfl
        | true => exact (hph (hq.ret.mp hrr)).elim
      -- common shape of the state before a possible admission
      have common : ∀ (pend' : List Pend), (∀ id', id' ≠ id → findP pend' id' = findP s.base.pend id') →
          ∀ id', RelO P { s with base := addStop (finish { s.base with pend := pend' } id why.res) id }
            (updRet (some ⟨id, specRes (.base why.res), s.base.now⟩) id' (getRec (applyEv (cfgOf P) js (.cancel id)).1 id')) id' := by
        intro pend' hpend id'
        simp only [updRet, hg]
        by_cases hid : id = id'
        · subst hid
          simp only [if_true, hr, Option.map_some, RelO]
          left
          refine ⟨setPhase .done c, ?_, hfx, ?_⟩
          · simp [addStop, finish, findCall_updCall _ _ _ (setPhase_id _), hf]
          · refine ⟨by simpa [retd, cancelRec] using hq.kind, ?_, by simpa [retd, cancelRec, setPhase] using hq.dl,
              by simp [retd, setPhase], by simpa [retd, cancelRec, setPhase] using hq.mis, by simpa [retd, cancelRec] using hq.wc, ?_⟩
            · simp only [retd, cancelRec, addStop, finish, txCount_cons_stop, txCount_cons_ret]
              exact hq.count
            · simp [PhRel, setPhase]
        · have hid' : id' ≠ id := fun e => hid e.symm
          simp only [hid, hid', if_false]
          refine RelO_congr (s := s) ?_ rfl (hpend id' hid') ?_ rfl (h.rel id')
          · simp [addStop, finish, findCall_updCall _ _ _ (setPhase_id _), hid']
          · simp [addStop, finish, txCount_cons_stop, txCount_cons_ret]
      have hyok : ∀ y, some (⟨id, specRes (.base why.res), s.base.now⟩ : Ret) = some y →
          ∃ r', getRec (applyEv (cfgOf P) js (.cancel id)).1 y.id = some r' ∧ RetOk r' y := by
        intro y hy
        cases hy
        refine ⟨cancelRec r, hgid, ?_⟩
        exact And.intro (by simp [cancelRec, hret]) (And.intro (fun tag ht => by cases why <;> cases ht)
          (fun ht => by cases why <;> cases ht))
      cases hp : c.phase with
      | done => exact (hph hp).elim
      | waitAck =>
        refine base_admit h _ (addStop (finish { s.base with pend := dropPend s.base.pend id } id why.res) id)
          [.stop id s.base.now, .ret id why.res s.base.now] (by rw [hstep]; simp [cancel, hf, hp])
          (inv_addStop (inv_finish (inv_dropPend h.inv id) id _ (not_mem_dropPend s.base.pend id) ⟨c, hcm, hcid⟩ hnook) id
            (finish_done _ ⟨c, hcm, hcid⟩)) rfl rfl (by intro x hx; simp at hx; rcases hx with hx | hx <;> subst hx <;> trivial)
          (some ⟨id, specRes (.base why.res), s.base.now⟩) rfl
          (applyEv (cfgOf P) js (.cancel id)).1 (applyEv (cfgOf P) js (.cancel id)).2 rfl hn hnd1 hyok
          (fun id' res l hd' => (hnodue id' res l hd').elim) ?_
        exact common _ (fun id' hid' => by rw [findP_dropPend]; simp [hid'])
      | waitSem =>
        have hnp : ∀ e ∈ s.base.pend, e.id ≠ id := by
          rw [← hcid]; exact no_pend_of_phase h.inv hcm (by rw [hp]; decide)
        refine base_plain h _ (addStop (finish s.base id why.res) id)
          [.stop id s.base.now, .ret id why.res s.base.now] (by rw [hstep]; simp [cancel, hf, hp])
          (inv_addStop (inv_finish h.inv id _ hnp ⟨c, hcm, hcid⟩ hnook) id (finish_done _ ⟨c, hcm, hcid⟩)) rfl rfl
          (by intro x hx; simp at hx; rcases hx with hx | hx <;> subst hx <;> trivial)
          (some ⟨id, specRes (.base why.res), s.base.now⟩) rfl
          (applyEv (cfgOf P) js (.cancel id)).1 (applyEv (cfgOf P) js (.cancel id)).2 rfl hn hnd1 hyok
          (fun id' res l hd' => (hnodue id' res l hd').elim) ?_
        exact common s.base.pend (fun _ _ => rfl)
      | waitResp =>
        have hnp : ∀ e ∈ s.base.pend, e.id ≠ id := by
          rw [← hcid]; exact no_pend_of_phase h.inv hcm (by rw [hp]; decide)
        refine base_plain h _ (addStop (finish s.base id why.res) id)
          [.stop id s.base.now, .ret id why.res s.base.now] (by rw [hstep]; simp [cancel, hf, hp])
          (inv_addStop (inv_finish h.inv id _ hnp ⟨c, hcm, hcid⟩ hnook) id (finish_done _ ⟨c, hcm, hcid⟩)) rfl rfl
          (by intro x hx; simp at hx; rcases hx with hx | hx <;> subst hx <;> trivial)
          (some ⟨id, specRes (.base why.res), s.base.now⟩) rfl
          (applyEv (cfgOf P) js (.cancel id)).1 (applyEv (cfgOf P) js (.cancel id)).2 rfl hn hnd1 hyok
          (fun id' res l hd' => (hnodue id' res l hd').elim) ?_
        exact common s.base.pend (fun _ _ => rfl)

theorem step_send {P : Params} {s : XState} {js : JState} (h : R P s js) (id msg : Nat) (dl : Option Nat) :
    StepOk P s js (.send id msg dl) := by
  obtain ⟨hn, hg, hsame, hnew⟩ := addRec_get js id dl .req
  have hk := known_iff h id
  have happ : applyEv (cfgOf P) js (specEv (.send id msg dl)) = (addRec js id dl .req, none) := rfl
  by_cases hkn : known s id = true
  · have hsome : (getRec js id).isSome = true := by rw [← hk]; exact hkn
    refine step_noop h _ (by simp [Model.RetransmitKinds.step, hkn]) ?_
    rw [happ, hsame hsome]
  · have hkn' : known s id = false := by simpa using hkn
    have hnone : getRec js id = none := by
      rw [hkn'] at hk
      cases hr : getRec js id with
      | none => rfl
      | some r => rw [hr] at hk; cases hk
    have hrel := h.rel id
    simp only [RelId, RelO, hnone] at hrel
    obtain ⟨hfc, hfx⟩ := hrel
    have hnewc : ∀ c ∈ s.base.calls, c.id ≠ id := findCall_none hfc
    have hcnt0 : txCount s.base.log id = 0 := h.inv.unk id hnewc
    have hstep : xstep P s (.send id msg dl) = liftBase s (Model.Retransmit.send P s.base id msg (dl.map (· + s.base.now))) := by
      simp [Model.RetransmitKinds.step, hkn']
    have hgid : getRec (addRec js id dl .req) id = some (addedRec js id dl .req) := by rw [hg]; simp [hnone]
    have hi1 : ((addRec js id dl .req).recs.map (·.id)).Nodup := by
      rw [hnew hnone]
      simp only [List.map_append, List.map_cons, List.map_nil]
      refine List.nodup_append.mpr ⟨h.nd, by simp, ?_⟩
      intro a ha b hb heq
      simp only [List.mem_singleton] at hb
      obtain ⟨r', hr', hid'⟩ := List.mem_map.mp ha
      have := getRec_of_mem h.nd hr'
      have hb' : r'.id = id := by rw [hid', heq, hb]; rfl
      rw [hb', hnone] at this
      cases this
    by_cases hns : P.nstart = 0
    · -- NSTART = 0: the call fails at once
      let c0 : Call := ⟨id, msg, dl.map (· + s.base.now), .done, none, msg, false⟩
      have hb1 : Model.Retransmit.send P s.base id msg (dl.map (· + s.base.now)) =
          { s.base with calls := s.base.calls ++ [c0], log := .ret id .nstart s.base.now :: s.base.log } := by
        simp [Model.Retransmit.send, hfc, hns, c0]
      have hinv1 := inv_send h.inv id msg (dl.map (· + s.base.now))
      rw [hb1] at hinv1 hstep
      refine base_plain h _ _ [.ret id .nstart s.base.now] hstep hinv1 rfl rfl
        (by intro x hx; simp at hx; subst hx; trivial) (some ⟨id, .nstart, s.base.now⟩) rfl _ _ happ hn hi1 ?_
        (by intro id' res l hd; cases hd) ?_
      · intro y hy
        cases hy
        refine ⟨_, hgid, ?_⟩
        exact And.intro rfl (And.intro (fun tag ht => by cases ht) (fun ht => by cases ht))
      · intro id'
        simp only [updRet]
        by_cases hid : id = id'
        · subst hid
          simp only [if_true, hgid, Option.map_some, RelO]
          left
          refine ⟨c0, by rw [findCall_append]; simp [hfc, c0], hfx, ?_⟩
          refine ⟨rfl, by simp [retd, addedRec, txCount_cons_ret, hcnt0], by simp [retd, addedRec, c0, h.now],
            by simp [retd, c0], by simp [c0], by simp [retd, addedRec], by simp [PhRel, c0]⟩
        · have hid' : id' ≠ id := fun e => hid e.symm
          simp only [hid, if_false]
          rw [hg]
          simp only [hid', if_false]
          refine RelO_congr (s := s) ?_ rfl rfl ?_ rfl (h.rel id')
          · rw [findCall_append]
            cases findCall s.base.calls id' <;> simp [c0, hid]
          · simp [txCount_cons_ret]
    · -- the call queues for its slot; the next queued request (possibly this one) is admitted if a slot is free
      let c0 : Call := ⟨id, msg, dl.map (· + s.base.now), .waitSem, none, msg, false⟩
      have hb1 : Model.Retransmit.send P s.base id msg (dl.map (· + s.base.now)) =
          admitNext P { s.base with calls := s.base.calls ++ [c0] } := by
        simp [Model.Retransmit.send, hfc, hns, c0]
      rw [hb1] at hstep
      refine base_admit h _ { s.base with calls := s.base.calls ++ [c0] } [] hstep
        (inv_addCall h.inv id msg _ .waitSem hnewc (Or.inl rfl)) rfl rfl (by intro x hx; cases hx) none rfl _ _ happ hn hi1
        (by intro y hy; cases hy) (by intro id' res l hd; cases hd) ?_
      intro id'
      simp only [updRet]
      by_cases hid : id' = id
      · subst hid
        simp only [hgid, RelO]
        left
        refine ⟨c0, by rw [findCall_append]; simp [hfc, c0], hfx, ?_⟩
        refine ⟨rfl, by simp [addedRec, hcnt0], by simp [addedRec, c0, h.now], by simp [addedRec, c0], by simp [c0],
          by simp [addedRec], by simp [PhRel, c0, addedRec]⟩
      · have hid' : id ≠ id' := fun e => hid e.symm
        rw [hg]
        simp only [hid, if_false]
        refine RelO_congr (s := s) ?_ rfl rfl rfl rfl (h.rel id')
        rw [findCall_append]
        cases findCall s.base.calls id' <;> simp [c0, hid']

/-! ### a response reaches the token handler -/

/-- What the judge's stimulus (a separate or a piggybacked response with tag `tag`) does to the record of a request. -/
structure Stim (c : Cfg) (now id tag : Nat) (r r' : Rec) (due : Option (Nat × Spec.Retransmit.Res × Bool)) : Prop where
  kind : r'.kind = r.kind
  count : r'.count = r.count
  dl : r'.deadline = r.deadline
  ret : r'.returned = r.returned
  mis : r'.misused = r.misused
  wc : r'.windowClosed = r.windowClosed
  canc : r'.cancelled = r.cancelled
  resps : r'.resps = r.resps ++ [tag]
  inT : r'.inTime = true → r.inTime = true ∨ (r.stopped = false ∧ notExhausted c now r = true)
  due : ∃ l, due = if r'.inTime && live now r then (r'.resps.head?.map fun tg => (id, Spec.Retransmit.Res.ok tg, l)) else none

theorem stim_resp (c : Cfg) (now id tag : Nat) (r : Rec) : Stim c now id tag r (respRec c now tag r) (respDue c now id tag r) := by
  refine ⟨rfl, rfl, rfl, rfl, rfl, rfl, rfl, rfl, ?_, ⟨_, rfl⟩⟩
  intro h
  simp only [respRec, Bool.or_eq_true] at h
  rcases h with h | h
  · exact Or.inl h
  · simp only [freshResp, Bool.and_eq_true, Bool.not_eq_true'] at h
    exact Or.inr ⟨h.1.2, h.2⟩

theorem stim_pig (c : Cfg) (now id tag : Nat) (r : Rec) (hk : r.kind = .req) :
    Stim c now id tag r (recvRec c now (.pig tag) r) (recvDue c now id (.pig tag) r) := by
  refine ⟨rfl, rfl, rfl, rfl, rfl, rfl, rfl, by simp [recvRec, recvResps, hk], ?_,
    ⟨r.lateWindow || (freshAck c now (.pig tag) r && r.count == c.maxRetransmit + 1 && r.passSince), ?_⟩⟩
  · intro h
    simp only [recvRec, Bool.or_eq_true] at h
    rcases h with h | h
    · exact Or.inl h
    · simp only [freshAck, Bool.and_eq_true, Bool.not_eq_true'] at h
      exact Or.inr ⟨h.1.1.2, h.2⟩
  · simp only [recvDue, hk, beq_self_eq_true, if_true, recvRec]

/-- A response (by token) for a request that is not pending any more (or never was): `deliver` on the model's side. -/
theorem deliver_nonpending_step {P : Params} {s : XState} {js : JState} (h : R P s js) (e : XEv) (id tag : Nat)
    (hstep : xstep P s e = liftBase s (deliver P s.base id tag))
    {c : Call} (hf : findCall s.base.calls id = some c) {r : Rec} (hr : getRec js id = some r)
    (hq : RelReq P c (findP s.base.pend id) (txCount s.base.log id) r) (hfx : findX s.xcalls id = none)
    (hnp : findP s.base.pend id = none) (hc1 : 1 ≤ txCount s.base.log id)
    (r' : Rec) (due : Option (Nat × Spec.Retransmit.Res × Bool)) (hid : r'.id = r.id)
    (happ : applyEv (cfgOf P) js (specEv e) = (setRec js r', due))
    (hst : Stim (cfgOf P) js.now id tag r r' due) (hack : r.acked = true → r'.acked = true)
    (hstp : r'.stopped = true) : StepOk P s js e := by
  obtain ⟨hcm, hcid⟩ := findCall_some hf
  have hget := getRec_setRec_self (r' := r') hr hid
  have hi1 : ((setRec js r').recs.map (·.id)).Nodup := by rw [ids_setRec]; exact h.nd
  have hinv := inv_deliver h.inv id tag (P := P)
  have hnotpend : isPending s.base.pend id = false := by rw [isPending_eq, hnp]; rfl
  obtain ⟨l, hdue⟩ := hst.due
  -- the tie for every other ID, whatever `deliver` does to the call of `id` and to the log (no transmission is added)
  have others : ∀ (b1 : State) (oy : Option Ret), (∀ y, oy = some y → y.id = id) →
      (∀ id', id' ≠ id → findCall b1.calls id' = findCall s.base.calls id') → b1.pend = s.base.pend →
      (∀ id', txCount b1.log id' = txCount s.base.log id') →
      ∀ id', id' ≠ id → RelO P { s with base := b1 } (updRet oy id' (getRec (setRec js r') id')) id' := by
    intro b1 oy hoy h1 h2 h3 id' hne
    have : updRet oy id' (getRec (setRec js r') id') = getRec js id' := by
      rw [hget]; simp only [hne, if_false]
      cases hoy' : oy with
      | none => rfl
      | some y =>
        have := hoy y hoy'
        have hne' : y.id ≠ id' := by rw [this]; exact fun e => hne e.symm
        simp [updRet, hne']
    rw [this]
    exact RelO_congr (s := s) (h1 id' hne) rfl (by rw [h2]) (h3 id') rfl (h.rel id')
  cases hph : c.phase with
  | waitSem =>
    have := h.inv.ws c hcm hph
    rw [hcid] at this; omega
  | done =>
    have hb : deliver P s.base id tag = { s.base with log := .got id tag :: s.base.log } := by simp [deliver, hf, hph]
    rw [hb] at hstep hinv
    have hret : r.returned = true := hq.ret.mpr hph
    refine base_plain h e _ [.got id tag] hstep hinv rfl rfl (by intro x hx; simp at hx; subst hx; trivial) none rfl _ _ happ rfl hi1
      (by intro y hy; cases hy) ?_ ?_
    · intro id' res l' hd
      rw [hdue, live_returned hret] at hd
      simp at hd
    · intro id'
      by_cases hne : id' = id
      · subst hne
        simp only [updRet, hget, if_true, RelO]
        left
        refine ⟨c, hf, hfx, ?_⟩
        refine ⟨by rw [hst.kind]; exact hq.kind, by rw [hst.count, txCount_cons_got]; exact hq.count, by rw [hst.dl]; exact hq.dl,
          by rw [hst.ret]; exact hq.ret, by rw [hst.mis]; exact hq.mis, by rw [hst.wc, hst.count]; exact hq.wc, by simp [PhRel, hph]⟩
      · exact others { s.base with log := .got id tag :: s.base.log } none (by intro y hy; cases hy) (fun _ _ => rfl) rfl (fun _ => by simp [txCount_cons_got]) id' hne
  | waitResp =>
    have hb : deliver P s.base id tag = finish { s.base with log := .got id tag :: s.base.log } id (.ok tag) := by
      simp [deliver, hf, hph]
    rw [hb] at hstep hinv
    have hp := hq.ph
    simp only [PhRel, hph] at hp
    have hret : r.returned = false := by
      cases hrr : r.returned with
      | false => rfl
      | true => have := hq.ret.mp hrr; rw [hph] at this; cases this
    refine base_plain h e _ [.ret id (.ok tag) s.base.now, .got id tag] hstep hinv rfl rfl
      (by intro x hx; simp at hx; rcases hx with hx | hx <;> subst hx <;> trivial)
      (some ⟨id, .ok tag, s.base.now⟩) rfl _ _ happ rfl hi1 ?_ ?_ ?_
    · intro y hy
      cases hy
      refine ⟨r', by rw [hget]; simp, ?_⟩
      refine And.intro (by rw [hst.ret]; exact hret) (And.intro (fun tg ht => ?_) (fun ht => by cases ht))
      cases ht
      exact ⟨by rw [hst.kind]; exact hq.kind, by rw [hst.resps]; simp⟩
    · intro id' res l' hd
      refine ⟨_, rfl, ?_⟩
      rw [hdue, hst.resps, hp.2.2.1] at hd
      split at hd
      · simp only [List.nil_append, List.head?_cons, Option.map_some, Option.some.injEq, Prod.mk.injEq] at hd
        exact ⟨hd.1, hd.2.1⟩
      · cases hd
    · intro id'
      by_cases hne : id' = id
      · subst hne
        simp only [updRet, hget, if_true, Option.map_some, RelO]
        left
        refine ⟨setPhase .done c, by simp [finish, findCall_updCall _ _ _ (setPhase_id _), hf], hfx, ?_⟩
        refine ⟨by simp only [retd]; rw [hst.kind]; exact hq.kind, ?_, by simp only [retd, setPhase]; rw [hst.dl]; exact hq.dl,
          by simp [retd, setPhase], by simp only [retd, setPhase]; rw [hst.mis]; exact hq.mis,
          by simp only [retd]; rw [hst.wc, hst.count]; exact hq.wc, by simp [PhRel, setPhase]⟩
        simp only [retd, finish, txCount_cons_ret, txCount_cons_got]
        rw [hst.count]; exact hq.count
      · refine others (finish { s.base with log := .got id tag :: s.base.log } id (.ok tag)) (some ⟨id, .ok tag, s.base.now⟩)
          (by intro y hy; cases hy; rfl) ?_ rfl ?_ id' hne
        · intro id'' hne'; simp [finish, findCall_updCall _ _ _ (setPhase_id _), hne']
        · intro id''; simp [finish, txCount_cons_ret, txCount_cons_got]
  | waitAck =>
    -- the request was given up by a housekeeping pass: the response is buffered (or dropped), nothing returns
    have hp := hq.ph
    simp only [PhRel, hph, hnp] at hp
    have hnodue : due = none ∧ (r'.cancelled = true ∨ (r'.windowClosed = true ∧ r'.inTime = false)) := by
      rcases hp with hcn | ⟨hw, hit⟩
      · refine ⟨?_, Or.inl (by rw [hst.canc]; exact hcn)⟩
        rw [hdue, live_cancelled hcn]; simp
      · have hni : r'.inTime = false := by
          cases hi' : r'.inTime with
          | false => rfl
          | true =>
            rcases hst.inT hi' with h1 | ⟨_, h2⟩
            · rw [hit] at h1; cases h1
            · rw [notExhausted_wc (c := cfgOf P) hw (hq.wc hw)] at h2; cases h2
        refine ⟨?_, Or.inr ⟨by rw [hst.wc]; exact hw, hni⟩⟩
        rw [hdue, hni]; simp
    have tie : ∀ (c' : Call), c'.phase = .waitAck → c'.deadline = c.deadline → c'.touched = c.touched →
        RelReq P c' none (txCount s.base.log id) r' := by
      intro c' h1 h2 h3
      refine ⟨by rw [hst.kind]; exact hq.kind, by rw [hst.count]; exact hq.count, by rw [hst.dl, h2]; exact hq.dl, ?_,
        by rw [hst.mis, h3]; exact hq.mis, by rw [hst.wc, hst.count]; exact hq.wc, by simp only [PhRel, h1]; exact hnodue.2⟩
      rw [hst.ret, h1]
      have := hq.ret
      rw [hph] at this
      exact this
    cases hbuf : c.buf with
    | some t0 =>
      have hb : deliver P s.base id tag = { s.base with log := .got id tag :: s.base.log } := by
        simp [deliver, hf, hph, hbuf]
      rw [hb] at hstep hinv
      refine base_plain h e _ [.got id tag] hstep hinv rfl rfl (by intro x hx; simp at hx; subst hx; trivial) none rfl _ _ happ rfl hi1
        (by intro y hy; cases hy) (by intro id' res l' hd; rw [hnodue.1] at hd; cases hd) ?_
      intro id'
      by_cases hne : id' = id
      · subst hne
        simp only [updRet, hget, if_true, RelO]
        left
        refine ⟨c, hf, hfx, ?_⟩
        simp only [hnp, txCount_cons_got]
        exact tie c hph rfl rfl
      · exact others { s.base with log := .got id tag :: s.base.log } none (by intro y hy; cases hy) (fun _ _ => rfl) rfl (fun _ => by simp [txCount_cons_got]) id' hne
    | none =>
      have hb : deliver P s.base id tag =
          { s.base with log := .got id tag :: s.base.log, calls := updCall s.base.calls id (setBuf tag) } := by
        simp [deliver, hf, hph, hbuf, hnotpend]
      rw [hb] at hstep hinv
      refine base_plain h e _ [.got id tag] hstep hinv rfl rfl (by intro x hx; simp at hx; subst hx; trivial) none rfl _ _ happ rfl hi1
        (by intro y hy; cases hy) (by intro id' res l' hd; rw [hnodue.1] at hd; cases hd) ?_
      intro id'
      by_cases hne : id' = id
      · subst hne
        simp only [updRet, hget, if_true, RelO]
        left
        refine ⟨setBuf tag c, by simp [findCall_updCall _ _ _ (setBuf_id _), hf], hfx, ?_⟩
        simp only [hnp, txCount_cons_got]
        exact tie (setBuf tag c) (by simp [setBuf, hph]) rfl rfl
      · refine others { s.base with log := .got id tag :: s.base.log, calls := updCall s.base.calls id (setBuf tag) } none
          (by intro y hy; cases hy) ?_ rfl (fun _ => by simp [txCount_cons_got]) id' hne
        intro id'' hne'; simp [findCall_updCall _ _ _ (setBuf_id _), hne']

theorem pos_of_not_queued {b : State} {id : Nat} (h : queued b id = false) : 1 ≤ txCount b.log id := by
  cases h0 : txCount b.log id with
  | zero => have := (queued_iff b id).mpr h0; rw [h] at this; cases this
  | succ n => omega

theorem step_resp_base {P : Params} {s : XState} {js : JState} (h : R P s js) (id tag : Nat)
    (hx : isX s id = false) (hqd : queued s.base id = false) : StepOk P s js (.resp id tag) := by
  have hstep : xstep P s (.resp id tag) = liftBase s (deliver P s.base id tag) := by
    simp [Model.RetransmitKinds.step, hx, hqd]
  have hpos := pos_of_not_queued hqd
  cases hf : findCall s.base.calls id with
  | none =>
    refine step_noop h _ (by rw [hstep]; simp [deliver, hf, liftBase]) ?_
    exact applyEv_resp_none (getRec_none_of_unknown h hf hx)
  | some c =>
    obtain ⟨hcm, hcid⟩ := findCall_some hf
    obtain ⟨r, hr, hfx, hq⟩ := relReq_of_call h hf
    have hc0 : r.count ≠ 0 := by rw [hq.count]; omega
    have happ := applyEv_resp_some (c := cfgOf P) (tag := tag) (con := false) hr hc0 hq.kind
    cases hp : findP s.base.pend id with
    | none =>
      exact deliver_nonpending_step h _ id tag hstep hf hr hq hfx hp hpos (respRec (cfgOf P) js.now tag r)
        (respDue (cfgOf P) js.now id tag r) rfl happ (stim_resp _ _ _ _ _) (fun ha => ha) rfl
    | some e0 =>
      -- the request is still pending: the response wakes the writer and the call returns it (F21)
      have hpend : isPending s.base.pend id = true := by rw [isPending_eq, hp]; rfl
      obtain ⟨c', hf', _, hph⟩ := pending_call h.inv hpend
      rw [hf] at hf'; cases hf'
      have hph' := hq.ph
      simp only [PhRel, hph, hp] at hph'
      obtain ⟨hstop, hinT, ht0, hresps, hbuf, hdl⟩ := hph'
      have hret : r.returned = false := by
        cases hrr : r.returned with
        | false => rfl
        | true => have := hq.ret.mp hrr; rw [hph] at this; cases this
      let b1 : State := addStop (finish { s.base with log := .got id tag :: s.base.log, calls := updCall s.base.calls id (setBuf tag), pend := dropPend s.base.pend id } id (.ok tag)) id
      have hb : deliver P s.base id tag = admitNext P b1 := by
        have hww : responseWakesWriter = true := rfl
        simp [deliver, hf, hph, hbuf, hpend, hww, acked, ackedPre, setBuf, b1, hcid]
      have hinv1 : Inv P b1 := by
        have h1 := inv_setBuf h.inv hcm (by rw [hph]; decide) tag
        have hmem : setBuf tag c ∈ updCall s.base.calls c.id (setBuf tag) := by
          have := mem_updCall_of_mem c.id (setBuf tag) hcm
          simpa using this
        have := inv_ackedPre h1 (setBuf tag c) hmem (by simp [setBuf, hph])
        simpa [ackedPre, setBuf, hcid, b1] using this
      have hget := getRec_setRec_self (r' := respRec (cfgOf P) js.now tag r) hr rfl
      rw [hb] at hstep
      refine base_admit h _ b1 [.stop id s.base.now, .ret id (.ok tag) s.base.now, .got id tag] hstep hinv1 rfl rfl
        (by intro x hx; simp at hx; rcases hx with hx | hx | hx <;> subst hx <;> trivial)
        (some ⟨id, .ok tag, s.base.now⟩) rfl _ _ happ rfl (by rw [ids_setRec]; exact h.nd) ?_ ?_ ?_
      · intro y hy
        cases hy
        refine ⟨respRec (cfgOf P) js.now tag r, by rw [hget]; simp, ?_⟩
        exact And.intro (by simp [respRec, hret]) (And.intro (fun tg ht => by cases ht; exact ⟨hq.kind, by simp [respRec]⟩)
          (fun ht => by cases ht))
      · intro id' res l hd
        refine ⟨_, rfl, ?_⟩
        simp only [respDue, hresps] at hd
        split at hd
        · simp only [List.nil_append, List.head?_cons, Option.map_some, Option.some.injEq, Prod.mk.injEq] at hd
          exact ⟨hd.1, hd.2.1⟩
        · cases hd
      · intro id'
        by_cases hne : id' = id
        · subst hne
          simp only [updRet, hget, if_true, Option.map_some, RelO]
          left
          refine ⟨setPhase .done (setBuf tag c), ?_, hfx, ?_⟩
          · simp [b1, addStop, finish, findCall_updCall _ _ _ (setPhase_id _), findCall_updCall _ _ _ (setBuf_id _), hf]
          · refine ⟨by simpa [retd, respRec] using hq.kind, ?_, by simpa [retd, respRec, setPhase, setBuf] using hq.dl,
              by simp [retd, setPhase], by simpa [retd, respRec, setPhase, setBuf] using hq.mis,
              by simpa [retd, respRec] using hq.wc, by simp [PhRel, setPhase]⟩
            simp only [b1, retd, respRec, addStop, finish, txCount_cons_stop, txCount_cons_ret, txCount_cons_got]
            exact hq.count
        · have hne' : id ≠ id' := fun e => hne e.symm
          simp only [updRet, hget, hne, hne', if_false]
          refine RelO_congr (s := s) ?_ rfl ?_ ?_ rfl (h.rel id')
          · simp [b1, addStop, finish, findCall_updCall _ _ _ (setPhase_id _), findCall_updCall _ _ _ (setBuf_id _), hne]
          · simp [b1, addStop, finish, findP_dropPend, hne]
          · simp [b1, addStop, finish, txCount_cons_stop, txCount_cons_ret, txCount_cons_got]

/-! ### a message carrying the message ID of a request -/

theorem recvMid_not_pending {P : Params} {b : State} {id : Nat} (k : Kind) (hnp : isPending b.pend id = false) :
    recvMid P b id k = match k with | .pig tag => deliver P b id tag | _ => b := by
  cases k <;> simp [recvMid, hnp]

/-- Not pending, and not a response: the model does nothing. -/
theorem step_recv_idle {P : Params} {s : XState} {js : JState} (h : R P s js) (id : Nat) (k : Kind)
    (hx : isX s id = false) (hk : ∀ tag, k ≠ .pig tag) (hnp : findP s.base.pend id = none) :
    StepOk P s js (.recvMid id k) := by
  have hnotpend : isPending s.base.pend id = false := by rw [isPending_eq, hnp]; rfl
  have hb : recvMid P s.base id k = s.base := by
    rw [recvMid_not_pending k hnotpend]
    cases k with
    | pig tag => exact (hk tag rfl).elim
    | ack => rfl
    | rst => rfl
  have hstep : xstep P s (.recvMid id k) = (s, []) := by
    have : xstep P s (.recvMid id k) = liftBase s (recvMid P s.base id k) := by
      cases k with
      | pig tag => exact (hk tag rfl).elim
      | ack => simp [Model.RetransmitKinds.step, hx]
      | rst => simp [Model.RetransmitKinds.step, hx]
    rw [this, hb]; simp [liftBase]
  cases hr : getRec js id with
  | none => exact step_noop h _ hstep (applyEv_recv_none hr)
  | some r =>
    by_cases hc0 : r.count = 0
    · exact step_noop h _ hstep (applyEv_recv_zero hr hc0)
    · have happ := applyEv_recv_some (c := cfgOf P) (k := specKind k) hr hc0
      have hget := getRec_setRec_self (r' := recvRec (cfgOf P) js.now (specKind k) r) hr rfl
      have hrel := h.rel id
      simp only [RelId, RelO, hr] at hrel
      rcases hrel with ⟨c, hf, hfx, hq⟩ | ⟨x, hfx, _, _⟩
      · obtain ⟨hcm, hcid⟩ := findCall_some hf
        have hresps : recvResps (specKind k) r = r.resps := by
          cases k with
          | pig tag => exact (hk tag rfl).elim
          | ack => rfl
          | rst => rfl
        -- nothing is demanded, and the record still fits the call
        have key : recvDue (cfgOf P) js.now id (specKind k) r = none ∧
            PhRel P c none (recvRec (cfgOf P) js.now (specKind k) r) := by
          have hp := hq.ph
          simp only [recvDue, hq.kind, beq_self_eq_true, if_true, hresps]
          cases hph : c.phase with
          | waitSem =>
            have := h.inv.ws c hcm hph
            rw [hcid, ← hq.count] at this
            exact (hc0 this).elim
          | done =>
            have hret : r.returned = true := hq.ret.mpr hph
            simp [live_returned hret, PhRel, hph]
          | waitResp =>
            simp only [PhRel, hph] at hp ⊢
            simp [hp.2.2.1, recvRec, hresps, hp.2.2.2]
          | waitAck =>
            simp only [PhRel, hph, hnp] at hp ⊢
            rcases hp with hcn | ⟨hw, hit⟩
            · simp [live_cancelled hcn, recvRec, hcn]
            · have hfr : freshAck (cfgOf P) js.now (specKind k) r = false := by
                simp [freshAck, notExhausted_wc (c := cfgOf P) hw (hq.wc hw)]
              simp [hit, hfr, recvRec, hw]
        refine finish_step h _ s [] hstep h.inv h.xpid h.xown none none rfl rfl _ _ happ (by rw [now_setRec, h.now])
          (by rw [ids_setRec]; exact h.nd) (by intro x hx; cases hx) (by intro y hy; cases hy) (by intro x y hx; cases hx)
          (by intro id' res l hd; rw [key.1] at hd; cases hd) ?_
        intro id'
        simp only [updRet, updTx, hget]
        by_cases hne : id' = id
        · subst hne
          simp only [if_true, RelO]
          left
          refine ⟨c, hf, hfx, ?_⟩
          rw [hnp]
          exact ⟨by simpa [recvRec] using hq.kind, by simpa [recvRec] using hq.count, by simpa [recvRec] using hq.dl,
            by simpa [recvRec] using hq.ret, by simpa [recvRec] using hq.mis, by simpa [recvRec] using hq.wc, key.2⟩
        · simp only [hne, if_false]
          exact h.rel id'
      · rw [isX_eq, hfx] at hx; cases hx

/-- Not pending, a piggybacked response: it goes to the token handler. -/
theorem step_pig_idle {P : Params} {s : XState} {js : JState} (h : R P s js) (id tag : Nat)
    (hx : isX s id = false) (hqd : queued s.base id = false) (hnp : findP s.base.pend id = none) :
    StepOk P s js (.recvMid id (.pig tag)) := by
  have hnotpend : isPending s.base.pend id = false := by rw [isPending_eq, hnp]; rfl
  have hstep : xstep P s (.recvMid id (.pig tag)) = liftBase s (deliver P s.base id tag) := by
    simp [Model.RetransmitKinds.step, hx, hqd, recvMid_not_pending (.pig tag) hnotpend]
  have hpos := pos_of_not_queued hqd
  cases hf : findCall s.base.calls id with
  | none =>
    refine step_noop h _ (by rw [hstep]; simp [deliver, hf, liftBase]) ?_
    exact applyEv_recv_none (getRec_none_of_unknown h hf hx)
  | some c =>
    obtain ⟨r, hr, hfx, hq⟩ := relReq_of_call h hf
    have hc0 : r.count ≠ 0 := by rw [hq.count]; omega
    have happ := applyEv_recv_some (c := cfgOf P) (k := .pig tag) hr hc0
    exact deliver_nonpending_step h _ id tag hstep hf hr hq hfx hnp hpos (recvRec (cfgOf P) js.now (.pig tag) r)
      (recvDue (cfgOf P) js.now id (.pig tag) r) rfl happ (stim_pig _ _ _ _ _ hq.kind) (fun _ => rfl) rfl

/-- The state after `writeMessage` has been woken and `doInternal` goes on to wait for the response. -/
def wokenState (b : State) (id : Nat) : State :=
  { b with calls := updCall b.calls id (setPhase .waitResp), pend := dropPend b.pend id, log := .stop id b.now :: b.log }

/-- Facts about a pending request, collected. -/
theorem pending_facts {P : Params} {s : XState} {js : JState} (h : R P s js) {id : Nat} {e0 : Pend}
    (hp : findP s.base.pend id = some e0) :
    ∃ c r, findCall s.base.calls id = some c ∧ c ∈ s.base.calls ∧ c.id = id ∧ c.phase = .waitAck ∧ c.buf = none ∧
      getRec js id = some r ∧ findX s.xcalls id = none ∧ RelReq P c (some e0) (txCount s.base.log id) r ∧
      r.stopped = false ∧ r.inTime = false ∧ r.resps = [] ∧ r.returned = false ∧ 1 ≤ r.count ∧
      acked P s.base c = admitNext P (wokenState s.base id) ∧ Inv P (wokenState s.base id) := by
  have hpend : isPending s.base.pend id = true := by rw [isPending_eq, hp]; rfl
  obtain ⟨c, hf, hcm, hph⟩ := pending_call h.inv hpend
  obtain ⟨_, hcid⟩ := findCall_some hf
  obtain ⟨r, hr, hfx, hq⟩ := relReq_of_call h hf
  rw [hp] at hq
  have hph' := hq.ph
  simp only [PhRel, hph] at hph'
  obtain ⟨hstop, hinT, ht0, hresps, hbuf, hdl⟩ := hph'
  have hret : r.returned = false := by
    cases hrr : r.returned with
    | false => rfl
    | true => have := hq.ret.mp hrr; rw [hph] at this; cases this
  obtain ⟨hm0, hid0⟩ := findP_some hp
  have hcnt := (h.inv.cnt e0 hm0).1
  rw [hid0] at hcnt
  refine ⟨c, r, hf, hcm, hcid, hph, hbuf, hr, hfx, hq, hstop, hinT, hresps, hret, by rw [hq.count, hcnt]; omega, ?_, ?_⟩
  · simp [acked, ackedPre, hbuf, addStop, wokenState, hcid]
  · have := inv_ackedPre h.inv c hcm hph
    simpa [ackedPre, hbuf, addStop, wokenState, hcid] using this

/-- Pending, an acknowledgement or a reset: the writer is woken, the call waits for its response. -/
theorem step_recv_pending {P : Params} {s : XState} {js : JState} (h : R P s js) (id : Nat) (k : Kind)
    (hx : isX s id = false) (hk : ∀ tag, k ≠ .pig tag) {e0 : Pend} (hp : findP s.base.pend id = some e0) :
    StepOk P s js (.recvMid id k) := by
  obtain ⟨c, r, hf, hcm, hcid, hph, hbuf, hr, hfx, hq, hstop, hinT, hresps, hret, hpos, hack, hinv1⟩ := pending_facts h hp
  have hpend : isPending s.base.pend id = true := by rw [isPending_eq, hp]; rfl
  have hstep : xstep P s (.recvMid id k) = liftBase s (admitNext P (wokenState s.base id)) := by
    cases k with
    | pig tag => exact (hk tag rfl).elim
    | ack => simp [Model.RetransmitKinds.step, hx, recvMid, hpend, hf, hack]
    | rst => simp [Model.RetransmitKinds.step, hx, recvMid, hpend, hf, hack]
  have hc0 : r.count ≠ 0 := by omega
  have happ := applyEv_recv_some (c := cfgOf P) (k := specKind k) hr hc0
  have hget := getRec_setRec_self (r' := recvRec (cfgOf P) js.now (specKind k) r) hr rfl
  have hrr : recvResps (specKind k) r = [] := by
    rw [← hresps]
    cases k with
    | pig tag => exact (hk tag rfl).elim
    | ack => rfl
    | rst => rfl
  refine base_admit h _ (wokenState s.base id) [.stop id s.base.now] hstep hinv1 rfl rfl
    (by intro x hx; simp at hx; subst hx; trivial) none rfl _ _ happ rfl (by rw [ids_setRec]; exact h.nd)
    (by intro y hy; cases hy) ?_ ?_
  · intro id' res l hd
    simp [recvDue, hq.kind, hrr] at hd
  · intro id'
    by_cases hne : id' = id
    · subst hne
      simp only [updRet, hget, if_true, RelO]
      left
      refine ⟨setPhase .waitResp c, by simp [wokenState, findCall_updCall _ _ _ (setPhase_id _), hf], hfx, ?_⟩
      refine ⟨by simpa [recvRec] using hq.kind, ?_, by simpa [recvRec, setPhase] using hq.dl, by simp [recvRec, setPhase, hret],
        by simpa [recvRec, setPhase] using hq.mis, by simpa [recvRec] using hq.wc, ?_⟩
      · simp only [recvRec, wokenState, txCount_cons_stop]; exact hq.count
      · simp only [PhRel, setPhase, recvRec, hrr]
        exact ⟨trivial, trivial, trivial, hpos⟩
    · have hne' : id ≠ id' := fun e => hne e.symm
      simp only [updRet, hget, hne, if_false]
      refine RelO_congr (s := s) ?_ rfl ?_ ?_ rfl (h.rel id')
      · simp [wokenState, findCall_updCall _ _ _ (setPhase_id _), hne]
      · simp [wokenState, findP_dropPend, hne]
      · simp [wokenState, txCount_cons_stop]

/-- Pending, a piggybacked response: the writer is woken (the next queued request is admitted) and the call returns the response. -/
theorem step_pig_pending {P : Params} {s : XState} {js : JState} (h : R P s js) (id tag : Nat)
    (hx : isX s id = false) (hqd : queued s.base id = false) {e0 : Pend} (hp : findP s.base.pend id = some e0) :
    StepOk P s js (.recvMid id (.pig tag)) := by
  obtain ⟨c, r, hf, hcm, hcid, hph, hbuf, hr, hfx, hq, hstop, hinT, hresps, hret, hpos, hack, hinv1⟩ := pending_facts h hp
  have hpend : isPending s.base.pend id = true := by rw [isPending_eq, hp]; rfl
  let b1 := wokenState s.base id
  let b2 := admitNext P b1
  have hstep : xstep P s (.recvMid id (.pig tag)) = liftBase s (deliver P b2 id tag) := by
    simp [Model.RetransmitKinds.step, hx, hqd, recvMid, hpend, hf, hack, b2, b1]
  obtain ⟨oc1, hadm, hlog2, hnow2⟩ := admitNext_views (P := P) hinv1
  have hf1 : findCall b1.calls id = some (setPhase .waitResp c) := by
    simp [b1, wokenState, findCall_updCall _ _ _ (setPhase_id _), hf]
  -- the admitted request is another one
  have hne1 : ∀ c1, oc1 = some c1 → c1.id ≠ id := by
    intro c1 hc1 heq
    obtain ⟨hfc1, hph1, _⟩ := hadm.2 c1 hc1
    rw [heq, hf1] at hfc1
    cases hfc1
    cases hph1
  have hf2 : findCall b2.calls id = some (setPhase .waitResp c) := by
    cases hoc : oc1 with
    | none => rw [((hadm.1 hoc) id).1]; exact hf1
    | some c1 =>
      obtain ⟨_, _, hv⟩ := hadm.2 c1 hoc
      rw [(hv id).1]
      have hne' : ¬ id = c1.id := fun e => hne1 c1 hoc e.symm
      rw [if_neg hne']
      exact hf1
  have hb' : deliver P b2 id tag = finish { b2 with log := .got id tag :: b2.log } id (.ok tag) := by
    simp [deliver, hf2, setPhase]
  let b1v := finish { b1 with log := .got id tag :: b1.log } id (.ok tag)
  have hb1v : deliver P b1 id tag = b1v := by simp [deliver, hf1, setPhase, b1v]
  have hinv1v : Inv P b1v := by rw [← hb1v]; exact inv_deliver hinv1 id tag
  have hinv' : Inv P (deliver P b2 id tag) := inv_deliver (inv_admitNext hinv1) id tag
  rw [hb'] at hstep hinv'
  -- the tables after the step, against those of the state in which the call has returned but nothing is admitted yet
  have hview : AdmitView s.base.now b1v (finish { b2 with log := .got id tag :: b2.log } id (.ok tag)) oc1 := by
    refine And.intro ?_ ?_
    · intro hoc id'
      have hv := hadm.1 hoc id'
      refine ⟨?_, ?_, ?_⟩
      · simp only [finish, b1v, findCall_updCall _ _ _ (setPhase_id _)]
        rw [show findCall b2.calls id' = findCall b1.calls id' from hv.1]
      · exact hv.2.1
      · simp only [finish, b1v, txCount_cons_ret, txCount_cons_got]
        exact hv.2.2
    · intro c1 hoc
      obtain ⟨hfc1, hph1, hv⟩ := hadm.2 c1 hoc
      have hne := hne1 c1 hoc
      refine ⟨?_, hph1, fun id' => ⟨?_, ?_, ?_⟩⟩
      · simp only [finish, b1v, findCall_updCall _ _ _ (setPhase_id _), hne, if_false]
        exact hfc1
      · simp only [finish, b1v, findCall_updCall _ _ _ (setPhase_id _)]
        rw [show findCall b2.calls id' = _ from (hv id').1]
        by_cases h1 : id' = c1.id
        · subst h1; simp [hne]
        · simp [h1, b1]
      · rw [show (finish { b2 with log := .got id tag :: b2.log } id (.ok tag)).pend = b2.pend from rfl, (hv id').2.1]
        rfl
      · simp only [finish, b1v, txCount_cons_ret, txCount_cons_got]
        exact (hv id').2.2
  have hc0 : r.count ≠ 0 := by omega
  have happ := applyEv_recv_some (c := cfgOf P) (k := .pig tag) hr hc0
  have hget := getRec_setRec_self (r' := recvRec (cfgOf P) js.now (.pig tag) r) hr rfl
  have hrr : recvResps (.pig tag) r = [tag] := by simp [recvResps, hq.kind, hresps]
  have hlog' : (finish { b2 with log := .got id tag :: b2.log } id (.ok tag)).log =
      (.ret id (.ok tag) s.base.now :: .got id tag :: (admitEntry s.base.now oc1 ++ [.stop id s.base.now])) ++ s.base.log := by
    have hn2 := hnow2
    simp only [wokenState] at hn2
    simp only [finish, b2]
    rw [hlog2]
    simp [b1, wokenState, hn2]
  refine base_tail h _ b1v _ _ (by rw [hstep, liftBase_added s _ _ hlog']) hinv1v hinv' hnow2 oc1 hview
    (some ⟨id, .ok tag, s.base.now⟩) ?_ ?_ _ _ happ rfl (by rw [ids_setRec]; exact h.nd) ?_ ?_ ?_
  · rw [hlog']
    cases oc1 with
    | none => simp [admitEntry, outOf, txOf]
    | some c1 => simp [admitEntry, outOf, txOf, firstMsg, List.filterMap_cons, List.findSome?_cons]
  · rw [hlog']
    cases oc1 with
    | none => simp [admitEntry, outOf, retOf, specRes]
    | some c1 => simp [admitEntry, outOf, retOf, specRes]
  · intro y hy
    cases hy
    refine ⟨recvRec (cfgOf P) js.now (.pig tag) r, by rw [hget]; simp, ?_⟩
    exact And.intro (by simp [recvRec, hret]) (And.intro (fun tg ht => by cases ht; exact ⟨hq.kind, by simp [recvRec, hrr]⟩)
      (fun ht => by cases ht))
  · intro id' res l hd
    refine ⟨_, rfl, ?_⟩
    simp only [recvDue, hq.kind, beq_self_eq_true, if_true, hrr] at hd
    split at hd
    · simp only [List.head?_cons, Option.map_some, Option.some.injEq, Prod.mk.injEq] at hd
      exact ⟨hd.1, hd.2.1⟩
    · cases hd
  · intro id'
    by_cases hne : id' = id
    · subst hne
      simp only [updRet, hget, if_true, Option.map_some, RelO]
      left
      refine ⟨setPhase .done (setPhase .waitResp c), ?_, hfx, ?_⟩
      · simp [b1v, finish, findCall_updCall _ _ _ (setPhase_id _), hf1]
      · refine ⟨by simpa [retd, recvRec] using hq.kind, ?_, by simpa [retd, recvRec, setPhase] using hq.dl,
          by simp [retd, setPhase], by simpa [retd, recvRec, setPhase] using hq.mis,
          by simpa [retd, recvRec] using hq.wc, by simp [PhRel, setPhase]⟩
        simp only [b1v, b1, wokenState, retd, recvRec, finish, txCount_cons_stop, txCount_cons_ret, txCount_cons_got]
        exact hq.count
    · have hne' : id ≠ id' := fun e => hne e.symm
      simp only [updRet, hget, hne, hne', if_false]
      refine RelO_congr (s := s) ?_ rfl ?_ ?_ rfl (h.rel id')
      · simp [b1v, b1, wokenState, finish, findCall_updCall _ _ _ (setPhase_id _), hne]
      · simp [b1v, b1, wokenState, finish, findP_dropPend, hne]
      · simp [b1v, b1, wokenState, finish, txCount_cons_stop, txCount_cons_ret, txCount_cons_got]

/-! ### a housekeeping pass -/

/-- Several transmissions in one step (a housekeeping pass), of pairwise different exchanges. -/
theorem foldV_checkTx_all (c : Cfg) : ∀ (txs : List Tx) (js : JState), (txs.map (·.id)).Nodup →
    (∀ x ∈ txs, ∃ r, getRec js x.id = some r ∧ TxOk c r x) →
    ∃ js', foldV (checkTx c) js txs = (js', .ok) ∧ js'.now = js.now ∧ js'.recs.map (·.id) = js.recs.map (·.id) ∧
      (∀ x ∈ txs, ∃ r, getRec js x.id = some r ∧ getRec js' x.id = some (bump x r)) ∧
      (∀ id, (∀ x ∈ txs, x.id ≠ id) → getRec js' id = getRec js id)
  | [], js, _, _ => ⟨js, rfl, rfl, rfl, fun x hx => (by cases hx), fun _ _ => rfl⟩
  | x :: t, js, hn, hall => by
    simp only [List.map_cons, List.nodup_cons] at hn
    obtain ⟨r, hr, hok⟩ := hall x List.mem_cons_self
    have hget := getRec_setRec_self (r' := bump x r) hr rfl
    have hne : ∀ x' ∈ t, x'.id ≠ x.id := by
      intro x' hx' heq
      exact hn.1 (heq ▸ List.mem_map.mpr ⟨x', hx', rfl⟩)
    obtain ⟨js', hf, hnow, hids, hin, hout⟩ := foldV_checkTx_all c t (setRec js (bump x r)) hn.2 (by
      intro x' hx'
      obtain ⟨r', hr', hok'⟩ := hall x' (List.mem_cons_of_mem _ hx')
      refine ⟨r', ?_, hok'⟩
      rw [hget]; simp [hne x' hx', hr'])
    refine ⟨js', ?_, hnow, by rw [hids, ids_setRec], ?_, ?_⟩
    · simp only [foldV, checkTx_ok hr hok]
      exact hf
    · intro x' hx'
      cases hx' with
      | head =>
        refine ⟨r, hr, ?_⟩
        rw [hout x.id (fun x'' hx'' => hne x'' hx''), hget]; simp
      | tail _ hx' =>
        obtain ⟨r', hr', hb⟩ := hin x' hx'
        rw [hget] at hr'
        simp only [hne x' hx', if_false] at hr'
        exact ⟨r', hr', hb⟩
    · intro id hid
      rw [hout id (fun x' hx' => hid x' (List.mem_cons_of_mem _ hx')), hget]
      have : id ≠ x.id := fun e => hid x List.mem_cons_self e.symm
      simp [this]

/-- What a pass does to the entry of `id` (IDs of the table are distinct). -/
theorem findP_tick (P : Params) (t : Nat) : ∀ (ps : List Pend), (ps.map (·.id)).Nodup → ∀ id,
    findP (tickList P t ps).1 id = match findP ps id with
      | none => none
      | some e => if dropped P t e then none else if due P t e then some { e with n := e.n + 1 } else some e
  | [], _, id => by simp [tickList, findP]
  | e :: r, hn, id => by
    simp only [List.map_cons, List.nodup_cons] at hn
    have ih := findP_tick P t r hn.2 id
    rw [tickList_cons]
    by_cases hid : e.id = id
    · have hnone : findP r id = none := by
        cases hf : findP r id with
        | none => rfl
        | some e' =>
          obtain ⟨hm, hid'⟩ := findP_some hf
          exact (hn.1 (List.mem_map.mpr ⟨e', hm, by rw [hid', hid]⟩)).elim
      have hhead : findP (e :: r) id = some e := by simp [findP, List.find?_cons, hid]
      rw [hhead]
      by_cases h1 : dropped P t e = true
      · simp only [h1, if_true]; rw [ih, hnone]
      · by_cases h2 : due P t e = true
        · simp [h1, h2, findP, List.find?_cons, hid]
        · simp [h1, h2, findP, List.find?_cons, hid]
    · have hid' : (e.id == id) = false := by simpa using hid
      have htail : findP (e :: r) id = findP r id := by simp [findP, List.find?_cons, hid']
      rw [htail, ← ih]
      by_cases h1 : dropped P t e = true
      · simp only [h1, if_true]
      · by_cases h2 : due P t e = true
        · simp [h1, h2, findP, List.find?_cons, hid']
        · simp [h1, h2, findP, List.find?_cons, hid']

/-- The copies a pass writes, as the judge's transmissions. -/
theorem tick_txs (P : Params) (t : Nat) (g : Entry → Option Tx) (same : Pend → Bool)
    (hg : ∀ e : Pend, g (.tx e.id (e.n + 1) t e.msg) = some ⟨e.id, t, same e⟩) : ∀ (ps : List Pend),
    (tickList P t ps).2.filterMap g = (ps.filter (bumped P t)).map (fun e => (⟨e.id, t, same e⟩ : Tx))
  | [] => by simp [tickList]
  | e :: r => by
    rw [tickList_cons]
    have ih := tick_txs P t g same hg r
    by_cases h1 : dropped P t e = true
    · have hb : bumped P t e = false := by simp [bumped, h1]
      simp [h1, hb, ih]
    · by_cases h2 : due P t e = true
      · have hb : bumped P t e = true := by simp [bumped, h1, h2]
        simp [h1, h2, hb, ih, hg]
      · have hb : bumped P t e = false := by simp [bumped, h2]
        simp [h1, h2, hb, ih]

theorem tick_no_rets (P : Params) (t : Nat) (log : List Entry) : ∀ (ps : List Pend),
    ((tickList P t ps).2.filterMap (outOf log)).filterMap retOf = []
  | [] => by simp [tickList]
  | e :: r => by
    rw [tickList_cons]
    have ih := tick_no_rets P t log r
    by_cases h1 : dropped P t e = true
    · simp only [h1, if_true]; exact ih
    · by_cases h2 : due P t e = true
      · simp only [h1, h2, if_true, Bool.false_eq_true, if_false, List.filterMap_cons, outOf, retOf]; exact ih
      · simp only [h1, h2, Bool.false_eq_true, if_false]; exact ih

theorem tick_no_rets_x (P : Params) (t : Nat) : ∀ (ps : List Pend),
    ((tickList P t ps).2.filterMap txOut).filterMap retOf = []
  | [] => by simp [tickList]
  | e :: r => by
    rw [tickList_cons]
    have ih := tick_no_rets_x P t r
    by_cases h1 : dropped P t e = true
    · simp only [h1, if_true]; exact ih
    · by_cases h2 : due P t e = true
      · simp only [h1, h2, if_true, Bool.false_eq_true, if_false, List.filterMap_cons, txOut, retOf]; exact ih
      · simp only [h1, h2, Bool.false_eq_true, if_false]; exact ih

/-- Retransmissions are labelled 1, 2, …: they do not change what the first transmission of a request was. -/
theorem firstMsg_tick (P : Params) (t : Nat) (log : List Entry) (id : Nat) : ∀ (ps : List Pend),
    firstMsg ((tickList P t ps).2 ++ log) id = firstMsg log id
  | [] => by simp [tickList]
  | e :: r => by
    rw [tickList_cons]
    have ih := firstMsg_tick P t log id r
    by_cases h1 : dropped P t e = true
    · simp only [h1, if_true]; exact ih
    · by_cases h2 : due P t e = true
      · simp only [h1, h2, if_true, Bool.false_eq_true, if_false, List.cons_append]
        simp only [firstMsg, List.findSome?_cons] at ih ⊢
        exact ih
      · simp only [h1, h2, Bool.false_eq_true, if_false]; exact ih

/-- The number of transmissions of `id` after a pass. -/
theorem txCount_tick (P : Params) (t : Nat) (log : List Entry) (ps : List Pend) (hn : (ps.map (·.id)).Nodup) (id : Nat) :
    txCount ((tickList P t ps).2 ++ log) id = txCount log id +
      (match findP ps id with | some e => if bumped P t e then 1 else 0 | none => 0) := by
  rw [txCount_append, tick_count, Nat.add_comm]
  cases hf : findP ps id with
  | none =>
    simp only
    rw [countP_id_zero ps id _ (findP_none hf)]
  | some e =>
    obtain ⟨hm, hid⟩ := findP_some hf
    have := countP_id_unique (bumped P t) ps hn e hm
    rw [hid] at this
    simp only [this]

theorem tickRec_wc_eq (c : Cfg) (t : Nat) (r : Rec) : (tickRec c t r).windowClosed =
    (r.windowClosed || (r.count == c.maxRetransmit + 1 && decide (t > r.t0 + (c.maxRetransmit + 1) * c.ackTimeout))) := by
  unfold tickRec
  cases r.deadline with
  | none => rfl
  | some d => simp only []; split <;> rfl

theorem tickRec_cancelled_eq (c : Cfg) (t : Nat) (r : Rec) : (tickRec c t r).cancelled =
    (r.cancelled || (match r.deadline with | some d => decide (t > d) | none => false)) := by
  unfold tickRec
  cases r.deadline with
  | none => simp
  | some d =>
    simp only []
    by_cases h : t > d <;> simp [h]

theorem tickRec_wc_imp {c : Cfg} {t : Nat} {r : Rec} (h : r.windowClosed = true → r.count = c.maxRetransmit + 1) :
    (tickRec c t r).windowClosed = true → (tickRec c t r).count = c.maxRetransmit + 1 := by
  rw [tickRec_wc_eq, tickRec_count']
  intro hw
  simp only [Bool.or_eq_true, Bool.and_eq_true, beq_iff_eq] at hw
  rcases hw with hw | hw
  · exact h hw
  · exact hw.1

theorem dropped_iff (P : Params) (t : Nat) (e : Pend) : dropped P t e = true ↔
    (pastDeadline t e.deadline = true ∨ (P.maxRetransmit ≤ e.n ∧ e.start + (e.n + 1) * P.ackTimeout < t)) := by
  have h1 : expiredWhenGE = true := rfl
  have h2 : exhaustionWaitsLastTimeout = true := rfl
  have h3 : lastCopyAddend = 1 := rfl
  simp [dropped, exhausted, lastTimeoutPassed, h1, h2, h3]

/-- One pending entry and its record through a pass (requests, pings and writes alike). -/
theorem tick_entry {P : Params} {t : Nat} {e : Pend} {r : Rec} (hit : r.inTime = false) (h0 : r.t0 = e.start)
    (hc : r.count = e.n + 1) (hn : e.n ≤ P.maxRetransmit) (hdl : e.deadline = none ∨ e.deadline = r.deadline)
    (hwc : r.windowClosed = true → r.count = P.maxRetransmit + 1) :
    (dropped P t e = true → (tickRec (cfgOf P) t r).cancelled = true ∨
      ((tickRec (cfgOf P) t r).windowClosed = true ∧ (tickRec (cfgOf P) t r).inTime = false)) ∧
    (bumped P t e = true → r.count < 1 + P.maxRetransmit ∧ r.t0 + r.count * P.ackTimeout ≤ t ∧
      (tickRec (cfgOf P) t r).windowClosed = false) := by
  constructor
  · intro hd
    rcases (dropped_iff P t e).mp hd with hd | ⟨hd1, hd2⟩
    · left
      rw [tickRec_cancelled_eq]
      cases hed : e.deadline with
      | none => rw [hed] at hd; cases hd
      | some d =>
        rw [hed] at hd hdl
        rcases hdl with hdl | hdl
        · cases hdl
        · rw [← hdl]
          simp only [pastDeadline, decide_eq_true_eq] at hd
          simp [hd]
    · right
      refine ⟨?_, by rw [tickRec_inTime']; exact hit⟩
      rw [tickRec_wc_eq]
      have hnm : e.n = P.maxRetransmit := by omega
      have h1 : r.count = (cfgOf P).maxRetransmit + 1 := by rw [hc, hnm]; rfl
      have h2 : t > r.t0 + ((cfgOf P).maxRetransmit + 1) * (cfgOf P).ackTimeout := by
        rw [h0]
        show e.start + (P.maxRetransmit + 1) * P.ackTimeout < t
        rw [← hnm]; exact hd2
      simp [h1, h2]
  · intro hb
    simp only [bumped, Bool.and_eq_true, Bool.not_eq_true'] at hb
    have hlt := lt_of_not_exhausted (not_exhausted_of_kept_due hb.1 hb.2)
    have hsp := spacing_of_due hb.2
    refine ⟨by omega, by rw [h0, hc]; omega, ?_⟩
    rw [tickRec_wc_eq]
    have h1 : r.windowClosed = false := by
      cases hw : r.windowClosed with
      | false => rfl
      | true => have := hwc hw; omega
    have h2 : (r.count == (cfgOf P).maxRetransmit + 1) = false := by
      have : r.count ≠ P.maxRetransmit + 1 := by omega
      simpa [cfgOf] using this
    simp [h1, h2]

/-- A request without pending entry through a pass. -/
theorem relReq_tick_none {P : Params} {c : Call} {cnt : Nat} {r : Rec} (t : Nat) (hq : RelReq P c none cnt r) :
    RelReq P c none cnt (tickRec (cfgOf P) t r) := by
  refine ⟨by simpa using hq.kind, by simpa using hq.count, by simpa using hq.dl, by simpa using hq.ret,
    by simpa using hq.mis, tickRec_wc_imp (c := cfgOf P) hq.wc, ?_⟩
  have hp := hq.ph
  simp only [PhRel] at hp ⊢
  cases hph : c.phase with
  | waitSem => simpa [hph] using hp
  | waitResp => simpa [hph] using hp
  | done => trivial
  | waitAck =>
    simp only [hph] at hp ⊢
    rcases hp with hp | hp
    · left; rw [tickRec_cancelled_eq, hp]; rfl
    · right; rw [tickRec_wc_eq, hp.1]; simp [hp.2]

/-- A pending request through a pass: given up, retransmitted, or left alone. -/
theorem relReq_tick_some {P : Params} {c : Call} {e : Pend} {cnt : Nat} {r : Rec} (t : Nat)
    (hq : RelReq P c (some e) cnt r) (hph : c.phase = .waitAck) (hcnt : cnt = e.n + 1) (hn : e.n ≤ P.maxRetransmit) :
    (dropped P t e = true → RelReq P c none cnt (tickRec (cfgOf P) t r)) ∧
    (bumped P t e = true → ∀ same : Bool, (same = true ∨ r.misused = true) →
      TxOk (cfgOf P) (tickRec (cfgOf P) t r) ⟨e.id, t, same⟩ ∧
      RelReq P c (some { e with n := e.n + 1 }) (cnt + 1) (bump ⟨e.id, t, same⟩ (tickRec (cfgOf P) t r))) ∧
    (dropped P t e = false → due P t e = false → RelReq P c (some e) cnt (tickRec (cfgOf P) t r)) := by
  have hp := hq.ph
  simp only [PhRel, hph] at hp
  obtain ⟨hstop, hit, h0, hresps, hbuf, hdl⟩ := hp
  have hc : r.count = e.n + 1 := by rw [hq.count, hcnt]
  obtain ⟨hdrop, hbump⟩ := tick_entry (P := P) (t := t) hit h0 hc hn (Or.inr (by rw [hdl, hq.dl])) hq.wc
  have base : ∀ pe, PhRel P c pe (tickRec (cfgOf P) t r) → RelReq P c pe cnt (tickRec (cfgOf P) t r) := fun pe hpe =>
    ⟨by simpa using hq.kind, by simpa using hq.count, by simpa using hq.dl, by simpa using hq.ret,
      by simpa using hq.mis, tickRec_wc_imp (c := cfgOf P) hq.wc, hpe⟩
  refine ⟨fun hd => base none ?_, fun hb same hs => ?_, fun _ _ => base (some e) ?_⟩
  · simp only [PhRel, hph]; exact hdrop hd
  · obtain ⟨h1, h2, h3⟩ := hbump hb
    refine ⟨⟨by simpa using hstop, by simp only [tickRec_count']; exact h1,
      fun _ => by simp only [tickRec_count', tickRec_t0']; exact h2, ?_⟩, ?_⟩
    · rcases hs with hs | hs
      · exact Or.inl hs
      · exact Or.inr (by simpa using hs)
    · have hc0 : (tickRec (cfgOf P) t r).count ≠ 0 := by rw [tickRec_count', hc]; omega
      refine ⟨by simpa [bump] using hq.kind, by simp [bump, hq.count], by simpa [bump] using hq.dl,
        by simpa [bump] using hq.ret, by simpa [bump] using hq.mis, ?_, ?_⟩
      · intro hw
        simp only [bump] at hw
        rw [h3] at hw; cases hw
      · simp only [PhRel, hph, bump, hc0, if_false]
        exact ⟨by simpa using hstop, by simpa using hit, by simpa using h0, by simpa using hresps, hbuf, hdl⟩
  · simp only [PhRel, hph]
    exact ⟨by simpa using hstop, by simpa using hit, by simpa using h0, by simpa using hresps, hbuf, hdl⟩

theorem relX_tick_none {P : Params} {x : XCall} {r : Rec} (t : Nat) (hq : RelX P x none r) :
    RelX P x none (tickRec (cfgOf P) t r) := by
  refine ⟨by simpa using hq.kind, by simpa using hq.ret, tickRec_wc_imp (c := cfgOf P) hq.wc, by simpa using hq.pos, ?_⟩
  have hp := hq.ph
  simp only [XPhRel] at hp ⊢
  rcases hp with hp | hp | hp
  · exact Or.inl hp
  · right; left; rw [tickRec_cancelled_eq, hp]; rfl
  · right; right; rw [tickRec_wc_eq, hp.1]; simp [hp.2]

theorem relX_tick_some {P : Params} {x : XCall} {e : Pend} {r : Rec} (t : Nat) (hq : RelX P x (some e) r) :
    (dropped P t e = true → RelX P x none (tickRec (cfgOf P) t r)) ∧
    (bumped P t e = true → TxOk (cfgOf P) (tickRec (cfgOf P) t r) ⟨e.id, t, true⟩ ∧
      RelX P x (some { e with n := e.n + 1 }) (bump ⟨e.id, t, true⟩ (tickRec (cfgOf P) t r))) ∧
    (dropped P t e = false → due P t e = false → RelX P x (some e) (tickRec (cfgOf P) t r)) := by
  have hp := hq.ph
  simp only [XPhRel] at hp
  obtain ⟨hw, hstop, hit, h0, hc, hn, hdl⟩ := hp
  obtain ⟨hdrop, hbump⟩ := tick_entry (P := P) (t := t) hit h0 hc hn hdl hq.wc
  have base : ∀ pe, XPhRel P x pe (tickRec (cfgOf P) t r) → RelX P x pe (tickRec (cfgOf P) t r) := fun pe hpe =>
    ⟨by simpa using hq.kind, by simpa using hq.ret, tickRec_wc_imp (c := cfgOf P) hq.wc, by simpa using hq.pos, hpe⟩
  refine ⟨fun hd => base none ?_, fun hb => ?_, fun _ _ => base (some e) ?_⟩
  · simp only [XPhRel]; exact Or.inr (hdrop hd)
  · obtain ⟨h1, h2, h3⟩ := hbump hb
    refine ⟨⟨by simpa using hstop, by simp only [tickRec_count']; exact h1,
      fun _ => by simp only [tickRec_count', tickRec_t0']; exact h2, Or.inl rfl⟩, ?_⟩
    have hc0 : (tickRec (cfgOf P) t r).count ≠ 0 := by rw [tickRec_count', hc]; omega
    refine ⟨by simpa [bump] using hq.kind, by simpa [bump] using hq.ret, ?_, by simp [bump], ?_⟩
    · intro hw'
      simp only [bump] at hw'
      rw [h3] at hw'; cases hw'
    · simp only [XPhRel, bump, hc0, if_false]
      exact ⟨hw, by simpa using hstop, by simpa using hit, by simpa using h0, by simp [hc], by omega, by simpa using hdl⟩
  · simp only [XPhRel]
    exact ⟨hw, by simpa using hstop, by simpa using hit, by simpa using h0, by simpa using hc, hn, by simpa using hdl⟩

theorem firstMsg_mem : ∀ (log : List Entry) (id : Nat), (∃ t0 m0, Entry.tx id 0 t0 m0 ∈ log) →
    ∃ t1 m1, firstMsg log id = some m1 ∧ Entry.tx id 0 t1 m1 ∈ log
  | [], _, ⟨_, _, h⟩ => by cases h
  | a :: l, id, ⟨t0, m0, h⟩ => by
    by_cases ha : ∃ t m, a = Entry.tx id 0 t m
    · obtain ⟨t, m, ha⟩ := ha
      subst ha
      exact ⟨t, m, by simp [firstMsg, List.findSome?_cons], List.mem_cons_self⟩
    · have hl : Entry.tx id 0 t0 m0 ∈ l := by
        cases h with
        | head => exact (ha ⟨t0, m0, rfl⟩).elim
        | tail _ h => exact h
      obtain ⟨t1, m1, h1, h2⟩ := firstMsg_mem l id ⟨t0, m0, hl⟩
      refine ⟨t1, m1, ?_, List.mem_cons_of_mem _ h2⟩
      rw [← h1]
      simp only [firstMsg, List.findSome?_cons]
      cases a with
      | tx i k t m =>
        cases k with
        | zero =>
          by_cases hi : i = id
          · exact (ha ⟨t, m, by rw [hi]⟩).elim
          · simp [hi]
        | succ k => rfl
      | ret _ _ _ => rfl
      | stop _ _ => rfl
      | got _ _ => rfl

/-- Every retransmission carries the bytes of the first transmission — unless the caller edited its message while the
    request was queued, which the judge has noted. -/
theorem same_or_misused {P : Params} {s : XState} {js : JState} (h : R P s js) {id : Nat} {c : Call} {e : Pend} {r : Rec}
    (hf : findCall s.base.calls id = some c) (hp : findP s.base.pend id = some e)
    (hq : RelReq P c (some e) (txCount s.base.log id) r) :
    (firstMsg s.base.log id == some e.msg) = true ∨ r.misused = true := by
  obtain ⟨hcm, hcid⟩ := findCall_some hf
  obtain ⟨hem, heid⟩ := findP_some hp
  cases ht : c.touched with
  | true => exact Or.inr (hq.mis ht)
  | false =>
    left
    obtain ⟨_, _, m0, hm0⟩ := h.inv.cnt e hem
    rw [heid] at hm0
    obtain ⟨t1, m1, hfm, hmem⟩ := firstMsg_mem s.base.log id ⟨_, _, hm0⟩
    obtain ⟨_, ⟨c', hc', hid', _, h0⟩, _⟩ := h.inv.sp id 0 t1 m1 hmem
    have hcc := eq_of_id_eq h.inv.ids hc' hcm (by rw [hid', hcid])
    subst hcc
    have hmsg := h0 rfl ht
    obtain ⟨c'', hc'', hid'', _, hmsg'⟩ := h.inv.pa e hem
    have hcc := eq_of_id_eq h.inv.ids hc'' hc' (by rw [hid'', heid, hid'])
    subst hcc
    rw [hfm, ← hmsg, hmsg']
    simp

theorem step_tick {P : Params} {s : XState} {js : JState} (h : R P s js) (ahead : Nat) : StepOk P s js (.tick ahead) := by
  obtain ⟨t, ht⟩ : ∃ t, t = s.base.now + ahead := ⟨_, rfl⟩
  have htj : js.now + ahead = t := by rw [h.now, ht]
  -- the model's side
  have hb' : Model.Retransmit.tick P s.base ahead =
      { s.base with pend := (tickList P t s.base.pend).1, log := (tickList P t s.base.pend).2 ++ s.base.log } := by
    simp [Model.Retransmit.tick, ht]
  let b' : State := { s.base with pend := (tickList P t s.base.pend).1, log := (tickList P t s.base.pend).2 ++ s.base.log }
  let s' : XState := { s with base := b', xpend := (tickList P t s.xpend).1 }
  let TB : List Tx := (s.base.pend.filter (bumped P t)).map (fun e => (⟨e.id, t, firstMsg s.base.log e.id == some e.msg⟩ : Tx))
  let TX : List Tx := (s.xpend.filter (bumped P t)).map (fun e => (⟨e.id, t, true⟩ : Tx))
  have hstep : xstep P s (.tick ahead) =
      (s', (tickList P t s.base.pend).2.filterMap (outOf b'.log) ++ (tickList P t s.xpend).2.filterMap txOut) := by
    simp only [Model.RetransmitKinds.step]
    rw [hb', liftBase_added s _ (tickList P t s.base.pend).2 rfl, ← ht]
  have htxs : ((tickList P t s.base.pend).2.filterMap (outOf b'.log) ++ (tickList P t s.xpend).2.filterMap txOut).filterMap txOf
      = TB ++ TX := by
    rw [List.filterMap_append, List.filterMap_filterMap, List.filterMap_filterMap]
    rw [tick_txs P t _ (fun e => firstMsg s.base.log e.id == some e.msg) (by
          intro e
          simp only [outOf, Option.bind_some, txOf, b']
          rw [firstMsg_tick]) s.base.pend,
        tick_txs P t _ (fun _ => true) (by intro e; simp [txOut, txOf]) s.xpend]
  have hrets : ((tickList P t s.base.pend).2.filterMap (outOf b'.log) ++ (tickList P t s.xpend).2.filterMap txOut).filterMap retOf
      = [] := by
    rw [List.filterMap_append, tick_no_rets, tick_no_rets_x]; rfl
  -- the judge's side: the pass itself
  let s1 : JState := { js with recs := js.recs.map (tickRec (cfgOf P) t) }
  have happ : applyEv (cfgOf P) js (.tick ahead) = (s1, none) := by rw [applyEv_tick, htj]
  have hg1 : ∀ id, getRec s1 id = (getRec js id).map (tickRec (cfgOf P) t) := fun id =>
    getRec_map js _ (tickRec_id (cfgOf P) t) id
  have hids1 : s1.recs.map (·.id) = js.recs.map (·.id) := by
    simp only [s1, List.map_map]
    apply List.map_congr_left
    intro r _
    exact tickRec_id _ _ _
  -- facts about the entries of the two tables
  have factB : ∀ e ∈ s.base.pend, ∃ c r, findCall s.base.calls e.id = some c ∧ c.phase = .waitAck ∧
      getRec js e.id = some r ∧ findX s.xcalls e.id = none ∧ findP s.base.pend e.id = some e ∧
      RelReq P c (some e) (txCount s.base.log e.id) r ∧ txCount s.base.log e.id = e.n + 1 ∧ e.n ≤ P.maxRetransmit := by
    intro e he
    have hp := findP_of_mem s.base.pend h.inv.pid e he
    obtain ⟨c, r, hf, _, _, hph, _, hr, hfx, hq, _⟩ := pending_facts h hp
    exact ⟨c, r, hf, hph, hr, hfx, hp, hq, (h.inv.cnt e he).1, (h.inv.cnt e he).2.1⟩
  have factX : ∀ e ∈ s.xpend, ∃ x r, findX s.xcalls e.id = some x ∧ getRec js e.id = some r ∧
      findCall s.base.calls e.id = none ∧ findP s.xpend e.id = some e ∧ RelX P x (some e) r := by
    intro e he
    have hp := findP_of_mem s.xpend h.xpid e he
    obtain ⟨x, hfx⟩ : ∃ x, findX s.xcalls e.id = some x := by
      have := h.xown e he
      cases hf : findX s.xcalls e.id with
      | none => rw [hf] at this; cases this
      | some x => exact ⟨x, rfl⟩
    obtain ⟨r, hr, hfc, hq⟩ := relX_of_isX h hfx
    rw [hp] at hq
    exact ⟨x, r, hfx, hr, hfc, hp, hq⟩
  have memTB : ∀ x, x ∈ TB ↔ ∃ e ∈ s.base.pend, bumped P t e = true ∧ x = ⟨e.id, t, firstMsg s.base.log e.id == some e.msg⟩ := by
    intro x
    simp only [TB, List.mem_map, List.mem_filter]
    constructor
    · rintro ⟨e, ⟨he, hb⟩, rfl⟩; exact ⟨e, he, hb, rfl⟩
    · rintro ⟨e, he, hb, rfl⟩; exact ⟨e, ⟨he, hb⟩, rfl⟩
  have memTX : ∀ x, x ∈ TX ↔ ∃ e ∈ s.xpend, bumped P t e = true ∧ x = ⟨e.id, t, true⟩ := by
    intro x
    simp only [TX, List.mem_map, List.mem_filter]
    constructor
    · rintro ⟨e, ⟨he, hb⟩, rfl⟩; exact ⟨e, he, hb, rfl⟩
    · rintro ⟨e, he, hb, rfl⟩; exact ⟨e, ⟨he, hb⟩, rfl⟩
  have hnd : ((TB ++ TX).map (·.id)).Nodup := by
    rw [List.map_append]
    refine List.nodup_append.mpr ⟨?_, ?_, ?_⟩
    · simp only [TB, List.map_map]
      exact (List.Sublist.map _ List.filter_sublist).nodup h.inv.pid
    · simp only [TX, List.map_map]
      exact (List.Sublist.map _ List.filter_sublist).nodup h.xpid
    · intro a ha b hb heq
      obtain ⟨x1, hx1, rfl⟩ := List.mem_map.mp ha
      obtain ⟨x2, hx2, rfl⟩ := List.mem_map.mp hb
      obtain ⟨e1, he1, _, rfl⟩ := (memTB x1).mp hx1
      obtain ⟨e2, he2, _, rfl⟩ := (memTX x2).mp hx2
      obtain ⟨_, _, _, _, _, hfx1, _⟩ := factB e1 he1
      obtain ⟨_, _, hfx2, _⟩ := factX e2 he2
      simp only at heq
      rw [heq, hfx2] at hfx1
      cases hfx1
  have hok : ∀ x ∈ TB ++ TX, ∃ r1, getRec s1 x.id = some r1 ∧ TxOk (cfgOf P) r1 x := by
    intro x hx
    rcases List.mem_append.mp hx with hx | hx
    · obtain ⟨e, he, hb, rfl⟩ := (memTB x).mp hx
      obtain ⟨c, r, hf, hph, hr, hfx, hp, hq, hcnt, hn⟩ := factB e he
      refine ⟨tickRec (cfgOf P) t r, by rw [hg1, hr]; rfl, ?_⟩
      exact (((relReq_tick_some t hq hph hcnt hn).2.1 hb) _ (same_or_misused h hf hp hq)).1
    · obtain ⟨e, he, hb, rfl⟩ := (memTX x).mp hx
      obtain ⟨x', r, hfx, hr, hfc, hp, hq⟩ := factX e he
      refine ⟨tickRec (cfgOf P) t r, by rw [hg1, hr]; rfl, ?_⟩
      exact ((relX_tick_some t hq).2.1 hb).1
  obtain ⟨js', hfold, hnow', hids', hin, hout⟩ := foldV_checkTx_all (cfgOf P) (TB ++ TX) s1 hnd hok
  -- the tie after the pass
  have hinv' : Inv P b' := by
    have := inv_tick h.inv ahead
    rw [hb'] at this
    exact this
  have hxpid' : ((tickList P t s.xpend).1.map (·.id)).Nodup := (tick_ids_sublist P t s.xpend).nodup h.xpid
  have hxown' : ∀ e ∈ (tickList P t s.xpend).1, (findX s.xcalls e.id).isSome = true := by
    intro e' he'
    obtain ⟨e, he, _, hcase⟩ := tick_mem_pend P t s.xpend e' he'
    have := h.xown e he
    rcases hcase with ⟨_, rfl⟩ | ⟨_, rfl⟩
    · exact this
    · exact this
  have hR : R P s' js' := by
    refine ⟨hinv', by rw [hnow']; exact h.now, by rw [hids', hids1]; exact h.nd, hxpid', hxown', fun id => ?_⟩
    simp only [RelId]
    have hfpB := findP_tick P t s.base.pend h.inv.pid id
    have hfpX := findP_tick P t s.xpend h.xpid id
    have htcB := txCount_tick P t s.base.log s.base.pend h.inv.pid id
    have hrel := h.rel id
    simp only [RelId, RelO] at hrel
    cases hr : getRec js id with
    | none =>
      rw [hr] at hrel
      -- no entry, no transmission, no record
      have hnoB : ∀ x ∈ TB ++ TX, x.id ≠ id := by
        intro x hx heq
        rcases List.mem_append.mp hx with hx | hx
        · obtain ⟨e, he, _, rfl⟩ := (memTB x).mp hx
          obtain ⟨c, _, hf, _⟩ := factB e he
          simp only at heq
          rw [heq, hrel.1] at hf; cases hf
        · obtain ⟨e, he, _, rfl⟩ := (memTX x).mp hx
          obtain ⟨x', _, hfx, _⟩ := factX e he
          simp only at heq
          rw [heq, hrel.2] at hfx; cases hfx
      rw [hout id hnoB, hg1, hr]
      exact hrel
    | some r =>
      rw [hr] at hrel
      rcases hrel with ⟨c, hf, hfx, hq⟩ | ⟨x, hfx, hf, hq⟩
      · -- a request of Conn.Do
        have hnoX : ∀ y ∈ TX, y.id ≠ id := by
          intro y hy heq
          obtain ⟨e, he, _, rfl⟩ := (memTX y).mp hy
          obtain ⟨x', _, hfx', _⟩ := factX e he
          simp only at heq
          rw [heq, hfx] at hfx'; cases hfx'
        cases hp : findP s.base.pend id with
        | none =>
          have hno : ∀ y ∈ TB ++ TX, y.id ≠ id := by
            intro y hy heq
            rcases List.mem_append.mp hy with hy | hy
            · obtain ⟨e, he, _, rfl⟩ := (memTB y).mp hy
              obtain ⟨_, _, _, _, _, _, hp', _⟩ := factB e he
              simp only at heq
              rw [heq, hp] at hp'; cases hp'
            · exact hnoX y hy heq
          rw [hout id hno, hg1, hr]
          simp only [Option.map_some, RelO]
          left
          refine ⟨c, hf, hfx, ?_⟩
          rw [hp] at hfpB htcB hq
          simp only [s', b']
          rw [hfpB, htcB]
          exact relReq_tick_none t hq
        | some e =>
          obtain ⟨hem, heid⟩ := findP_some hp
          subst heid
          obtain ⟨c', r', hf', hph, hr', _, _, hq', hcnt, hn⟩ := factB e hem
          rw [hf] at hf'; cases hf'
          rw [hr] at hr'; cases hr'
          obtain ⟨hdrop, hbump, hkeep⟩ := relReq_tick_some t hq' hph hcnt hn
          rw [hp] at hfpB htcB
          by_cases hb : bumped P t e = true
          · -- retransmitted
            have hmem : (⟨e.id, t, firstMsg s.base.log e.id == some e.msg⟩ : Tx) ∈ TB ++ TX :=
              List.mem_append.mpr (Or.inl ((memTB _).mpr ⟨e, hem, hb, rfl⟩))
            obtain ⟨r1, hr1, hr1'⟩ := hin _ hmem
            rw [hg1, hr] at hr1
            cases hr1
            rw [hr1']
            simp only [RelO]
            left
            refine ⟨c, hf, hfx, ?_⟩
            simp only [s', b']
            have hbb := hb
            simp only [bumped, Bool.and_eq_true, Bool.not_eq_true'] at hbb
            rw [hfpB, htcB]
            simp only [hbb.1, hbb.2, hb, Bool.false_eq_true, if_false, if_true]
            exact (hbump hb (firstMsg s.base.log e.id == some e.msg) (same_or_misused h hf hp hq')).2
          · have hb' : bumped P t e = false := by simpa using hb
            have hno : ∀ y ∈ TB ++ TX, y.id ≠ e.id := by
              intro y hy heq
              rcases List.mem_append.mp hy with hy | hy
              · obtain ⟨e2, he2, hb2, rfl⟩ := (memTB y).mp hy
                obtain ⟨_, _, _, _, _, _, hp2, _⟩ := factB e2 he2
                simp only at heq
                rw [heq, hp] at hp2
                cases hp2
                rw [hb2] at hb'; cases hb'
              · exact hnoX y hy heq
            rw [hout e.id hno, hg1, hr]
            simp only [Option.map_some, RelO]
            left
            refine ⟨c, hf, hfx, ?_⟩
            simp only [s', b']
            rw [hfpB, htcB]
            simp only [hb', Bool.false_eq_true, if_false, Nat.add_zero]
            by_cases hd : dropped P t e = true
            · simp only [hd, if_true]
              exact hdrop hd
            · have hd' : dropped P t e = false := by simpa using hd
              have hdue : due P t e = false := by
                simp only [bumped, hd', Bool.not_false, Bool.true_and] at hb'
                exact hb'
              simp only [hd', hdue, Bool.false_eq_true, if_false]
              exact hkeep hd' hdue
      · -- a ping / a confirmable non-request write
        have hnoB : ∀ y ∈ TB, y.id ≠ id := by
          intro y hy heq
          obtain ⟨e, he, _, rfl⟩ := (memTB y).mp hy
          obtain ⟨c', _, hf', _⟩ := factB e he
          simp only at heq
          rw [heq, hf] at hf'; cases hf'
        have hbase : findP b'.pend id = findP s.base.pend id ∧ txCount b'.log id = txCount s.base.log id := by
          have hnp : findP s.base.pend id = none := by
            cases hp : findP s.base.pend id with
            | none => rfl
            | some e =>
              obtain ⟨hem, heid⟩ := findP_some hp
              obtain ⟨c', _, hf', _⟩ := factB e hem
              rw [heid, hf] at hf'; cases hf'
          rw [hnp] at hfpB htcB
          exact ⟨by rw [hfpB, hnp], by rw [htcB]; rfl⟩
        cases hp : findP s.xpend id with
        | none =>
          have hno : ∀ y ∈ TB ++ TX, y.id ≠ id := by
            intro y hy heq
            rcases List.mem_append.mp hy with hy | hy
            · exact hnoB y hy heq
            · obtain ⟨e, he, _, rfl⟩ := (memTX y).mp hy
              obtain ⟨_, _, _, _, _, hp', _⟩ := factX e he
              simp only at heq
              rw [heq, hp] at hp'; cases hp'
          rw [hout id hno, hg1, hr]
          simp only [Option.map_some, RelO]
          right
          refine ⟨x, hfx, hf, ?_⟩
          rw [hp] at hfpX hq
          simp only [s']
          rw [hfpX]
          exact relX_tick_none t hq
        | some e =>
          obtain ⟨hem, heid⟩ := findP_some hp
          subst heid
          rw [hp] at hfpX hq
          obtain ⟨hdrop, hbump, hkeep⟩ := relX_tick_some t hq
          by_cases hb : bumped P t e = true
          · have hmem : (⟨e.id, t, true⟩ : Tx) ∈ TB ++ TX :=
              List.mem_append.mpr (Or.inr ((memTX _).mpr ⟨e, hem, hb, rfl⟩))
            obtain ⟨r1, hr1, hr1'⟩ := hin _ hmem
            rw [hg1, hr] at hr1
            cases hr1
            rw [hr1']
            simp only [RelO]
            right
            refine ⟨x, hfx, hf, ?_⟩
            simp only [s']
            have hbb := hb
            simp only [bumped, Bool.and_eq_true, Bool.not_eq_true'] at hbb
            rw [hfpX]
            simp only [hbb.1, hbb.2, Bool.false_eq_true, if_false, if_true]
            exact (hbump hb).2
          · have hb' : bumped P t e = false := by simpa using hb
            have hno : ∀ y ∈ TB ++ TX, y.id ≠ e.id := by
              intro y hy heq
              rcases List.mem_append.mp hy with hy | hy
              · exact hnoB y hy heq
              · obtain ⟨e2, he2, hb2, rfl⟩ := (memTX y).mp hy
                obtain ⟨_, _, _, _, _, hp2, _⟩ := factX e2 he2
                simp only at heq
                rw [heq, hp] at hp2
                cases hp2
                rw [hb2] at hb'; cases hb'
            rw [hout e.id hno, hg1, hr]
            simp only [Option.map_some, RelO]
            right
            refine ⟨x, hfx, hf, ?_⟩
            simp only [s']
            rw [hfpX]
            by_cases hd : dropped P t e = true
            · simp only [hd, if_true]
              exact hdrop hd
            · have hd' : dropped P t e = false := by simpa using hd
              have hdue : due P t e = false := by
                simp only [bumped, hd', Bool.not_false, Bool.true_and] at hb'
                exact hb'
              simp only [hd', hdue, Bool.false_eq_true, if_false]
              exact hkeep hd' hdue
  refine ⟨js', ?_, by rw [hstep]; exact hR⟩
  rw [hstep]
  simp only [stepOf, htxs, hrets, stepJ, specEv, happ, hfold, foldV]
  have : ¬ (outstanding js' > (cfgOf P).nstart) := by
    have := outstanding_le hR
    show ¬ (outstanding js' > P.nstart)
    omega
  simp [this]

end CoapVerif.Lemmas.RetransmitJudge
