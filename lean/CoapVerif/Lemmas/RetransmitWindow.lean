import CoapVerif.Lemmas.Retransmit
/-! C06, defect F30: lemmas that need the regenerated fact `exhaustionWaitsLastTimeout = true` (exhaustion is reported only
after the last copy's own timeout).  Kept apart from `Lemmas/Retransmit.lean` so that, on a tree without that conjunct,
only the theorems about the last copy's window stop checking. -/
set_option linter.unusedSimpArgs false
set_option linter.unusedVariables false
namespace CoapVerif.Lemmas.Retransmit
open CoapVerif.Model.Retransmit CoapVerif.Generated.Retransmit

/-! ### the window of the last copy: housekeeping passes before `start + (MAX+1)·ACK_TIMEOUT` do not end the exchange -/

/-- An entry that is not dropped by a pass is still there afterwards (possibly with its counter advanced). -/
theorem tick_keeps (P : Params) (t : Nat) : ∀ (ps : List Pend) (e : Pend), e ∈ ps → dropped P t e = false →
    ∃ e' ∈ (tickList P t ps).1, e'.id = e.id ∧ e'.start = e.start ∧ e'.deadline = e.deadline
  | x :: r, e, he, hd => by
    rw [tickList_cons]
    cases he with
    | head =>
      simp only [hd, Bool.false_eq_true, if_false]
      by_cases h2 : due P t x = true
      · simp only [h2, if_true]; exact ⟨_, List.mem_cons_self, rfl, rfl, rfl⟩
      · simp only [h2, Bool.false_eq_true, if_false]; exact ⟨_, List.mem_cons_self, rfl, rfl, rfl⟩
    | tail _ he =>
      obtain ⟨e', he', hh⟩ := tick_keeps P t r e he hd
      by_cases h1 : dropped P t x = true
      · simp only [h1, if_true]; exact ⟨e', he', hh⟩
      · by_cases h2 : due P t x = true
        · simp only [h1, h2, if_true, Bool.false_eq_true, if_false]; exact ⟨e', List.mem_cons_of_mem _ he', hh⟩
        · simp only [h1, h2, Bool.false_eq_true, if_false]; exact ⟨e', List.mem_cons_of_mem _ he', hh⟩

/-- A pass whose `now` is not later than `start + (MAX+1)·ACK_TIMEOUT` (nor than the call's deadline) does not drop the entry. -/
theorem not_dropped_within {P : Params} {t : Nat} {e : Pend} (hn : e.n ≤ P.maxRetransmit)
    (ht : t ≤ e.start + (P.maxRetransmit + 1) * P.ackTimeout) (hdl : ∀ d, e.deadline = some d → t ≤ d) :
    dropped P t e = false := by
  simp only [dropped, Bool.or_eq_false_iff, Bool.and_eq_false_iff]
  constructor
  · cases hd : e.deadline with
    | none => rfl
    | some d =>
      have := hdl d hd
      simp only [pastDeadline, decide_eq_false_iff_not]
      omega
  · by_cases hx : exhausted P e.n = true
    · right
      have hge : P.maxRetransmit ≤ e.n := by
        unfold exhausted at hx
        simpa [expiredWhenGE] using hx
      have heq : e.n = P.maxRetransmit := by omega
      have ht' : t ≤ e.start + (e.n + 1) * P.ackTimeout := by rw [heq]; exact ht
      simp only [lastTimeoutPassed, exhaustionWaitsLastTimeout, lastCopyAddend, Bool.not_true, Bool.false_or,
        decide_eq_false_iff_not]
      exact decide_eq_false (Nat.not_lt.mpr ht')
    · left; simpa using hx

/-- Housekeeping passes and time only, every pass no later than `limit`. -/
def PassesWithin (limit : Nat) : Nat → List Ev → Prop
  | _, [] => True
  | now, .advance d :: r => PassesWithin limit (now + d) r
  | now, .tick a :: r => now + a ≤ limit ∧ PassesWithin limit now r
  | _, _ :: _ => False

theorem pending_through_passes {P : Params} : ∀ (passes : List Ev) (s : State), Inv P s → ∀ e ∈ s.pend,
    (∀ d, e.deadline = some d → e.start + (P.maxRetransmit + 1) * P.ackTimeout ≤ d) →
    PassesWithin (e.start + (P.maxRetransmit + 1) * P.ackTimeout) s.now passes →
    ∃ e' ∈ (runFrom P s passes).pend, e'.id = e.id ∧ e'.start = e.start ∧ e'.deadline = e.deadline
  | [], s, _, e, he, _, _ => ⟨e, he, rfl, rfl, rfl⟩
  | ev :: r, s, h, e, he, hdl, hp => by
    cases ev with
    | advance d =>
      exact pending_through_passes r _ (inv_advance h d) e he hdl hp
    | tick a =>
      obtain ⟨hle, hp'⟩ := hp
      have hnd : dropped P (s.now + a) e = false :=
        not_dropped_within (h.cnt e he).2.1 hle (fun d hd => Nat.le_trans hle (hdl d hd))
      obtain ⟨e', he', h1, h2, h3⟩ := tick_keeps P (s.now + a) s.pend e he hnd
      have hinv := inv_tick h a
      have hmem : e' ∈ (tick P s a).pend := he'
      have hnow : (tick P s a).now = s.now := rfl
      obtain ⟨e'', he'', g1, g2, g3⟩ := pending_through_passes r (tick P s a) hinv e' hmem
        (by rw [h2, h3]; exact hdl) (by rw [h2, hnow]; exact hp')
      exact ⟨e'', he'', by rw [g1, h1], by rw [g2, h2], by rw [g3, h3]⟩
    | send _ _ _ => exact hp.elim
    | recvMid _ _ => exact hp.elim
    | resp _ _ => exact hp.elim
    | cancel _ _ => exact hp.elim
    | «mut» _ _ => exact hp.elim

end CoapVerif.Lemmas.Retransmit
