import CoapVerif.Lemmas.RouterDispatch
import CoapVerif.Model.RouterAccess
/-!
# C17 lemmas, part 9 — the route table after a history of registrations

`liveRev q rev` reads a history (latest operation first) the way the property's words do: the LAST operation that concerned
the pattern `q` decides — a successful registration makes `q` live with that handler, a removal makes it gone; operations on
other patterns, refused registrations, `DefaultHandle` and `Use` do not matter.  `Tracks r rev` says that the table of `r`
is exactly that reading; it is an invariant of `Router.apply` (`tracks_apply`).
-/
namespace CoapVerif.Lemmas.Router
open CoapVerif.Model.Router

/-- does `Handle` accept the (filtered) pattern text? -/
def accepts (q : Str) : Bool :=
  match newRouteRegexp q with
  | .ok _ => true
  | .error _ => false

/-- the route `Handle` stores under the pattern `q` for the handler `h` -/
def mkRoute (q : Str) (h : Handler) : Option Route :=
  match newRouteRegexp q with
  | .ok rx => some ⟨h, q, rx⟩
  | .error _ => none

def hOfFunc : Option String → Handler
  | some n => .named n
  | none => .nilFunc

/-- the handler registered for `q` according to the history `rev` (latest operation first), if `q` is live -/
def liveRev (q : Str) : List Op → Option Handler
  | [] => none
  | .handle p (some h) :: rest => if filterPath p = q ∧ accepts q = true then some h else liveRev q rest
  | .handleFunc p f :: rest => if filterPath p = q ∧ accepts q = true then some (hOfFunc f) else liveRev q rest
  | .handleRemove p :: rest => if filterPath p = q then none else liveRev q rest
  | _ :: rest => liveRev q rest

def Tracks (r : Router) (rev : List Op) : Prop := ∀ q, zGet r.z q = (liveRev q rev).bind (mkRoute q)

theorem zGet_none_of_not_zHas : ∀ (z : List (Str × Route)) (k : Str), zHas z k = false → zGet z k = none := by
  intro z
  induction z with
  | nil => intro k _; rfl
  | cons e t ih =>
    intro k h
    obtain ⟨k', v⟩ := e
    simp only [zHas, List.any_cons, Bool.or_eq_false_iff, decide_eq_false_iff_not] at h
    simp only [zGet, h.1, if_false]
    exact ih k (by simpa [zHas] using h.2)

theorem handleFunc_okOr (r : Router) (p : Str) (f : Option String) :
    okOr r (r.handleFunc p f) = okOr r (r.handle p (some (hOfFunc f))) := by
  cases f with
  | some n =>
    simp only [Router.handleFunc, hOfFunc]
    cases hh : r.handle p (some (Handler.named n)) with
    | ok r' => rfl
    | error e => cases e <;> rfl
  | none =>
    simp only [Router.handleFunc, hOfFunc]
    cases hh : r.handle p (some Handler.nilFunc) with
    | ok r' => rfl
    | error e => cases e <;> rfl

theorem handle_some_eq (r : Router) (p : Str) (h : Handler) :
    okOr r (r.handle p (some h)) =
      match newRouteRegexp (filterPath p) with
      | .ok rx => { r with z := zSet r.z (filterPath p) ⟨h, filterPath p, rx⟩ }
      | .error _ => r := by
  simp only [Router.handle]
  cases newRouteRegexp (filterPath p) <;> rfl

theorem tracks_handle {r : Router} {rev : List Op} (ht : Tracks r rev) (p : Str) (h : Handler) (op : Op)
    (hop : ∀ q, liveRev q (op :: rev) = if filterPath p = q ∧ accepts q = true then some h else liveRev q rev) :
    Tracks (okOr r (r.handle p (some h))) (op :: rev) := by
  intro q
  rw [hop q, handle_some_eq]
  cases hn : newRouteRegexp (filterPath p) with
  | error e =>
    simp only
    have : ¬ (filterPath p = q ∧ accepts q = true) := by
      rintro ⟨rfl, ha⟩
      simp [accepts, hn] at ha
    rw [if_neg this]
    exact ht q
  | ok rx =>
    simp only [zGet_zSet]
    by_cases hq : filterPath p = q
    · subst hq
      have ha : accepts (filterPath p) = true := by simp [accepts, hn]
      simp [ha, mkRoute, hn]
    · simp only [hq, false_and, if_false]
      exact ht q

theorem wf_apply {r : Router} (hwf : WF r) (op : Op) : WF (r.apply op) := by
  cases op with
  | handle p h =>
    simp only [Router.apply]
    cases hh : r.handle p h with
    | ok r' => exact wf_handle hwf hh
    | error e => exact hwf
  | handleFunc p f =>
    simp only [Router.apply, handleFunc_okOr]
    cases hh : r.handle p (some (hOfFunc f)) with
    | ok r' => exact wf_handle hwf hh
    | error e => exact hwf
  | handleRemove p =>
    simp only [Router.apply]
    cases hh : r.handleRemove p with
    | ok r' => exact wf_handleRemove hwf hh
    | error e => exact hwf
  | defaultHandle h => exact hwf
  | use m => exact hwf

theorem tracks_apply {r : Router} {rev : List Op} (hwf : WF r) (ht : Tracks r rev) (op : Op) :
    Tracks (r.apply op) (op :: rev) := by
  cases op with
  | handle p h =>
    cases h with
    | none =>
      intro q
      simp only [Router.apply, Router.handle, okOr, liveRev]
      exact ht q
    | some h =>
      simp only [Router.apply]
      exact tracks_handle ht p h _ (fun q => rfl)
  | handleFunc p f =>
    simp only [Router.apply, handleFunc_okOr]
    exact tracks_handle ht p (hOfFunc f) _ (fun q => rfl)
  | handleRemove p =>
    intro q
    simp only [Router.apply, Router.handleRemove, liveRev]
    by_cases hhas : zHas r.z (filterPath p) = true
    · simp only [hhas, if_true, okOr, zGet_zErase _ _ _ hwf.2]
      by_cases hq : filterPath p = q
      · simp [hq]
      · simp only [hq, if_false]; exact ht q
    · have hhas' : zHas r.z (filterPath p) = false := by simpa using hhas
      simp only [hhas', Bool.false_eq_true, if_false, okOr]
      by_cases hq : filterPath p = q
      · subst hq
        simp only [if_true, Option.bind_none]
        exact zGet_none_of_not_zHas _ _ hhas'
      · simp only [hq, if_false]; exact ht q
  | defaultHandle h => intro q; simp only [Router.apply, Router.defaultHandle, liveRev]; exact ht q
  | use m => intro q; simp only [Router.apply, Router.use, liveRev]; exact ht q

theorem tracks_run_from : ∀ (ops : List Op) (r : Router) (rev : List Op), WF r → Tracks r rev →
    WF (r.run ops) ∧ Tracks (r.run ops) (ops.reverse ++ rev) := by
  intro ops
  induction ops with
  | nil => intro r rev hwf ht; exact ⟨hwf, ht⟩
  | cons op ops ih =>
    intro r rev hwf ht
    have := ih (r.apply op) (op :: rev) (wf_apply hwf op) (tracks_apply hwf ht op)
    simpa [Router.run, List.reverse_cons, List.append_assoc] using this

theorem tracks_run (ops : List Op) : WF (({} : Router).run ops) ∧ Tracks (({} : Router).run ops) ops.reverse := by
  have := tracks_run_from ops {} [] wf_init (fun q => rfl)
  simpa using this

/-- with distinct keys, membership in the table and lookup say the same -/
theorem mem_iff_zGet : ∀ (z : List (Str × Route)), (z.map (·.1)).Nodup → ∀ k v, (k, v) ∈ z ↔ zGet z k = some v := by
  intro z
  induction z with
  | nil => intro _ k v; simp [zGet]
  | cons e t ih =>
    intro hnd k v
    obtain ⟨k', v'⟩ := e
    simp only [List.map_cons, List.nodup_cons] at hnd
    simp only [zGet, List.mem_cons, Prod.mk.injEq]
    by_cases hk : k' = k
    · subst hk
      simp only [if_true, Option.some.injEq]
      constructor
      · rintro (⟨_, rfl⟩ | hm)
        · rfl
        · exact (hnd.1 (List.mem_map.2 ⟨_, hm, rfl⟩)).elim
      · rintro rfl; exact .inl ⟨trivial, rfl⟩
    · simp only [hk, if_false]
      rw [← ih hnd.2 k v]
      constructor
      · rintro (⟨rfl, _⟩ | hm)
        · exact (hk rfl).elim
        · exact hm
      · exact fun hm => .inr hm

theorem filterPath_idem (p : Str) : filterPath (filterPath p) = filterPath p := by
  simp only [filterPath]
  by_cases hp : p = []
  · have : CoapVerif.Generated.RouterLockShape.emptyPathReplacement.toList ≠ [] := by decide
    simp [hp, this]
  · simp [hp]

/-- only filtered patterns are ever live -/
theorem liveRev_some_filtered : ∀ (rev : List Op) (q : Str) (h : Handler), liveRev q rev = some h → filterPath q = q := by
  intro rev
  induction rev with
  | nil => intro q h hl; simp [liveRev] at hl
  | cons op rest ih =>
    intro q h hl
    cases op with
    | handle p ho =>
      cases ho with
      | none => exact ih q h (by simpa [liveRev] using hl)
      | some h' =>
        simp only [liveRev] at hl
        by_cases hc : filterPath p = q ∧ accepts q = true
        · rw [← hc.1]; exact filterPath_idem p
        · rw [if_neg hc] at hl; exact ih q h hl
    | handleFunc p f =>
      simp only [liveRev] at hl
      by_cases hc : filterPath p = q ∧ accepts q = true
      · rw [← hc.1]; exact filterPath_idem p
      · rw [if_neg hc] at hl; exact ih q h hl
    | handleRemove p =>
      simp only [liveRev] at hl
      by_cases hc : filterPath p = q
      · simp [hc] at hl
      · rw [if_neg hc] at hl; exact ih q h hl
    | defaultHandle h' => exact ih q h (by simpa [liveRev] using hl)
    | use m => exact ih q h (by simpa [liveRev] using hl)

end CoapVerif.Lemmas.Router
