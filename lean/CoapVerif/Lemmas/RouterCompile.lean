import CoapVerif.Lemmas.RouterRegex
/-!
# C17 lemmas, part 2 — the expression built by `newRouteRegexp`

* `mem_ms_litRe` : a quoted literal consumes exactly its own characters.
* `compileParts_sound/complete` : the results of matching `lit₀ (v₀) lit₁ (v₁) … litₙ $` are exactly the decompositions
  of the input along the template (`Spec.TplMatches`), with one capture span per variable.
* `searchFrom_compile` : with the leading `^` only offset 0 can match.
* `extractVars_eq` and friends: reading the submatch array back gives the words of the decomposition.
-/
namespace CoapVerif.Lemmas.Router
open CoapVerif.Model.Router CoapVerif.Spec.Router

/-- the template a list of compiled parts stands for, in the specification's vocabulary -/
def toSegs : List CPart → Str → List Seg
  | [], trailing => [.lit trailing]
  | p :: ps, trailing => .lit p.raw :: .var p.name p.pat :: toSegs ps trailing

/-- capture spans of the variables, left to right, when matching starts at offset `pos` -/
def spans : Nat → List CPart → List (Str × Str) → List (Nat × Nat)
  | _, [], _ => []
  | _, _ :: _, [] => []
  | pos, p :: ps, (_, v) :: b =>
    (pos + p.raw.length, pos + p.raw.length + v.length) :: spans (pos + p.raw.length + v.length) ps b

/-- the capture list after matching all parts (most recent first), group numbers from `i+1` -/
def spanCaps : Nat → Nat → List CPart → List (Str × Str) → List (Nat × Nat × Nat) → List (Nat × Nat × Nat)
  | _, _, [], _, acc => acc
  | _, _, _ :: _, [], acc => acc
  | i, pos, p :: ps, (_, v) :: b, acc =>
    spanCaps (i + 1) (pos + p.raw.length + v.length) ps b
      ((i + 1, pos + p.raw.length, pos + p.raw.length + v.length) :: acc)

theorem St.ext' {a b : St} (h1 : a.pos = b.pos) (h2 : a.rem = b.rem) (h3 : a.caps = b.caps) : a = b := by
  cases a; cases b; simp_all

theorem mem_ms_litRe (l : Str) : ∀ σ σ' : St,
    σ' ∈ ms (litRe l) σ ↔ (σ.rem = l ++ σ'.rem ∧ σ'.pos = σ.pos + l.length ∧ σ'.caps = σ.caps) := by
  induction l with
  | nil =>
    intro σ σ'
    simp only [litRe, ms, List.mem_singleton, List.nil_append, List.length_nil, Nat.add_zero]
    constructor
    · intro h; subst h; exact ⟨rfl, rfl, rfl⟩
    · rintro ⟨h1, h2, h3⟩; exact St.ext' h2 h1.symm h3
  | cons c t ih =>
    intro σ σ'
    simp only [litRe, ms, List.mem_flatMap]
    constructor
    · rintro ⟨σ1, h1, h2⟩
      cases hr : σ.rem with
      | nil => rw [hr] at h1; simp at h1
      | cons d r =>
        rw [hr] at h1
        by_cases hd : d = c
        · simp only [hd, if_true, List.mem_singleton] at h1
          subst h1
          obtain ⟨e1, e2, e3⟩ := (ih _ _).1 h2
          simp only at e1 e2 e3
          refine ⟨?_, ?_, e3⟩
          · rw [hd, e1]; rfl
          · rw [e2, List.length_cons]; omega
        · simp [hd] at h1
    · rintro ⟨h1, h2, h3⟩
      refine ⟨⟨σ.pos + 1, t ++ σ'.rem, σ.caps⟩, ?_, ?_⟩
      · rw [h1]; simp
      · rw [ih]
        refine ⟨rfl, ?_, h3⟩
        rw [h2, List.length_cons]; simp only; omega

/-! ## The whole expression -/

theorem tpl_lit_inv {s : Str} {r : List Seg} {w : Str} {b : List (Str × Str)} (h : TplMatches (.lit s :: r) w b) :
    ∃ w', w = s ++ w' ∧ TplMatches r w' b := by
  cases h with
  | lit h => exact ⟨_, rfl, h⟩

theorem tpl_var_inv {n : Str} {p : Pat} {r : List Seg} {w : Str} {b : List (Str × Str)}
    (h : TplMatches (.var n p :: r) w b) :
    ∃ v w' b', w = v ++ w' ∧ b = (n, v) :: b' ∧ Lang p v ∧ TplMatches r w' b' := by
  cases h with
  | var hv h => exact ⟨_, _, _, rfl, rfl, hv, h⟩

theorem tpl_nil_inv {w : Str} {b : List (Str × Str)} (h : TplMatches [] w b) : w = [] ∧ b = [] := by
  cases h; exact ⟨rfl, rfl⟩

theorem compileParts_sound : ∀ (parts : List CPart) (i : Nat) (trailing : Str) (σ σ' : St),
    σ' ∈ ms (compileParts i parts trailing) σ →
    ∃ b, TplMatches (toSegs parts trailing) σ.rem b ∧ b.map (·.1) = parts.map (·.name) ∧
      σ'.rem = [] ∧ σ'.pos = σ.pos + σ.rem.length ∧ σ'.caps = spanCaps i σ.pos parts b σ.caps := by
  intro parts
  induction parts with
  | nil =>
    intro i trailing σ σ' h
    simp only [compileParts, ms, List.mem_flatMap] at h
    obtain ⟨σ1, h1, h2⟩ := h
    obtain ⟨e1, e2, e3⟩ := (mem_ms_litRe _ _ _).1 h1
    by_cases hr : σ1.rem = []
    · simp only [hr, if_true, List.mem_singleton] at h2
      subst h2
      refine ⟨[], ?_, rfl, hr, ?_, ?_⟩
      · rw [e1, hr, List.append_nil]
        have := TplMatches.lit (s := trailing) TplMatches.nil
        simpa [toSegs] using this
      · rw [e2, e1, hr, List.append_nil]
      · simpa [spanCaps] using e3
    · simp [hr] at h2
  | cons p ps ih =>
    intro i trailing σ σ' h
    simp only [compileParts, ms, List.mem_flatMap, List.mem_map] at h
    obtain ⟨σ1, h1, σ3, ⟨σ2, h2, h23⟩, h3⟩ := h
    obtain ⟨e1, e2, e3⟩ := (mem_ms_litRe _ _ _).1 h1
    obtain ⟨v, hv, f1, f2, f3⟩ := ms_toRe_sound p.pat _ _ h2
    subst h23
    obtain ⟨b, hb, hn, g1, g2, g3⟩ := ih (i + 1) trailing _ _ h3
    simp only at hb g2 g3
    refine ⟨(p.name, v) :: b, ?_, ?_, g1, ?_, ?_⟩
    · rw [e1, f1]
      exact TplMatches.lit (TplMatches.var hv hb)
    · simp [hn]
    · rw [g2, f2, e2, e1, f1]
      simp only [List.length_append]; omega
    · rw [g3, f2, e2, f3, e3]
      simp only [spanCaps]

theorem compileParts_complete : ∀ (parts : List CPart) (trailing : Str) (w : Str) (b : List (Str × Str)),
    TplMatches (toSegs parts trailing) w b → ∀ (i pos : Nat) (caps : List (Nat × Nat × Nat)),
    (⟨pos + w.length, [], spanCaps i pos parts b caps⟩ : St) ∈ ms (compileParts i parts trailing) ⟨pos, w, caps⟩ := by
  intro parts
  induction parts with
  | nil =>
    intro trailing w b h i pos caps
    simp only [toSegs] at h
    obtain ⟨w', rfl, h'⟩ := tpl_lit_inv h
    obtain ⟨rfl, rfl⟩ := tpl_nil_inv h'
    simp only [compileParts, ms, List.mem_flatMap]
    refine ⟨⟨pos + trailing.length, [], caps⟩, ?_, ?_⟩
    · rw [mem_ms_litRe]; simp
    · simp [spanCaps]
  | cons p ps ih =>
    intro trailing w b h i pos caps
    simp only [toSegs] at h
    obtain ⟨w1, rfl, h1⟩ := tpl_lit_inv h
    obtain ⟨v, w2, b', rfl, rfl, hv, h2⟩ := tpl_var_inv h1
    simp only [compileParts, ms, List.mem_flatMap, List.mem_map]
    refine ⟨⟨pos + p.raw.length, v ++ w2, caps⟩, ?_, ?_⟩
    · rw [mem_ms_litRe]; simp
    · refine ⟨⟨pos + p.raw.length + v.length, w2, (i + 1, pos + p.raw.length, pos + p.raw.length + v.length) :: caps⟩,
        ⟨⟨pos + p.raw.length + v.length, w2, caps⟩, ms_toRe_complete p.pat v hv _ _ _, rfl⟩, ?_⟩
      have := ih trailing w2 b' h2 (i + 1) (pos + p.raw.length + v.length)
        ((i + 1, pos + p.raw.length, pos + p.raw.length + v.length) :: caps)
      have e : pos + (p.raw ++ (v ++ w2)).length = pos + p.raw.length + v.length + w2.length := by
        simp only [List.length_append]; omega
      rw [e]
      simpa [spanCaps] using this

/-! ## Search with the leading anchor -/

theorem searchFrom_bol_pos (x : Re) : ∀ (t : Str) (i : Nat), 0 < i → searchFrom (.cat .bol x) i t = none := by
  intro t
  induction t with
  | nil =>
    intro i hi
    have : ¬ i = 0 := by omega
    simp [searchFrom, ms, this]
  | cons c t ih =>
    intro i hi
    have : ¬ i = 0 := by omega
    simp only [searchFrom, ms, this, if_false, List.flatMap_nil, List.head?_nil]
    exact ih (i + 1) (by omega)

theorem searchFrom_bol_zero (x : Re) (s : Str) :
    searchFrom (.cat .bol x) 0 s = ((ms x ⟨0, s, []⟩).head?).map (fun σ => (0, σ)) := by
  cases s with
  | nil => simp [searchFrom, ms]
  | cons c t =>
    simp only [searchFrom, ms, if_true, List.flatMap_cons, List.flatMap_nil, List.append_nil]
    cases h : (ms x ⟨0, c :: t, []⟩).head? with
    | none => simp only [Option.map_none]; exact searchFrom_bol_pos x t 1 (by omega)
    | some σ => simp

theorem matchString_compile (parts : List CPart) (trailing : Str) (s : Str) :
    matchString (compile parts trailing) s = true ↔ ∃ b, TplMatches (toSegs parts trailing) s b := by
  simp only [matchString, compile, searchFrom_bol_zero, Option.isSome_map]
  constructor
  · intro h
    cases hh : (ms (compileParts 0 parts trailing) ⟨0, s, []⟩).head? with
    | none => rw [hh] at h; simp at h
    | some σ =>
      have hm : σ ∈ ms (compileParts 0 parts trailing) ⟨0, s, []⟩ := List.mem_of_head? hh
      obtain ⟨b, hb, _⟩ := compileParts_sound parts 0 trailing _ _ hm
      exact ⟨b, hb⟩
  · rintro ⟨b, hb⟩
    have := compileParts_complete parts trailing s b hb 0 0 []
    cases hh : ms (compileParts 0 parts trailing) ⟨0, s, []⟩ with
    | nil => rw [hh] at this; simp at this
    | cons a l => simp

/-! ## Reading the submatch array back -/

theorem goSlice_nat (s : Str) (a b : Nat) (h1 : a ≤ b) (h2 : b ≤ s.length) :
    goSlice s (a : Int) (b : Int) = .ok ((s.drop a).take (b - a)) := by
  have hc : (0 : Int) ≤ (a : Int) ∧ (a : Int) ≤ (b : Int) ∧ (b : Int) ≤ (s.length : Int) := by omega
  simp only [goSlice, hc, and_self, if_true, Int.toNat_natCast]

theorem spans_length : ∀ (parts : List CPart) (pos : Nat) (b : List (Str × Str)),
    b.length = parts.length → (spans pos parts b).length = parts.length := by
  intro parts
  induction parts with
  | nil => intro pos b _; simp [spans]
  | cons p ps ih =>
    intro pos b hb
    cases b with
    | nil => simp at hb
    | cons e b' =>
      obtain ⟨n, v⟩ := e
      simp only [spans, List.length_cons]
      rw [ih _ b' (by simpa using hb)]

theorem capLookup_spanCaps : ∀ (parts : List CPart) (i pos : Nat) (b : List (Str × Str)) (acc : List (Nat × Nat × Nat)) (g : Nat),
    capLookup (spanCaps i pos parts b acc) g =
      if i < g ∧ g ≤ i + (spans pos parts b).length then (spans pos parts b)[g - i - 1]? else capLookup acc g := by
  intro parts
  induction parts with
  | nil =>
    intro i pos b acc g
    simp only [spanCaps, spans, List.length_nil, Nat.add_zero]
    have : ¬ (i < g ∧ g ≤ i) := by omega
    simp only [this, if_false]
  | cons p ps ih =>
    intro i pos b acc g
    cases b with
    | nil =>
      simp only [spanCaps, spans, List.length_nil, Nat.add_zero]
      have : ¬ (i < g ∧ g ≤ i) := by omega
      simp only [this, if_false]
    | cons e b' =>
      obtain ⟨n, v⟩ := e
      simp only [spanCaps, spans, List.length_cons]
      rw [ih]
      by_cases h1 : i + 1 < g ∧ g ≤ i + 1 + (spans (pos + p.raw.length + v.length) ps b').length
      · have h2 : i < g ∧ g ≤ i + ((spans (pos + p.raw.length + v.length) ps b').length + 1) := by omega
        have e : g - i - 1 = (g - (i + 1) - 1) + 1 := by omega
        simp only [h1, h2, and_self, if_true]
        rw [e, List.getElem?_cons_succ]
      · simp only [h1, if_false, capLookup]
        by_cases h3 : i + 1 = g
        · have h2 : i < g ∧ g ≤ i + ((spans (pos + p.raw.length + v.length) ps b').length + 1) := by omega
          have e : g - i - 1 = 0 := by omega
          simp [h3, h2, e]
        · have h2 : ¬ (i < g ∧ g ≤ i + ((spans (pos + p.raw.length + v.length) ps b').length + 1)) := by omega
          simp [h3, h2]

theorem flatMap_pairs_length (F : Nat → Int × Int) (n : Nat) :
    ((List.range n).flatMap (fun g => [(F g).1, (F g).2])).length = 2 * n := by
  induction n with
  | zero => simp
  | succ n ih =>
    rw [List.range_succ, List.flatMap_append, List.length_append, ih]
    simp; omega

theorem flatMap_pairs_get (F : Nat → Int × Int) (n j : Nat) (hj : j < n) :
    ((List.range n).flatMap (fun g => [(F g).1, (F g).2]))[2 * j]? = some (F j).1 ∧
    ((List.range n).flatMap (fun g => [(F g).1, (F g).2]))[2 * j + 1]? = some (F j).2 := by
  induction n with
  | zero => omega
  | succ n ih =>
    rw [List.range_succ, List.flatMap_append]
    have hl := flatMap_pairs_length F n
    by_cases h : j < n
    · obtain ⟨i1, i2⟩ := ih h
      constructor
      · rw [List.getElem?_append_left (by omega)]; exact i1
      · rw [List.getElem?_append_left (by omega)]; exact i2
    · have e : j = n := by omega
      subst e
      constructor
      · rw [List.getElem?_append_right (by omega), hl]; simp
      · rw [List.getElem?_append_right (by omega), hl]
        have : 2 * j + 1 - 2 * j = 1 := by omega
        simp [this]

theorem extractVars_eq (input : Str) (mt : List Int) : ∀ (names : List Str) (vals : List Str) (i : Nat) (out : List (Str × Str)),
    names.length = vals.length →
    (∀ j, j < names.length → ∃ (a b : Int) (v : Str), mt[2 * (i + j) + 2]? = some a ∧ mt[2 * (i + j) + 3]? = some b ∧
        vals[j]? = some v ∧ goSlice input a b = .ok v) →
    extractVars input mt i names out = .ok ((names.zip vals).foldl (fun m kv => mapSet m kv.1 kv.2) out) := by
  intro names
  induction names with
  | nil => intro vals i out _ _; simp [extractVars]
  | cons nm names ih =>
    intro vals i out hl H
    cases vals with
    | nil => simp at hl
    | cons v0 vals =>
      obtain ⟨a, b, v, ha, hb, hv, hs⟩ := H 0 (by simp)
      simp only [Nat.add_zero, List.getElem?_cons_zero, Option.some.injEq] at ha hb hv
      subst hv
      simp only [extractVars, goIndex, ha, hb, hs, bind, Except.bind, List.zip_cons_cons, List.foldl_cons]
      apply ih vals (i + 1) _ (by simpa using hl)
      intro j hj
      obtain ⟨a', b', v', ha', hb', hv', hs'⟩ := H (j + 1) (by simp; omega)
      refine ⟨a', b', v', ?_, ?_, ?_, hs'⟩
      · rw [← ha']; congr 1; omega
      · rw [← hb']; congr 1; omega
      · simpa using hv'

/-- the capture spans cut the decomposition's words out of the input -/
theorem spans_slice : ∀ (parts : List CPart) (trailing : Str) (w : Str) (b : List (Str × Str)),
    TplMatches (toSegs parts trailing) w b → ∀ (pre : Str) (j : Nat), j < parts.length →
    ∃ (x y : Nat) (v : Str), (spans pre.length parts b)[j]? = some (x, y) ∧ (b.map (·.2))[j]? = some v ∧
      goSlice (pre ++ w) (x : Int) (y : Int) = .ok v := by
  intro parts
  induction parts with
  | nil => intro trailing w b _ pre j hj; simp at hj
  | cons p ps ih =>
    intro trailing w b h pre j hj
    simp only [toSegs] at h
    obtain ⟨w1, rfl, h1⟩ := tpl_lit_inv h
    obtain ⟨v, w2, b', rfl, rfl, hv, h2⟩ := tpl_var_inv h1
    cases j with
    | zero =>
      refine ⟨pre.length + p.raw.length, pre.length + p.raw.length + v.length, v, by simp [spans], by simp, ?_⟩
      rw [goSlice_nat _ _ _ (by omega) (by simp only [List.length_append]; omega)]
      have e1 : pre ++ (p.raw ++ (v ++ w2)) = (pre ++ p.raw) ++ (v ++ w2) := by simp
      have e2 : pre.length + p.raw.length = (pre ++ p.raw).length := by simp
      rw [e1, e2, List.drop_left]
      have e3 : (pre ++ p.raw).length + v.length - (pre ++ p.raw).length = v.length := by omega
      rw [e3, List.take_left]
    | succ j =>
      obtain ⟨x, y, v', hx, hv', hs⟩ := ih trailing w2 b' h2 (pre ++ p.raw ++ v) j (by simpa using hj)
      refine ⟨x, y, v', ?_, ?_, ?_⟩
      · simp only [spans, List.getElem?_cons_succ]
        rw [← hx]; simp [Nat.add_assoc]
      · simpa using hv'
      · rw [← hs]; simp

theorem tpl_binds_length : ∀ (parts : List CPart) (trailing : Str) (w : Str) (b : List (Str × Str)),
    TplMatches (toSegs parts trailing) w b → b.length = parts.length := by
  intro parts
  induction parts with
  | nil =>
    intro trailing w b h
    simp only [toSegs] at h
    obtain ⟨w', _, h'⟩ := tpl_lit_inv h
    simp [(tpl_nil_inv h').2]
  | cons p ps ih =>
    intro trailing w b h
    simp only [toSegs] at h
    obtain ⟨w1, _, h1⟩ := tpl_lit_inv h
    obtain ⟨v, w2, b', _, rfl, _, h2⟩ := tpl_var_inv h1
    simp [ih trailing w2 b' h2]

end CoapVerif.Lemmas.Router
