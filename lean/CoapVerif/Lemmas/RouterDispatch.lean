import CoapVerif.Lemmas.RouterCompile
import CoapVerif.Lemmas.RouterParse
/-!
# C17 lemmas, part 4 — variables, the scan over the route table, well-formed routers
-/
namespace CoapVerif.Lemmas.Router
open CoapVerif.Model.Router
open CoapVerif.Spec.Router hiding byteLen

/-- the variable map a decomposition produces: bindings written left to right (a repeated name keeps the last) -/
def bindAll (b : List (Str × Str)) (out : List (Str × Str)) : List (Str × Str) :=
  b.foldl (fun m kv => mapSet m kv.1 kv.2) out

theorem zip_fst_snd : ∀ (b : List (Str × Str)), (b.map (·.1)).zip (b.map (·.2)) = b
  | [] => rfl
  | (x, y) :: t => by simp [zip_fst_snd t]

/-- `extractRouteParams` on a matching path: no panic, and the variables are the words of a decomposition -/
theorem extractRouteParams_spec (parts : List CPart) (trailing tpl path : Str) (rp : RouteParams)
    (hm : matchString (compile parts trailing) path = true) :
    ∃ b, TplMatches (toSegs parts trailing) path b ∧ b.map (·.1) = parts.map (·.name) ∧
      extractRouteParams ⟨tpl, compile parts trailing, parts.length, parts.map (·.name)⟩ path rp =
        .ok { rp with vars := some (bindAll b (rp.vars.getD [])) } := by
  simp only [matchString, compile, searchFrom_bol_zero, Option.isSome_map] at hm
  cases hh : (ms (compileParts 0 parts trailing) ⟨0, path, []⟩).head? with
  | none => rw [hh] at hm; simp at hm
  | some σ =>
    have hmem : σ ∈ ms (compileParts 0 parts trailing) ⟨0, path, []⟩ := List.mem_of_head? hh
    obtain ⟨b, hb, hn, _, hpos, hcaps⟩ := compileParts_sound parts 0 trailing _ _ hmem
    simp only at hb hpos hcaps
    refine ⟨b, hb, hn, ?_⟩
    have hlen := tpl_binds_length parts trailing path b hb
    have hsl := spans_length parts 0 b hlen
    simp only [extractRouteParams, find, compile, searchFrom_bol_zero, hh, Option.map_some]
    have hpos' : (0 : Nat) < ([((0 : Nat) : Int), (σ.pos : Int)] ++
        (List.range parts.length).flatMap (fun g => [(capPair σ.caps (g + 1)).1, (capPair σ.caps (g + 1)).2])).length := by
      simp
    rw [if_pos (by simpa using hpos')]
    have key := extractVars_eq path
      ([((0 : Nat) : Int), (σ.pos : Int)] ++
        (List.range parts.length).flatMap (fun g => [(capPair σ.caps (g + 1)).1, (capPair σ.caps (g + 1)).2]))
      (parts.map (·.name)) (b.map (·.2)) 0 (rp.vars.getD []) (by simp [hlen]) (by
        intro j hj
        simp only [List.length_map] at hj
        obtain ⟨x, y, v, hx, hv, hs⟩ := spans_slice parts trailing path b hb [] j hj
        simp only [List.length_nil, List.nil_append] at hx hs
        have hcp : capPair σ.caps (j + 1) = ((x : Int), (y : Int)) := by
          simp only [capPair, hcaps, capLookup_spanCaps, hsl]
          have : 0 < j + 1 ∧ j + 1 ≤ 0 + parts.length := by omega
          simp only [this, and_self, if_true, Nat.add_sub_cancel, Nat.sub_zero, hx]
        obtain ⟨g1, g2⟩ := flatMap_pairs_get (fun g => capPair σ.caps (g + 1)) parts.length j hj
        refine ⟨(x : Int), (y : Int), v, ?_, ?_, hv, hs⟩
        · have e : 2 * (0 + j) + 2 = 2 * j + 2 := by omega
          rw [e, List.getElem?_append_right (by simp)]
          simp only [List.length_cons, List.length_nil, Nat.add_sub_cancel]
          rw [g1, hcp]
        · have e : 2 * (0 + j) + 3 = 2 * j + 1 + 2 := by omega
          rw [e, List.getElem?_append_right (by simp)]
          simp only [List.length_cons, List.length_nil, Nat.add_sub_cancel]
          rw [g2, hcp])
    rw [← hn, zip_fst_snd] at key
    rw [← hn]
    simp only [bind, Except.bind] at key ⊢
    rw [key]
    rfl

/-! ## newRouteRegexp -/

theorem newRouteRegexp_ok {tpl : Str} {rx : RouteRegexp} (h : newRouteRegexp tpl = .ok rx) :
    ∃ parts trailing, parseTemplate tpl = .ok (parts, trailing) ∧
      rx = ⟨tpl, compile parts trailing, parts.length, parts.map (·.name)⟩ := by
  simp only [newRouteRegexp, bind, Except.bind] at h
  cases hp : parseTemplate tpl with
  | error e => rw [hp] at h; simp at h
  | ok r =>
    obtain ⟨parts, trailing⟩ := r
    rw [hp] at h
    simp only at h
    split at h
    · simp at h
    · simp only [pure, Except.pure, Except.ok.injEq] at h
      exact ⟨parts, trailing, rfl, h.symm⟩

/-- "the pattern matches the entire path", in the specification's terms, for a pattern the router accepted -/
def Matches (pattern path : Str) : Prop :=
  ∃ parts trailing b, parseTemplate pattern = .ok (parts, trailing) ∧ TplMatches (toSegs parts trailing) path b

/-- a stored route belongs to its key: the expression was compiled from the key -/
def RouteOK (e : Str × Route) : Prop := e.2.pattern = e.1 ∧ newRouteRegexp e.1 = .ok e.2.rx

theorem pathMatch_iff {e : Str × Route} (he : RouteOK e) (path : Str) : pathMatch e.2 path = true ↔ Matches e.1 path := by
  obtain ⟨parts, trailing, hp, hrx⟩ := newRouteRegexp_ok he.2
  simp only [pathMatch, hrx, matchString_compile]
  constructor
  · rintro ⟨b, hb⟩; exact ⟨parts, trailing, b, hp, hb⟩
  · rintro ⟨parts', trailing', b, hp', hb⟩
    rw [hp] at hp'
    simp only [Except.ok.injEq, Prod.mk.injEq] at hp'
    obtain ⟨rfl, rfl⟩ := hp'
    exact ⟨b, hb⟩

/-! ## The scan -/

def ScanInv (path : Str) (acc : Option (Str × Route) × Nat) (seen : List (Str × Route)) : Prop :=
  match acc.1 with
  | none => ∀ e ∈ seen, pathMatch e.2 path = false
  | some e => e ∈ seen ∧ pathMatch e.2 path = true ∧ acc.2 = byteLen e.1 ∧
      ∀ e' ∈ seen, pathMatch e'.2 path = true → byteLen e'.1 ≤ byteLen e.1

theorem scanStep_inv (path : Str) (acc : Option (Str × Route) × Nat) (seen : List (Str × Route)) (e : Str × Route)
    (h : ScanInv path acc seen) : ScanInv path (scanStep path acc e) (seen ++ [e]) := by
  obtain ⟨best, n⟩ := acc
  simp only [scanStep]
  by_cases hm : pathMatch e.2 path = true
  · simp only [hm, Bool.not_true, Bool.false_eq_true, if_false]
    cases best with
    | none =>
      simp only [ScanInv] at h
      simp only [Option.isNone_none, true_or, if_true, ScanInv]
      refine ⟨by simp, hm, trivial, ?_⟩
      intro e' he' hm'
      rw [List.mem_append, List.mem_singleton] at he'
      rcases he' with he' | rfl
      · rw [h e' he'] at hm'; cases hm'
      · exact Nat.le_refl _
    | some b =>
      simp only [ScanInv] at h
      obtain ⟨h1, h2, h3, h4⟩ := h
      by_cases hg : byteLen e.1 > n
      · simp only [Option.isNone_some, Bool.false_eq_true, false_or, hg, if_true, ScanInv]
        refine ⟨by simp, hm, trivial, ?_⟩
        intro e' he' hm'
        rw [List.mem_append, List.mem_singleton] at he'
        rcases he' with he' | rfl
        · have := h4 e' he' hm'; omega
        · exact Nat.le_refl _
      · simp only [Option.isNone_some, Bool.false_eq_true, false_or, hg, if_false, ScanInv]
        refine ⟨by simp [h1], h2, h3, ?_⟩
        intro e' he' hm'
        rw [List.mem_append, List.mem_singleton] at he'
        rcases he' with he' | rfl
        · exact h4 e' he' hm'
        · omega
  · have hm' : pathMatch e.2 path = false := by simpa using hm
    simp only [hm', Bool.not_false, if_true]
    cases best with
    | none =>
      simp only [ScanInv] at h ⊢
      intro e' he'
      rw [List.mem_append, List.mem_singleton] at he'
      rcases he' with he' | rfl
      · exact h e' he'
      · exact hm'
    | some b =>
      simp only [ScanInv] at h ⊢
      obtain ⟨h1, h2, h3, h4⟩ := h
      refine ⟨by simp [h1], h2, h3, ?_⟩
      intro e' he' hme
      rw [List.mem_append, List.mem_singleton] at he'
      rcases he' with he' | rfl
      · exact h4 e' he' hme
      · rw [hm'] at hme; cases hme

theorem foldl_scan_inv (path : Str) : ∀ (rest : List (Str × Route)) (acc : Option (Str × Route) × Nat) (seen : List (Str × Route)),
    ScanInv path acc seen → ScanInv path (rest.foldl (scanStep path) acc) (seen ++ rest)
  | [], acc, seen, h => by simpa using h
  | e :: rest, acc, seen, h => by
    have := foldl_scan_inv path rest (scanStep path acc e) (seen ++ [e]) (scanStep_inv path acc seen e h)
    simpa [List.append_assoc] using this

theorem scan_spec (order : List (Str × Route)) (path : Str) :
    match scan order path with
    | none => ∀ e ∈ order, pathMatch e.2 path = false
    | some e => e ∈ order ∧ pathMatch e.2 path = true ∧
        ∀ e' ∈ order, pathMatch e'.2 path = true → byteLen e'.1 ≤ byteLen e.1 := by
  have := foldl_scan_inv path order (none, 0) [] (by simp [ScanInv])
  simp only [List.nil_append] at this
  simp only [scan]
  cases h : (order.foldl (scanStep path) (none, 0)).1 with
  | none => simpa [ScanInv, h] using this
  | some e =>
    simp only [ScanInv, h] at this
    exact ⟨this.1, this.2.1, this.2.2.2⟩

/-- an entry that matches and is at least as long as every matching entry is chosen when the map happens to yield it first -/
theorem scan_head_wins (e : Str × Route) (rest : List (Str × Route)) (path : Str)
    (hm : pathMatch e.2 path = true)
    (hmax : ∀ e' ∈ rest, pathMatch e'.2 path = true → byteLen e'.1 ≤ byteLen e.1) :
    scan (e :: rest) path = some e := by
  have step : ∀ (l : List (Str × Route)),
      (∀ e' ∈ l, pathMatch e'.2 path = true → byteLen e'.1 ≤ byteLen e.1) →
      l.foldl (scanStep path) (some e, byteLen e.1) = (some e, byteLen e.1) := by
    intro l
    induction l with
    | nil => intro _; rfl
    | cons x xs ih =>
      intro hx
      have hx0 := hx x (by simp)
      have : scanStep path (some e, byteLen e.1) x = (some e, byteLen e.1) := by
        simp only [scanStep]
        by_cases hmx : pathMatch x.2 path = true
        · have := hx0 hmx
          have hng : ¬ byteLen x.1 > byteLen e.1 := by omega
          simp [hmx, hng]
        · have : pathMatch x.2 path = false := by simpa using hmx
          simp [this]
      rw [List.foldl_cons, this]
      exact ih (fun e' he' => hx e' (by simp [he']))
  simp only [scan, List.foldl_cons]
  have h0 : scanStep path (none, 0) e = (some e, byteLen e.1) := by simp [scanStep, hm]
  rw [h0, step rest hmax]

/-! ## Middlewares -/

theorem wrapLoopG_eq {M H : Type} (apply : M → H → H) : ∀ (l : List M) (h : H),
    wrapLoopG apply l h = l.reverse.foldr apply h
  | [], h => rfl
  | m :: before, h => by
    simp only [wrapLoopG, List.reverse_cons, List.foldr_append, List.foldr_cons, List.foldr_nil]
    exact wrapLoopG_eq apply before (apply m h)

theorem foldr_applyMw_ok : ∀ (mws : List String) (evs : List Ev),
    mws.foldr applyMw ⟨evs, false⟩ = ⟨mws.map Ev.enter ++ evs ++ mws.reverse.map Ev.exit, false⟩
  | [], evs => by simp
  | m :: t, evs => by
    simp only [List.foldr_cons, foldr_applyMw_ok t evs, applyMw]
    simp

theorem foldr_applyMw_panic : ∀ (mws : List String) (evs : List Ev),
    mws.foldr applyMw ⟨evs, true⟩ = ⟨mws.map Ev.enter ++ evs, true⟩
  | [], evs => by simp
  | m :: t, evs => by
    simp only [List.foldr_cons, foldr_applyMw_panic t evs, applyMw]
    simp

/-! ## Well-formed routers -/

def WF (r : Router) : Prop := (∀ e ∈ r.z, RouteOK e) ∧ (r.z.map (·.1)).Nodup

theorem mem_zSet {z : List (Str × Route)} {k : Str} {v : Route} {e : Str × Route} (h : e ∈ zSet z k v) :
    e = (k, v) ∨ e ∈ z := by
  induction z with
  | nil => simp only [zSet, List.mem_singleton] at h; exact .inl h
  | cons x xs ih =>
    obtain ⟨k', v'⟩ := x
    simp only [zSet] at h
    by_cases hk : k' = k
    · simp only [hk, if_true, List.mem_cons] at h
      rcases h with h | h
      · exact .inl h
      · exact .inr (by simp [h])
    · simp only [hk, if_false, List.mem_cons] at h
      rcases h with h | h
      · exact .inr (by simp [h])
      · rcases ih h with h' | h'
        · exact .inl h'
        · exact .inr (by simp [h'])

theorem zSet_keys (z : List (Str × Route)) (k : Str) (v : Route) :
    (zSet z k v).map (·.1) = if k ∈ z.map (·.1) then z.map (·.1) else z.map (·.1) ++ [k] := by
  induction z with
  | nil => simp [zSet]
  | cons x xs ih =>
    obtain ⟨k', v'⟩ := x
    simp only [zSet]
    by_cases hk : k' = k
    · simp [hk]
    · have hk' : ¬ k = k' := fun h => hk h.symm
      simp only [hk, if_false, List.map_cons, ih, List.mem_cons, hk', false_or]
      by_cases hm : k ∈ xs.map (·.1)
      · simp [hm]
      · simp [hm]

/-! ## The table as a finite map: updates of different keys commute -/

theorem zGet_zSet (z : List (Str × Route)) (k : Str) (v : Route) (q : Str) :
    zGet (zSet z k v) q = if k = q then some v else zGet z q := by
  induction z with
  | nil => simp [zSet, zGet]
  | cons x xs ih =>
    obtain ⟨k', v'⟩ := x
    simp only [zSet]
    by_cases hk : k' = k
    · subst hk
      simp only [if_true, zGet]
      by_cases hq : k' = q <;> simp [hq]
    · simp only [hk, if_false, zGet, ih]
      by_cases hq : k' = q
      · subst hq
        have : ¬ k = k' := fun h => hk h.symm
        simp [this]
      · simp [hq]

theorem zGet_zErase (z : List (Str × Route)) (k q : Str) (hnd : (z.map (·.1)).Nodup) :
    zGet (zErase z k) q = if k = q then none else zGet z q := by
  induction z with
  | nil => simp [zErase, zGet]
  | cons x xs ih =>
    obtain ⟨k', v'⟩ := x
    simp only [List.map_cons, List.nodup_cons] at hnd
    have ih' := ih hnd.2
    simp only [zErase] at ih' ⊢
    by_cases hk : k' = k
    · subst hk
      simp only [List.filter_cons, ne_eq, not_true_eq_false, decide_false, Bool.false_eq_true, if_false, ih', zGet]
      by_cases hq : k' = q
      · simp [hq]
      · simp [hq]
    · have hk2 : decide (k' ≠ k) = true := by simpa using hk
      simp only [List.filter_cons, hk2, if_true, zGet, ih']
      by_cases hq : k' = q
      · subst hq
        have : ¬ k = k' := fun h => hk h.symm
        simp [this]
      · simp [hq]

theorem wf_init : WF {} := by simp [WF]

theorem wf_handle {r r' : Router} {pattern : Str} {h : Option Handler} (hwf : WF r)
    (hh : r.handle pattern h = .ok r') : WF r' := by
  simp only [Router.handle] at hh
  cases h with
  | none => simp at hh
  | some hd =>
    simp only at hh
    cases hn : newRouteRegexp (filterPath pattern) with
    | error e => rw [hn] at hh; simp at hh
    | ok rx =>
      rw [hn] at hh
      simp only [Except.ok.injEq] at hh
      subst hh
      refine ⟨?_, ?_⟩
      · intro e he
        rcases mem_zSet he with rfl | he
        · exact ⟨rfl, hn⟩
        · exact hwf.1 e he
      · simp only [zSet_keys]
        by_cases hm : filterPath pattern ∈ r.z.map (·.1)
        · simp only [hm, if_true]; exact hwf.2
        · simp only [hm, if_false]
          rw [List.nodup_append]
          exact ⟨hwf.2, by simp, by
            intro a ha b hb
            simp only [List.mem_singleton] at hb
            subst hb
            intro hab; subst hab; exact hm ha⟩

theorem wf_handleRemove {r r' : Router} {pattern : Str} (hwf : WF r)
    (hh : r.handleRemove pattern = .ok r') : WF r' := by
  simp only [Router.handleRemove] at hh
  split at hh
  · simp only [Except.ok.injEq] at hh
    subst hh
    refine ⟨?_, ?_⟩
    · intro e he
      simp only [zErase, List.mem_filter] at he
      exact hwf.1 e he.1
    · simp only [zErase]
      exact List.Nodup.sublist (List.Sublist.map _ List.filter_sublist) hwf.2
  · simp at hh

theorem wf_defaultHandle {r : Router} (h : Option Handler) (hwf : WF r) : WF (r.defaultHandle h) := hwf

theorem wf_use {r : Router} (m : String) (hwf : WF r) : WF (r.use m) := hwf

end CoapVerif.Lemmas.Router
