import CoapVerif.Model.Router
/-!
# C17 lemmas, part 3 — `braceIndices` and the slicing loop of `newRouteRegexp` never panic

`Good lo idxs hi`: the index list is a sequence of pairs `(o, c)` with `lo ≤ o`, `o + 2 ≤ c` (room for the two braces),
each pair starting at or after the end of the previous one, everything `≤ hi`.  `braceLoop` only ever produces such
lists (`braceIndices_good`), and on such lists every slice expression of `partsLoop` is in range (`partsLoop_no_panic`).
-/
namespace CoapVerif.Lemmas.Router
open CoapVerif.Model.Router

def Good : Nat → List Nat → Nat → Prop
  | lo, [], hi => lo ≤ hi
  | _, [_], _ => False
  | lo, o :: c :: r, hi => lo ≤ o ∧ o + 2 ≤ c ∧ Good c r hi

theorem Good.mono {lo lo' : Nat} : ∀ {idxs : List Nat} {hi : Nat}, Good lo idxs hi → lo' ≤ lo → Good lo' idxs hi
  | [], _, h, hl => by simp only [Good] at h ⊢; omega
  | [_], _, h, _ => by simp only [Good] at h
  | _ :: _ :: _, _, h, hl => by
    simp only [Good] at h ⊢
    exact ⟨by omega, h.2.1, h.2.2⟩

/-- the accumulator is only ever extended -/
theorem braceLoop_acc : ∀ (rest : Str) (i : Nat) (level : Int) (idx : Nat) (acc : List Nat),
    braceLoop rest i level idx acc =
      (braceLoop rest i level idx []).map (fun r => (r.1, acc ++ r.2)) := by
  intro rest
  induction rest with
  | nil => intro i level idx acc; simp [braceLoop, Except.map]
  | cons c t ih =>
    intro i level idx acc
    simp only [braceLoop]
    by_cases h1 : c = '{'
    · simp only [h1, if_true]; exact ih _ _ _ _
    · simp only [h1, if_false]
      by_cases h2 : c = '}'
      · simp only [h2, if_true]
        by_cases h3 : level - 1 = 0
        · simp only [h3, if_true]
          rw [ih _ _ _ (acc ++ [idx, i + 1]), ih _ _ _ ([] ++ [idx, i + 1])]
          cases braceLoop t (i + 1) 0 idx [] with
          | error e => simp [Except.map]
          | ok r => simp [Except.map]
        · simp only [h3, if_false]
          by_cases h4 : level - 1 < 0
          · simp [h4, Except.map]
          · simp only [h4, if_false]; exact ih _ _ _ _
      · simp only [h2, if_false]; exact ih _ _ _ _

/-- shape of what the loop adds, from a state with `0 ≤ level` -/
theorem braceLoop_good : ∀ (rest : Str) (i : Nat) (level : Int) (idx : Nat) (lvl : Int) (new : List Nat),
    0 ≤ level → braceLoop rest i level idx [] = .ok (lvl, new) →
    (level = 0 → Good i new (i + rest.length)) ∧
    (0 < level → idx < i → new = [] ∨ ∃ c r, new = idx :: c :: r ∧ i + 1 ≤ c ∧ Good c r (i + rest.length)) := by
  intro rest
  induction rest with
  | nil =>
    intro i level idx lvl new _ h
    simp only [braceLoop, Except.ok.injEq, Prod.mk.injEq] at h
    obtain ⟨_, rfl⟩ := h
    exact ⟨fun _ => by simp [Good], fun _ _ => .inl rfl⟩
  | cons c t ih =>
    intro i level idx lvl new hl h
    have hlen : i + (c :: t).length = i + 1 + t.length := by simp only [List.length_cons]; omega
    rw [hlen]
    simp only [braceLoop] at h
    by_cases h1 : c = '{'
    · simp only [h1, if_true] at h
      by_cases h0 : level = 0
      · subst h0
        simp only [Int.zero_add, if_true] at h
        have := (ih (i + 1) 1 i lvl new (by omega) h).2 (by omega) (by omega)
        refine ⟨fun _ => ?_, fun hp => by omega⟩
        rcases this with rfl | ⟨c', r, rfl, hc, hg⟩
        · simp only [Good]; omega
        · simp only [Good]; exact ⟨by omega, by omega, hg⟩
      · have hne : ¬ level + 1 = 1 := by omega
        simp only [hne, if_false] at h
        have := (ih (i + 1) (level + 1) idx lvl new (by omega) h).2 (by omega)
        refine ⟨fun h' => (h0 h').elim, fun _ hi => ?_⟩
        rcases this (by omega) with rfl | ⟨c', r, rfl, hc, hg⟩
        · exact .inl rfl
        · exact .inr ⟨c', r, rfl, by omega, hg⟩
    · simp only [h1, if_false] at h
      by_cases h2 : c = '}'
      · simp only [h2, if_true] at h
        by_cases h3 : level - 1 = 0
        · simp only [h3, if_true] at h
          rw [braceLoop_acc] at h
          cases hb : braceLoop t (i + 1) 0 idx [] with
          | error e => rw [hb] at h; simp [Except.map] at h
          | ok r =>
            rw [hb] at h
            simp only [Except.map, List.nil_append, Except.ok.injEq, Prod.mk.injEq] at h
            obtain ⟨_, rfl⟩ := h
            have := (ih (i + 1) 0 idx r.1 r.2 (by omega) (by rw [hb])).1 rfl
            refine ⟨fun h' => by omega, fun _ hi => .inr ⟨i + 1, r.2, rfl, by omega, this⟩⟩
        · simp only [h3, if_false] at h
          by_cases h4 : level - 1 < 0
          · simp [h4] at h
          · simp only [h4, if_false] at h
            have := (ih (i + 1) (level - 1) idx lvl new (by omega) h).2 (by omega)
            refine ⟨fun h' => by omega, fun _ hi => ?_⟩
            rcases this (by omega) with rfl | ⟨c', r, rfl, hc, hg⟩
            · exact .inl rfl
            · exact .inr ⟨c', r, rfl, by omega, hg⟩
      · simp only [h2, if_false] at h
        have := ih (i + 1) level idx lvl new hl h
        refine ⟨fun h' => (this.1 h').mono (by omega), fun hp hi => ?_⟩
        rcases this.2 hp (by omega) with rfl | ⟨c', r, rfl, hc, hg⟩
        · exact .inl rfl
        · exact .inr ⟨c', r, rfl, by omega, hg⟩

/-- `braceLoop` fails only with "unbalanced braces" -/
theorem braceLoop_error : ∀ (rest : Str) (i : Nat) (level : Int) (idx : Nat) (acc : List Nat) (e : Fail),
    braceLoop rest i level idx acc = .error e → e = .err .unbalanced := by
  intro rest
  induction rest with
  | nil => intro i level idx acc e h; simp [braceLoop] at h
  | cons c t ih =>
    intro i level idx acc e h
    simp only [braceLoop] at h
    by_cases h1 : c = '{'
    · simp only [h1, if_true] at h; exact ih _ _ _ _ _ h
    · simp only [h1, if_false] at h
      by_cases h2 : c = '}'
      · simp only [h2, if_true] at h
        by_cases h3 : level - 1 = 0
        · simp only [h3, if_true] at h; exact ih _ _ _ _ _ h
        · simp only [h3, if_false] at h
          by_cases h4 : level - 1 < 0
          · simp only [h4, if_true, Except.error.injEq] at h; exact h.symm
          · simp only [h4, if_false] at h; exact ih _ _ _ _ _ h
      · simp only [h2, if_false] at h; exact ih _ _ _ _ _ h

theorem braceIndices_good (s : Str) (idxs : List Nat) (h : braceIndices s = .ok idxs) : Good 0 idxs s.length := by
  simp only [braceIndices] at h
  cases hb : braceLoop s 0 0 0 [] with
  | error e => rw [hb] at h; simp at h
  | ok r =>
    rw [hb] at h
    by_cases hl : r.1 ≠ 0
    · simp [hl] at h
    · simp only [hl, if_false, Except.ok.injEq] at h
      subst h
      have := (braceLoop_good s 0 0 0 r.1 r.2 (by omega) (by rw [hb])).1 rfl
      simpa using this

theorem braceIndices_error (s : Str) (e : Fail) (h : braceIndices s = .error e) : e = .err .unbalanced := by
  simp only [braceIndices] at h
  cases hb : braceLoop s 0 0 0 [] with
  | error e' =>
    rw [hb] at h
    simp only [Except.error.injEq] at h
    subst h
    exact braceLoop_error _ _ _ _ _ _ hb
  | ok r =>
    rw [hb] at h
    by_cases hl : r.1 ≠ 0
    · obtain ⟨l, ix⟩ := r
      simp only at hl h
      rw [if_pos hl] at h
      simp only [Except.error.injEq] at h; exact h.symm
    · simp [hl] at h

theorem goSlice_ok (s : Str) (a b : Nat) (h1 : a ≤ b) (h2 : b ≤ s.length) :
    goSlice s (a : Int) (b : Int) = .ok ((s.drop a).take (b - a)) := by
  have hc : (0 : Int) ≤ (a : Int) ∧ (a : Int) ≤ (b : Int) ∧ (b : Int) ≤ (s.length : Int) := by omega
  simp only [goSlice, hc, and_self, if_true, Int.toNat_natCast]

theorem Good.le : ∀ (l : List Nat) {lo hi : Nat}, Good lo l hi → lo ≤ hi
  | [], _, _, h => by simpa [Good] using h
  | [_], _, _, h => by simp [Good] at h
  | _ :: _ :: r, _, _, h => by
    simp only [Good] at h
    have := Good.le r h.2.2
    omega

/-- on a good index list the slicing loop raises no panic -/
theorem partsLoop_no_panic (path : Str) : ∀ (idxs : List Nat) (e : Nat) (acc : List CPart) (p : PanicKind),
    Good e idxs path.length → partsLoop path idxs e acc ≠ .error (.panic p)
  | [], e, acc, p, _ => by simp [partsLoop]
  | [_], e, acc, p, h => by simp [Good] at h
  | o :: c :: r, e, acc, p, h => by
    simp only [Good] at h
    obtain ⟨h1, h2, h3⟩ := h
    have hc := Good.le r h3
    have e1 : (o : Int) + 1 = ((o + 1 : Nat) : Int) := by omega
    have e2 : (c : Int) - 1 = ((c - 1 : Nat) : Int) := by omega
    simp only [partsLoop, bind, Except.bind]
    rw [goSlice_ok path e o h1 (by omega), e1, e2, goSlice_ok path (o + 1) (c - 1) (by omega) (by omega)]
    simp only
    split
    · simp
    · split
      · simp
      · simp
      · exact partsLoop_no_panic path r c _ p h3

/-- the loop's final `end` stays inside the string -/
theorem partsLoop_end (path : Str) : ∀ (idxs : List Nat) (e : Nat) (acc parts : List CPart) (e' : Nat),
    Good e idxs path.length → partsLoop path idxs e acc = .ok (parts, e') → e' ≤ path.length
  | [], e, acc, parts, e', h, hp => by
    simp only [partsLoop, Except.ok.injEq, Prod.mk.injEq] at hp
    have := Good.le [] h
    omega
  | [_], e, acc, parts, e', h, _ => by simp [Good] at h
  | o :: c :: r, e, acc, parts, e', h, hp => by
    simp only [Good] at h
    obtain ⟨h1, h2, h3⟩ := h
    have hc := Good.le r h3
    have e1 : (o : Int) + 1 = ((o + 1 : Nat) : Int) := by omega
    have e2 : (c : Int) - 1 = ((c - 1 : Nat) : Int) := by omega
    simp only [partsLoop, bind, Except.bind] at hp
    rw [goSlice_ok path e o h1 (by omega), e1, e2, goSlice_ok path (o + 1) (c - 1) (by omega) (by omega)] at hp
    simp only at hp
    split at hp
    · simp at hp
    · split at hp
      · simp at hp
      · simp at hp
      · exact partsLoop_end path r c _ parts e' h3 hp

theorem parseTemplate_no_panic (s : Str) (p : PanicKind) : parseTemplate s ≠ .error (.panic p) := by
  intro h
  simp only [parseTemplate, bind, Except.bind] at h
  cases hb : braceIndices s with
  | error e =>
    rw [hb] at h
    simp only [Except.error.injEq] at h
    have := braceIndices_error s e hb
    rw [this] at h; cases h
  | ok idxs =>
    rw [hb] at h
    have hg := braceIndices_good s idxs hb
    simp only at h
    cases hp : partsLoop s idxs 0 [] with
    | error e =>
      rw [hp] at h
      simp only [Except.error.injEq] at h
      subst h
      exact partsLoop_no_panic s idxs 0 [] p hg hp
    | ok r =>
      obtain ⟨parts, e'⟩ := r
      rw [hp] at h
      have he := partsLoop_end s idxs 0 [] parts e' hg hp
      simp only at h
      rw [goSlice_ok s e' s.length he (Nat.le_refl _)] at h
      simp [pure, Except.pure] at h

end CoapVerif.Lemmas.Router
