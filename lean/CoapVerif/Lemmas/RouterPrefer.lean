import CoapVerif.Lemmas.RouterDispatch
import CoapVerif.Spec.RouterPrefer
/-!
# C17 lemmas, part 7 — the backtracking search returns its results in ORDER OF PREFERENCE

`msT` is the model's matcher `ms` (on translated patterns) with every result labelled by the parse tree of the choices
that led to it.  Forgetting the labels gives `ms` back (`msT_snd`); the labelled list is

* sound and complete for `Spec.IsParse` (`msT_sound`, `msT_complete`), and
* strictly decreasing for `Spec.Better` (`msT_sorted`): an earlier result is preferred to every later one.

From this: the FIRST result of the compiled route expression — what `FindStringSubmatchIndex` reports — is the
decomposition `Spec.Chosen` describes (`head_compileParts_chosen`, `extractRouteParams_chosen`).
-/
namespace CoapVerif.Lemmas.Router
open CoapVerif.Model.Router
open CoapVerif.Spec.Router hiding byteLen

/-! ## The labelled matcher -/

def starAuxT (f : St → List (PTree × St)) (greedy : Bool) : Nat → St → List (PTree × St)
  | 0, σ => [(.nil, σ)]
  | n + 1, σ =>
    let iter := ((f σ).filter (fun tσ => tσ.2.rem.length < σ.rem.length)).flatMap
      (fun tσ => (starAuxT f greedy n tσ.2).map (fun r => (PTree.cons tσ.1 r.1, r.2)))
    if greedy then iter ++ [(.nil, σ)] else (.nil, σ) :: iter

def msT : Pat → St → List (PTree × St)
  | .eps, σ => [(.leaf, σ)]
  | .chr c, σ =>
    match σ.rem with
    | [] => []
    | d :: t => if d = c then [(.leaf, ⟨σ.pos + 1, t, σ.caps⟩)] else []
  | .cls n items, σ =>
    match σ.rem with
    | [] => []
    | d :: t => if clsHas n items d then [(.leaf, ⟨σ.pos + 1, t, σ.caps⟩)] else []
  | .cat a b, σ => (msT a σ).flatMap (fun tσ => (msT b tσ.2).map (fun r => (PTree.pair tσ.1 r.1, r.2)))
  | .alt a b, σ => (msT a σ).map (fun r => (PTree.inl r.1, r.2)) ++ (msT b σ).map (fun r => (PTree.inr r.1, r.2))
  | .star a g, σ => starAuxT (msT a) g σ.rem.length σ

theorem starAuxT_snd (f : St → List St) (fT : St → List (PTree × St)) (g : Bool)
    (h : ∀ σ, (fT σ).map (·.2) = f σ) : ∀ n σ, (starAuxT fT g n σ).map (·.2) = starAux f g n σ := by
  intro n
  induction n with
  | zero => intro σ; rfl
  | succ n ih =>
    intro σ
    have hiter : (((fT σ).filter (fun tσ => tσ.2.rem.length < σ.rem.length)).flatMap
        (fun tσ => (starAuxT fT g n tσ.2).map (fun r => (PTree.cons tσ.1 r.1, r.2)))).map (·.2) =
        ((f σ).filter (fun σ' => σ'.rem.length < σ.rem.length)).flatMap (starAux f g n) := by
      rw [← h σ, List.filter_map, List.flatMap_map, List.map_flatMap]
      congr 1
      funext tσ
      rw [List.map_map]
      exact ih tσ.2
    cases g with
    | true => simp only [starAuxT, starAux, if_true, List.map_append, hiter, List.map_cons, List.map_nil]
    | false => simp only [starAuxT, starAux, Bool.false_eq_true, if_false, List.map_cons, hiter]

/-- forgetting the labels gives the model's matcher -/
theorem msT_snd (p : Pat) : ∀ σ, (msT p σ).map (·.2) = ms p.toRe σ := by
  induction p with
  | eps => intro σ; rfl
  | chr c =>
    intro σ
    simp only [msT, Pat.toRe, ms]
    cases σ.rem with
    | nil => rfl
    | cons d t => by_cases hd : d = c <;> simp [hd]
  | cls n it =>
    intro σ
    simp only [msT, Pat.toRe, ms]
    cases σ.rem with
    | nil => rfl
    | cons d t => by_cases hd : clsHas n it d = true <;> simp [hd]
  | cat a b iha ihb =>
    intro σ
    simp only [msT, Pat.toRe, ms]
    rw [← iha σ, List.flatMap_map, List.map_flatMap]
    congr 1
    funext tσ
    rw [List.map_map]
    exact ihb tσ.2
  | alt a b iha ihb =>
    intro σ
    simp only [msT, Pat.toRe, ms, List.map_append, List.map_map]
    rw [← iha σ, ← ihb σ]
    rfl
  | star a g iha =>
    intro σ
    simp only [msT, Pat.toRe, ms]
    exact starAuxT_snd (ms a.toRe) (msT a) g iha _ σ

/-! ## Sound and complete for parse trees -/

/-- a labelled result: the label is a parse tree of the consumed word -/
def ConsumesT (p : Pat) (σ : St) (r : PTree × St) : Prop :=
  ∃ w, IsParse p r.1 w ∧ σ.rem = w ++ r.2.rem ∧ r.2.pos = σ.pos + w.length ∧ r.2.caps = σ.caps

theorem starAuxT_sound (f : St → List (PTree × St)) (a : Pat) (g : Bool)
    (hf : ∀ σ r, r ∈ f σ → ConsumesT a σ r) :
    ∀ n σ r, r ∈ starAuxT f g n σ → ConsumesT (.star a g) σ r := by
  intro n
  induction n with
  | zero =>
    intro σ r h
    simp only [starAuxT, List.mem_singleton] at h
    subst h
    exact ⟨[], .starNil, rfl, rfl, rfl⟩
  | succ n ih =>
    intro σ r h
    have hself : ConsumesT (.star a g) σ (PTree.nil, σ) := ⟨[], .starNil, rfl, rfl, rfl⟩
    have hiter : ∀ τ, τ ∈ ((f σ).filter (fun tσ => tσ.2.rem.length < σ.rem.length)).flatMap
        (fun tσ => (starAuxT f g n tσ.2).map (fun r => (PTree.cons tσ.1 r.1, r.2))) →
        ConsumesT (.star a g) σ τ := by
      intro τ hτ
      rw [List.mem_flatMap] at hτ
      obtain ⟨r1, h1, h2⟩ := hτ
      rw [List.mem_filter] at h1
      rw [List.mem_map] at h2
      obtain ⟨r2, h2, rfl⟩ := h2
      obtain ⟨u, hu, hr, hp, hc⟩ := hf σ r1 h1.1
      obtain ⟨v, hv, hr2, hp2, hc2⟩ := ih r1.2 r2 h2
      have hne : u ≠ [] := by
        intro hu0
        have hlt := h1.2
        simp only [decide_eq_true_eq] at hlt
        rw [hr, hu0] at hlt
        simp at hlt
      refine ⟨u ++ v, .starCons hu hne hv, ?_, ?_, ?_⟩
      · simp only; rw [hr, hr2, List.append_assoc]
      · simp only; rw [hp2, hp, List.length_append, Nat.add_assoc]
      · simp only; rw [hc2, hc]
    cases g with
    | true =>
      simp only [starAuxT, if_true, List.mem_append, List.mem_singleton] at h
      rcases h with h | h
      · exact hiter r h
      · subst h; exact hself
    | false =>
      simp only [starAuxT, Bool.false_eq_true, if_false, List.mem_cons] at h
      rcases h with h | h
      · subst h; exact hself
      · exact hiter r h

theorem msT_sound (p : Pat) : ∀ σ r, r ∈ msT p σ → ConsumesT p σ r := by
  induction p with
  | eps =>
    intro σ r h
    simp only [msT, List.mem_singleton] at h
    subst h
    exact ⟨[], .eps, rfl, rfl, rfl⟩
  | chr c =>
    intro σ r h
    simp only [msT] at h
    cases hr : σ.rem with
    | nil => rw [hr] at h; simp at h
    | cons d t =>
      rw [hr] at h
      by_cases hd : d = c
      · simp only [hd, if_true, List.mem_singleton] at h
        subst h
        exact ⟨[c], .chr c, by rw [hr, hd]; rfl, rfl, rfl⟩
      · simp [hd] at h
  | cls n it =>
    intro σ r h
    simp only [msT] at h
    cases hr : σ.rem with
    | nil => rw [hr] at h; simp at h
    | cons d t =>
      rw [hr] at h
      by_cases hd : clsHas n it d = true
      · simp only [hd, if_true, List.mem_singleton] at h
        subst h
        exact ⟨[d], .cls n it d hd, by rw [hr]; rfl, rfl, rfl⟩
      · simp [hd] at h
  | cat a b iha ihb =>
    intro σ r h
    simp only [msT, List.mem_flatMap, List.mem_map] at h
    obtain ⟨r1, h1, r2, h2, rfl⟩ := h
    obtain ⟨u, hu, hr, hp, hc⟩ := iha σ r1 h1
    obtain ⟨v, hv, hr2, hp2, hc2⟩ := ihb r1.2 r2 h2
    refine ⟨u ++ v, .cat hu hv, ?_, ?_, ?_⟩
    · simp only; rw [hr, hr2, List.append_assoc]
    · simp only; rw [hp2, hp, List.length_append, Nat.add_assoc]
    · simp only; rw [hc2, hc]
  | alt a b iha ihb =>
    intro σ r h
    simp only [msT, List.mem_append, List.mem_map] at h
    rcases h with ⟨r1, h1, rfl⟩ | ⟨r1, h1, rfl⟩
    · obtain ⟨w, hw, rest⟩ := iha σ r1 h1
      exact ⟨w, .altL hw, rest⟩
    · obtain ⟨w, hw, rest⟩ := ihb σ r1 h1
      exact ⟨w, .altR hw, rest⟩
  | star a g iha =>
    intro σ r h
    simp only [msT] at h
    exact starAuxT_sound (msT a) a g iha _ σ r h

theorem starAuxT_complete (f : St → List (PTree × St)) (a : Pat) (g : Bool)
    (hf : ∀ t w, IsParse a t w → ∀ pos rest caps, (t, (⟨pos + w.length, rest, caps⟩ : St)) ∈ f ⟨pos, w ++ rest, caps⟩)
    {t : PTree} {w : Str} (hw : IsParse (.star a g) t w) :
    ∀ n pos rest caps, (w ++ rest).length ≤ n →
      (t, (⟨pos + w.length, rest, caps⟩ : St)) ∈ starAuxT f g n ⟨pos, w ++ rest, caps⟩ := by
  generalize hp : Pat.star a g = p at hw
  induction hw with
  | eps => cases hp
  | chr => cases hp
  | cls => cases hp
  | cat => cases hp
  | altL => cases hp
  | altR => cases hp
  | starNil =>
    intro n pos rest caps _
    cases n with
    | zero => simp [starAuxT]
    | succ n =>
      cases g <;> simp [starAuxT]
  | @starCons a' g' x xs u v hu hne hv _ ih2 =>
    cases hp
    intro n pos rest caps hn
    cases u with
    | nil => exact (hne rfl).elim
    | cons d u' =>
      cases n with
      | zero => simp at hn
      | succ n =>
        have h1 := hf x (d :: u') hu pos (v ++ rest) caps
        have h2 := ih2 rfl n (pos + (d :: u').length) rest caps (by
          simp only [List.length_append, List.length_cons] at hn ⊢; omega)
        have hmem : (PTree.cons x xs, (⟨pos + (d :: u' ++ v).length, rest, caps⟩ : St)) ∈
            ((f ⟨pos, (d :: u' ++ v) ++ rest, caps⟩).filter
              (fun tσ => tσ.2.rem.length < (⟨pos, (d :: u' ++ v) ++ rest, caps⟩ : St).rem.length)).flatMap
              (fun tσ => (starAuxT f g n tσ.2).map (fun r => (PTree.cons tσ.1 r.1, r.2))) := by
          rw [List.mem_flatMap]
          refine ⟨(x, ⟨pos + (d :: u').length, v ++ rest, caps⟩), ?_, ?_⟩
          · rw [List.mem_filter]
            refine ⟨by simpa [List.append_assoc] using h1, ?_⟩
            simp only [List.length_append, List.length_cons, decide_eq_true_eq]
            omega
          · rw [List.mem_map]
            refine ⟨(xs, ⟨pos + (d :: u').length + v.length, rest, caps⟩), h2, ?_⟩
            have e : pos + (d :: u' ++ v).length = pos + (d :: u').length + v.length := by
              simp only [List.length_append, List.length_cons]; omega
            rw [e]
        cases g with
        | true =>
          simp only [starAuxT, if_true, List.mem_append]
          exact Or.inl hmem
        | false =>
          simp only [starAuxT, Bool.false_eq_true, if_false, List.mem_cons]
          exact Or.inr hmem

theorem msT_complete (p : Pat) : ∀ t w, IsParse p t w → ∀ pos rest caps,
    (t, (⟨pos + w.length, rest, caps⟩ : St)) ∈ msT p ⟨pos, w ++ rest, caps⟩ := by
  induction p with
  | eps =>
    intro t w h pos rest caps
    cases h
    simp [msT]
  | chr c =>
    intro t w h pos rest caps
    cases h
    simp [msT]
  | cls n it =>
    intro t w h pos rest caps
    cases h with
    | cls _ _ c hc => simp [msT, hc]
  | cat a b iha ihb =>
    intro t w h pos rest caps
    cases h with
    | @cat _ _ x y u v hu hv =>
      simp only [msT, List.mem_flatMap, List.mem_map]
      refine ⟨(x, ⟨pos + u.length, v ++ rest, caps⟩), ?_, (y, ⟨pos + u.length + v.length, rest, caps⟩), ?_, ?_⟩
      · have := iha x u hu pos (v ++ rest) caps
        simpa [List.append_assoc] using this
      · exact ihb y v hv (pos + u.length) rest caps
      · simp [List.length_append, Nat.add_assoc]
  | alt a b iha ihb =>
    intro t w h pos rest caps
    simp only [msT, List.mem_append, List.mem_map]
    cases h with
    | altL h => exact .inl ⟨_, iha _ w h pos rest caps, rfl⟩
    | altR h => exact .inr ⟨_, ihb _ w h pos rest caps, rfl⟩
  | star a g iha =>
    intro t w h pos rest caps
    simp only [msT]
    exact starAuxT_complete (msT a) a g iha h _ pos rest caps (Nat.le_refl _)

/-! ## In order of preference -/

theorem starAuxT_sorted (f : St → List (PTree × St)) (a : Pat) (g : Bool)
    (hs : ∀ σ, (f σ).Pairwise (fun x y => Better a x.1 y.1)) :
    ∀ n σ, (starAuxT f g n σ).Pairwise (fun x y => Better (.star a g) x.1 y.1) := by
  intro n
  induction n with
  | zero => intro σ; simp [starAuxT]
  | succ n ih =>
    intro σ
    have hiter : (((f σ).filter (fun tσ => tσ.2.rem.length < σ.rem.length)).flatMap
        (fun tσ => (starAuxT f g n tσ.2).map (fun r => (PTree.cons tσ.1 r.1, r.2)))).Pairwise
        (fun x y => Better (.star a g) x.1 y.1) := by
      rw [List.pairwise_flatMap]
      refine ⟨?_, ?_⟩
      · intro tσ _
        rw [List.pairwise_map]
        exact (ih tσ.2).imp (fun h => Better.starT h)
      · refine ((hs σ).filter _).imp ?_
        intro r1 r2 hb x hx y hy
        rw [List.mem_map] at hx hy
        obtain ⟨_, _, rfl⟩ := hx
        obtain ⟨_, _, rfl⟩ := hy
        exact Better.starH hb
    have hcons : ∀ x ∈ ((f σ).filter (fun tσ => tσ.2.rem.length < σ.rem.length)).flatMap
        (fun tσ => (starAuxT f g n tσ.2).map (fun r => (PTree.cons tσ.1 r.1, r.2))), ∃ u us, x.1 = PTree.cons u us := by
      intro x hx
      rw [List.mem_flatMap] at hx
      obtain ⟨r1, _, h2⟩ := hx
      rw [List.mem_map] at h2
      obtain ⟨r2, _, rfl⟩ := h2
      exact ⟨_, _, rfl⟩
    cases g with
    | true =>
      simp only [starAuxT, if_true]
      rw [List.pairwise_append]
      refine ⟨hiter, by simp, ?_⟩
      intro x hx y hy
      rw [List.mem_singleton] at hy
      subst hy
      obtain ⟨u, us, hu⟩ := hcons x hx
      rw [hu]
      exact Better.greedy
    | false =>
      simp only [starAuxT, Bool.false_eq_true, if_false]
      rw [List.pairwise_cons]
      refine ⟨?_, hiter⟩
      intro y hy
      obtain ⟨u, us, hu⟩ := hcons y hy
      rw [hu]
      exact Better.lazy

/-- an earlier result of the backtracking search is (strictly) preferred to every later one -/
theorem msT_sorted (p : Pat) : ∀ σ, (msT p σ).Pairwise (fun x y => Better p x.1 y.1) := by
  induction p with
  | eps => intro σ; simp [msT]
  | chr c =>
    intro σ
    simp only [msT]
    cases σ.rem with
    | nil => simp
    | cons d t => by_cases hd : d = c <;> simp [hd]
  | cls n it =>
    intro σ
    simp only [msT]
    cases σ.rem with
    | nil => simp
    | cons d t => by_cases hd : clsHas n it d = true <;> simp [hd]
  | cat a b iha ihb =>
    intro σ
    simp only [msT]
    rw [List.pairwise_flatMap]
    refine ⟨?_, ?_⟩
    · intro tσ _
      rw [List.pairwise_map]
      exact (ihb tσ.2).imp (fun h => Better.catR h)
    · refine (iha σ).imp ?_
      intro r1 r2 hb x hx y hy
      rw [List.mem_map] at hx hy
      obtain ⟨_, _, rfl⟩ := hx
      obtain ⟨_, _, rfl⟩ := hy
      exact Better.catL hb
  | alt a b iha ihb =>
    intro σ
    simp only [msT]
    rw [List.pairwise_append]
    refine ⟨?_, ?_, ?_⟩
    · rw [List.pairwise_map]
      exact (iha σ).imp (fun h => Better.altL h)
    · rw [List.pairwise_map]
      exact (ihb σ).imp (fun h => Better.altR h)
    · intro x hx y hy
      rw [List.mem_map] at hx hy
      obtain ⟨_, _, rfl⟩ := hx
      obtain ⟨_, _, rfl⟩ := hy
      exact Better.altLR
  | star a g iha =>
    intro σ
    simp only [msT]
    exact starAuxT_sorted (msT a) a g iha _ σ

/-! ## Parse trees and the language -/

theorem isParse_lang {p : Pat} {t : PTree} {w : Str} (h : IsParse p t w) : Lang p w := by
  induction h with
  | eps => exact .eps
  | chr c => exact .chr c
  | cls n it c hc => exact .cls n it c hc
  | cat _ _ iha ihb => exact .cat iha ihb
  | altL _ ih => exact .altL ih
  | altR _ ih => exact .altR ih
  | starNil => exact .starNil
  | starCons _ _ _ iha ihs => exact .starCons iha ihs

theorem lang_isParse {p : Pat} {w : Str} (h : Lang p w) : ∃ t, IsParse p t w := by
  induction h with
  | eps => exact ⟨_, .eps⟩
  | chr c => exact ⟨_, .chr c⟩
  | cls n it c hc => exact ⟨_, .cls n it c hc⟩
  | cat _ _ iha ihb =>
    obtain ⟨x, hx⟩ := iha
    obtain ⟨y, hy⟩ := ihb
    exact ⟨_, .cat hx hy⟩
  | altL _ ih => obtain ⟨x, hx⟩ := ih; exact ⟨_, .altL hx⟩
  | altR _ ih => obtain ⟨x, hx⟩ := ih; exact ⟨_, .altR hx⟩
  | starNil => exact ⟨_, .starNil⟩
  | @starCons a g u v _ _ iha ihs =>
    obtain ⟨x, hx⟩ := iha
    obtain ⟨xs, hxs⟩ := ihs
    cases u with
    | nil => exact ⟨xs, by simpa using hxs⟩
    | cons d u' => exact ⟨_, .starCons hx (by simp) hxs⟩

/-! ## The first result of the compiled route expression -/

theorem ms_litRe_cases (l : Str) : ∀ σ, ms (litRe l) σ = [] ∨ ∃ σ1, ms (litRe l) σ = [σ1] := by
  induction l with
  | nil => intro σ; exact .inr ⟨σ, rfl⟩
  | cons c t ih =>
    intro σ
    simp only [litRe, ms]
    cases σ.rem with
    | nil => exact .inl rfl
    | cons d r =>
      by_cases hd : d = c
      · simp only [hd, if_true, List.flatMap_cons, List.flatMap_nil, List.append_nil]
        exact ih _
      · simp [hd]

theorem head?_flatMap_some {α β : Type} (f : α → List β) : ∀ (l : List α) (y : β),
    (l.flatMap f).head? = some y →
    ∃ l1 x l2, l = l1 ++ x :: l2 ∧ (∀ z ∈ l1, f z = []) ∧ (f x).head? = some y := by
  intro l
  induction l with
  | nil => intro y h; simp at h
  | cons a t ih =>
    intro y h
    rw [List.flatMap_cons] at h
    cases hfa : f a with
    | nil =>
      rw [hfa, List.nil_append] at h
      obtain ⟨l1, x, l2, rfl, h1, h2⟩ := ih y h
      refine ⟨a :: l1, x, l2, rfl, ?_, h2⟩
      intro z hz
      rw [List.mem_cons] at hz
      rcases hz with rfl | hz
      · exact hfa
      · exact h1 z hz
    | cons b r =>
      rw [hfa] at h
      refine ⟨[], a, t, rfl, by simp, ?_⟩
      rw [hfa]
      simpa using h

/-- the state after a variable's group: its span is recorded -/
def addCap (i : Nat) (σ1 σ2 : St) : St := { σ2 with caps := (i, σ1.pos, σ2.pos) :: σ2.caps }

theorem ms_compileParts_cons (i : Nat) (p : CPart) (ps : List CPart) (trailing : Str) (σ : St) :
    ms (compileParts i (p :: ps) trailing) σ =
      (ms (litRe p.raw) σ).flatMap (fun σ1 =>
        (msT p.pat σ1).flatMap (fun r => ms (compileParts (i + 1) ps trailing) (addCap (i + 1) σ1 r.2))) := by
  simp only [compileParts, ms]
  congr 1
  funext σ1
  rw [← msT_snd p.pat σ1, List.map_map, List.flatMap_map]
  rfl

/-- **the first result is the preferred decomposition.**  Whatever comes first among the results of the compiled route
    expression is a decomposition of the input along the template that `LexPref` prefers to every decomposition. -/
theorem head_compileParts_chosen : ∀ (parts : List CPart) (i : Nat) (trailing : Str) (σ σ' : St),
    (ms (compileParts i parts trailing) σ).head? = some σ' →
    ∃ b, TplMatches (toSegs parts trailing) σ.rem b ∧ b.map (·.1) = parts.map (·.name) ∧
      σ'.rem = [] ∧ σ'.pos = σ.pos + σ.rem.length ∧ σ'.caps = spanCaps i σ.pos parts b σ.caps ∧
      ∀ b', TplMatches (toSegs parts trailing) σ.rem b' → LexPref (toSegs parts trailing) b b' := by
  intro parts
  induction parts with
  | nil =>
    intro i trailing σ σ' h
    obtain ⟨b, h1, h2, h3, h4, h5⟩ := compileParts_sound [] i trailing σ σ' (List.mem_of_head? h)
    exact ⟨b, h1, h2, h3, h4, h5, fun b' _ => by simp [toSegs, LexPref]⟩
  | cons p ps ih =>
    intro i trailing σ σ' h
    rw [ms_compileParts_cons] at h
    rcases ms_litRe_cases p.raw σ with h0 | ⟨σ1, h1⟩
    · rw [h0] at h; simp at h
    · rw [h1, List.flatMap_cons, List.flatMap_nil, List.append_nil] at h
      have hσ1 : σ1 ∈ ms (litRe p.raw) σ := by rw [h1]; simp
      obtain ⟨e1, e2, e3⟩ := (mem_ms_litRe _ _ _).1 hσ1
      obtain ⟨l1, x, l2, hl, hl1, hx⟩ := head?_flatMap_some _ _ _ h
      have hxm : x ∈ msT p.pat σ1 := by rw [hl]; simp
      obtain ⟨v, hv, f1, f2, f3⟩ := msT_sound p.pat σ1 x hxm
      obtain ⟨b0, g1, g2, g3, g4, g5, g6⟩ := ih (i + 1) trailing _ _ hx
      simp only [addCap] at g1 g4 g5 g6
      refine ⟨(p.name, v) :: b0, ?_, ?_, g3, ?_, ?_, ?_⟩
      · rw [e1, f1]
        exact TplMatches.lit (TplMatches.var (isParse_lang hv) g1)
      · simp [g2]
      · rw [g4, f2, e2, e1, f1]
        simp only [List.length_append]; omega
      · rw [g5, f2, e2, f3, e3]
        simp only [spanCaps]
      · intro b' hb'
        simp only [toSegs] at hb'
        obtain ⟨w1, hw1, hb1⟩ := tpl_lit_inv hb'
        obtain ⟨v', w2, b0', rfl, rfl, hv', hb2⟩ := tpl_var_inv hb1
        have hrem : σ1.rem = v' ++ w2 := by
          rw [e1] at hw1
          exact List.append_cancel_left hw1
        simp only [toSegs, LexPref]
        refine ⟨?_, ?_⟩
        · intro hvv
          subst hvv
          have : x.2.rem = w2 := by
            rw [f1] at hrem
            exact List.append_cancel_left hrem
          rw [← this] at hb2
          exact g6 b0' hb2
        · intro _
          refine ⟨x.1, hv, ?_⟩
          intro t' ht'
          have hz := msT_complete p.pat t' v' ht' σ1.pos w2 σ1.caps
          have hσ1eq : (⟨σ1.pos, v' ++ w2, σ1.caps⟩ : St) = σ1 := by
            cases σ1; simp only at hrem; simp [hrem]
          rw [hσ1eq, hl] at hz
          have hcont : ms (compileParts (i + 1) ps trailing)
              (addCap (i + 1) σ1 (t', (⟨σ1.pos + v'.length, w2, σ1.caps⟩ : St)).2) ≠ [] := by
            have := compileParts_complete ps trailing w2 b0' hb2 (i + 1) (σ1.pos + v'.length)
              ((i + 1, σ1.pos, σ1.pos + v'.length) :: σ1.caps)
            intro hnil
            simp only [addCap] at hnil
            rw [hnil] at this
            simp at this
          have hsorted := msT_sorted p.pat σ1
          rw [hl, List.pairwise_append] at hsorted
          rw [List.mem_append, List.mem_cons] at hz
          rcases hz with hz | hz | hz
          · exact (hcont (hl1 _ hz)).elim
          · left
            rw [← hz]
          · right
            have := (List.pairwise_cons.1 hsorted.2.1).1 _ hz
            exact this

/-- `extractRouteParams` on a matching path: no panic, and the variables are the words of THE PREFERRED decomposition -/
theorem extractRouteParams_chosen (parts : List CPart) (trailing tpl path : Str) (rp : RouteParams)
    (hm : matchString (compile parts trailing) path = true) :
    ∃ b, Chosen (toSegs parts trailing) path b ∧ b.map (·.1) = parts.map (·.name) ∧
      extractRouteParams ⟨tpl, compile parts trailing, parts.length, parts.map (·.name)⟩ path rp =
        .ok { rp with vars := some (bindAll b (rp.vars.getD [])) } := by
  simp only [matchString, compile, searchFrom_bol_zero, Option.isSome_map] at hm
  cases hh : (ms (compileParts 0 parts trailing) ⟨0, path, []⟩).head? with
  | none => rw [hh] at hm; simp at hm
  | some σ =>
    obtain ⟨b, hb, hn, _, hpos, hcaps, hpref⟩ := head_compileParts_chosen parts 0 trailing _ _ hh
    simp only at hb hpos hcaps hpref
    refine ⟨b, ⟨hb, hpref⟩, hn, ?_⟩
    have hlen := tpl_binds_length parts trailing path b hb
    have hsl := spans_length parts 0 b hlen
    simp only [extractRouteParams, find, compile, searchFrom_bol_zero, hh, Option.map_some]
    have hpos' : (0 : Nat) < ([((0 : Nat) : Int), (σ.pos : Int)] ++
        (List.range parts.length).flatMap (fun g => [(capPair σ.caps (g + 1)).1, (capPair σ.caps (g + 1)).2])).length := by
      simp
    rw [if_pos (by simp)]
    have key := extractVars_eq path
      ([((0 : Nat) : Int), (σ.pos : Int)] ++
        (List.range parts.length).flatMap (fun g => [(capPair σ.caps (g + 1)).1, (capPair σ.caps (g + 1)).2]))
      (parts.map (·.name)) (b.map (·.2)) 0 (rp.vars.getD []) (by simp [hlen]) (by
        intro j hj
        simp only [List.length_map] at hj
        obtain ⟨x, y, v, hx, hv, hs⟩ := spans_slice parts trailing path b hb [] j hj
        simp only [List.length_nil, List.nil_append] at hx hs
        have hcp : capPair σ.caps (j + 1) = ((x : Int), (y : Int)) := by
          simp only [capPair, hcaps, capLookup_spanCaps, hsl]
          have : 0 < j + 1 ∧ j + 1 ≤ 0 + parts.length := by omega
          simp only [this, and_self, if_true, Nat.add_sub_cancel, Nat.sub_zero, hx]
        obtain ⟨g1, g2⟩ := flatMap_pairs_get (fun g => capPair σ.caps (g + 1)) parts.length j hj
        refine ⟨(x : Int), (y : Int), v, ?_, ?_, hv, hs⟩
        · have e : 2 * (0 + j) + 2 = 2 * j + 2 := by omega
          rw [e, List.getElem?_append_right (by simp)]
          simp only [List.length_cons, List.length_nil, Nat.add_sub_cancel]
          rw [g1, hcp]
        · have e : 2 * (0 + j) + 3 = 2 * j + 1 + 2 := by omega
          rw [e, List.getElem?_append_right (by simp)]
          simp only [List.length_cons, List.length_nil, Nat.add_sub_cancel]
          rw [g2, hcp])
    rw [← hn, zip_fst_snd] at key
    rw [← hn]
    simp only [bind, Except.bind] at key ⊢
    rw [key]
    rfl

end CoapVerif.Lemmas.Router
