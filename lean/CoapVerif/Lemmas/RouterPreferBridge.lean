import CoapVerif.Lemmas.RouterSegments
import CoapVerif.Lemmas.RouterPreferSpec
/-!
# C17 lemmas, part 10 — the preferred decomposition does not depend on whose cut of the template is used

The model parses a bare `{name}` as `parsePat "[^/]+"` = `X·ε`, the specification writes `X` (`segmentPat`); every other
variable pattern is the same expression on both sides (`PatSame`, carried by `SegsEq`).  Appending `ε` does not change the
preference order, so `Chosen` over the model's parts and over the specification's segments is the same decomposition.
-/
namespace CoapVerif.Lemmas.Router
open CoapVerif.Model.Router (Str Pat)
open CoapVerif.Spec.Router

theorem isParse_cat_eps {p : Pat} {t : PTree} {w : Str} :
    IsParse (.cat p .eps) t w ↔ ∃ x, t = .pair x .leaf ∧ IsParse p x w := by
  constructor
  · intro h
    cases h with
    | @cat _ _ x y u v hu hv =>
      cases hv
      exact ⟨x, rfl, by simpa using hu⟩
  · rintro ⟨x, rfl, hx⟩
    have := IsParse.cat hx IsParse.eps
    simpa using this

theorem better_cat_eps {p : Pat} {x x' : PTree} :
    Better (.cat p .eps) (.pair x .leaf) (.pair x' .leaf) ↔ Better p x x' := by
  constructor
  · intro h
    cases h with
    | catL h' => exact h'
    | catR h' => cases h'
  · exact fun h => .catL h

theorem wordPref_cat_eps (p : Pat) (u u' : Str) : WordPref (.cat p .eps) u u' ↔ WordPref p u u' := by
  constructor
  · rintro ⟨t, ht, hbest⟩
    obtain ⟨x, rfl, hx⟩ := isParse_cat_eps.1 ht
    refine ⟨x, hx, ?_⟩
    intro x' hx'
    rcases hbest (.pair x' .leaf) (isParse_cat_eps.2 ⟨x', rfl, hx'⟩) with heq | hb
    · left
      simp only [PTree.pair.injEq, and_true] at heq
      exact heq
    · exact .inr (better_cat_eps.1 hb)
  · rintro ⟨x, hx, hbest⟩
    refine ⟨.pair x .leaf, isParse_cat_eps.2 ⟨x, rfl, hx⟩, ?_⟩
    intro t' ht'
    obtain ⟨x', rfl, hx'⟩ := isParse_cat_eps.1 ht'
    rcases hbest x' hx' with heq | hb
    · left; rw [heq]
    · exact .inr (better_cat_eps.2 hb)

theorem wordPref_patSame {p q : Pat} (h : PatSame p q) (u u' : Str) : WordPref p u u' ↔ WordPref q u u' := by
  rcases h with rfl | ⟨rfl, rfl⟩ | ⟨rfl, rfl⟩
  · exact Iff.rfl
  · exact (wordPref_cat_eps _ u u').symm
  · exact wordPref_cat_eps _ u u'

theorem lexPref_segsEq : ∀ (a b : List Seg), SegsEq a b → ∀ x y, LexPref a x y ↔ LexPref b x y
  | [], [], _, x, y => by simp [LexPref]
  | [], _ :: _, h, _, _ => h.elim
  | _ :: _, [], h, _, _ => h.elim
  | s :: as, t :: bs, h, x, y => by
    obtain ⟨hst, hrest⟩ := h
    cases s with
    | lit ls =>
      cases t with
      | lit lt => simp only [LexPref]; exact lexPref_segsEq as bs hrest x y
      | var _ _ => exact hst.elim
    | var n p =>
      cases t with
      | lit _ => exact hst.elim
      | var m q =>
        simp only [SegEq] at hst
        obtain ⟨_, _, hps⟩ := hst
        cases x with
        | nil => simp [LexPref]
        | cons e x' =>
          cases y with
          | nil => simp [LexPref]
          | cons e' y' =>
            obtain ⟨n1, v⟩ := e
            obtain ⟨n2, v'⟩ := e'
            simp only [LexPref]
            rw [lexPref_segsEq as bs hrest x' y', wordPref_patSame hps v v']

/-- `Chosen` is the same over two cuts of a template that are `SegsEq` -/
theorem chosen_segsEq {a b : List Seg} (h : SegsEq a b) (w : Str) (x : List (Str × Str)) :
    Chosen a w x ↔ Chosen b w x := by
  constructor
  · rintro ⟨hm, hp⟩
    refine ⟨tplMatches_congr a b h w x hm, ?_⟩
    intro y hy
    exact (lexPref_segsEq a b h x y).1 (hp y (tplMatches_congr b a h.symm w y hy))
  · rintro ⟨hm, hp⟩
    refine ⟨tplMatches_congr b a h.symm w x hm, ?_⟩
    intro y hy
    exact (lexPref_segsEq a b h x y).2 (hp y (tplMatches_congr a b h w y hy))

/-- for an accepted template: the specification's segments and the model's parts single out the same decomposition -/
theorem chosen_to_spec {tpl : Str} {rx : CoapVerif.Model.Router.RouteRegexp}
    (h : CoapVerif.Model.Router.newRouteRegexp tpl = .ok rx)
    {parts : List CoapVerif.Model.Router.CPart} {trailing : Str}
    (hp : CoapVerif.Model.Router.parseTemplate tpl = .ok (parts, trailing)) :
    ∃ segs, segments tpl = .ok segs ∧ ∀ path b, Chosen (toSegs parts trailing) path b ↔ Chosen segs path b := by
  have hagree := parseTemplate_segments tpl
  simp only [CoapVerif.Model.Router.newRouteRegexp, bind, Except.bind] at h
  rw [hp] at h hagree
  simp only at h
  have hnc : (parts.any (·.hasCap)) = false := by
    cases hc : parts.any (·.hasCap) with
    | false => rfl
    | true => simp [hc] at h
  cases hs : segments tpl with
  | error te =>
    rw [hs] at hagree
    cases te <;> simp only [ParseAgrees] at hagree
    rw [hnc] at hagree; cases hagree
  | ok segs =>
    rw [hs] at hagree
    simp only [ParseAgrees] at hagree
    exact ⟨segs, rfl, fun path b => (chosen_segsEq hagree.2.symm path b)⟩

end CoapVerif.Lemmas.Router
