import CoapVerif.Lemmas.RouterSpec
import CoapVerif.Spec.RouterPrefer
/-!
# C17 lemmas, part 8 — the preference order of the specification

* `better_asymm` : `Better` is asymmetric (hence irreflexive): two readings cannot each be preferred to the other.
* `isParse_length` : a parse tree fixes the length of the word it reads.
* `lexPref_antisymm` / `chosen_unique` : two decompositions of the same path that are each preferred to the other are
  equal — THE chosen decomposition.
* `mem_parsesOf`, `betterB_iff`, `wordPrefB_iff`, `lexPrefB_iff`, `chosen_iff` : the executable forms used by the judge
  are exact.
* `delimited_unique` : when every variable is followed by a literal whose first character its pattern excludes, the path has
  at most one decomposition.
-/
namespace CoapVerif.Lemmas.Router
open CoapVerif.Model.Router (Str Pat ClsItem clsHas)
open CoapVerif.Spec.Router

theorem better_irrefl : ∀ (t : PTree) (p : Pat), ¬ Better p t t := by
  intro t
  induction t with
  | leaf => intro p h; cases h
  | pair x y ihx ihy =>
    intro p h
    cases h with
    | catL h' => exact ihx _ h'
    | catR h' => exact ihy _ h'
  | inl x ih => intro p h; cases h with | altL h' => exact ih _ h'
  | inr y ih => intro p h; cases h with | altR h' => exact ih _ h'
  | nil => intro p h; cases h
  | cons x xs ihx ihxs =>
    intro p h
    cases h with
    | starH h' => exact ihx _ h'
    | starT h' => exact ihxs _ h'

theorem better_asymm {p : Pat} {t t' : PTree} (h : Better p t t') : ¬ Better p t' t := by
  induction h with
  | catL hx ih =>
    intro h2
    cases h2 with
    | catL h' => exact ih h'
    | catR _ => exact better_irrefl _ _ hx
  | catR hy ih =>
    intro h2
    cases h2 with
    | catL h' => exact better_irrefl _ _ h'
    | catR h' => exact ih h'
  | altLR => intro h2; cases h2
  | altL _ ih => intro h2; cases h2 with | altL h' => exact ih h'
  | altR _ ih => intro h2; cases h2 with | altR h' => exact ih h'
  | greedy => intro h2; cases h2
  | lazy => intro h2; cases h2
  | starH hx ih =>
    intro h2
    cases h2 with
    | starH h' => exact ih h'
    | starT _ => exact better_irrefl _ _ hx
  | starT hxs ih =>
    intro h2
    cases h2 with
    | starH h' => exact better_irrefl _ _ h'
    | starT h' => exact ih h'

/-- a parse tree fixes the length of the word it reads -/
theorem isParse_length {p : Pat} {t : PTree} {w : Str} (h : IsParse p t w) :
    ∀ {w' : Str}, IsParse p t w' → w.length = w'.length := by
  induction h with
  | eps => intro w' h'; cases h'; rfl
  | chr c => intro w' h'; cases h'; rfl
  | cls n it c hc => intro w' h'; cases h'; rfl
  | cat _ _ iha ihb =>
    intro w' h'
    cases h' with
    | cat ha hb => simp only [List.length_append, iha ha, ihb hb]
  | altL _ ih => intro w' h'; cases h' with | altL h1 => exact ih h1
  | altR _ ih => intro w' h'; cases h' with | altR h1 => exact ih h1
  | starNil => intro w' h'; cases h'; rfl
  | starCons _ _ _ iha ihs =>
    intro w' h'
    cases h' with
    | starCons ha _ hs => simp only [List.length_append, iha ha, ihs hs]

theorem append_eq_append_of_length {u u' w w' : Str} (h : u ++ w = u' ++ w') (hl : u.length = u'.length) :
    u = u' ∧ w = w' := List.append_inj h hl

/-- two words of a variable's pattern that start at the same place of the path and are each preferred to the other are
    the same word -/
theorem wordPref_antisymm {p : Pat} {u u' w w' : Str} (hcommon : u ++ w = u' ++ w')
    (h1 : WordPref p u u') (h2 : WordPref p u' u) : u = u' := by
  obtain ⟨t, ht, hbest⟩ := h1
  obtain ⟨t', ht', hbest'⟩ := h2
  have hlen : u.length = u'.length := by
    rcases hbest t' ht' with heq | hb
    · subst heq; exact isParse_length ht ht'
    · rcases hbest' t ht with heq | hb'
      · subst heq; exact isParse_length ht ht'
      · exact (better_asymm hb hb').elim
  exact (append_eq_append_of_length hcommon hlen).1

theorem tplM_lit_inv {s : Str} {r : List Seg} {w : Str} {b : List (Str × Str)} (h : TplMatches (.lit s :: r) w b) :
    ∃ w', w = s ++ w' ∧ TplMatches r w' b := by
  cases h with
  | lit h => exact ⟨_, rfl, h⟩

theorem tplM_var_inv {n : Str} {p : Pat} {r : List Seg} {w : Str} {b : List (Str × Str)}
    (h : TplMatches (.var n p :: r) w b) :
    ∃ v w' b', w = v ++ w' ∧ b = (n, v) :: b' ∧ Lang p v ∧ TplMatches r w' b' := by
  cases h with
  | var hv h => exact ⟨_, _, _, rfl, rfl, hv, h⟩

/-- two decompositions of the same path that are each preferred to the other are equal -/
theorem lexPref_antisymm : ∀ (segs : List Seg) (w : Str) (b b' : List (Str × Str)),
    TplMatches segs w b → TplMatches segs w b' → LexPref segs b b' → LexPref segs b' b → b = b' := by
  intro segs
  induction segs with
  | nil =>
    intro w b b' h h' _ _
    cases h; cases h'; rfl
  | cons sg r ih =>
    intro w b b' h h' hp hp'
    cases sg with
    | lit s =>
      obtain ⟨w1, rfl, h1⟩ := tplM_lit_inv h
      obtain ⟨w2, e2, h2⟩ := tplM_lit_inv h'
      have := List.append_cancel_left e2
      subst this
      simp only [LexPref] at hp hp'
      exact ih _ _ _ h1 h2 hp hp'
    | var n p =>
      obtain ⟨v, w1, b1, rfl, rfl, _, h1⟩ := tplM_var_inv h
      obtain ⟨v', w2, b2, e2, rfl, _, h2⟩ := tplM_var_inv h'
      simp only [LexPref] at hp hp'
      have hv : v = v' := by
        by_cases hvv : v = v'
        · exact hvv
        · exact wordPref_antisymm e2 (hp.2 hvv) (hp'.2 (fun e => hvv e.symm))
      subst hv
      have := List.append_cancel_left e2
      subst this
      rw [ih _ _ _ h1 h2 (hp.1 rfl) (hp'.1 rfl)]

/-- **there is at most one chosen decomposition** -/
theorem chosen_unique {segs : List Seg} {path : Str} {b b' : List (Str × Str)}
    (h : Chosen segs path b) (h' : Chosen segs path b') : b = b' :=
  lexPref_antisymm segs path b b' h.1 h'.1 (h.2 b' h'.1) (h'.2 b h.1)

/-! ## The executable forms are exact -/

theorem mem_parsesStar (f : Str → List PTree) (a : Pat) (g : Bool)
    (hf : ∀ t w, t ∈ f w ↔ IsParse a t w) :
    ∀ (n : Nat) (w : Str) (t : PTree), w.length ≤ n → (t ∈ parsesStar f n w ↔ IsParse (.star a g) t w) := by
  intro n
  induction n with
  | zero =>
    intro w t hn
    cases w with
    | nil =>
      simp only [parsesStar, List.mem_singleton]
      constructor
      · rintro rfl; exact .starNil
      · intro h
        generalize hw : ([] : Str) = w0 at h
        cases h with
        | starNil => rfl
        | starCons _ hne _ =>
          rename_i u v _ _
          cases u with
          | nil => exact (hne rfl).elim
          | cons _ _ => simp at hw
    | cons c r => simp at hn
  | succ n ih =>
    intro w t hn
    cases w with
    | nil =>
      simp only [parsesStar, List.mem_singleton]
      constructor
      · rintro rfl; exact .starNil
      · intro h
        generalize hw : ([] : Str) = w0 at h
        cases h with
        | starNil => rfl
        | starCons _ hne _ =>
          rename_i u v _ _
          cases u with
          | nil => exact (hne rfl).elim
          | cons _ _ => simp at hw
    | cons c r =>
      simp only [parsesStar, List.mem_flatMap, List.mem_map]
      constructor
      · rintro ⟨⟨u, v⟩, huv, x, hx, xs, hxs, rfl⟩
        rw [mem_splits] at huv
        simp only at hx hxs
        have hlen : v.length ≤ n := by
          have : (c :: r).length = (c :: (u ++ v)).length := by rw [huv]
          simp only [List.length_cons, List.length_append] at this hn
          omega
        have h1 := (hf x (c :: u)).1 hx
        have h2 := (ih v xs hlen).1 hxs
        have := IsParse.starCons (g := g) h1 (by simp) h2
        rw [huv]
        simpa using this
      · intro h
        generalize hw : c :: r = w0 at h
        cases h with
        | starNil => simp at hw
        | @starCons _ _ x xs u v hu hne hv =>
          cases u with
          | nil => exact (hne rfl).elim
          | cons d u' =>
            simp only [List.cons_append, List.cons.injEq] at hw
            obtain ⟨rfl, rfl⟩ := hw
            have hlen : v.length ≤ n := by
              simp only [List.length_cons, List.length_append] at hn
              omega
            exact ⟨(u', v), (mem_splits _ _ _).2 rfl, x, (hf x _).2 hu, xs, (ih v xs hlen).2 hv, rfl⟩

theorem mem_parsesOf (p : Pat) : ∀ (t : PTree) (w : Str), t ∈ parsesOf p w ↔ IsParse p t w := by
  induction p with
  | eps =>
    intro t w
    simp only [parsesOf]
    constructor
    · intro h
      by_cases hw : w = []
      · simp only [hw, if_true, List.mem_singleton] at h
        subst h; subst hw; exact .eps
      · simp [hw] at h
    · intro h; cases h; simp
  | chr c =>
    intro t w
    simp only [parsesOf]
    constructor
    · intro h
      by_cases hw : w = [c]
      · simp only [hw, if_true, List.mem_singleton] at h
        subst h; subst hw; exact .chr c
      · simp [hw] at h
    · intro h; cases h; simp
  | cls n it =>
    intro t w
    constructor
    · intro h
      match w, h with
      | [d], h =>
        simp only [parsesOf] at h
        by_cases hc : clsHas n it d = true
        · simp only [hc, if_true, List.mem_singleton] at h
          subst h; exact .cls n it d hc
        · simp [hc] at h
      | [], h => simp [parsesOf] at h
      | _ :: _ :: _, h => simp [parsesOf] at h
    · intro h
      cases h with
      | cls _ _ d hc => simp [parsesOf, hc]
  | cat a b iha ihb =>
    intro t w
    simp only [parsesOf, List.mem_flatMap, List.mem_map]
    constructor
    · rintro ⟨⟨u, v⟩, huv, x, hx, y, hy, rfl⟩
      rw [mem_splits] at huv
      subst huv
      exact .cat ((iha x u).1 hx) ((ihb y v).1 hy)
    · intro h
      cases h with
      | @cat _ _ x y u v hu hv =>
        exact ⟨(u, v), (mem_splits _ _ _).2 rfl, x, (iha x u).2 hu, y, (ihb y v).2 hv, rfl⟩
  | alt a b iha ihb =>
    intro t w
    simp only [parsesOf, List.mem_append, List.mem_map]
    constructor
    · rintro (⟨x, hx, rfl⟩ | ⟨y, hy, rfl⟩)
      · exact .altL ((iha x w).1 hx)
      · exact .altR ((ihb y w).1 hy)
    · intro h
      cases h with
      | altL h1 => exact .inl ⟨_, (iha _ w).2 h1, rfl⟩
      | altR h1 => exact .inr ⟨_, (ihb _ w).2 h1, rfl⟩
  | star a g iha =>
    intro t w
    simp only [parsesOf]
    exact mem_parsesStar (parsesOf a) a g iha w.length w t (Nat.le_refl _)

theorem better_of_betterB : ∀ (t : PTree) (p : Pat) (t' : PTree), betterB p t t' = true → Better p t t' := by
  intro t
  induction t with
  | leaf => intro p t' h; cases t' <;> simp [betterB] at h
  | pair x y ihx ihy =>
    intro p t' h
    cases t' with
    | pair x' y' =>
      cases p with
      | cat a b =>
        simp only [betterB, Bool.or_eq_true, Bool.and_eq_true, beq_iff_eq] at h
        rcases h with h | ⟨rfl, h⟩
        · exact .catL (ihx _ _ h)
        · exact .catR (ihy _ _ h)
      | _ => simp [betterB] at h
    | _ => simp [betterB] at h
  | inl x ih =>
    intro p t' h
    cases t' with
    | inl x' =>
      cases p with
      | alt a b => simp only [betterB] at h; exact .altL (ih _ _ h)
      | _ => simp [betterB] at h
    | inr y' =>
      cases p with
      | alt a b => exact .altLR
      | _ => simp [betterB] at h
    | _ => simp [betterB] at h
  | inr y ih =>
    intro p t' h
    cases t' with
    | inr y' =>
      cases p with
      | alt a b => simp only [betterB] at h; exact .altR (ih _ _ h)
      | _ => simp [betterB] at h
    | _ => simp [betterB] at h
  | nil =>
    intro p t' h
    cases t' with
    | cons x' xs' =>
      cases p with
      | star a g =>
        simp only [betterB, Bool.not_eq_true'] at h
        subst h
        exact .lazy
      | _ => simp [betterB] at h
    | _ => simp [betterB] at h
  | cons x xs ihx ihxs =>
    intro p t' h
    cases t' with
    | cons x' xs' =>
      cases p with
      | star a g =>
        simp only [betterB, Bool.or_eq_true, Bool.and_eq_true, beq_iff_eq] at h
        rcases h with h | ⟨rfl, h⟩
        · exact .starH (ihx _ _ h)
        · exact .starT (ihxs _ _ h)
      | _ => simp [betterB] at h
    | nil =>
      cases p with
      | star a g =>
        simp only [betterB] at h
        subst h
        exact .greedy
      | _ => simp [betterB] at h
    | _ => simp [betterB] at h

theorem betterB_of_better {p : Pat} {t t' : PTree} (h : Better p t t') : betterB p t t' = true := by
  induction h with
  | catL _ ih => simp [betterB, ih]
  | catR _ ih => simp [betterB, ih]
  | altLR => simp [betterB]
  | altL _ ih => simp [betterB, ih]
  | altR _ ih => simp [betterB, ih]
  | greedy => simp [betterB]
  | lazy => simp [betterB]
  | starH _ ih => simp [betterB, ih]
  | starT _ ih => simp [betterB, ih]

theorem betterB_iff (p : Pat) (t t' : PTree) : betterB p t t' = true ↔ Better p t t' :=
  ⟨better_of_betterB t p t', betterB_of_better⟩

theorem wordPrefB_iff (p : Pat) (u u' : Str) : wordPrefB p u u' = true ↔ WordPref p u u' := by
  simp only [wordPrefB, WordPref, List.any_eq_true, List.all_eq_true, Bool.or_eq_true, beq_iff_eq, mem_parsesOf,
    betterB_iff, BetterEq]

theorem lexPrefB_iff : ∀ (segs : List Seg) (b b' : List (Str × Str)), lexPrefB segs b b' = true ↔ LexPref segs b b' := by
  intro segs
  induction segs with
  | nil => intro b b'; simp [lexPrefB, LexPref]
  | cons sg r ih =>
    intro b b'
    cases sg with
    | lit s => simp only [lexPrefB, LexPref]; exact ih b b'
    | var n p =>
      cases b with
      | nil => simp [lexPrefB, LexPref]
      | cons e b1 =>
        cases b' with
        | nil => simp [lexPrefB, LexPref]
        | cons e' b2 =>
          obtain ⟨n1, v⟩ := e
          obtain ⟨n2, v'⟩ := e'
          simp only [lexPrefB, LexPref]
          by_cases hv : v = v'
          · simp only [hv, if_true, ne_eq, not_true_eq_false, false_implies, and_true, true_implies]
            exact ih b1 b2
          · simp only [hv, if_false, false_implies, true_and, ne_eq, not_false_eq_true, true_implies]
            exact wordPrefB_iff p v v'

/-- the judge's `chosen` is exactly the declarative `Chosen` -/
theorem chosen_iff (segs : List Seg) (path : Str) (b : List (Str × Str)) :
    chosen segs path = some b ↔ Chosen segs path b := by
  constructor
  · intro h
    simp only [chosen] at h
    have hm := List.mem_of_find?_eq_some h
    have hp := List.find?_some h
    simp only [List.all_eq_true] at hp
    refine ⟨(mem_decomps _ _ _).1 hm, ?_⟩
    intro b' hb'
    exact (lexPrefB_iff _ _ _).1 (hp b' ((mem_decomps _ _ _).2 hb'))
  · intro h
    have hgood : ∀ c, c ∈ decomps segs path → ((decomps segs path).all (fun b' => lexPrefB segs c b')) = true → c = b := by
      intro c hc hall
      simp only [List.all_eq_true] at hall
      apply chosen_unique (path := path) _ h
      refine ⟨(mem_decomps _ _ _).1 hc, ?_⟩
      intro b' hb'
      exact (lexPrefB_iff _ _ _).1 (hall b' ((mem_decomps _ _ _).2 hb'))
    have hb : b ∈ decomps segs path := (mem_decomps _ _ _).2 h.1
    have hball : ((decomps segs path).all (fun b' => lexPrefB segs b b')) = true := by
      simp only [List.all_eq_true]
      intro b' hb'
      exact (lexPrefB_iff _ _ _).2 (h.2 b' ((mem_decomps _ _ _).1 hb'))
    simp only [chosen]
    cases hf : (decomps segs path).find? (fun b => (decomps segs path).all (fun b' => lexPrefB segs b b')) with
    | none =>
      rw [List.find?_eq_none] at hf
      exact ((hf b hb) hball).elim
    | some c =>
      have hm := List.mem_of_find?_eq_some hf
      have hp := List.find?_some hf
      rw [hgood c hm hp]

/-! ## Delimited templates have at most one decomposition -/

theorem split_at_delimiter (c : Char) : ∀ (v v' x x' : Str), c ∉ v → c ∉ v' → v ++ c :: x = v' ++ c :: x' → v = v' ∧ x = x' := by
  intro v
  induction v with
  | nil =>
    intro v' x x' _ hc' h
    cases v' with
    | nil => simpa using h
    | cons d t =>
      simp only [List.nil_append, List.cons_append, List.cons.injEq] at h
      exact (hc' (by simp [h.1])).elim
  | cons e u ih =>
    intro v' x x' hc hc' h
    cases v' with
    | nil =>
      simp only [List.nil_append, List.cons_append, List.cons.injEq] at h
      exact (hc (by simp [h.1])).elim
    | cons d t =>
      simp only [List.cons_append, List.cons.injEq] at h
      obtain ⟨rfl, h2⟩ := h
      obtain ⟨rfl, rfl⟩ := ih t x x' (fun hm => hc (by simp [hm])) (fun hm => hc' (by simp [hm])) h2
      exact ⟨rfl, rfl⟩

theorem delimited_unique : ∀ (segs : List Seg) (w : Str) (b b' : List (Str × Str)),
    Delimited segs → TplMatches segs w b → TplMatches segs w b' → b = b'
  | [], _, _, _, _, h, h' => by cases h; cases h'; rfl
  | .lit s :: r, _, b, b', hd, h, h' => by
    obtain ⟨w1, rfl, h1⟩ := tplM_lit_inv h
    obtain ⟨w2, e2, h2⟩ := tplM_lit_inv h'
    have := List.append_cancel_left e2
    subst this
    exact delimited_unique r _ _ _ (by simpa [Delimited] using hd) h1 h2
  | [.var n p], _, _, _, _, h, h' => by
    obtain ⟨v, w1, b1, rfl, rfl, _, h1⟩ := tplM_var_inv h
    obtain ⟨v', w2, b2, e2, rfl, _, h2⟩ := tplM_var_inv h'
    cases h1; cases h2
    simp only [List.append_nil] at e2
    rw [e2]
  | [.var n p, .lit []], _, _, _, _, h, h' => by
    obtain ⟨v, w1, b1, rfl, rfl, _, h1⟩ := tplM_var_inv h
    obtain ⟨v', w2, b2, e2, rfl, _, h2⟩ := tplM_var_inv h'
    obtain ⟨w3, rfl, h3⟩ := tplM_lit_inv h1
    obtain ⟨w4, rfl, h4⟩ := tplM_lit_inv h2
    cases h3; cases h4
    simp only [List.append_nil] at e2
    rw [e2]
  | .var n p :: .lit (c :: s) :: r, _, _, _, hd, h, h' => by
    simp only [Delimited] at hd
    obtain ⟨v, w1, b1, rfl, rfl, hv, h1⟩ := tplM_var_inv h
    obtain ⟨v', w2, b2, e2, rfl, hv', h2⟩ := tplM_var_inv h'
    obtain ⟨w3, rfl, h3⟩ := tplM_lit_inv h1
    obtain ⟨w4, rfl, h4⟩ := tplM_lit_inv h2
    simp only [List.cons_append] at e2
    obtain ⟨rfl, e3⟩ := split_at_delimiter c v v' _ _ (hd.1 v hv) (hd.1 v' hv') e2
    have := List.append_cancel_left e3
    subst this
    rw [delimited_unique r _ _ _ hd.2 h3 h4]
  | .var _ _ :: .var _ _ :: _, _, _, _, hd, _, _ => by simp [Delimited] at hd
  | .var _ _ :: .lit [] :: _ :: _, _, _, _, hd, _, _ => by simp [Delimited] at hd

end CoapVerif.Lemmas.Router
