import CoapVerif.Model.Router
import CoapVerif.Spec.Router
/-!
# C17 lemmas, part 1 — the two matchers agree with the declarative language

* `dmatch_iff` : the specification's derivative matcher decides `Lang`.
* `ms_toRe_sound` / `ms_toRe_complete` : the model's backtracking matcher, run on the translation of a pattern,
  returns exactly the splits `w ++ rest` with `Lang p w` (and leaves captures untouched).
-/
namespace CoapVerif.Lemmas.Router
open CoapVerif.Model.Router CoapVerif.Spec.Router

/-! ## Inversions of `Lang` -/

theorem lang_eps_inv {w : Str} (h : Lang .eps w) : w = [] := by cases h; rfl

theorem lang_chr_inv {c : Char} {w : Str} (h : Lang (.chr c) w) : w = [c] := by cases h; rfl

theorem lang_cls_inv {n : Bool} {it : List ClsItem} {w : Str} (h : Lang (.cls n it) w) :
    ∃ c, w = [c] ∧ clsHas n it c = true := by
  cases h with
  | cls _ _ c hc => exact ⟨c, rfl, hc⟩

theorem lang_cat_inv {a b : Pat} {w : Str} (h : Lang (.cat a b) w) :
    ∃ u v, w = u ++ v ∧ Lang a u ∧ Lang b v := by
  cases h with
  | cat ha hb => exact ⟨_, _, rfl, ha, hb⟩

theorem lang_alt_inv {a b : Pat} {w : Str} (h : Lang (.alt a b) w) : Lang a w ∨ Lang b w := by
  cases h with
  | altL h => exact .inl h
  | altR h => exact .inr h

theorem lang_empty_cls {w : Str} : ¬ Lang (.cls false []) w := by
  intro h
  obtain ⟨c, _, hc⟩ := lang_cls_inv h
  simp [clsHas] at hc

/-- a non-empty word of a star starts with a non-empty word of the body -/
theorem lang_star_cons_inv {a : Pat} {g : Bool} {c : Char} {w : Str} (h : Lang (.star a g) (c :: w)) :
    ∃ u v, w = u ++ v ∧ Lang a (c :: u) ∧ Lang (.star a g) v := by
  generalize hp : Pat.star a g = p at h
  generalize hx : c :: w = x at h
  induction h generalizing w with
  | eps => cases hp
  | chr => cases hp
  | cls => cases hp
  | cat => cases hp
  | altL => cases hp
  | altR => cases hp
  | starNil => cases hx
  | @starCons a' g' u v hu hv _ ih2 =>
    cases hp
    cases u with
    | nil =>
      simp only [List.nil_append] at hx
      exact ih2 rfl hx
    | cons d u' =>
      simp only [List.cons_append, List.cons.injEq] at hx
      obtain ⟨rfl, rfl⟩ := hx
      exact ⟨u', v, rfl, hu, hv⟩

/-! ## Derivatives -/

theorem nullable_iff (p : Pat) : p.nullable = true ↔ Lang p [] := by
  induction p with
  | eps => exact ⟨fun _ => .eps, fun _ => rfl⟩
  | chr c => exact ⟨fun h => by simp [Pat.nullable] at h, fun h => by cases lang_chr_inv h⟩
  | cls n it =>
    refine ⟨fun h => by simp [Pat.nullable] at h, fun h => ?_⟩
    obtain ⟨c, hc, _⟩ := lang_cls_inv h
    cases hc
  | cat a b iha ihb =>
    simp only [Pat.nullable, Bool.and_eq_true, iha, ihb]
    constructor
    · rintro ⟨ha, hb⟩
      exact Lang.cat ha hb
    · intro h
      obtain ⟨u, v, huv, ha, hb⟩ := lang_cat_inv h
      have hu : u = [] := by cases u with | nil => rfl | cons _ _ => cases huv
      have hv : v = [] := by subst hu; simpa using huv.symm
      subst hu hv
      exact ⟨ha, hb⟩
  | alt a b iha ihb =>
    simp only [Pat.nullable, Bool.or_eq_true, iha, ihb]
    exact ⟨fun h => h.elim .altL .altR, lang_alt_inv⟩
  | star a g _ => exact ⟨fun _ => .starNil, fun _ => rfl⟩

theorem deriv_iff (c : Char) (p : Pat) (w : Str) : Lang (deriv c p) w ↔ Lang p (c :: w) := by
  induction p generalizing w with
  | eps =>
    simp only [deriv]
    exact ⟨fun h => (lang_empty_cls h).elim, fun h => by cases lang_eps_inv h⟩
  | chr d =>
    simp only [deriv]
    by_cases hd : d = c
    · subst hd
      simp only [if_true]
      constructor
      · intro h; rw [lang_eps_inv h]; exact .chr d
      · intro h
        have := lang_chr_inv h
        simp only [List.cons.injEq, true_and] at this
        subst this; exact .eps
    · simp only [hd, if_false]
      constructor
      · intro h; exact (lang_empty_cls h).elim
      · intro h
        have := lang_chr_inv h
        simp only [List.cons.injEq] at this
        exact (hd this.1.symm).elim
  | cls n it =>
    simp only [deriv]
    by_cases hc : clsHas n it c = true
    · simp only [hc, if_true]
      constructor
      · intro h; rw [lang_eps_inv h]; exact .cls n it c hc
      · intro h
        obtain ⟨d, hd, _⟩ := lang_cls_inv h
        simp only [List.cons.injEq] at hd
        rw [hd.2]; exact .eps
    · simp only [hc]
      constructor
      · intro h; exact (lang_empty_cls h).elim
      · intro h
        obtain ⟨d, hd, hd2⟩ := lang_cls_inv h
        simp only [List.cons.injEq] at hd
        rw [← hd.1] at hd2
        exact (hc hd2).elim
  | cat a b iha ihb =>
    simp only [deriv]
    have key : Lang (.cat (deriv c a) b) w → Lang (.cat a b) (c :: w) := by
      intro h
      obtain ⟨u, v, rfl, hu, hv⟩ := lang_cat_inv h
      have := Lang.cat ((iha u).1 hu) hv
      simpa using this
    by_cases hn : a.nullable = true
    · simp only [hn, if_true]
      constructor
      · intro h
        rcases lang_alt_inv h with h | h
        · exact key h
        · have := Lang.cat ((nullable_iff a).1 hn) ((ihb w).1 h)
          simpa using this
      · intro h
        obtain ⟨u, v, huv, hu, hv⟩ := lang_cat_inv h
        cases u with
        | nil =>
          simp only [List.nil_append] at huv
          subst huv
          exact .altR ((ihb w).2 hv)
        | cons d u' =>
          simp only [List.cons_append, List.cons.injEq] at huv
          obtain ⟨rfl, rfl⟩ := huv
          exact .altL (Lang.cat ((iha u').2 hu) hv)
    · simp only [hn]
      constructor
      · exact key
      · intro h
        obtain ⟨u, v, huv, hu, hv⟩ := lang_cat_inv h
        cases u with
        | nil => exact (hn ((nullable_iff a).2 hu)).elim
        | cons d u' =>
          simp only [List.cons_append, List.cons.injEq] at huv
          obtain ⟨rfl, rfl⟩ := huv
          exact Lang.cat ((iha u').2 hu) hv
  | alt a b iha ihb =>
    simp only [deriv]
    constructor
    · intro h
      rcases lang_alt_inv h with h | h
      · exact .altL ((iha w).1 h)
      · exact .altR ((ihb w).1 h)
    · intro h
      rcases lang_alt_inv h with h | h
      · exact .altL ((iha w).2 h)
      · exact .altR ((ihb w).2 h)
  | star a g iha =>
    simp only [deriv]
    constructor
    · intro h
      obtain ⟨u, v, rfl, hu, hv⟩ := lang_cat_inv h
      have := Lang.starCons (g := g) ((iha u).1 hu) hv
      simpa using this
    · intro h
      obtain ⟨u, v, rfl, hu, hv⟩ := lang_star_cons_inv h
      exact Lang.cat ((iha u).2 hu) hv

/-- The specification's executable matcher decides the language. -/
theorem dmatch_iff (p : Pat) (w : Str) : dmatch p w = true ↔ Lang p w := by
  induction w generalizing p with
  | nil => exact nullable_iff p
  | cons c t ih =>
    simp only [dmatch]
    rw [ih (deriv c p)]
    exact deriv_iff c p t

/-! ## The backtracking matcher on translated patterns -/

/-- what a result of matching `p` from `σ` looks like -/
def Consumes (p : Pat) (σ σ' : St) : Prop :=
  ∃ w, Lang p w ∧ σ.rem = w ++ σ'.rem ∧ σ'.pos = σ.pos + w.length ∧ σ'.caps = σ.caps

theorem starAux_sound (f : St → List St) (a : Pat) (g : Bool)
    (hf : ∀ σ σ', σ' ∈ f σ → Consumes a σ σ') :
    ∀ n σ σ', σ' ∈ starAux f g n σ → Consumes (.star a g) σ σ' := by
  intro n
  induction n with
  | zero =>
    intro σ σ' h
    simp only [starAux, List.mem_singleton] at h
    subst h
    exact ⟨[], .starNil, rfl, rfl, rfl⟩
  | succ n ih =>
    intro σ σ' h
    have hself : Consumes (.star a g) σ σ := ⟨[], .starNil, rfl, rfl, rfl⟩
    have hiter : ∀ τ, τ ∈ ((f σ).filter (fun σ1 => σ1.rem.length < σ.rem.length)).flatMap (starAux f g n) →
        Consumes (.star a g) σ τ := by
      intro τ hτ
      rw [List.mem_flatMap] at hτ
      obtain ⟨σ1, h1, h2⟩ := hτ
      rw [List.mem_filter] at h1
      obtain ⟨u, hu, hr, hp, hc⟩ := hf σ σ1 h1.1
      obtain ⟨v, hv, hr2, hp2, hc2⟩ := ih σ1 τ h2
      refine ⟨u ++ v, .starCons hu hv, ?_, ?_, ?_⟩
      · rw [hr, hr2, List.append_assoc]
      · rw [hp2, hp, List.length_append, Nat.add_assoc]
      · rw [hc2, hc]
    cases g with
    | true =>
      simp only [starAux, if_true, List.mem_append, List.mem_singleton] at h
      rcases h with h | h
      · exact hiter σ' h
      · subst h; exact hself
    | false =>
      simp only [starAux, Bool.false_eq_true, if_false, List.mem_cons] at h
      rcases h with h | h
      · subst h; exact hself
      · exact hiter σ' h

theorem ms_toRe_sound (p : Pat) : ∀ σ σ', σ' ∈ ms p.toRe σ → Consumes p σ σ' := by
  induction p with
  | eps =>
    intro σ σ' h
    simp only [Pat.toRe, ms, List.mem_singleton] at h
    subst h
    exact ⟨[], .eps, rfl, rfl, rfl⟩
  | chr c =>
    intro σ σ' h
    simp only [Pat.toRe, ms] at h
    cases hr : σ.rem with
    | nil => rw [hr] at h; simp at h
    | cons d t =>
      rw [hr] at h
      by_cases hd : d = c
      · simp only [hd, if_true, List.mem_singleton] at h
        subst h
        exact ⟨[c], .chr c, by rw [hr, hd]; rfl, rfl, rfl⟩
      · simp [hd] at h
  | cls n it =>
    intro σ σ' h
    simp only [Pat.toRe, ms] at h
    cases hr : σ.rem with
    | nil => rw [hr] at h; simp at h
    | cons d t =>
      rw [hr] at h
      by_cases hd : clsHas n it d = true
      · simp only [hd, if_true, List.mem_singleton] at h
        subst h
        exact ⟨[d], .cls n it d hd, by rw [hr]; rfl, rfl, rfl⟩
      · simp [hd] at h
  | cat a b iha ihb =>
    intro σ σ' h
    simp only [Pat.toRe, ms, List.mem_flatMap] at h
    obtain ⟨σ1, h1, h2⟩ := h
    obtain ⟨u, hu, hr, hp, hc⟩ := iha σ σ1 h1
    obtain ⟨v, hv, hr2, hp2, hc2⟩ := ihb σ1 σ' h2
    refine ⟨u ++ v, .cat hu hv, ?_, ?_, ?_⟩
    · rw [hr, hr2, List.append_assoc]
    · rw [hp2, hp, List.length_append, Nat.add_assoc]
    · rw [hc2, hc]
  | alt a b iha ihb =>
    intro σ σ' h
    simp only [Pat.toRe, ms, List.mem_append] at h
    rcases h with h | h
    · obtain ⟨w, hw, r⟩ := iha σ σ' h
      exact ⟨w, .altL hw, r⟩
    · obtain ⟨w, hw, r⟩ := ihb σ σ' h
      exact ⟨w, .altR hw, r⟩
  | star a g iha =>
    intro σ σ' h
    simp only [Pat.toRe, ms] at h
    exact starAux_sound (ms a.toRe) a g iha _ σ σ' h

theorem starAux_complete (f : St → List St) (a : Pat) (g : Bool)
    (hf : ∀ w, Lang a w → ∀ pos rest caps, (⟨pos + w.length, rest, caps⟩ : St) ∈ f ⟨pos, w ++ rest, caps⟩)
    {w : Str} (hw : Lang (.star a g) w) :
    ∀ n pos rest caps, (w ++ rest).length ≤ n →
      (⟨pos + w.length, rest, caps⟩ : St) ∈ starAux f g n ⟨pos, w ++ rest, caps⟩ := by
  generalize hp : Pat.star a g = p at hw
  induction hw with
  | eps => cases hp
  | chr => cases hp
  | cls => cases hp
  | cat => cases hp
  | altL => cases hp
  | altR => cases hp
  | starNil =>
    intro n pos rest caps _
    cases n with
    | zero => simp [starAux]
    | succ n =>
      cases g <;> simp [starAux]
  | @starCons a' g' u v hu hv _ ih2 =>
    cases hp
    intro n pos rest caps hn
    cases u with
    | nil => simpa using ih2 rfl n pos rest caps (by simpa using hn)
    | cons d u' =>
      cases n with
      | zero => simp at hn
      | succ n =>
        have h1 := hf (d :: u') hu pos (v ++ rest) caps
        have h2 := ih2 rfl n (pos + (d :: u').length) rest caps (by
          simp only [List.length_append, List.length_cons] at hn ⊢; omega)
        have hmem : (⟨pos + (d :: u' ++ v).length, rest, caps⟩ : St) ∈
            ((f ⟨pos, (d :: u' ++ v) ++ rest, caps⟩).filter
              (fun σ1 => σ1.rem.length < (⟨pos, (d :: u' ++ v) ++ rest, caps⟩ : St).rem.length)).flatMap (starAux f g n) := by
          rw [List.mem_flatMap]
          refine ⟨⟨pos + (d :: u').length, v ++ rest, caps⟩, ?_, ?_⟩
          · rw [List.mem_filter]
            refine ⟨by simpa [List.append_assoc] using h1, ?_⟩
            simp only [List.length_append, List.length_cons, decide_eq_true_eq]
            omega
          · have e : pos + (d :: u' ++ v).length = pos + (d :: u').length + v.length := by
              simp only [List.length_append, List.length_cons]; omega
            rw [e]; exact h2
        cases g with
        | true =>
          simp only [starAux, if_true, List.mem_append]
          exact Or.inl hmem
        | false =>
          simp only [starAux, Bool.false_eq_true, if_false, List.mem_cons]
          exact Or.inr hmem

theorem ms_toRe_complete (p : Pat) : ∀ w, Lang p w → ∀ pos rest caps,
    (⟨pos + w.length, rest, caps⟩ : St) ∈ ms p.toRe ⟨pos, w ++ rest, caps⟩ := by
  induction p with
  | eps =>
    intro w h pos rest caps
    rw [lang_eps_inv h]; simp [Pat.toRe, ms]
  | chr c =>
    intro w h pos rest caps
    rw [lang_chr_inv h]; simp [Pat.toRe, ms]
  | cls n it =>
    intro w h pos rest caps
    obtain ⟨c, rfl, hc⟩ := lang_cls_inv h
    simp [Pat.toRe, ms, hc]
  | cat a b iha ihb =>
    intro w h pos rest caps
    obtain ⟨u, v, rfl, hu, hv⟩ := lang_cat_inv h
    simp only [Pat.toRe, ms, List.mem_flatMap]
    refine ⟨⟨pos + u.length, v ++ rest, caps⟩, ?_, ?_⟩
    · have := iha u hu pos (v ++ rest) caps
      simpa [List.append_assoc] using this
    · have := ihb v hv (pos + u.length) rest caps
      simpa [List.length_append, Nat.add_assoc] using this
  | alt a b iha ihb =>
    intro w h pos rest caps
    simp only [Pat.toRe, ms, List.mem_append]
    rcases lang_alt_inv h with h | h
    · exact .inl (iha w h pos rest caps)
    · exact .inr (ihb w h pos rest caps)
  | star a g iha =>
    intro w h pos rest caps
    simp only [Pat.toRe, ms]
    exact starAux_complete (ms a.toRe) a g iha h _ pos rest caps (Nat.le_refl _)

/-- Both executable matchers decide the same thing: the model's backtracking search can consume the whole of `w`
    iff the specification's derivative matcher accepts `w`. -/
theorem backtracking_agrees_with_derivatives (p : Pat) (w : Str) :
    (∃ σ' ∈ ms p.toRe ⟨0, w, []⟩, σ'.rem = []) ↔ dmatch p w = true := by
  rw [dmatch_iff]
  constructor
  · rintro ⟨σ', h, hr⟩
    obtain ⟨u, hu, hrem, _, _⟩ := ms_toRe_sound p _ _ h
    simp only [hr, List.append_nil] at hrem
    rw [hrem]; exact hu
  · intro h
    refine ⟨⟨0 + w.length, [], []⟩, ?_, rfl⟩
    simpa using ms_toRe_complete p w h 0 [] []

end CoapVerif.Lemmas.Router
