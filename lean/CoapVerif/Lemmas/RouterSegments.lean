import CoapVerif.Lemmas.RouterDispatch
/-!
# C17 lemmas, part 5 — the model's index-and-slice parse of a template equals the specification's structural cut

`braceIndices` + the slicing loop of `newRouteRegexp` (model of the source) and `Spec.Router.cut` + `mkSegs` (the
specification's one-pass reading of a template text) are shown to yield the same pieces, the same errors, and — up to
the spelling of the default pattern — the same segments.
-/
namespace CoapVerif.Lemmas.Router
open CoapVerif.Model.Router
open CoapVerif.Spec.Router hiding byteLen

/-- `s[a:b]` without checks -/
def sl (s : Str) (a b : Nat) : Str := (s.drop a).take (b - a)

/-- the pieces an index list cuts out of `s`, the first literal starting at `e` -/
def piecesOf (s : Str) : List Nat → Nat → List (Bool × Str)
  | o :: c :: r, e => (false, sl s e o) :: (true, sl s (o + 1) (c - 1)) :: piecesOf s r c
  | [], e => [(false, sl s e s.length)]
  | [_], e => [(false, sl s e s.length)]

theorem sl_prefix (pre rest : Str) (e : Nat) (he : e ≤ pre.length) : sl (pre ++ rest) e pre.length = pre.drop e := by
  simp only [sl]
  rw [List.drop_append_of_le_length he, List.take_append_of_le_length (by simp [List.length_drop])]
  exact List.take_of_length_le (by simp [List.length_drop])

theorem drop_snoc (pre : Str) (c : Char) (e : Nat) (he : e ≤ pre.length) : (pre ++ [c]).drop e = pre.drop e ++ [c] :=
  List.drop_append_of_le_length he

/-! ## Success and failure coincide -/

/-- `cut` succeeds exactly when the brace scan ends at level 0 without going negative (whatever the current piece). -/
theorem cut_isSome : ∀ (rest : Str) (d : Nat) (cur : Str) (i idx : Nat) (lv : Int), lv = (d : Int) →
    (cut rest d cur).isSome =
      (match braceLoop rest i lv idx [] with
       | .ok (lvl, _) => decide (lvl = 0)
       | .error _ => false) := by
  intro rest
  induction rest with
  | nil =>
    intro d cur i idx lv hlv
    cases d with
    | zero => subst hlv; simp [cut, braceLoop]
    | succ d =>
      have : ¬ (lv = 0) := by omega
      simp [cut, braceLoop, this]
  | cons c t ih =>
    intro d cur i idx lv hlv
    cases d with
    | zero =>
      simp only [cut, braceLoop]
      by_cases h1 : c = '{'
      · have e1 : lv + 1 = 1 := by omega
        simp only [h1, if_true, Option.isSome_map, e1]
        exact ih 1 [] (i + 1) i 1 rfl
      · simp only [h1, if_false]
        by_cases h2 : c = '}'
        · have e1 : ¬ (lv - 1 = 0) := by omega
          have e2 : lv - 1 < 0 := by omega
          simp [h2, e1, e2]
        · simp only [h2, if_false]
          exact ih 0 _ (i + 1) idx lv hlv
    | succ d =>
      simp only [cut, braceLoop]
      by_cases h2 : c = '}'
      · subst h2
        have h1 : ¬ ('}' = '{') := by decide
        simp only [h1, if_false, if_true]
        by_cases hd : d = 0
        · subst hd
          have e0 : lv - 1 = 0 := by omega
          simp only [if_true, Option.isSome_map, e0]
          rw [braceLoop_acc, ih 0 [] (i + 1) idx 0 rfl]
          cases braceLoop t (i + 1) 0 idx [] with
          | error e => simp [Except.map]
          | ok r => simp [Except.map]
        · have e1 : ¬ (lv - 1 = 0) := by omega
          have e2 : ¬ (lv - 1 < 0) := by omega
          simp only [hd, if_false, e1, e2]
          exact ih d _ (i + 1) idx (lv - 1) (by omega)
      · simp only [h2, if_false]
        by_cases h1 : c = '{'
        · have e1 : ¬ (lv + 1 = 1) := by omega
          simp only [h1, if_true, e1, if_false]
          exact ih (d + 2) _ (i + 1) idx (lv + 1) (by omega)
        · simp only [h1, if_false]
          exact ih (d + 1) _ (i + 1) idx lv hlv

/-! ## The pieces coincide -/

theorem map_ok_inv {acc : List Nat} {x : Except Fail (Int × List Nat)} {lvl : Int} {new : List Nat}
    (h : x.map (fun r => (r.1, acc ++ r.2)) = .ok (lvl, new)) :
    ∃ new', x = .ok (lvl, new') ∧ new = acc ++ new' := by
  cases x with
  | error e => simp [Except.map] at h
  | ok r =>
    obtain ⟨l, n⟩ := r
    simp only [Except.map, Except.ok.injEq, Prod.mk.injEq] at h
    exact ⟨n, by rw [h.1], h.2.symm⟩

theorem cut_pieces (s : Str) : ∀ (rest pre : Str), s = pre ++ rest →
    (∀ (e idx : Nat) (new : List Nat), e ≤ pre.length → braceLoop rest pre.length 0 idx [] = .ok (0, new) →
        cut rest 0 (pre.drop e) = some (piecesOf s new e)) ∧
    (∀ (d idx : Nat) (lv : Int) (new : List Nat), lv = (d : Int) + 1 → idx < pre.length →
        braceLoop rest pre.length lv idx [] = .ok (0, new) →
        ∃ c r, new = idx :: c :: r ∧
          cut rest (d + 1) (pre.drop (idx + 1)) = some ((true, sl s (idx + 1) (c - 1)) :: piecesOf s r c)) := by
  intro rest
  induction rest with
  | nil =>
    intro pre hs
    simp only [List.append_nil] at hs
    subst hs
    refine ⟨?_, ?_⟩
    · intro e idx new he h
      simp only [braceLoop, Except.ok.injEq, Prod.mk.injEq, true_and] at h
      subst h
      have := sl_prefix s [] e he
      simp only [List.append_nil] at this
      simp [cut, piecesOf, this]
    · intro d idx lv new hlv _ h
      simp only [braceLoop, Except.ok.injEq, Prod.mk.injEq] at h
      omega
  | cons c t ih =>
    intro pre hs
    have hs' : s = (pre ++ [c]) ++ t := by simp [hs]
    have IH := ih (pre ++ [c]) hs'
    simp only [List.length_append, List.length_cons, List.length_nil, Nat.zero_add] at IH
    obtain ⟨IH1, IH2⟩ := IH
    have hdropall : (pre ++ [c]).drop (pre.length + 1) = [] := by
      apply List.drop_eq_nil_of_le; simp
    refine ⟨?_, ?_⟩
    · intro e idx new he h
      simp only [braceLoop] at h
      by_cases h1 : c = '{'
      · subst h1
        simp only [if_true, Int.zero_add] at h
        obtain ⟨c1, r, hnew, hcut⟩ := IH2 0 pre.length 1 new (by omega) (by omega) h
        rw [hdropall] at hcut
        subst hnew
        have hsl : sl s e pre.length = pre.drop e := by rw [hs]; exact sl_prefix pre _ e he
        simp [cut, hcut, piecesOf, hsl]
      · simp only [h1, if_false] at h
        by_cases h2 : c = '}'
        · subst h2
          have e1 : ¬ ((0 : Int) - 1 = 0) := by omega
          have e2 : (0 : Int) - 1 < 0 := by omega
          simp [e1, e2] at h
        · simp only [h2, if_false] at h
          have := IH1 e idx new (by omega) h
          rw [drop_snoc pre c e he] at this
          simp [cut, h1, h2, this]
    · intro d idx lv new hlv hidx h
      simp only [braceLoop] at h
      by_cases h2 : c = '}'
      · subst h2
        have h1 : ¬ ('}' = '{') := by decide
        simp only [h1, if_false, if_true] at h
        by_cases hd : d = 0
        · subst hd
          have e0 : lv - 1 = 0 := by omega
          simp only [e0, if_true] at h
          rw [braceLoop_acc] at h
          obtain ⟨new', hb, hnew⟩ := map_ok_inv h
          have := IH1 (pre.length + 1) idx new' (by omega) hb
          rw [hdropall] at this
          refine ⟨pre.length + 1, new', by simpa using hnew, ?_⟩
          have hsl : sl s (idx + 1) pre.length = pre.drop (idx + 1) := by
            rw [hs]; exact sl_prefix pre _ (idx + 1) (by omega)
          simp [cut, this, hsl]
        · have e1 : ¬ (lv - 1 = 0) := by omega
          have e2 : ¬ (lv - 1 < 0) := by omega
          simp only [e1, e2, if_false] at h
          obtain ⟨d', rfl⟩ : ∃ d', d = d' + 1 := ⟨d - 1, by omega⟩
          obtain ⟨c1, r, hnew, hcut⟩ := IH2 d' idx (lv - 1) new (by omega) (by omega) h
          rw [drop_snoc pre '}' (idx + 1) (by omega)] at hcut
          exact ⟨c1, r, hnew, by simp [cut, hcut]⟩
      · simp only [h2, if_false] at h
        by_cases h1 : c = '{'
        · subst h1
          have e1 : ¬ (lv + 1 = 1) := by omega
          simp only [if_true, e1, if_false] at h
          obtain ⟨c1, r, hnew, hcut⟩ := IH2 (d + 1) idx (lv + 1) new (by omega) (by omega) h
          rw [drop_snoc pre '{' (idx + 1) (by omega)] at hcut
          exact ⟨c1, r, hnew, by simp [cut, hcut]⟩
        · simp only [h1, if_false] at h
          obtain ⟨c1, r, hnew, hcut⟩ := IH2 d idx lv new hlv (by omega) h
          rw [drop_snoc pre c (idx + 1) (by omega)] at hcut
          exact ⟨c1, r, hnew, by simp [cut, h1, h2, hcut]⟩

/-- **The index scan and the structural cut agree.** -/
theorem braceIndices_cut (s : Str) :
    (∀ idxs, braceIndices s = .ok idxs → cut s 0 [] = some (piecesOf s idxs 0)) ∧
    (∀ e, braceIndices s = .error e → cut s 0 [] = none) := by
  have hsome := cut_isSome s 0 [] 0 0 0 rfl
  refine ⟨?_, ?_⟩
  · intro idxs h
    simp only [braceIndices] at h
    cases hb : braceLoop s 0 0 0 [] with
    | error e => rw [hb] at h; simp at h
    | ok r =>
      obtain ⟨lvl, new⟩ := r
      rw [hb] at h
      simp only at h
      by_cases hl : lvl ≠ 0
      · rw [if_pos hl] at h; cases h
      · rw [if_neg hl] at h
        simp only [Except.ok.injEq] at h
        subst h
        have hl0 : lvl = 0 := by omega
        subst hl0
        have := (cut_pieces s s [] (by simp)).1 0 0 new (by simp) (by simpa using hb)
        simpa using this
  · intro e h
    simp only [braceIndices] at h
    cases hb : braceLoop s 0 0 0 [] with
    | error e' =>
      rw [hb] at hsome
      simpa using hsome
    | ok r =>
      obtain ⟨lvl, new⟩ := r
      rw [hb] at h hsome
      simp only at h
      by_cases hl : lvl ≠ 0
      · have : decide (lvl = 0) = false := by simpa using hl
        simp only [this] at hsome
        simpa using hsome
      · rw [if_neg hl] at h; cases h

/-! ## Segments up to the spelling of a pattern -/

/-- two spellings of the same pattern: identical, or the bare-variable pattern `X` against `X·ε` (what `parsePat` makes of the
    text of the default pattern) -/
def PatSame (p q : Pat) : Prop :=
  p = q ∨ (p = segmentPat ∧ q = .cat segmentPat .eps) ∨ (q = segmentPat ∧ p = .cat segmentPat .eps)

theorem PatSame.symm {p q : Pat} (h : PatSame p q) : PatSame q p := by
  rcases h with h | h | h
  · exact .inl h.symm
  · exact .inr (.inr h)
  · exact .inr (.inl h)

def SegEq : Seg → Seg → Prop
  | .lit a, .lit b => a = b
  | .var n p, .var m q => n = m ∧ (∀ w, Lang p w ↔ Lang q w) ∧ PatSame p q
  | _, _ => False

def SegsEq : List Seg → List Seg → Prop
  | [], [] => True
  | a :: as, b :: bs => SegEq a b ∧ SegsEq as bs
  | _, _ => False

theorem SegEq.refl : ∀ a : Seg, SegEq a a
  | .lit _ => rfl
  | .var _ _ => ⟨rfl, fun _ => Iff.rfl, .inl rfl⟩

theorem SegsEq.refl : ∀ l : List Seg, SegsEq l l
  | [] => trivial
  | a :: as => ⟨SegEq.refl a, SegsEq.refl as⟩

theorem tplMatches_congr : ∀ (a b : List Seg), SegsEq a b → ∀ w bs, TplMatches a w bs → TplMatches b w bs
  | [], [], _, w, bs, h => h
  | [], _ :: _, h, _, _, _ => h.elim
  | _ :: _, [], h, _, _, _ => h.elim
  | x :: xs, y :: ys, h, w, bs, hm => by
    obtain ⟨hxy, hrest⟩ := h
    cases x with
    | lit sx =>
      cases y with
      | lit sy =>
        simp only [SegEq] at hxy
        subst hxy
        obtain ⟨w', rfl, h'⟩ := tpl_lit_inv hm
        exact TplMatches.lit (tplMatches_congr xs ys hrest w' bs h')
      | var _ _ => exact hxy.elim
    | var n p =>
      cases y with
      | lit _ => exact hxy.elim
      | var m q =>
        simp only [SegEq] at hxy
        obtain ⟨rfl, hl, _⟩ := hxy
        obtain ⟨v, w', b', rfl, rfl, hv, h'⟩ := tpl_var_inv hm
        exact TplMatches.var ((hl v).1 hv) (tplMatches_congr xs ys hrest w' b' h')

theorem SegEq.symm : ∀ {a b : Seg}, SegEq a b → SegEq b a
  | .lit _, .lit _, h => Eq.symm h
  | .var _ _, .var _ _, h => ⟨h.1.symm, fun w => (h.2.1 w).symm, h.2.2.symm⟩
  | .lit _, .var _ _, h => h.elim
  | .var _ _, .lit _, h => h.elim

theorem SegsEq.symm : ∀ {a b : List Seg}, SegsEq a b → SegsEq b a
  | [], [], _ => trivial
  | [], _ :: _, h => h.elim
  | _ :: _, [], h => h.elim
  | _ :: _, _ :: _, h => ⟨h.1.symm, SegsEq.symm h.2⟩

/-! ## One variable: the model's checks and the specification's -/

theorem splitColon_eq : ∀ s : Str, splitFirstColon s = splitColon s
  | [] => rfl
  | c :: t => by
    simp only [splitFirstColon, splitColon, splitColon_eq t]

def slashFree : Pat := .cls true [.range '/' '/']

theorem parse_default : parsePat defaultPattern = .ok (.cat (Pat.plus slashFree true) .eps, false) := by decide

theorem default_nonempty : defaultPattern ≠ [] := by decide

theorem lang_cat_eps (p : Pat) (w : Str) : Lang (.cat p .eps) w ↔ Lang p w := by
  constructor
  · intro h
    obtain ⟨u, v, rfl, hu, hv⟩ := lang_cat_inv h
    rw [lang_eps_inv hv, List.append_nil]; exact hu
  · intro h
    have := Lang.cat h Lang.eps
    simpa using this

/-- the checks of one loop iteration of `newRouteRegexp` -/
def partOf (raw inner : Str) : Except Fail CPart :=
  let patt := (splitColon inner).2.getD defaultPattern
  if (splitColon inner).1 = [] ∨ patt = [] then .error (.err .missing)
  else
    match parsePat patt with
    | .error .syntax => .error (.err .regex)
    | .error .unsupported => .error .unsupported
    | .ok (p, hc) => .ok ⟨raw, (splitColon inner).1, patt, p, hc⟩

/-- the specification's treatment of one variable body, given the outcome for the rest of the template -/
def varStep (body : Str) (rest : Except TplErr (List Seg)) : Except TplErr (List Seg) :=
  match splitFirstColon body with
  | (name, none) =>
    if name = [] then .error .missing else rest.map (fun l => Seg.var name segmentPat :: l)
  | (name, some pt) =>
    if name = [] ∨ pt = [] then .error .missing
    else
      match parsePat pt with
      | .error .syntax => .error .regex
      | .error .unsupported => .error .unsupported
      | .ok (p, hasCap) =>
        match rest with
        | .error e => .error e
        | .ok l => if hasCap then .error .capture else .ok (Seg.var name p :: l)

theorem mkSegs_var (body : Str) (r : List (Bool × Str)) : mkSegs ((true, body) :: r) = varStep body (mkSegs r) := by
  simp only [mkSegs, varStep]
  cases splitFirstColon body with
  | mk name o =>
    cases o with
    | none => rfl
    | some pt =>
      by_cases hn : name = [] ∨ pt = []
      · simp [hn]
      · simp only [hn, if_false]
        cases parsePat pt with
        | error e => cases e <;> rfl
        | ok x =>
          obtain ⟨p, hc⟩ := x
          cases mkSegs r <;> rfl

/-- relation between one iteration of the model and of the specification -/
theorem partOf_varStep (raw inner : Str) (rest : Except TplErr (List Seg)) :
    match partOf raw inner with
    | .ok part =>
        part.raw = raw ∧
        ∃ q, (∀ w, Lang q w ↔ Lang part.pat w) ∧ PatSame q part.pat ∧
          varStep inner rest =
            (match rest with
             | .error e => .error e
             | .ok l => if part.hasCap then .error .capture else .ok (Seg.var part.name q :: l))
    | .error (.err .missing) => varStep inner rest = .error .missing
    | .error (.err .regex) => varStep inner rest = .error .regex
    | .error .unsupported => varStep inner rest = .error .unsupported
    | .error _ => False := by
  simp only [partOf, varStep, splitColon_eq]
  cases hsp : splitColon inner with
  | mk name p2 =>
    cases p2 with
    | none =>
      simp only [Option.getD_none, default_nonempty, or_false]
      by_cases hn : name = []
      · simp [hn]
      · simp only [hn, if_false, parse_default]
        refine ⟨trivial, segmentPat, ?_, .inr (.inl ⟨rfl, rfl⟩), ?_⟩
        · intro w; rw [lang_cat_eps]; rfl
        · cases rest <;> simp [Except.map]
    | some pt =>
      simp only [Option.getD_some]
      by_cases hn : name = [] ∨ pt = []
      · simp [hn]
      · simp only [hn, if_false]
        cases hpp : parsePat pt with
        | error e => cases e <;> simp
        | ok r =>
          obtain ⟨p, hc⟩ := r
          exact ⟨rfl, p, fun _ => Iff.rfl, .inl rfl, rfl⟩

/-! ## The whole loop -/

theorem mkSegs_lit (x : Str) (r : List (Bool × Str)) :
    mkSegs ((false, x) :: r) = (mkSegs r).map (fun l => Seg.lit x :: l) := rfl

theorem partsLoop_cons (path : Str) (o c : Nat) (r : List Nat) (e : Nat) (acc : List CPart)
    (h1 : e ≤ o) (h2 : o + 2 ≤ c) (hc : c ≤ path.length) :
    partsLoop path (o :: c :: r) e acc =
      (match partOf (sl path e o) (sl path (o + 1) (c - 1)) with
       | .error f => .error f
       | .ok part => partsLoop path r c (acc ++ [part])) := by
  have e1 : (o : Int) + 1 = ((o + 1 : Nat) : Int) := by omega
  have e2 : (c : Int) - 1 = ((c - 1 : Nat) : Int) := by omega
  simp only [partsLoop, bind, Except.bind]
  rw [goSlice_ok path e o h1 (by omega), e1, e2, goSlice_ok path (o + 1) (c - 1) (by omega) (by omega)]
  simp only [partOf, sl]
  by_cases hn : (splitColon (List.take (c - 1 - (o + 1)) (List.drop (o + 1) path))).1 = [] ∨
      (splitColon (List.take (c - 1 - (o + 1)) (List.drop (o + 1) path))).2.getD defaultPattern = []
  · simp [hn]
  · simp only [hn, if_false]
    cases hpp : parsePat ((splitColon (List.take (c - 1 - (o + 1)) (List.drop (o + 1) path))).2.getD defaultPattern) with
    | error x => cases x <;> simp
    | ok x => obtain ⟨p, hcap⟩ := x; simp

/-- what the specification makes of the pieces, against what the slicing loop makes of the indices -/
def LoopAgrees (s : Str) (acc : List CPart) (res : Except Fail (List CPart × Nat)) (spec : Except TplErr (List Seg)) : Prop :=
  match res with
  | .ok (all, e') =>
      ∃ parts, all = acc ++ parts ∧
        (match spec with
         | .ok segs => (parts.any (·.hasCap)) = false ∧ SegsEq segs (toSegs parts (sl s e' s.length))
         | .error .capture => (parts.any (·.hasCap)) = true
         | .error _ => False)
  | .error (.err .missing) => spec = .error .missing
  | .error (.err .regex) => spec = .error .regex
  | .error .unsupported => spec = .error .unsupported
  | .error _ => False

theorem partsLoop_mkSegs (s : Str) : ∀ (idxs : List Nat) (e : Nat) (acc : List CPart), Good e idxs s.length →
    LoopAgrees s acc (partsLoop s idxs e acc) (mkSegs (piecesOf s idxs e))
  | [], e, acc, _ => by
    simp only [partsLoop, piecesOf, mkSegs, LoopAgrees]
    exact ⟨[], by simp, by simp, by simp [toSegs, Except.map, SegsEq, SegEq]⟩
  | [_], e, acc, h => by simp [Good] at h
  | o :: c :: r, e, acc, h => by
    simp only [Good] at h
    obtain ⟨h1, h2, h3⟩ := h
    have hc := Good.le r h3
    rw [partsLoop_cons s o c r e acc h1 h2 hc]
    rw [show piecesOf s (o :: c :: r) e = (false, sl s e o) :: (true, sl s (o + 1) (c - 1)) :: piecesOf s r c from rfl,
      mkSegs_lit, mkSegs_var]
    have hstep := partOf_varStep (sl s e o) (sl s (o + 1) (c - 1)) (mkSegs (piecesOf s r c))
    cases hp : partOf (sl s e o) (sl s (o + 1) (c - 1)) with
    | error f =>
      rw [hp] at hstep
      simp only
      cases f with
      | err k =>
        cases k <;> simp only [LoopAgrees] at hstep ⊢ <;> first | exact hstep.elim | (rw [hstep]; rfl)
      | panic p => exact hstep.elim
      | unsupported => simp only [LoopAgrees] at hstep ⊢; rw [hstep]; rfl
    | ok part =>
      rw [hp] at hstep
      simp only at hstep ⊢
      obtain ⟨hraw, q, hq, hps, hvs⟩ := hstep
      have ih := partsLoop_mkSegs s r c (acc ++ [part]) h3
      rw [hvs]
      cases hres : partsLoop s r c (acc ++ [part]) with
      | error f =>
        rw [hres] at ih
        cases f with
        | err k =>
          cases k <;> simp only [LoopAgrees] at ih ⊢ <;> first | exact ih.elim | (rw [ih]; rfl)
        | panic p => exact ih.elim
        | unsupported => simp only [LoopAgrees] at ih ⊢; rw [ih]; rfl
      | ok res =>
        obtain ⟨all, e'⟩ := res
        rw [hres] at ih
        simp only [LoopAgrees] at ih ⊢
        obtain ⟨parts, hall, hspec⟩ := ih
        refine ⟨part :: parts, by simp [hall], ?_⟩
        cases hm : mkSegs (piecesOf s r c) with
        | error te =>
          rw [hm] at hspec
          cases te <;> simp only [Except.map] at hspec ⊢ <;> first | exact hspec.elim | simp [hspec]
        | ok segs =>
          rw [hm] at hspec
          simp only at hspec
          obtain ⟨hnc, hse⟩ := hspec
          by_cases hcap : part.hasCap = true
          · simp [hcap, Except.map]
          · have hcap' : part.hasCap = false := by simpa using hcap
            simp only [hcap', Bool.false_eq_true, if_false, Except.map, List.any_cons, Bool.false_or, hnc, true_and]
            simp only [toSegs, SegsEq, SegEq, hraw, true_and]
            exact ⟨⟨hq, hps⟩, hse⟩

/-! ## Whole templates -/

/-- "the template matches the entire path", read by the specification alone (its own cut of the template text) -/
def SpecMatches (tpl path : Str) : Prop := ∃ segs b, segments tpl = .ok segs ∧ TplMatches segs path b

/-- how the model's parse of a template and the specification's reading of the same text relate, case by case -/
def ParseAgrees (res : Except Fail (List CPart × Str)) (spec : Except TplErr (List Seg)) : Prop :=
  match res with
  | .ok (parts, trailing) =>
      (match spec with
       | .ok segs => (parts.any (·.hasCap)) = false ∧ SegsEq segs (toSegs parts trailing)
       | .error .capture => (parts.any (·.hasCap)) = true
       | .error _ => False)
  | .error (.err .unbalanced) => spec = .error .unbalanced
  | .error (.err .missing) => spec = .error .missing
  | .error (.err .regex) => spec = .error .regex
  | .error .unsupported => spec = .error .unsupported
  | .error _ => False

theorem parseTemplate_segments (tpl : Str) : ParseAgrees (parseTemplate tpl) (segments tpl) := by
  obtain ⟨hok, herr⟩ := braceIndices_cut tpl
  simp only [parseTemplate, segments, bind, Except.bind]
  cases hb : braceIndices tpl with
  | error e =>
    rw [herr e hb, braceIndices_error tpl e hb]
    simp [ParseAgrees]
  | ok idxs =>
    rw [hok idxs hb]
    have hg := braceIndices_good tpl idxs hb
    have hl := partsLoop_mkSegs tpl idxs 0 [] hg
    simp only
    cases hp : partsLoop tpl idxs 0 [] with
    | error f =>
      rw [hp] at hl
      cases f with
      | err k => cases k <;> simp only [LoopAgrees, ParseAgrees] at hl ⊢ <;> first | exact hl.elim | exact hl
      | panic p => exact hl.elim
      | unsupported => simp only [LoopAgrees, ParseAgrees] at hl ⊢; exact hl
    | ok res =>
      obtain ⟨all, e'⟩ := res
      rw [hp] at hl
      have he := partsLoop_end tpl idxs 0 [] all e' hg hp
      simp only
      rw [goSlice_ok tpl e' tpl.length he (Nat.le_refl _)]
      simp only [LoopAgrees, List.nil_append] at hl
      obtain ⟨parts, rfl, hspec⟩ := hl
      simp only [pure, Except.pure, ParseAgrees]
      exact hspec

theorem matches_iff_spec {tpl : Str} {rx : RouteRegexp} (h : newRouteRegexp tpl = .ok rx) (path : Str) :
    Matches tpl path ↔ SpecMatches tpl path := by
  have hagree := parseTemplate_segments tpl
  simp only [newRouteRegexp, bind, Except.bind] at h
  cases hp : parseTemplate tpl with
  | error e => rw [hp] at h; simp at h
  | ok r =>
    obtain ⟨parts, trailing⟩ := r
    rw [hp] at h hagree
    simp only at h
    have hnc : (parts.any (·.hasCap)) = false := by
      cases hc : parts.any (·.hasCap) with
      | false => rfl
      | true => simp [hc] at h
    cases hs : segments tpl with
    | error te =>
      rw [hs] at hagree
      cases te <;> simp only [ParseAgrees] at hagree
      rw [hnc] at hagree; cases hagree
    | ok segs =>
      rw [hs] at hagree
      simp only [ParseAgrees] at hagree
      obtain ⟨_, hse⟩ := hagree
      constructor
      · rintro ⟨parts', trailing', b, hp', hb⟩
        rw [hp] at hp'
        simp only [Except.ok.injEq, Prod.mk.injEq] at hp'
        obtain ⟨rfl, rfl⟩ := hp'
        exact ⟨segs, b, hs, tplMatches_congr _ _ hse.symm path b hb⟩
      · rintro ⟨segs', b, hs', hb⟩
        rw [hs] at hs'
        simp only [Except.ok.injEq] at hs'
        subst hs'
        exact ⟨parts, trailing, b, hp, tplMatches_congr _ _ hse path b hb⟩

/-- for an accepted template the specification's segments describe the same decompositions as the model's parts -/
theorem tplMatches_to_spec {tpl : Str} {rx : RouteRegexp} (h : newRouteRegexp tpl = .ok rx)
    {parts : List CPart} {trailing : Str} (hp : parseTemplate tpl = .ok (parts, trailing)) :
    ∃ segs, segments tpl = .ok segs ∧ ∀ path b, TplMatches (toSegs parts trailing) path b ↔ TplMatches segs path b := by
  have hagree := parseTemplate_segments tpl
  simp only [newRouteRegexp, bind, Except.bind] at h
  rw [hp] at h hagree
  simp only at h
  have hnc : (parts.any (·.hasCap)) = false := by
    cases hc : parts.any (·.hasCap) with
    | false => rfl
    | true => simp [hc] at h
  cases hs : segments tpl with
  | error te =>
    rw [hs] at hagree
    cases te <;> simp only [ParseAgrees] at hagree
    rw [hnc] at hagree; cases hagree
  | ok segs =>
    rw [hs] at hagree
    simp only [ParseAgrees] at hagree
    exact ⟨segs, rfl, fun path b => ⟨tplMatches_congr _ _ hagree.2.symm path b, tplMatches_congr _ _ hagree.2 path b⟩⟩

/-- validity of a template, model against specification: accepted / capture-panic / each error kind correspond -/
theorem newRouteRegexp_segments (tpl : Str) :
    match newRouteRegexp tpl with
    | .ok _ => ∃ segs, segments tpl = .ok segs
    | .error (.panic .captureGroups) => segments tpl = .error .capture
    | .error (.err .unbalanced) => segments tpl = .error .unbalanced
    | .error (.err .missing) => segments tpl = .error .missing
    | .error (.err .regex) => segments tpl = .error .regex
    | .error .unsupported => segments tpl = .error .unsupported
    | .error _ => False := by
  have hagree := parseTemplate_segments tpl
  simp only [newRouteRegexp, bind, Except.bind]
  cases hp : parseTemplate tpl with
  | error f =>
    rw [hp] at hagree
    cases f with
    | err k => cases k <;> simp only [ParseAgrees] at hagree ⊢ <;> first | exact hagree.elim | exact hagree
    | panic p => exact hagree.elim
    | unsupported => simp only [ParseAgrees] at hagree ⊢; exact hagree
  | ok r =>
    obtain ⟨parts, trailing⟩ := r
    rw [hp] at hagree
    simp only [ParseAgrees] at hagree
    simp only
    cases hc : parts.any (·.hasCap) with
    | true =>
      simp only [if_true]
      rw [hc] at hagree
      cases hs : segments tpl with
      | error te => rw [hs] at hagree; cases te <;> first | rfl | exact hagree.elim
      | ok segs => rw [hs] at hagree; simp at hagree
    | false =>
      simp only [Bool.false_eq_true, if_false, pure, Except.pure]
      rw [hc] at hagree
      cases hs : segments tpl with
      | error te => rw [hs] at hagree; cases te <;> simp at hagree
      | ok segs => exact ⟨segs, rfl⟩

end CoapVerif.Lemmas.Router
