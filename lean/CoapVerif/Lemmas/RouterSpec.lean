import CoapVerif.Lemmas.RouterCompile
/-!
# C17 lemmas, part 6 — the judge's executable tests decide the declarative specification

* `matchesPath_iff` : `matchesPath segs path` (derivatives of the concatenated template) ⇔ `∃ b, TplMatches segs path b`.
* `mem_decomps` : `decomps segs w` enumerates exactly the binding lists `b` with `TplMatches segs w b`.
-/
namespace CoapVerif.Lemmas.Router
open CoapVerif.Model.Router
open CoapVerif.Spec.Router hiding byteLen

theorem lang_litFold (q : Pat) : ∀ (s w : Str),
    Lang (s.foldr (fun c acc => Pat.cat (.chr c) acc) q) w ↔ ∃ w', w = s ++ w' ∧ Lang q w'
  | [], w => by simp
  | c :: t, w => by
    simp only [List.foldr_cons]
    constructor
    · intro h
      obtain ⟨u, v, rfl, hu, hv⟩ := lang_cat_inv h
      rw [lang_chr_inv hu]
      obtain ⟨w', rfl, hq⟩ := (lang_litFold q t v).1 hv
      exact ⟨w', by simp, hq⟩
    · rintro ⟨w', rfl, hq⟩
      have := Lang.cat (Lang.chr c) ((lang_litFold q t (t ++ w')).2 ⟨w', rfl, hq⟩)
      simpa using this

theorem lang_tplPat : ∀ (segs : List Seg) (w : Str), Lang (tplPat segs) w ↔ ∃ b, TplMatches segs w b
  | [], w => by
    simp only [tplPat]
    constructor
    · intro h; rw [lang_eps_inv h]; exact ⟨[], .nil⟩
    · rintro ⟨b, hb⟩; rw [(tpl_nil_inv hb).1]; exact .eps
  | .lit s :: r, w => by
    simp only [tplPat]
    rw [lang_litFold]
    constructor
    · rintro ⟨w', rfl, h⟩
      obtain ⟨b, hb⟩ := (lang_tplPat r w').1 h
      exact ⟨b, .lit hb⟩
    · rintro ⟨b, hb⟩
      obtain ⟨w', rfl, h'⟩ := tpl_lit_inv hb
      exact ⟨w', rfl, (lang_tplPat r w').2 ⟨b, h'⟩⟩
  | .var n p :: r, w => by
    simp only [tplPat]
    constructor
    · intro h
      obtain ⟨u, v, rfl, hu, hv⟩ := lang_cat_inv h
      obtain ⟨b, hb⟩ := (lang_tplPat r v).1 hv
      exact ⟨(n, u) :: b, .var hu hb⟩
    · rintro ⟨b, hb⟩
      obtain ⟨v, w', b', rfl, rfl, hv, h'⟩ := tpl_var_inv hb
      exact Lang.cat hv ((lang_tplPat r w').2 ⟨b', h'⟩)

/-- the judge's "does this registered template match the entire path?" is the declarative statement -/
theorem matchesPath_iff (segs : List Seg) (path : Str) : matchesPath segs path = true ↔ ∃ b, TplMatches segs path b := by
  simp only [matchesPath, dmatch_iff, lang_tplPat]

theorem mem_splits : ∀ (w v w' : Str), (v, w') ∈ splits w ↔ w = v ++ w'
  | [], v, w' => by
    simp only [splits, List.mem_singleton, Prod.mk.injEq]
    constructor
    · rintro ⟨rfl, rfl⟩; rfl
    · intro h
      have := List.append_eq_nil_iff.1 h.symm
      exact ⟨this.1, this.2⟩
  | c :: t, v, w' => by
    simp only [splits, List.mem_cons, Prod.mk.injEq, List.mem_map, Prod.exists]
    constructor
    · rintro (⟨rfl, rfl⟩ | ⟨a, b, hab, rfl, rfl⟩)
      · rfl
      · rw [(mem_splits t a b).1 hab]; rfl
    · intro h
      cases v with
      | nil => exact .inl ⟨rfl, by simpa using h.symm⟩
      | cons d v' =>
        simp only [List.cons_append, List.cons.injEq] at h
        obtain ⟨rfl, ht⟩ := h
        exact .inr ⟨v', w', (mem_splits t v' w').2 ht, rfl, rfl⟩

theorem stripPrefix_iff : ∀ (s w w' : Str), stripPrefix s w = some w' ↔ w = s ++ w'
  | [], w, w' => by simp [stripPrefix, eq_comm]
  | a :: s, [], w' => by simp [stripPrefix]
  | a :: s, b :: w, w' => by
    simp only [stripPrefix]
    by_cases h : a = b
    · subst h
      simp only [if_true, List.cons_append, List.cons.injEq, true_and]
      exact stripPrefix_iff s w w'
    · simp only [h, if_false, List.cons_append, List.cons.injEq]
      constructor
      · intro h'; cases h'
      · rintro ⟨h', _⟩; exact (h h'.symm).elim

/-- the judge's enumeration of decompositions is exact -/
theorem mem_decomps : ∀ (segs : List Seg) (w : Str) (b : List (Str × Str)), b ∈ decomps segs w ↔ TplMatches segs w b
  | [], w, b => by
    simp only [decomps]
    by_cases hw : w = []
    · subst hw
      simp only [if_true, List.mem_singleton]
      constructor
      · rintro rfl; exact .nil
      · intro h; exact (tpl_nil_inv h).2
    · simp only [hw, if_false, List.not_mem_nil, false_iff]
      intro h; exact hw (tpl_nil_inv h).1
  | .lit s :: r, w, b => by
    simp only [decomps]
    cases hsp : stripPrefix s w with
    | none =>
      simp only [List.not_mem_nil, false_iff]
      intro h
      obtain ⟨w', rfl, _⟩ := tpl_lit_inv h
      have := (stripPrefix_iff s (s ++ w') w').2 rfl
      rw [hsp] at this; cases this
    | some w' =>
      have hw := (stripPrefix_iff s w w').1 hsp
      subst hw
      simp only
      rw [mem_decomps r w' b]
      constructor
      · intro h; exact .lit h
      · intro h
        obtain ⟨w'', he, h'⟩ := tpl_lit_inv h
        rw [List.append_cancel_left he]; exact h'
  | .var n p :: r, w, b => by
    simp only [decomps, List.mem_flatMap, Prod.exists]
    constructor
    · rintro ⟨v, w', hs, hm⟩
      have hw := (mem_splits w v w').1 hs
      subst hw
      by_cases hd : dmatch p v = true
      · simp only [hd, if_true, List.mem_map] at hm
        obtain ⟨b', hb', rfl⟩ := hm
        exact .var ((dmatch_iff p v).1 hd) ((mem_decomps r w' b').1 hb')
      · simp [hd] at hm
    · intro h
      obtain ⟨v, w', b', rfl, rfl, hv, h'⟩ := tpl_var_inv h
      refine ⟨v, w', (mem_splits _ v w').2 rfl, ?_⟩
      simp only [(dmatch_iff p v).2 hv, if_true, List.mem_map]
      exact ⟨b', (mem_decomps r w' b').2 h', rfl⟩

end CoapVerif.Lemmas.Router
