import CoapVerif.Model.Server
/-! List plumbing for C10: the part of the peer table that belongs to one remote address (core Lean only). -/
namespace CoapVerif.Lemmas.Server
open CoapVerif.Model.Server CoapVerif.Spec.Server

theorem find_some {t : List Conn} {k : Key} {c : Conn} (h : find t k = some c) : c ∈ t ∧ c.key = k := by
  unfold find at h
  exact ⟨List.mem_of_find?_eq_some h, by simpa using List.find?_some h⟩

theorem find_none {t : List Conn} {k : Key} (h : find t k = none) : ∀ c ∈ t, c.key ≠ k := by
  unfold find at h
  intro c hc
  have := List.find?_eq_none.mp h c hc
  simpa using this

theorem find_part (B : Nat) (t : List Conn) (l : Option Nat) : find (part B t) (B, l) = find t (B, l) := by
  unfold find part
  induction t with
  | nil => rfl
  | cons c t ih =>
    by_cases hk : c.key = (B, l)
    · have h1 : (c.key.1 == B) = true := by rw [hk]; simp
      simp [List.filter_cons, h1, List.find?_cons, hk]
    · by_cases h1 : (c.key.1 == B) = true
      · simp only [List.filter_cons, h1, if_true, List.find?_cons]
        have : (c.key == (B, l)) = false := by simpa using hk
        simp only [this]
        exact ih
      · have h1' : (c.key.1 == B) = false := by simpa using h1
        simp only [List.filter_cons, h1', Bool.false_eq_true, if_false, List.find?_cons]
        have : (c.key == (B, l)) = false := by simpa using hk
        simp only [this]
        exact ih

theorem lookupKey_part (B : Nat) (t : List Conn) (loc : Local) : lookupKey (part B t) B loc = lookupKey t B loc := by
  unfold lookupKey
  rw [find_part, find_part]

theorem lookupKey_some {t : List Conn} {r : Nat} {loc : Local} {c : Conn} (h : lookupKey t r loc = some c) :
    c ∈ t ∧ c.key.1 = r := by
  unfold lookupKey at h
  split at h
  · rename_i c' hf
    injection h with h; subst h
    have := find_some hf
    exact ⟨this.1, by rw [this.2]⟩
  · split at h
    · have := find_some h
      exact ⟨this.1, by rw [this.2]⟩
    · cases h

theorem part_append (B : Nat) (t u : List Conn) : part B (t ++ u) = part B t ++ part B u := by
  simp [part]

theorem part_single (B : Nat) (c : Conn) : part B [c] = if c.key.1 == B then [c] else [] := by
  simp [part, List.filter]
  split <;> simp_all

theorem part_filter (B : Nat) (t : List Conn) (q : Conn → Bool) : part B (t.filter q) = (part B t).filter q := by
  simp only [part, List.filter_filter]
  apply List.filter_congr
  intro c _
  exact Bool.and_comm _ _

/-- a key-preserving update commutes with taking the part of one remote -/
theorem part_map (B : Nat) (t : List Conn) (f : Conn → Conn) (hf : ∀ c, (f c).key = c.key) :
    part B (t.map f) = (part B t).map f := by
  induction t with
  | nil => rfl
  | cons c t ih =>
    simp only [List.map_cons, part, List.filter_cons, hf c]
    simp only [part] at ih
    split <;> simp [ih]

theorem part_part (B : Nat) (t : List Conn) : part B (part B t) = part B t := by
  simp [part, List.filter_filter]

theorem mem_part {B : Nat} {t : List Conn} {c : Conn} : c ∈ part B t ↔ c ∈ t ∧ c.key.1 = B := by
  simp [part, List.mem_filter]

end CoapVerif.Lemmas.Server
