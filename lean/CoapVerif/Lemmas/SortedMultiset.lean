import CoapVerif.Spec.SortedMultiset
/-!
Lemmas about the sorted-multiset specification (C15): sortedness is preserved; on a sorted list the
specification's operations have an *index form* in terms of `lt id l` (how many numbers are smaller) and
`le id l` (how many are not larger) — the form in which the in-place array code of `message/options.go` is
compared with them; the operations commute with mapping the values (they only look at the numbers).
-/
namespace CoapVerif.Lemmas.SortedMultiset
open CoapVerif.Spec.SortedMultiset

variable {β γ : Type}

/-- number of options with a smaller number -/
def lt (id : Nat) (l : List (Nat × β)) : Nat := l.countP (fun y => decide (y.1 < id))
/-- number of options whose number is not larger -/
def le (id : Nat) (l : List (Nat × β)) : Nat := l.countP (fun y => decide (y.1 ≤ id))

@[simp] theorem lt_nil (id : Nat) : lt id ([] : List (Nat × β)) = 0 := rfl
@[simp] theorem le_nil (id : Nat) : le id ([] : List (Nat × β)) = 0 := rfl

theorem lt_cons (id : Nat) (y : Nat × β) (l : List (Nat × β)) :
    lt id (y :: l) = lt id l + if y.1 < id then 1 else 0 := by
  simp [lt, List.countP_cons]

theorem le_cons (id : Nat) (y : Nat × β) (l : List (Nat × β)) :
    le id (y :: l) = le id l + if y.1 ≤ id then 1 else 0 := by
  simp [le, List.countP_cons]

theorem lt_le_le (id : Nat) (l : List (Nat × β)) : lt id l ≤ le id l := by
  induction l with
  | nil => simp
  | cons y ys ih =>
    rw [lt_cons, le_cons]
    by_cases h1 : y.1 < id
    · have h2 : y.1 ≤ id := by omega
      simp [h1, h2]; exact ih
    · by_cases h2 : y.1 ≤ id <;> simp [h1, h2] <;> omega

theorem le_le_length (id : Nat) (l : List (Nat × β)) : le id l ≤ l.length := List.countP_le_length

theorem sorted_cons {y : Nat × β} {l : List (Nat × β)} :
    Sorted (y :: l) ↔ (∀ z ∈ l, y.1 ≤ z.1) ∧ Sorted l := List.pairwise_cons

theorem lt_eq_zero_of_forall {id : Nat} {l : List (Nat × β)} (h : ∀ z ∈ l, id ≤ z.1) : lt id l = 0 := by
  unfold lt
  rw [List.countP_eq_zero]
  intro a ha
  have := h a ha
  simp; omega

theorem le_eq_zero_of_forall {id : Nat} {l : List (Nat × β)} (h : ∀ z ∈ l, id < z.1) : le id l = 0 := by
  unfold le
  rw [List.countP_eq_zero]
  intro a ha
  have := h a ha
  simp; omega

/-- On a sorted list the options with a smaller number are exactly the first `lt id l`. -/
theorem lt_iff {l : List (Nat × β)} (hs : Sorted l) (id : Nat) :
    ∀ (i : Nat) (h : i < l.length), l[i].1 < id ↔ i < lt id l := by
  induction l with
  | nil => intro i h; simp at h
  | cons y ys ih =>
    obtain ⟨hy, hs'⟩ := sorted_cons.mp hs
    intro i h
    rw [lt_cons]
    cases i with
    | zero =>
      simp only [List.getElem_cons_zero]
      by_cases h1 : y.1 < id
      · simp [h1]
      · have : lt id ys = 0 := lt_eq_zero_of_forall (fun z hz => by have := hy z hz; omega)
        simp [h1, this]
    | succ i =>
      simp only [List.getElem_cons_succ]
      have hi : i < ys.length := by simpa using h
      rw [ih hs' i hi]
      by_cases h1 : y.1 < id
      · simp [h1]
      · have : lt id ys = 0 := lt_eq_zero_of_forall (fun z hz => by have := hy z hz; omega)
        simp [h1, this]

/-- On a sorted list the options whose number is not larger are exactly the first `le id l`. -/
theorem le_iff {l : List (Nat × β)} (hs : Sorted l) (id : Nat) :
    ∀ (i : Nat) (h : i < l.length), l[i].1 ≤ id ↔ i < le id l := by
  induction l with
  | nil => intro i h; simp at h
  | cons y ys ih =>
    obtain ⟨hy, hs'⟩ := sorted_cons.mp hs
    intro i h
    rw [le_cons]
    cases i with
    | zero =>
      simp only [List.getElem_cons_zero]
      by_cases h1 : y.1 ≤ id
      · simp [h1]
      · have : le id ys = 0 := le_eq_zero_of_forall (fun z hz => by have := hy z hz; omega)
        simp [h1, this]
    | succ i =>
      simp only [List.getElem_cons_succ]
      have hi : i < ys.length := by simpa using h
      rw [ih hs' i hi]
      by_cases h1 : y.1 ≤ id
      · simp [h1]
      · have : le id ys = 0 := le_eq_zero_of_forall (fun z hz => by have := hy z hz; omega)
        simp [h1, this]

/-! ### index forms -/

/-- Stable insertion puts the option at index `le x.1 l`. -/
theorem ins_eq (x : Nat × β) {l : List (Nat × β)} (hs : Sorted l) :
    ins x l = l.take (le x.1 l) ++ x :: l.drop (le x.1 l) := by
  induction l with
  | nil => simp [ins]
  | cons y ys ih =>
    obtain ⟨hy, hs'⟩ := sorted_cons.mp hs
    rw [le_cons]
    by_cases h : x.1 < y.1
    · have h2 : ¬ y.1 ≤ x.1 := by omega
      have : le x.1 ys = 0 := le_eq_zero_of_forall (fun z hz => by have := hy z hz; omega)
      simp [ins, h, h2, this]
    · have h2 : y.1 ≤ x.1 := by omega
      simp only [ins, h, h2, if_false, if_true, List.take_succ_cons, List.drop_succ_cons, List.cons_append]
      rw [ih hs']

/-- Removal deletes the index range `[lt id l, le id l)`. -/
theorem remove_eq (id : Nat) {l : List (Nat × β)} (hs : Sorted l) :
    remove id l = l.take (lt id l) ++ l.drop (le id l) := by
  induction l with
  | nil => simp [remove]
  | cons y ys ih =>
    obtain ⟨hy, hs'⟩ := sorted_cons.mp hs
    have ih' := ih hs'
    unfold remove at ih' ⊢
    rw [lt_cons, le_cons, List.filter_cons]
    by_cases h1 : y.1 < id
    · have h2 : y.1 ≤ id := by omega
      have h3 : (y.1 != id) = true := by simp; omega
      simp only [h1, h2, h3, if_true, List.take_succ_cons, List.drop_succ_cons, List.cons_append]
      rw [ih']
    · have hz : lt id ys = 0 := lt_eq_zero_of_forall (fun z hz => by have := hy z hz; omega)
      by_cases h2 : y.1 ≤ id
      · have h3 : ¬ ((y.1 != id) = true) := by simp; omega
        simp only [h1, h2, h3, if_true, if_false, hz, Nat.add_zero, List.take_zero, List.nil_append, List.drop_succ_cons]
        rw [ih', hz]; simp
      · have h3 : (y.1 != id) = true := by simp; omega
        have hz2 : le id ys = 0 := le_eq_zero_of_forall (fun z hz => by have := hy z hz; omega)
        simp only [h1, h2, h3, if_true, if_false, hz, hz2, Nat.add_zero, List.take_zero, List.nil_append, List.drop_zero]
        rw [ih', hz, hz2]; simp

theorem mem_take_lt {l : List (Nat × β)} (hs : Sorted l) (id : Nat) : ∀ z ∈ l.take (lt id l), z.1 < id := by
  intro z hz
  obtain ⟨i, hi, rfl⟩ := List.getElem_of_mem hz
  have hi' : i < lt id l ∧ i < l.length := by rw [List.length_take] at hi; omega
  rw [List.getElem_take]
  exact (lt_iff hs id i hi'.2).mpr hi'.1

theorem mem_drop_le {l : List (Nat × β)} (hs : Sorted l) (id : Nat) : ∀ z ∈ l.drop (le id l), id < z.1 := by
  intro z hz
  obtain ⟨i, hi, rfl⟩ := List.getElem_of_mem hz
  have hi' : le id l + i < l.length := by simp [List.length_drop] at hi; omega
  rw [List.getElem_drop]
  have h := le_iff hs id (le id l + i) hi'
  by_cases c : l[le id l + i].1 ≤ id
  · have := h.mp c; omega
  · omega

theorem le_append (id : Nat) (l₁ l₂ : List (Nat × β)) : le id (l₁ ++ l₂) = le id l₁ + le id l₂ := by
  simp [le, List.countP_append]

theorem le_eq_length_of_forall {id : Nat} {l : List (Nat × β)} (h : ∀ z ∈ l, z.1 ≤ id) : le id l = l.length := by
  unfold le
  rw [List.countP_eq_length]
  intro a ha
  simpa using h a ha

/-- Setting replaces the index range `[lt, le)` by the one new option. -/
theorem set_eq (x : Nat × β) {l : List (Nat × β)} (hs : Sorted l) :
    Spec.SortedMultiset.set x l = l.take (lt x.1 l) ++ x :: l.drop (le x.1 l) := by
  unfold Spec.SortedMultiset.set
  have hr := remove_eq x.1 hs
  have hsr : Sorted (remove x.1 l) := List.Pairwise.filter _ hs
  rw [ins_eq x hsr, hr]
  have h1 : le x.1 (l.take (lt x.1 l) ++ l.drop (le x.1 l)) = (l.take (lt x.1 l)).length := by
    rw [le_append, le_eq_length_of_forall (fun z hz => by have := mem_take_lt hs x.1 z hz; omega),
      le_eq_zero_of_forall (mem_drop_le hs x.1)]
    simp
  rw [h1]
  simp

/-! ### sortedness is preserved -/

theorem mem_ins {x z : Nat × β} {l : List (Nat × β)} (h : z ∈ ins x l) : z = x ∨ z ∈ l := by
  induction l with
  | nil => simp [ins] at h; exact Or.inl h
  | cons y ys ih =>
    unfold ins at h
    by_cases c : x.1 < y.1
    · simp only [c, if_true, List.mem_cons] at h
      rcases h with h | h | h
      · exact Or.inl h
      · exact Or.inr (by simp [h])
      · exact Or.inr (by simp [h])
    · simp only [c, if_false, List.mem_cons] at h
      rcases h with h | h
      · exact Or.inr (by simp [h])
      · rcases ih h with h | h
        · exact Or.inl h
        · exact Or.inr (by simp [h])

theorem ins_sorted (x : Nat × β) {l : List (Nat × β)} (hs : Sorted l) : Sorted (ins x l) := by
  induction l with
  | nil => simp [ins, Sorted]
  | cons y ys ih =>
    obtain ⟨hy, hs'⟩ := sorted_cons.mp hs
    unfold ins
    by_cases c : x.1 < y.1
    · simp only [c, if_true]
      refine sorted_cons.mpr ⟨?_, hs⟩
      intro z hz
      rcases List.mem_cons.mp hz with h | h
      · subst h; omega
      · have := hy z h; omega
    · simp only [c, if_false]
      refine sorted_cons.mpr ⟨?_, ih hs'⟩
      intro z hz
      rcases mem_ins hz with h | h
      · subst h; omega
      · exact hy z h

theorem remove_sorted (id : Nat) {l : List (Nat × β)} (hs : Sorted l) : Sorted (remove id l) :=
  List.Pairwise.filter _ hs

theorem set_sorted (x : Nat × β) {l : List (Nat × β)} (hs : Sorted l) : Sorted (Spec.SortedMultiset.set x l) :=
  ins_sorted x (remove_sorted x.1 hs)

theorem foldl_ins_sorted (inp : List (Nat × β)) {acc : List (Nat × β)} (hs : Sorted acc) :
    Sorted (inp.foldl (fun acc x => ins x acc) acc) := by
  induction inp generalizing acc with
  | nil => exact hs
  | cons x xs ih => exact ih (ins_sorted x hs)

theorem resetTo_sorted (inp : List (Nat × β)) : Sorted (resetTo inp) :=
  foldl_ins_sorted inp (by simp [Sorted])

/-! ### queries in index form -/

theorem values_eq (id : Nat) {l : List (Nat × β)} (hs : Sorted l) :
    values id l = ((l.drop (lt id l)).take (le id l - lt id l)).map (·.2) := by
  induction l with
  | nil => simp [values]
  | cons y ys ih =>
    obtain ⟨hy, hs'⟩ := sorted_cons.mp hs
    have ih' := ih hs'
    unfold values at ih' ⊢
    rw [lt_cons, le_cons, List.filter_cons]
    have hle := lt_le_le id ys
    by_cases h1 : y.1 < id
    · have h2 : y.1 ≤ id := by omega
      have h3 : ¬ ((y.1 == id) = true) := by simp; omega
      simp only [h1, h2, h3, if_true, Bool.false_eq_true, ↓reduceIte, List.drop_succ_cons]
      rw [ih']
      congr 2; omega
    · have hz : lt id ys = 0 := lt_eq_zero_of_forall (fun z hz => by have := hy z hz; omega)
      by_cases h2 : y.1 ≤ id
      · have h3 : (y.1 == id) = true := by simp; omega
        simp only [h1, h2, h3, if_true, if_false, hz, Nat.add_zero, List.drop_zero, Nat.sub_zero,
          List.take_succ_cons, List.map_cons]
        rw [ih', hz]; simp
      · have h3 : ¬ ((y.1 == id) = true) := by simp; omega
        have hz2 : le id ys = 0 := le_eq_zero_of_forall (fun z hz => by have := hy z hz; omega)
        simp only [h1, h2, h3, Bool.false_eq_true, ↓reduceIte, hz, hz2]
        rw [ih', hz, hz2]; simp

theorem values_length (id : Nat) {l : List (Nat × β)} (hs : Sorted l) :
    (values id l).length = le id l - lt id l := by
  rw [values_eq id hs]
  have := le_le_length id l
  simp [List.length_take, List.length_drop]; omega

/-! ### the operations only look at the numbers -/

def mapVal (f : β → γ) (l : List (Nat × β)) : List (Nat × γ) := l.map (fun y => (y.1, f y.2))

theorem mapVal_ins (f : β → γ) (x : Nat × β) (l : List (Nat × β)) :
    mapVal f (ins x l) = ins (x.1, f x.2) (mapVal f l) := by
  induction l with
  | nil => simp [ins, mapVal]
  | cons y ys ih =>
    unfold mapVal at ih ⊢
    by_cases c : x.1 < y.1 <;> simp [ins, c, ih]

theorem mapVal_remove (f : β → γ) (id : Nat) (l : List (Nat × β)) :
    mapVal f (remove id l) = remove id (mapVal f l) := by
  induction l with
  | nil => simp [remove, mapVal]
  | cons y ys ih =>
    unfold mapVal remove at ih ⊢
    by_cases c : (y.1 != id) = true <;> simp [List.filter_cons, c, ih]

theorem mapVal_set (f : β → γ) (x : Nat × β) (l : List (Nat × β)) :
    mapVal f (Spec.SortedMultiset.set x l) = Spec.SortedMultiset.set (x.1, f x.2) (mapVal f l) := by
  unfold Spec.SortedMultiset.set
  rw [mapVal_ins, mapVal_remove]

theorem mapVal_sorted (f : β → γ) {l : List (Nat × β)} : Sorted (mapVal f l) ↔ Sorted l := by
  unfold Sorted mapVal
  rw [List.pairwise_map]

theorem values_mapVal (f : β → γ) (id : Nat) (l : List (Nat × β)) :
    values id (mapVal f l) = (values id l).map f := by
  induction l with
  | nil => simp [values, mapVal]
  | cons y ys ih =>
    unfold mapVal values at ih ⊢
    by_cases c : (y.1 == id) = true <;> simp [List.filter_cons, c, ih]

theorem lt_mapVal (f : β → γ) (id : Nat) (l : List (Nat × β)) : lt id (mapVal f l) = lt id l := by
  simp [lt, mapVal, List.countP_map]; rfl

theorem le_mapVal (f : β → γ) (id : Nat) (l : List (Nat × β)) : le id (mapVal f l) = le id l := by
  simp [le, mapVal, List.countP_map]; rfl

/-! ### values under insertion / removal (what a path edit leaves behind) -/

theorem values_eq_nil_of_forall {id : Nat} {l : List (Nat × β)} (h : ∀ z ∈ l, z.1 ≠ id) : values id l = [] := by
  unfold values
  rw [List.map_eq_nil_iff, List.filter_eq_nil_iff]
  intro a ha
  simpa using h a ha

theorem values_cons (id : Nat) (y : Nat × β) (l : List (Nat × β)) :
    values id (y :: l) = (if y.1 = id then [y.2] else []) ++ values id l := by
  unfold values
  by_cases c : y.1 = id <;> simp [List.filter_cons, c]

theorem values_ins_same (id : Nat) (s : β) {l : List (Nat × β)} (hs : Sorted l) :
    values id (ins (id, s) l) = values id l ++ [s] := by
  induction l with
  | nil => simp [ins, values]
  | cons y ys ih =>
    obtain ⟨hy, hs'⟩ := sorted_cons.mp hs
    unfold ins
    by_cases c : id < y.1
    · simp only [c, if_true]
      have h0 : values id (y :: ys) = [] := by
        apply values_eq_nil_of_forall
        intro z hz
        rcases List.mem_cons.mp hz with h | h
        · subst h; omega
        · have := hy z h; omega
      rw [values_cons, h0]; simp
    · simp only [c, if_false]
      rw [values_cons, values_cons, ih hs', List.append_assoc]

theorem values_ins_other {id id' : Nat} (s : β) (l : List (Nat × β)) (h : id' ≠ id) :
    values id' (ins (id, s) l) = values id' l := by
  induction l with
  | nil => simp [ins, values]; omega
  | cons y ys ih =>
    unfold ins
    by_cases c : id < y.1
    · simp only [c, if_true]
      rw [values_cons]
      have : ¬ (id = id') := fun e => h e.symm
      simp [this]
    · simp only [c, if_false]
      rw [values_cons, values_cons, ih]

theorem values_remove_same (id : Nat) (l : List (Nat × β)) : values id (remove id l) = [] := by
  apply values_eq_nil_of_forall
  intro z hz
  have := (List.mem_filter.mp hz).2
  simpa using this

theorem values_remove_other {id id' : Nat} (l : List (Nat × β)) (h : id' ≠ id) :
    values id' (remove id l) = values id' l := by
  induction l with
  | nil => rfl
  | cons y ys ih =>
    unfold remove at ih ⊢
    rw [List.filter_cons]
    by_cases c : y.1 = id
    · have c1 : ¬ ((y.1 != id) = true) := by simp [c]
      have c2 : ¬ (y.1 = id') := by omega
      simp only [c1, Bool.false_eq_true, if_false]
      rw [ih, values_cons]; simp [c2]
    · have c1 : (y.1 != id) = true := by simp [c]
      simp only [c1, if_true]
      rw [values_cons, values_cons, ih]

theorem values_foldl_ins (id : Nat) (segs : List β) {acc : List (Nat × β)} (hs : Sorted acc) :
    values id (segs.foldl (fun acc s => ins (id, s) acc) acc) = values id acc ++ segs := by
  induction segs generalizing acc with
  | nil => simp
  | cons s ss ih =>
    simp only [List.foldl_cons]
    rw [ih (ins_sorted _ hs), values_ins_same id s hs, List.append_assoc]; rfl

theorem values_foldl_ins_other {id id' : Nat} (segs : List β) (acc : List (Nat × β)) (h : id' ≠ id) :
    values id' (segs.foldl (fun acc s => ins (id, s) acc) acc) = values id' acc := by
  induction segs generalizing acc with
  | nil => rfl
  | cons s ss ih =>
    simp only [List.foldl_cons]
    rw [ih, values_ins_other s acc h]

theorem foldl_ins_sorted' (id : Nat) (segs : List β) {acc : List (Nat × β)} (hs : Sorted acc) :
    Sorted (segs.foldl (fun acc s => ins (id, s) acc) acc) := by
  induction segs generalizing acc with
  | nil => exact hs
  | cons s ss ih => exact ih (ins_sorted _ hs)

/-- Setting a path and reading it back gives the normalised path: the non-empty segments, one leading slash each;
`none` (the root) when there is no segment. -/
theorem path_setPath (id : Nat) (p : Bytes) {l l' : List Item} (hs : Sorted l) (hp : p ≠ [])
    (h : setPath id p l = some l') :
    path id l' = if segments p = [] then none else some (join (segments p)) := by
  unfold setPath at h
  simp only [hp, if_false] at h
  by_cases c : (segments p).any (fun s => decide (s.length > maxSegment)) = true
  · simp [c] at h
  · simp only [c, if_false, Bool.false_eq_true, Option.some.injEq] at h
    subst h
    unfold path
    rw [values_foldl_ins id _ (remove_sorted id hs), values_remove_same]
    simp only [List.nil_append]
    cases hseg : segments p with
    | nil => simp
    | cons a as => simp

/-- Setting a path leaves every other option as it was. -/
theorem values_setPath_other {id id' : Nat} (p : Bytes) {l l' : List Item} (hne : id' ≠ id)
    (h : setPath id p l = some l') : values id' l' = values id' l := by
  unfold setPath at h
  by_cases hp : p = []
  · simp only [hp, if_true, Option.some.injEq] at h; rw [← h]
  · simp only [hp, if_false] at h
    by_cases c : (segments p).any (fun s => decide (s.length > maxSegment)) = true
    · simp [c] at h
    · simp only [c, if_false, Bool.false_eq_true, Option.some.injEq] at h
      subst h
      rw [values_foldl_ins_other _ _ hne, values_remove_other _ hne]

/-- A path is refused exactly when one of its segments is longer than 255 bytes. -/
theorem setPath_refused_iff (id : Nat) (p : Bytes) (l : List Item) :
    setPath id p l = none ↔ ∃ s ∈ segments p, s.length > maxSegment := by
  unfold setPath
  by_cases hp : p = []
  · subst hp; simp [segments, splitAux]
  · simp only [hp, if_false]
    by_cases c : (segments p).any (fun s => decide (s.length > maxSegment)) = true
    · simp only [c, if_true, true_iff]
      obtain ⟨s, hs, h⟩ := List.any_eq_true.mp c
      exact ⟨s, hs, by simpa using h⟩
    · simp only [c, if_false, Bool.false_eq_true, reduceCtorEq, false_iff]
      intro ⟨s, hs, h⟩
      exact c (List.any_eq_true.mpr ⟨s, hs, by simpa using h⟩)

/-! ### re-inserting a sorted list gives the list back (what `Clone` relies on) -/

theorem ins_append_of_le (x : Nat × β) (acc : List (Nat × β)) (h : ∀ y ∈ acc, y.1 ≤ x.1) : ins x acc = acc ++ [x] := by
  induction acc with
  | nil => rfl
  | cons y ys ih =>
    have hy : ¬ (x.1 < y.1) := by have := h y (by simp); omega
    unfold ins
    simp only [hy, if_false, List.cons_append]
    rw [ih (fun z hz => h z (by simp [hz]))]

theorem foldl_ins_sorted_id (l : List (Nat × β)) : ∀ (acc : List (Nat × β)), Sorted (acc ++ l) →
    l.foldl (fun acc x => ins x acc) acc = acc ++ l := by
  induction l with
  | nil => intro acc _; simp
  | cons x xs ih =>
    intro acc hs
    simp only [List.foldl_cons]
    have hle : ∀ y ∈ acc, y.1 ≤ x.1 := by
      intro y hy
      unfold Sorted at hs
      rw [List.pairwise_append] at hs
      exact hs.2.2 y hy x (by simp)
    rw [ins_append_of_le x acc hle, ih (acc ++ [x]) (by simpa using hs)]
    simp

theorem resetTo_of_sorted {l : List (Nat × β)} (hs : Sorted l) : resetTo l = l := by
  unfold resetTo
  rw [foldl_ins_sorted_id l [] (by simpa using hs)]
  simp

end CoapVerif.Lemmas.SortedMultiset
