import CoapVerif.Spec.SeqMap
import CoapVerif.Model.Cache
/-!
Helper lemmas for C14 (the property theorems are in `Props/C14.lean`):

* the Go-map model (`mget/mset/merase` on an insertion-ordered list with unique keys) against the sorted sequential map
  (`sget/sput/sdel`): lookups after updates, preservation of unique keys / sortedness, extensionality of sorted lists,
  the canonical form `canon` and how every update commutes with it;
* `lin_of_atomic_steps`: the generic theorem — if every atomic step of an implementation is invisible or exactly one
  atomic transition of the pending specification operation, every schedule of every program is linearizable;
* `impl_stepOK`: the step model of `sync.Map` + `cache.Cache` satisfies that hypothesis (per-method refinement);
* `search_sound`: the judge's search accepts only linearizable histories;
* `one_winner_aux`: store-if-absent has exactly one winner in every schedule.
-/
namespace CoapVerif.Lemmas.SyncMap
open CoapVerif.Spec.SeqMap CoapVerif.Model.SyncMap

def keys (m : Entries) : List Nat := m.map (·.1)
def NoDupKeys (m : Entries) : Prop := (keys m).Nodup
def Sorted (m : Entries) : Prop := (keys m).Pairwise (· < ·)

theorem insertSorted_eq_sput (k : Nat) (v : Val) (m : Entries) : insertSorted k v m = sput k v m := by
  induction m with
  | nil => rfl
  | cons e t ih => obtain ⟨k', v'⟩ := e; simp only [insertSorted, sput, ih]

/-! ### lookups after updates -/

theorem sget_sput (k k' : Nat) (v : Val) (s : Entries) : sget k' (sput k v s) = if k' = k then some v else sget k' s := by
  induction s with
  | nil => simp [sput, sget]
  | cons e t ih =>
    obtain ⟨a, b⟩ := e
    simp only [sput]
    by_cases h1 : k < a
    · simp only [h1, if_true, sget]
    · simp only [h1, if_false]
      by_cases h3 : k = a
      · subst h3
        simp only [if_true, sget]
        by_cases h2 : k' = k
        · simp [h2]
        · simp [h2]
      · simp only [h3, if_false, sget, ih]
        by_cases h4 : k' = a
        · subst h4
          have : ¬ k' = k := fun h => h3 h.symm
          simp [this]
        · simp [h4]

theorem mget_mset (k k' : Nat) (v : Val) (m : Entries) : mget k' (mset k v m) = if k' = k then some v else mget k' m := by
  induction m with
  | nil =>
    simp only [mset, mget]
    by_cases h : k' = k
    · simp [h]
    · have : ¬ k = k' := fun hh => h hh.symm
      simp [h, this]
  | cons e t ih =>
    obtain ⟨a, b⟩ := e
    simp only [mset]
    by_cases h1 : a = k
    · subst h1
      simp only [if_true, mget]
      by_cases h2 : k' = a
      · simp [h2]
      · have : ¬ a = k' := fun hh => h2 hh.symm
        simp [h2, this]
    · simp only [h1, if_false, mget, ih]
      by_cases h4 : a = k'
      · subst h4
        simp [h1]
      · simp [h4]

theorem mem_keys_of_mget {k : Nat} {v : Val} {m : Entries} (h : mget k m = some v) : k ∈ keys m := by
  induction m with
  | nil => simp [mget] at h
  | cons e t ih =>
    obtain ⟨a, b⟩ := e
    simp only [mget] at h
    by_cases h1 : a = k
    · simp [keys, h1]
    · simp only [h1, if_false] at h
      have := ih h
      simp only [keys, List.map_cons, List.mem_cons]
      exact Or.inr this

theorem mget_none_of_not_mem {k : Nat} {m : Entries} (h : k ∉ keys m) : mget k m = none := by
  cases hh : mget k m with
  | none => rfl
  | some v => exact absurd (mem_keys_of_mget hh) h

theorem mem_keys_iff_mget {k : Nat} {m : Entries} : k ∈ keys m ↔ ∃ v, mget k m = some v := by
  constructor
  · intro h
    induction m with
    | nil => simp [keys] at h
    | cons e t ih =>
      obtain ⟨a, b⟩ := e
      simp only [mget]
      by_cases h1 : a = k
      · exact ⟨b, by simp [h1]⟩
      · simp only [h1, if_false]
        apply ih
        simp only [keys, List.map_cons, List.mem_cons] at h
        rcases h with h | h
        · exact absurd h.symm h1
        · exact h
  · intro ⟨v, h⟩; exact mem_keys_of_mget h

theorem mget_merase (k k' : Nat) (m : Entries) (hnd : NoDupKeys m) :
    mget k' (merase k m) = if k' = k then none else mget k' m := by
  induction m with
  | nil => simp [merase, mget]
  | cons e t ih =>
    obtain ⟨a, b⟩ := e
    have hnd' : a ∉ keys t ∧ NoDupKeys t := by
      simpa [NoDupKeys, keys] using hnd
    simp only [merase]
    by_cases h1 : a = k
    · subst h1
      simp only [if_true]
      by_cases h2 : k' = a
      · subst h2; simp [mget_none_of_not_mem hnd'.1]
      · have : ¬ a = k' := fun hh => h2 hh.symm
        simp [h2, mget, this]
    · simp only [h1, if_false, mget, ih hnd'.2]
      by_cases h4 : a = k'
      · subst h4; simp [h1]
      · simp [h4]

/-! ### key sets -/

theorem keys_mset (k : Nat) (v : Val) (m : Entries) :
    keys (mset k v m) = if k ∈ keys m then keys m else keys m ++ [k] := by
  induction m with
  | nil => simp [mset, keys]
  | cons e t ih =>
    obtain ⟨a, b⟩ := e
    simp only [mset]
    by_cases h1 : a = k
    · subst h1; simp [keys]
    · have ih' : List.map (fun x => x.1) (mset k v t) = if k ∈ List.map (fun x => x.1) t then List.map (fun x => x.1) t else List.map (fun x => x.1) t ++ [k] := ih
      simp only [h1, if_false, keys, List.map_cons, List.mem_cons, ih']
      have : ¬ k = a := fun hh => h1 hh.symm
      by_cases h2 : k ∈ List.map (fun x => x.1) t
      · simp [h2]
      · simp [h2, this]

theorem NoDupKeys_mset {k : Nat} {v : Val} {m : Entries} (h : NoDupKeys m) : NoDupKeys (mset k v m) := by
  unfold NoDupKeys
  rw [keys_mset]
  by_cases h2 : k ∈ keys m
  · simp only [h2, if_true]; exact h
  · simp only [h2, if_false]
    rw [List.nodup_append]
    refine ⟨h, by simp, ?_⟩
    intro a ha b hb; simp at hb; subst hb; intro hab; subst hab; exact h2 ha

theorem keys_merase_sub (k : Nat) (m : Entries) : ∀ x, x ∈ keys (merase k m) → x ∈ keys m := by
  induction m with
  | nil => intro x h; exact h
  | cons e t ih =>
    obtain ⟨a, b⟩ := e
    intro x h
    simp only [merase] at h
    by_cases h1 : a = k
    · simp only [h1, if_true] at h
      simp only [keys, List.map_cons, List.mem_cons]; exact Or.inr h
    · simp only [h1, if_false, keys, List.map_cons, List.mem_cons] at h ⊢
      rcases h with h | h
      · exact Or.inl h
      · exact Or.inr (ih x h)

theorem NoDupKeys_merase {k : Nat} {m : Entries} (h : NoDupKeys m) : NoDupKeys (merase k m) := by
  induction m with
  | nil => exact h
  | cons e t ih =>
    obtain ⟨a, b⟩ := e
    have hnd' : a ∉ keys t ∧ NoDupKeys t := by
      simpa [NoDupKeys, keys] using h
    simp only [merase]
    by_cases h1 : a = k
    · simp only [h1, if_true]; exact hnd'.2
    · simp only [h1, if_false]
      have := ih hnd'.2
      simp only [NoDupKeys, keys, List.map_cons, List.nodup_cons]
      exact ⟨fun hm => hnd'.1 (keys_merase_sub k t a hm), this⟩


/-! ### the canonical (sorted) form -/

theorem sget_none_of_lt {k : Nat} {s : Entries} (h : ∀ x ∈ keys s, k < x) : sget k s = none := by
  induction s with
  | nil => rfl
  | cons e t ih =>
    obtain ⟨a, b⟩ := e
    have ha : k < a := h a (by simp [keys])
    have : ¬ k = a := by omega
    simp only [sget, this, if_false]
    exact ih (fun x hx => h x (by simp only [keys, List.map_cons, List.mem_cons]; exact Or.inr hx))

theorem mem_keys_of_sget {k : Nat} {v : Val} {s : Entries} (h : sget k s = some v) : k ∈ keys s := by
  induction s with
  | nil => simp [sget] at h
  | cons e t ih =>
    obtain ⟨a, b⟩ := e
    simp only [sget] at h
    by_cases h1 : k = a
    · simp [keys, h1]
    · simp only [h1, if_false] at h
      simp only [keys, List.map_cons, List.mem_cons]; exact Or.inr (ih h)

theorem keys_sput_sub (k : Nat) (v : Val) (s : Entries) : ∀ x, x ∈ keys (sput k v s) → x = k ∨ x ∈ keys s := by
  induction s with
  | nil => intro x h; simp [sput, keys] at h; exact Or.inl h
  | cons e t ih =>
    obtain ⟨a, b⟩ := e
    intro x h
    simp only [sput] at h
    by_cases h1 : k < a
    · simp only [h1, if_true, keys, List.map_cons, List.mem_cons] at h ⊢
      rcases h with h | h | h
      · exact Or.inl h
      · exact Or.inr (Or.inl h)
      · exact Or.inr (Or.inr h)
    · simp only [h1, if_false] at h
      by_cases h3 : k = a
      · simp only [h3, if_true, keys, List.map_cons, List.mem_cons] at h ⊢
        rcases h with h | h
        · exact Or.inl (by omega)
        · exact Or.inr (Or.inr h)
      · simp only [h3, if_false, keys, List.map_cons, List.mem_cons] at h ⊢
        rcases h with h | h
        · exact Or.inr (Or.inl h)
        · rcases ih x h with h | h
          · exact Or.inl h
          · exact Or.inr (Or.inr h)

theorem Sorted_sput {k : Nat} {v : Val} {s : Entries} (h : Sorted s) : Sorted (sput k v s) := by
  induction s with
  | nil => simp [sput, Sorted, keys]
  | cons e t ih =>
    obtain ⟨a, b⟩ := e
    have h' : (∀ x ∈ keys t, a < x) ∧ Sorted t := by
      simpa [Sorted, keys, List.pairwise_cons] using h
    simp only [sput]
    by_cases h1 : k < a
    · simp only [h1, if_true]
      simp only [Sorted, keys, List.map_cons, List.pairwise_cons, List.mem_cons]
      refine ⟨?_, ?_, h'.2⟩
      · intro x hx
        rcases hx with hx | hx
        · omega
        · have := h'.1 x hx; omega
      · exact h'.1
    · simp only [h1, if_false]
      by_cases h3 : k = a
      · subst h3
        simp only [if_true]
        simpa [Sorted, keys, List.pairwise_cons] using h
      · simp only [h3, if_false]
        simp only [Sorted, keys, List.map_cons, List.pairwise_cons]
        refine ⟨?_, ih h'.2⟩
        intro x hx
        rcases keys_sput_sub k v t x hx with hx | hx
        · omega
        · exact h'.1 x hx

theorem keys_sdel_sub (k : Nat) (s : Entries) : ∀ x, x ∈ keys (sdel k s) → x ∈ keys s := by
  induction s with
  | nil => intro x h; exact h
  | cons e t ih =>
    obtain ⟨a, b⟩ := e
    intro x h
    simp only [sdel] at h
    by_cases h1 : k = a
    · simp only [h1, if_true] at h
      simp only [keys, List.map_cons, List.mem_cons]; exact Or.inr h
    · simp only [h1, if_false, keys, List.map_cons, List.mem_cons] at h ⊢
      rcases h with h | h
      · exact Or.inl h
      · exact Or.inr (ih x h)

theorem Sorted_sdel {k : Nat} {s : Entries} (h : Sorted s) : Sorted (sdel k s) := by
  induction s with
  | nil => exact h
  | cons e t ih =>
    obtain ⟨a, b⟩ := e
    have h' : (∀ x ∈ keys t, a < x) ∧ Sorted t := by
      simpa [Sorted, keys, List.pairwise_cons] using h
    simp only [sdel]
    by_cases h1 : k = a
    · simp only [h1, if_true]; exact h'.2
    · simp only [h1, if_false, Sorted, keys, List.map_cons, List.pairwise_cons]
      exact ⟨fun x hx => h'.1 x (keys_sdel_sub k t x hx), ih h'.2⟩

theorem sget_sdel (k k' : Nat) (s : Entries) (h : Sorted s) :
    sget k' (sdel k s) = if k' = k then none else sget k' s := by
  induction s with
  | nil => simp [sdel, sget]
  | cons e t ih =>
    obtain ⟨a, b⟩ := e
    have h' : (∀ x ∈ keys t, a < x) ∧ Sorted t := by
      simpa [Sorted, keys, List.pairwise_cons] using h
    simp only [sdel]
    by_cases h1 : k = a
    · subst h1
      simp only [if_true]
      by_cases h2 : k' = k
      · subst h2; simp [sget_none_of_lt h'.1]
      · simp [h2, sget]
    · simp only [h1, if_false, sget, ih h'.2]
      by_cases h4 : k' = a
      · subst h4
        have : ¬ k' = k := fun hh => h1 hh.symm
        simp [this]
      · simp [h4]

/-- two sorted association lists with the same lookups are the same list -/
theorem sorted_ext : ∀ (s s' : Entries), Sorted s → Sorted s' → (∀ k, sget k s = sget k s') → s = s' := by
  intro s
  induction s with
  | nil =>
    intro s' _ _ hl
    cases s' with
    | nil => rfl
    | cons e t =>
      obtain ⟨a, b⟩ := e
      have := hl a
      simp [sget] at this
  | cons e t ih =>
    obtain ⟨a, b⟩ := e
    intro s' hs hs' hl
    have h1 : (∀ x ∈ keys t, a < x) ∧ Sorted t := by
      simpa [Sorted, keys, List.pairwise_cons] using hs
    cases s' with
    | nil =>
      have := hl a
      simp [sget] at this
    | cons e' t' =>
      obtain ⟨a', b'⟩ := e'
      have h2 : (∀ x ∈ keys t', a' < x) ∧ Sorted t' := by
        simpa [Sorted, keys, List.pairwise_cons] using hs'
      have haa : a = a' := by
        by_cases hlt : a < a'
        · have e1 := hl a
          have : sget a ((a', b') :: t') = none := by
            apply sget_none_of_lt
            intro x hx
            simp only [keys, List.map_cons, List.mem_cons] at hx
            rcases hx with hx | hx
            · omega
            · have := h2.1 x hx; omega
          rw [this] at e1
          simp [sget] at e1
        · by_cases hgt : a' < a
          · have e1 := hl a'
            have : sget a' ((a, b) :: t) = none := by
              apply sget_none_of_lt
              intro x hx
              simp only [keys, List.map_cons, List.mem_cons] at hx
              rcases hx with hx | hx
              · omega
              · have := h1.1 x hx; omega
            rw [this] at e1
            simp [sget] at e1
          · omega
      subst haa
      have hbb : b = b' := by
        have := hl a
        simp [sget] at this
        exact this
      subst hbb
      have ht : t = t' := by
        apply ih t' h1.2 h2.2
        intro k
        by_cases hk : k = a
        · subst hk
          rw [sget_none_of_lt h1.1, sget_none_of_lt h2.1]
        · have := hl k
          simpa [sget, hk] using this
      rw [ht]

theorem canon_cons (e : Nat × Val) (t : Entries) : canon (e :: t) = sput e.1 e.2 (canon t) := by
  simp only [canon, List.foldr_cons, insertSorted_eq_sput]

theorem Sorted_canon (m : Entries) : Sorted (canon m) := by
  induction m with
  | nil => simp [canon, Sorted, keys]
  | cons e t ih => rw [canon_cons]; exact Sorted_sput ih

theorem sget_canon (k : Nat) (m : Entries) : sget k (canon m) = mget k m := by
  induction m with
  | nil => rfl
  | cons e t ih =>
    obtain ⟨a, b⟩ := e
    rw [canon_cons, sget_sput, ih]
    simp only [mget]
    by_cases h : k = a
    · subst h; simp
    · have : ¬ a = k := fun hh => h hh.symm
      simp [h, this]

theorem canon_mset (k : Nat) (v : Val) (m : Entries) : canon (mset k v m) = sput k v (canon m) := by
  apply sorted_ext _ _ (Sorted_canon _) (Sorted_sput (Sorted_canon _))
  intro x
  rw [sget_canon, mget_mset, sget_sput, sget_canon]

theorem canon_merase (k : Nat) (m : Entries) (h : NoDupKeys m) : canon (merase k m) = sdel k (canon m) := by
  apply sorted_ext _ _ (Sorted_canon _) (Sorted_sdel (Sorted_canon _))
  intro x
  rw [sget_canon, mget_merase _ _ _ h, sget_sdel _ _ _ (Sorted_canon _), sget_canon]

theorem length_sput_new {k : Nat} {v : Val} {s : Entries} (h : sget k s = none) : (sput k v s).length = s.length + 1 := by
  induction s with
  | nil => rfl
  | cons e t ih =>
    obtain ⟨a, b⟩ := e
    simp only [sget] at h
    by_cases h3 : k = a
    · simp [h3] at h
    · simp only [h3, if_false] at h
      simp only [sput]
      by_cases h1 : k < a
      · simp [h1]
      · simp [h1, h3, ih h]

theorem length_canon (m : Entries) (h : NoDupKeys m) : (canon m).length = m.length := by
  induction m with
  | nil => rfl
  | cons e t ih =>
    obtain ⟨a, b⟩ := e
    have hnd' : a ∉ keys t ∧ NoDupKeys t := by
      simpa [NoDupKeys, keys] using h
    rw [canon_cons, length_sput_new, ih hnd'.2]
    · rfl
    · rw [sget_canon]; exact mget_none_of_not_mem hnd'.1


/-! ### linearizability of systems whose operations are sequences of atomic steps -/

section Generic
open CoapVerif.Model.SyncSystem

variable {δ P L : Type}

/-- every atomic step of the implementation is either invisible (the abstract state does not change) or one atomic
    transition of the pending specification operation; the returning step is a completing transition -/
def ResOK (R : δ → State → Prop) (A : L → Op → Prop) (op : Op) (s : State) : δ × (L ⊕ Res) → Prop
  | (d', .inl l') => (R d' s ∧ A l' op) ∨ (∃ s' op', (s', Outcome.more op') ∈ fires op s ∧ R d' s' ∧ A l' op')
  | (d', .inr r) => ∃ s', (s', Outcome.done r) ∈ fires op s ∧ R d' s'

def StepOK (I : Impl δ P L) (R : δ → State → Prop) (A : L → Op → Prop) : Prop :=
  ∀ l op d s, A l op → R d s → ResOK R A op s (I.step l d)

def Cons (A : L → Op → Prop) (Ok : P → Prop) (ths : Nat → TSt P L) (Pst : Nat → PSt) : Prop :=
  ∀ t, match ths t with
    | .idle prog => Pst t = .idle ∧ ∀ p ∈ prog, Ok p
    | .run l prog => (∃ op, Pst t = .pend op ∧ A l op) ∧ ∀ p ∈ prog, Ok p

theorem updP_updP (Pst : Nat → PSt) (t : Nat) (x y : PSt) : updP (updP Pst t x) t y = updP Pst t y := by
  funext j; simp only [updP]; split <;> rfl

theorem updP_same (Pst : Nat → PSt) (t : Nat) (x : PSt) : updP Pst t x t = x := by simp [updP]

theorem Cons_upd_idle {A : L → Op → Prop} {Ok : P → Prop} {ths : Nat → TSt P L} {Pst : Nat → PSt} (h : Cons A Ok ths Pst)
    (t : Nat) (rest : List P) (hr : ∀ p ∈ rest, Ok p) : Cons A Ok (upd ths t (.idle rest)) (updP Pst t .idle) := by
  intro j
  by_cases hj : j = t
  · subst hj; simp only [upd, updP, if_true]; exact ⟨by first | rfl | trivial, hr⟩
  · have := h j
    simp only [upd, updP, hj, if_false]; exact this

theorem Cons_upd_run {A : L → Op → Prop} {Ok : P → Prop} {ths : Nat → TSt P L} {Pst : Nat → PSt} (h : Cons A Ok ths Pst)
    (t : Nat) (l : L) (rest : List P) (op : Op) (ha : A l op) (hr : ∀ p ∈ rest, Ok p) :
    Cons A Ok (upd ths t (.run l rest)) (updP Pst t (.pend op)) := by
  intro j
  by_cases hj : j = t
  · subst hj; simp only [upd, updP, if_true]; exact ⟨⟨op, rfl, ha⟩, hr⟩
  · have := h j
    simp only [upd, updP, hj, if_false]; exact this

/-- **Every** schedule of **every** program (whose calls satisfy `Ok`) yields a linearizable history. -/
theorem lin_of_atomic_steps (I : Impl δ P L) (R : δ → State → Prop) (A : L → Op → Prop) (Ok : P → Prop)
    (hstart : ∀ p, Ok p → A (I.start p) (I.view p)) (hstep : StepOK I R A) :
    ∀ (sched : List Nat) (d : δ) (s : State) (ths : Nat → TSt P L) (Pst : Nat → PSt),
      R d s → Cons A Ok ths Pst → Lin s Pst (history I d ths sched) := by
  intro sched
  induction sched with
  | nil => intro d s ths Pst _ _; exact Lin.nil s Pst
  | cons t ts ih =>
    intro d s ths Pst hR hC
    simp only [history]
    have hCt := hC t
    cases hth : ths t with
    | idle prog =>
      rw [hth] at hCt
      obtain ⟨hCt, hOk⟩ := hCt
      cases prog with
      | nil =>
        simp only [sched1, hth, List.nil_append]
        exact ih d s ths Pst hR hC
      | cons p rest =>
        simp only [sched1, hth]
        have hOkr : ∀ q ∈ rest, Ok q := fun q hq => hOk q (List.mem_cons_of_mem _ hq)
        have hs := hstep (I.start p) (I.view p) d s (hstart p (hOk p (by simp))) hR
        cases hst : I.step (I.start p) d with
        | mk d' o =>
          rw [hst] at hs
          cases o with
          | inl l' =>
            simp only [ResOK] at hs
            simp only [List.cons_append, List.nil_append]
            apply Lin.call hCt
            rcases hs with ⟨hR', hA'⟩ | ⟨s', op', hf, hR', hA'⟩
            · exact ih d' s (upd ths t (.run l' rest)) (updP Pst t (.pend (I.view p))) hR' (Cons_upd_run hC t l' rest _ hA' hOkr)
            · apply Lin.fire (t := t) (updP_same _ _ _) hf
              rw [updP_updP]
              exact ih d' s' (upd ths t (.run l' rest)) (updP Pst t (.pend op')) hR' (Cons_upd_run hC t l' rest _ hA' hOkr)
          | inr r =>
            simp only [ResOK] at hs
            simp only [List.cons_append, List.nil_append]
            obtain ⟨s', hf, hR'⟩ := hs
            apply Lin.call hCt
            apply Lin.done (t := t) (updP_same _ _ _) hf
            rw [updP_updP]
            apply Lin.ret (updP_same _ _ _)
            rw [updP_updP]
            exact ih d' s' (upd ths t (.idle rest)) (updP Pst t .idle) hR' (Cons_upd_idle hC t rest hOkr)
    | run l rest =>
      rw [hth] at hCt
      obtain ⟨⟨op, hP, hA⟩, hOkr⟩ := hCt
      simp only [sched1, hth]
      have hs := hstep l op d s hA hR
      cases hst : I.step l d with
      | mk d' o =>
        rw [hst] at hs
        cases o with
        | inl l' =>
          simp only [ResOK] at hs
          simp only [List.nil_append]
          rcases hs with ⟨hR', hA'⟩ | ⟨s', op', hf, hR', hA'⟩
          · have hc := Cons_upd_run hC t l' rest op hA' hOkr
            have e : updP Pst t (.pend op) = Pst := by
              funext j; simp only [updP]; split
              · rename_i hj; rw [hj, hP]
              · rfl
            rw [e] at hc
            exact ih d' s (upd ths t (.run l' rest)) Pst hR' hc
          · apply Lin.fire (t := t) hP hf
            exact ih d' s' (upd ths t (.run l' rest)) (updP Pst t (.pend op')) hR' (Cons_upd_run hC t l' rest _ hA' hOkr)
        | inr r =>
          simp only [ResOK] at hs
          simp only [List.cons_append, List.nil_append]
          obtain ⟨s', hf, hR'⟩ := hs
          apply Lin.done (t := t) hP hf
          apply Lin.ret (updP_same _ _ _)
          rw [updP_updP]
          exact ih d' s' (upd ths t (.idle rest)) (updP Pst t .idle) hR' (Cons_upd_idle hC t rest hOkr)

end Generic


/-! ### the map and the cache refine the sequential map, step by step -/

open CoapVerif.Model.Cache CoapVerif.Model.SyncSystem

/-- abstraction: the canonical listing of the Go map (and of every map object that was detached), the clock -/
def absState (d : MState) : State :=
  { m := canon d.data, now := d.now, gen := d.gen, detached := d.old.map (fun e => (e.1, canon e.2)) }

def R (d : MState) (s : State) : Prop := s = absState d ∧ NoDupKeys d.data

theorem sput_same {k : Nat} {o : Val} {s : Entries} (hs : Sorted s) (h : sget k s = some o) : sput k o s = s := by
  apply sorted_ext _ _ (Sorted_sput hs) hs
  intro x
  rw [sget_sput]
  by_cases hx : x = k
  · subst hx; simp [h]
  · simp [hx]

theorem sdel_absent {k : Nat} {s : Entries} (hs : Sorted s) (h : sget k s = none) : sdel k s = s := by
  apply sorted_ext _ _ (Sorted_sdel hs) hs
  intro x
  rw [sget_sdel _ _ _ hs]
  by_cases hx : x = k
  · subst hx; simp [h]
  · simp [hx]

theorem mem_of_sget {k : Nat} {v : Val} {s : Entries} (h : sget k s = some v) : (k, v) ∈ s := by
  induction s with
  | nil => simp [sget] at h
  | cons e t ih =>
    obtain ⟨a, b⟩ := e
    simp only [sget] at h
    by_cases h1 : k = a
    · simp only [h1, if_true, Option.some.injEq] at h
      simp [h1, h]
    · simp only [h1, if_false] at h
      exact List.mem_cons_of_mem _ (ih h)

theorem canon_msetOpt (k : Nat) (v : Option Val) (m : Entries) (h : NoDupKeys m) :
    canon (msetOpt k v m) = setOpt k v (canon m) := by
  cases v with
  | none => exact canon_merase k m h
  | some v => exact canon_mset k v m

theorem NoDupKeys_msetOpt {k : Nat} {v : Option Val} {m : Entries} (h : NoDupKeys m) : NoDupKeys (msetOpt k v m) := by
  cases v with
  | none => exact NoDupKeys_merase h
  | some v => exact NoDupKeys_mset h

/-- every single-section method of `Map` (all but `LoadAndDeleteAll`, which also detaches the map object): its critical
    section is exactly the atomic transition of the specification -/
theorem mapSection_refines (op : Op) (m m' : Entries) (r : Res) (s : State) (hs : s.m = canon m)
    (h : mapSection op m = some (m', r)) (hnd : NoDupKeys m) (hne : op ≠ .loadAndDeleteAll) :
    ({ s with m := canon m' }, Outcome.done r) ∈ fires op s ∧ NoDupKeys m' := by
  obtain ⟨sm, now, gen, det⟩ := s
  simp only at hs
  subst hs
  cases op <;> simp only [mapSection, Option.some.injEq, Prod.mk.injEq, reduceCtorEq] at h
  case store k v =>
    obtain ⟨rfl, rfl⟩ := h
    exact ⟨by simp [fires, canon_mset], NoDupKeys_mset hnd⟩
  case load k =>
    obtain ⟨rfl, rfl⟩ := h
    exact ⟨by simp [fires, sget_canon], hnd⟩
  case loadOrStore k v =>
    cases hg : mget k m with
    | none =>
      simp only [hg, Option.some.injEq, Prod.mk.injEq] at h
      obtain ⟨rfl, rfl⟩ := h
      exact ⟨by simp [fires, sget_canon, hg, canon_mset], NoDupKeys_mset hnd⟩
    | some o =>
      simp only [hg, Option.some.injEq, Prod.mk.injEq] at h
      obtain ⟨rfl, rfl⟩ := h
      exact ⟨by simp [fires, sget_canon, hg], hnd⟩
  case replace k v =>
    obtain ⟨rfl, rfl⟩ := h
    exact ⟨by simp [fires, canon_mset, sget_canon], NoDupKeys_mset hnd⟩
  case delete k =>
    obtain ⟨rfl, rfl⟩ := h
    exact ⟨by simp [fires, canon_merase _ _ hnd], NoDupKeys_merase hnd⟩
  case loadAndDelete k =>
    obtain ⟨rfl, rfl⟩ := h
    exact ⟨by simp [fires, canon_merase _ _ hnd, sget_canon], NoDupKeys_merase hnd⟩
  case loadAndDeleteAll => exact absurd rfl hne
  case copyData =>
    obtain ⟨rfl, rfl⟩ := h
    exact ⟨by simp [fires], hnd⟩
  case length =>
    obtain ⟨rfl, rfl⟩ := h
    exact ⟨by simp [fires, length_canon _ hnd], hnd⟩
  case range2 =>
    obtain ⟨rfl, rfl⟩ := h
    exact ⟨by simp [fires], hnd⟩
  case storeWithFunc k v =>
    obtain ⟨rfl, rfl⟩ := h
    exact ⟨by simp [fires, canon_mset], NoDupKeys_mset hnd⟩
  case loadWithFunc k d =>
    obtain ⟨rfl, rfl⟩ := h
    exact ⟨by simp [fires, sget_canon], hnd⟩
  case loadOrStoreWithFunc k d v =>
    cases hg : mget k m with
    | none =>
      simp only [hg, Option.some.injEq, Prod.mk.injEq] at h
      obtain ⟨rfl, rfl⟩ := h
      exact ⟨by simp [fires, sget_canon, hg, canon_mset], NoDupKeys_mset hnd⟩
    | some o =>
      simp only [hg, Option.some.injEq, Prod.mk.injEq] at h
      obtain ⟨rfl, rfl⟩ := h
      exact ⟨by simp [fires, sget_canon, hg], hnd⟩
  case replaceWithFunc k f =>
    obtain ⟨rfl, rfl⟩ := h
    exact ⟨by simp [fires, sget_canon, canon_msetOpt _ _ _ hnd], NoDupKeys_msetOpt hnd⟩
  case deleteWithFunc k =>
    obtain ⟨rfl, rfl⟩ := h
    exact ⟨by simp [fires, canon_merase _ _ hnd, sget_canon], NoDupKeys_merase hnd⟩
  case loadAndDeleteWithFunc k d =>
    obtain ⟨rfl, rfl⟩ := h
    exact ⟨by simp [fires, canon_merase _ _ hnd, sget_canon], NoDupKeys_merase hnd⟩

theorem cacheLoadOrStore_refines (k : Nat) (e : Val) (m : Entries) (s : State) (hs : s.m = canon m) (hnd : NoDupKeys m) :
    ({ s with m := canon (cacheLoadOrStoreSection k e s.now m).1 }, Outcome.done (cacheLoadOrStoreSection k e s.now m).2)
      ∈ fires (.cacheLoadOrStore k e) s ∧ NoDupKeys (cacheLoadOrStoreSection k e s.now m).1 := by
  obtain ⟨sm, now, gen, det⟩ := s
  simp only at hs
  subst hs
  simp only
  unfold cacheLoadOrStoreSection
  cases hg : mget k m with
  | none => exact ⟨by simp [fires, sget_canon, hg, canon_mset], NoDupKeys_mset hnd⟩
  | some o =>
    by_cases hx : o.expired now = true
    · simp only [hx, if_true]
      exact ⟨by simp [fires, sget_canon, hg, hx, canon_mset], NoDupKeys_mset hnd⟩
    · have hx' : o.expired now = false := by simpa using hx
      simp only [hx', Bool.false_eq_true, if_false]
      have hsg : sget k (canon m) = some o := by rw [sget_canon, hg]
      refine ⟨?_, NoDupKeys_mset hnd⟩
      rw [canon_mset, sput_same (Sorted_canon m) hsg]
      simp [fires, hsg, hx']

theorem cacheLoad_refines (k : Nat) (m : Entries) (s : State) (hs : s.m = canon m) :
    (s, Outcome.done (cacheLoadSection k s.now m)) ∈ fires (.cacheLoad k) s := by
  obtain ⟨sm, now, gen, det⟩ := s
  simp only at hs
  subst hs
  unfold cacheLoadSection
  cases hg : mget k m with
  | none => simp [fires, sget_canon, hg]
  | some o => simp [fires, sget_canon, hg]

/-- the write-locked section of the sweep: either it removes an entry that is expired at `t`, or nothing changes -/
theorem expireSection_refines (k : Nat) (e : Val) (t : Nat) (m : Entries) (hnd : NoDupKeys m) :
    NoDupKeys (expireSection k e t m).1 ∧
    (((expireSection k e t m).2 = false ∧ canon (expireSection k e t m).1 = canon m) ∨
     ((expireSection k e t m).2 = true ∧ sget k (canon m) = some e ∧ e.expired t = true ∧
        canon (expireSection k e t m).1 = sdel k (canon m))) := by
  unfold expireSection
  cases hg : mget k m with
  | none =>
    refine ⟨NoDupKeys_merase hnd, Or.inl ⟨rfl, ?_⟩⟩
    simp only
    rw [canon_merase _ _ hnd, sdel_absent (Sorted_canon m) (by rw [sget_canon, hg])]
  | some o =>
    simp only
    by_cases hx : o = e ∧ o.expired t = true
    · rw [if_pos hx]
      refine ⟨NoDupKeys_merase hnd, Or.inr ⟨rfl, ?_, ?_, canon_merase _ _ hnd⟩⟩
      · rw [sget_canon, hg, hx.1]
      · rw [← hx.1]; exact hx.2
    · rw [if_neg hx]
      refine ⟨NoDupKeys_mset hnd, Or.inl ⟨rfl, ?_⟩⟩
      rw [canon_mset, sput_same (Sorted_canon m) (by rw [sget_canon, hg])]

def isSingle : Op → Prop
  | .range .. => False
  | .sweep _ => False
  | _ => True

/-- which pending specification operation a running call stands for -/
def A (l : L) (op : Op) : Prop :=
  match l with
  | .single o => op = o ∧ isSingle o
  | .rangeStart stop _ => op = .range stop [] none
  | .range stop acc _ g => op = .range stop acc (some g)
  | .rangeStop acc => ∃ stop g, op = .range stop acc g
  | .sweepStart t _ => op = .sweep t
  | .sweepIter t _ _ _ => op = .sweep (some t)
  | .sweepExpire t _ _ _ _ _ => op = .sweep (some t)

theorem A_start (c : Call) : A (impl.start c) (impl.view c) := by
  obtain ⟨op, oracle⟩ := c
  cases op <;> simp [impl, start, view, A, isSingle]

theorem A_sweepAfterVisit (t c : Nat) (e : Val) (acc : List Val) (cs : List Nat) (g : Nat) :
    A (sweepAfterVisit t c e acc cs g) (.sweep (some t)) := by
  unfold sweepAfterVisit; split <;> simp [A]

theorem advance_some {oracle : List Nat} {m : Entries} {c : Nat} {v : Val} {cs : List Nat}
    (h : advance oracle m = some (c, v, cs)) : mget c m = some v := by
  cases oracle with
  | nil => simp [advance] at h
  | cons a t =>
    simp only [advance, Option.map_eq_some_iff] at h
    obtain ⟨w, hw, he⟩ := h
    simp only [Prod.mk.injEq] at he
    obtain ⟨rfl, rfl, _⟩ := he
    exact hw

theorem iterData_cur (d : MState) : iterData d d.gen = d.data := by simp [iterData]

theorem lookup_map_canon (g : Nat) (l : List (Nat × Entries)) :
    (l.map (fun e => (e.1, canon e.2))).lookup g = (l.lookup g).map canon := by
  induction l with
  | nil => rfl
  | cons e t ih =>
    obtain ⟨a, b⟩ := e
    simp only [List.map_cons, List.lookup_cons]
    by_cases h : g == a
    · simp [h]
    · simp [h, ih]

/-- the specification's "map a Range works on" is the canonical form of the model's -/
theorem mapOf_abs (d : MState) (g : Nat) : mapOf (absState d) g = canon (iterData d g) := by
  simp only [mapOf, absState, iterData]
  by_cases h : g = d.gen
  · simp [h]
  · simp only [h, if_false, lookup_map_canon]
    cases d.old.lookup g with
    | none => simp [canon]
    | some m => simp

theorem rangeStep_ok (stop : Option Nat) (acc : Entries) (oracle : List Nat) (g : Nat) (og : Option Nat) (d : MState)
    (hnd : NoDupKeys d.data) (hg : og.getD d.gen = g) :
    ResOK R A (.range stop acc og) (absState d) (rangeStep stop acc oracle g d) := by
  simp only [rangeStep]
  cases ha : advance oracle (iterData d g) with
  | none => exact ⟨_, by simp [fires], rfl, hnd⟩
  | some x =>
    obtain ⟨c, v, cs⟩ := x
    have hmem : (c, v) ∈ mapOf (absState d) g := by
      rw [mapOf_abs]; exact mem_of_sget (by rw [sget_canon]; exact advance_some ha)
    have hg' : og.getD (absState d).gen = g := hg
    simp only
    by_cases hstop : stop = some (acc ++ [(c, v)]).length
    · rw [if_pos hstop]
      right
      refine ⟨absState d, .range stop (acc ++ [(c, v)]) (some g), ?_, ⟨rfl, hnd⟩, ⟨stop, some g, rfl⟩⟩
      simp only [fires, hg', List.mem_cons, List.mem_map]
      exact Or.inr ⟨(c, v), hmem, rfl⟩
    · rw [if_neg hstop]
      right
      refine ⟨absState d, .range stop (acc ++ [(c, v)]) (some g), ?_, ⟨rfl, hnd⟩, rfl⟩
      simp only [fires, hg', List.mem_cons, List.mem_map]
      exact Or.inr ⟨(c, v), hmem, rfl⟩

theorem absState_data (d : MState) (m' : Entries) : absState { d with data := m' } = { absState d with m := canon m' } := rfl

theorem impl_stepOK : StepOK impl R A := by
  intro l op d s hA hR
  obtain ⟨rfl, hnd⟩ := hR
  cases l with
  | single o =>
    obtain ⟨rfl, hs⟩ := hA
    simp only [impl, step]
    cases hop : op
    case cacheLoadOrStore k e =>
      simp only
      obtain ⟨h1, h2⟩ := cacheLoadOrStore_refines k e d.data (absState d) rfl hnd
      exact ⟨_, h1, rfl, h2⟩
    case cacheLoad k =>
      simp only
      exact ⟨_, cacheLoad_refines k d.data (absState d) rfl, rfl, hnd⟩
    case tick n =>
      simp only
      exact ⟨{ absState d with now := d.now + n }, by simp [fires, absState], rfl, hnd⟩
    case loadAndDeleteAll =>
      simp only
      refine ⟨_, ?_, rfl, by simp [NoDupKeys, keys]⟩
      simp [fires, absState, canon]
    case range stop acc g => rw [hop] at hs; exact absurd hs (by simp [isSingle])
    case sweep t => rw [hop] at hs; exact absurd hs (by simp [isSingle])
    all_goals
      simp only
      cases hm : mapSection _ d.data with
      | none =>
        exfalso
        simp only [mapSection] at hm
        first
          | exact absurd hm (by simp)
          | (split at hm <;> exact absurd hm (by simp))
      | some mr =>
        obtain ⟨m', r⟩ := mr
        obtain ⟨h1, h2⟩ := mapSection_refines _ d.data m' r (absState d) rfl hm hnd (by simp)
        exact ⟨_, h1, rfl, h2⟩
  | rangeStart stop oracle =>
    simp only [A] at hA
    subst hA
    simp only [impl, step]
    exact rangeStep_ok stop [] oracle d.gen none d hnd rfl
  | range stop acc oracle g =>
    simp only [A] at hA
    subst hA
    simp only [impl, step]
    exact rangeStep_ok stop acc oracle g (some g) d hnd rfl
  | rangeStop acc =>
    obtain ⟨stop, g, rfl⟩ := hA
    simp only [impl, step]
    exact ⟨_, by simp [fires], rfl, hnd⟩
  | sweepStart t oracle =>
    simp only [A] at hA
    subst hA
    simp only [impl, step, sweepStep]
    cases t with
    | none =>
      simp only [Option.getD_none]
      cases ha : advance oracle (iterData d d.gen) with
      | none => exact ⟨_, by simp [fires], rfl, hnd⟩
      | some x =>
        obtain ⟨c, e, cs⟩ := x
        simp only
        right
        exact ⟨absState d, .sweep (some d.now), by simp [fires, absState], ⟨rfl, hnd⟩, A_sweepAfterVisit _ _ _ _ _ _⟩
    | some t =>
      simp only [Option.getD_some]
      cases ha : advance oracle (iterData d d.gen) with
      | none => exact ⟨_, by simp [fires], rfl, hnd⟩
      | some x =>
        obtain ⟨c, e, cs⟩ := x
        simp only
        left
        exact ⟨⟨rfl, hnd⟩, A_sweepAfterVisit _ _ _ _ _ _⟩
  | sweepIter t acc oracle g =>
    simp only [A] at hA
    subst hA
    simp only [impl, step, sweepStep]
    cases ha : advance oracle (iterData d g) with
    | none => exact ⟨_, by simp [fires], rfl, hnd⟩
    | some x =>
      obtain ⟨c, e, cs⟩ := x
      simp only
      left
      exact ⟨⟨rfl, hnd⟩, A_sweepAfterVisit _ _ _ _ _ _⟩
  | sweepExpire t k e acc cs g =>
    simp only [A] at hA
    subst hA
    simp only [impl, step]
    obtain ⟨h1, h2⟩ := expireSection_refines k e t d.data hnd
    rcases h2 with ⟨_, hc⟩ | ⟨_, hg, hx, hc⟩
    · left
      refine ⟨⟨?_, h1⟩, by simp [A]⟩
      simp only [absState, hc]
    · right
      refine ⟨{ absState d with m := sdel k (canon d.data) }, .sweep (some t), ?_, ⟨?_, h1⟩, by simp [A]⟩
      · simp only [fires, List.mem_cons, List.mem_map, List.mem_filter]
        exact Or.inr ⟨(k, e), ⟨mem_of_sget hg, hx⟩, rfl⟩
      · simp only [absState, hc]

/-! ### the judge's search only accepts linearizable histories -/

theorem find_filter_ne (P : PTab) (t j : Nat) (h : j ≠ t) :
    (P.filter (fun e => e.1 != t)).find? (fun e => e.1 == j) = P.find? (fun e => e.1 == j) := by
  induction P with
  | nil => rfl
  | cons e r ih =>
    simp only [List.filter_cons]
    by_cases h1 : e.1 = t
    · have h2 : (e.1 != t) = false := by simp [h1]
      have h3 : (e.1 == j) = false := by
        have : e.1 ≠ j := by rw [h1]; exact fun hh => h hh.symm
        simpa using this
      simp only [h2, Bool.false_eq_true, if_false, List.find?_cons, h3, ih]
    · have h2 : (e.1 != t) = true := by simpa using h1
      simp only [h2, if_true, List.find?_cons, ih]

theorem pget_pset (P : PTab) (t : Nat) (x : PSt) : pget (pset P t x) = updP (pget P) t x := by
  funext j
  simp only [pget, pset, updP, List.find?_cons]
  by_cases h : j = t
  · subst h; simp
  · have : (t == j) = false := by
      have : t ≠ j := fun hh => h hh.symm
      simpa using this
    simp only [this, h, if_false, find_filter_ne P t j h]

theorem search_sound : ∀ (fuel : Nat) (s : State) (P : PTab) (H : List Ev),
    search fuel s P H = true → Lin s (pget P) H := by
  intro fuel
  induction fuel with
  | zero => intro s P H h; simp [search] at h
  | succ n ih =>
    intro s P H h
    simp only [search, Bool.or_eq_true] at h
    rcases h with h | h
    · cases H with
      | nil => exact Lin.nil _ _
      | cons ev H' =>
        cases ev with
        | call t op =>
          simp only [Bool.and_eq_true, beq_iff_eq] at h
          apply Lin.call h.1
          rw [← pget_pset]
          exact ih _ _ _ h.2
        | ret t r =>
          simp only [Bool.and_eq_true, beq_iff_eq] at h
          apply Lin.ret h.1
          rw [← pget_pset]
          exact ih _ _ _ h.2
    · simp only [List.any_eq_true] at h
      obtain ⟨e, he, h⟩ := h
      cases hst : e.2 with
      | idle => simp [hst] at h
      | fin r => simp [hst] at h
      | pend op =>
        simp only [hst, Bool.and_eq_true, beq_iff_eq, List.any_eq_true] at h
        obtain ⟨hp, so, hso, h⟩ := h
        cases ho : so.2 with
        | more op' =>
          simp only [ho, Bool.and_eq_true] at h
          have hm : (so.1, Outcome.more op') ∈ fires op s := by rw [← ho]; exact hso
          apply Lin.fire hp hm
          rw [← pget_pset]
          exact ih _ _ _ h.2
        | done r =>
          simp only [ho, Bool.and_eq_true] at h
          have hm : (so.1, Outcome.done r) ∈ fires op s := by rw [← ho]; exact hso
          apply Lin.done hp hm
          rw [← pget_pset]
          exact ih _ _ _ h.2

/-- the judge is sound: a history it accepts is linearizable -/
theorem judge_sound (H : List Ev) (h : judge H = true) : Linearizable init H := by
  have := search_sound _ _ _ _ h
  exact this


/-! ### store-if-absent: one winner -/

/-- results of the `LoadOrStore(k, _)` calls of a history, in order (single-step calls: a call is directly followed by its return) -/
def losResults (k : Nat) : List Ev → List Res
  | .call _ (.loadOrStore k' _) :: .ret _ r :: H => if k' = k then r :: losResults k H else losResults k H
  | _ :: H => losResults k H
  | [] => []

/-- operations that never remove or overwrite an existing entry of key `k` -/
def KeepsKey (k : Nat) (c : Call) : Prop :=
  match c.op with
  | .loadOrStore _ _ => True
  | .load _ => True
  | .store k' _ => k' ≠ k
  | .length => True
  | .copyData => True
  | _ => False

def AllLoaded (w : Val) (l : List Res) : Prop := ∀ r ∈ l, r = Res.stored w true

def IdleKeeps (k : Nat) (ths : Nat → TSt Call L) : Prop := ∀ t, ∃ prog, ths t = .idle prog ∧ ∀ c ∈ prog, KeepsKey k c

theorem IdleKeeps_upd {k : Nat} {ths : Nat → TSt Call L} (h : IdleKeeps k ths) (t : Nat) (rest : List Call)
    (hr : ∀ c ∈ rest, KeepsKey k c) : IdleKeeps k (upd ths t (.idle rest)) := by
  intro j
  by_cases hj : j = t
  · subst hj; exact ⟨rest, by simp [upd], hr⟩
  · obtain ⟨p, hp, hk⟩ := h j
    exact ⟨p, by simp [upd, hj, hp], hk⟩

/-- one scheduled step of a thread whose next call keeps the key: the events are `[call, ret]`, the thread stays idle -/
theorem sched1_keeps (k : Nat) (d : MState) (ths : Nat → TSt Call L) (t : Nat) (c : Call) (rest : List Call)
    (hth : ths t = .idle (c :: rest)) (hc : KeepsKey k c) :
    ∃ d' r, sched1 impl d ths t = (d', upd ths t (.idle rest), [.call t c.op, .ret t r]) ∧
      (match c.op with
       | .loadOrStore k' v =>
         if k' = k then
           (match mget k d.data with
            | some w => r = .stored w true ∧ mget k d'.data = some w
            | none => r = .stored v false ∧ mget k d'.data = some v)
         else mget k d'.data = mget k d.data
       | _ => mget k d'.data = mget k d.data) := by
  obtain ⟨op, oracle⟩ := c
  cases op <;> simp only [KeepsKey] at hc
  case loadOrStore k' v =>
    by_cases hk : k' = k
    · subst hk
      cases hg : mget k' d.data with
      | none =>
        refine ⟨{ d with data := mset k' v d.data }, .stored v false, ?_, ?_⟩
        · simp [sched1, hth, impl, start, view, step, mapSection, hg]
        · simp [hg, mget_mset]
      | some w =>
        refine ⟨d, .stored w true, ?_, ?_⟩
        · simp [sched1, hth, impl, start, view, step, mapSection, hg]
        · simp [hg]
    · cases hg : mget k' d.data with
      | none =>
        refine ⟨{ d with data := mset k' v d.data }, .stored v false, ?_, ?_⟩
        · simp [sched1, hth, impl, start, view, step, mapSection, hg]
        · have : ¬ k = k' := fun hh => hk hh.symm
          simp [hk, mget_mset, this]
      | some w =>
        refine ⟨d, .stored w true, ?_, ?_⟩
        · simp [sched1, hth, impl, start, view, step, mapSection, hg]
        · simp [hk]
  case load k' =>
    exact ⟨d, .opt (mget k' d.data), by simp [sched1, hth, impl, start, view, step, mapSection], by simp⟩
  case store k' v =>
    refine ⟨{ d with data := mset k' v d.data }, .unit, by simp [sched1, hth, impl, start, view, step, mapSection], ?_⟩
    have : ¬ k = k' := fun hh => hc hh.symm
    simp [mget_mset, this]
  case length =>
    exact ⟨d, .num d.data.length, by simp [sched1, hth, impl, start, view, step, mapSection], by simp⟩
  case copyData =>
    exact ⟨d, .dump (canon d.data), by simp [sched1, hth, impl, start, view, step, mapSection], by simp⟩

theorem losResults_pair (k t : Nat) (op : Op) (r : Res) (H : List Ev) :
    losResults k (.call t op :: .ret t r :: H) =
      (match op with
       | .loadOrStore k' _ => if k' = k then [r] else []
       | _ => []) ++ losResults k H := by
  cases op <;> simp [losResults]
  case loadOrStore k' v => split <;> simp

theorem one_winner_aux (k : Nat) : ∀ (sched : List Nat) (d : MState) (ths : Nat → TSt Call L), IdleKeeps k ths →
    (∀ w, mget k d.data = some w → AllLoaded w (losResults k (history impl d ths sched))) ∧
    (mget k d.data = none → losResults k (history impl d ths sched) = [] ∨
      ∃ w rest, losResults k (history impl d ths sched) = Res.stored w false :: rest ∧ AllLoaded w rest) := by
  intro sched
  induction sched with
  | nil => intro d ths _; exact ⟨fun w _ r hr => by simp [history, losResults] at hr, fun _ => Or.inl rfl⟩
  | cons t ts ih =>
    intro d ths hI
    obtain ⟨prog, hth, hk⟩ := hI t
    cases prog with
    | nil =>
      have e : history impl d ths (t :: ts) = history impl d ths ts := by simp [history, sched1, hth]
      rw [e]; exact ih d ths hI
    | cons c rest =>
      obtain ⟨d', r, hs, hprop⟩ := sched1_keeps k d ths t c rest hth (hk c (by simp))
      have hI' := IdleKeeps_upd hI t rest (fun c' hc' => hk c' (by simp [hc']))
      have e : history impl d ths (t :: ts) = .call t c.op :: .ret t r :: history impl d' (upd ths t (.idle rest)) ts := by
        simp [history, hs]
      rw [e, losResults_pair]
      obtain ⟨iha, ihb⟩ := ih d' (upd ths t (.idle rest)) hI'
      cases hop : c.op
      case loadOrStore k' v =>
        rw [hop] at hprop
        simp only at hprop
        by_cases hkk : k' = k
        · simp only [hkk, if_true] at hprop ⊢
          constructor
          · intro w hw
            rw [hw] at hprop
            intro x hx
            simp only [List.singleton_append, List.mem_cons] at hx
            rcases hx with hx | hx
            · rw [hx]; exact hprop.1
            · exact iha w hprop.2 x hx
          · intro hn
            rw [hn] at hprop
            right
            exact ⟨v, _, by rw [hprop.1]; rfl, iha v hprop.2⟩
        · simp only [hkk, if_false] at hprop ⊢
          simp only [List.nil_append]
          exact ⟨fun w hw => iha w (hprop ▸ hw), fun hn => ihb (hprop ▸ hn)⟩
      all_goals
        rw [hop] at hprop
        simp only at hprop
        simp only [List.nil_append]
        exact ⟨fun w hw => iha w (hprop ▸ hw), fun hn => ihb (hprop ▸ hn)⟩

theorem mget_of_mem {k : Nat} {v : Val} {m : Entries} (hnd : NoDupKeys m) (h : (k, v) ∈ m) : mget k m = some v := by
  induction m with
  | nil => cases h
  | cons e t ih =>
    obtain ⟨a, b⟩ := e
    have hnd' : a ∉ keys t ∧ NoDupKeys t := by
      simpa [NoDupKeys, keys] using hnd
    simp only [List.mem_cons, Prod.mk.injEq] at h
    rcases h with ⟨rfl, rfl⟩ | h
    · simp [mget]
    · have hk : k ∈ keys t := by
        simp only [keys, List.mem_map]; exact ⟨(k, v), h, rfl⟩
      have : ¬ a = k := fun hh => hnd'.1 (hh ▸ hk)
      simp only [mget, this, if_false]
      exact ih hnd'.2 h

end CoapVerif.Lemmas.SyncMap
