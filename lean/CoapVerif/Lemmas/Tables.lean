import CoapVerif.Model.Tables
/-! Invariants of the table models (`Model/Tables.lean`), used by `Props/C13.lean`. -/
namespace CoapVerif.Lemmas.Tables
open CoapVerif.Model.Tables

/-- bracketed entries belong to exchanges that have not returned; live registrations to calls that did not fail and
    were not cancelled; failed exchanges have returned -/
structure InvT (s : TState) : Prop where
  br : ∀ e ∈ s.entries, isBracket (siteCls e.site) = true → e.owner ∉ s.ended
  lv : ∀ e ∈ s.entries, isLive (siteCls e.site) = true → e.owner ∉ s.failed ∧ e.owner ∉ s.cancelled
  fe : ∀ o ∈ s.failed, o ∈ s.ended

theorem invT_init : InvT {} := by
  constructor
  · intro e he; simp at he
  · intro e he; simp at he
  · intro o ho; simp at ho

theorem invT_step (s : TState) (ev : TEvent) (inv : InvT s)
    (hok : ∀ site key owner d, ev = .insert site key owner d → owner ∉ s.ended ∧ owner ∉ s.cancelled) :
    InvT (tstep s ev) := by
  cases ev with
  | insert site key owner deadline =>
    rw [tstep]
    obtain ⟨hne, hnc⟩ := hok site key owner deadline rfl
    · split
      · exact inv
      · constructor
        · intro e he hb
          rcases List.mem_cons.mp he with h | h
          · subst h; exact hne
          · exact inv.br e h hb
        · intro e he hl
          rcases List.mem_cons.mp he with h | h
          · subst h; exact ⟨fun hf => hne (inv.fe _ hf), hnc⟩
          · exact inv.lv e h hl
        · exact inv.fe
  | consume site key =>
    rw [tstep]
    constructor
    · intro e he hb; exact inv.br e (List.mem_filter.mp he).1 hb
    · intro e he hl; exact inv.lv e (List.mem_filter.mp he).1 hl
    · exact inv.fe
  | finish owner ok =>
    rw [tstep]
    constructor
    · intro e he hb
      have hm := List.mem_filter.mp he
      have h0 := inv.br e hm.1 hb
      intro hin
      rcases List.mem_cons.mp hin with h | h
      · have := hm.2
        simp [h, hb] at this
      · exact h0 h
    · intro e he hl
      have hm := List.mem_filter.mp he
      have h0 := inv.lv e hm.1 hl
      refine ⟨?_, h0.2⟩
      cases ok with
      | true => simpa using h0.1
      | false =>
        intro hin
        rcases List.mem_cons.mp hin with h | h
        · have := hm.2
          simp [h, hl] at this
        · exact h0.1 h
    · intro o ho
      cases ok with
      | true => exact List.mem_cons_of_mem _ (inv.fe o (by simpa using ho))
      | false =>
        rcases List.mem_cons.mp (by simpa using ho) with h | h
        · subst h; exact List.mem_cons_self
        · exact List.mem_cons_of_mem _ (inv.fe o h)
  | cancelLive owner =>
    rw [tstep]
    constructor
    · intro e he hb; exact inv.br e (List.mem_filter.mp he).1 hb
    · intro e he hl
      have hm := List.mem_filter.mp he
      have h0 := inv.lv e hm.1 hl
      refine ⟨h0.1, ?_⟩
      intro hin
      rcases List.mem_cons.mp hin with h | h
      · have := hm.2
        simp [h, hl] at this
      · exact h0.2 h
    · exact inv.fe
  | tick now =>
    rw [tstep]
    constructor
    · intro e he hb; exact inv.br e (List.mem_filter.mp he).1 hb
    · intro e he hl; exact inv.lv e (List.mem_filter.mp he).1 hl
    · exact inv.fe

theorem invT_fold : ∀ (evs : List TEvent) (s : TState), InvT s → WellTimed s evs → InvT (evs.foldl tstep s)
  | [], s, hs, _ => hs
  | e :: es, s, hs, hw => by
    refine invT_fold es (tstep s e) (invT_step s e hs ?_) hw.2
    intro site key owner d he
    subst he
    exact hw.1

theorem invT_run (evs : List TEvent) (hw : WellTimed {} evs) : InvT (trun evs) :=
  invT_fold evs {} invT_init hw

theorem wellTimed_append : ∀ (evs : List TEvent) (s : TState) (e : TEvent), WellTimed s evs →
    (∀ site key owner d, e = .insert site key owner d → False) → WellTimed s (evs ++ [e])
  | [], s, e, _, hne => by
    refine ⟨?_, trivial⟩
    cases e with
    | insert a b c d => exact (hne a b c d rfl).elim
    | _ => trivial
  | x :: xs, s, e, hw, hne => ⟨hw.1, wellTimed_append xs (tstep s x) e hw.2 hne⟩

theorem trun_append (evs : List TEvent) (e : TEvent) : trun (evs ++ [e]) = tstep (trun evs) e := by
  simp [trun, List.foldl_append]

/-! ### lock map -/

/-- the map holds exactly the keys with a positive count, with that count -/
def LRep (m : LockMap) (c : Nat → Nat) : Prop := ∀ k, m k = if c k = 0 then none else some (c k)

theorem lstep_rep (m : LockMap) (c : Nat → Nat) (e : LEvent) (rep : LRep m c)
    (hv : ∀ k, e = .unlock k → c k > 0) : ∃ m', lstep m e = some m' ∧ LRep m' (hstep c e) := by
  cases e with
  | lock k =>
    refine ⟨_, rfl, ?_⟩
    intro i
    by_cases hi : i = k
    · subst hi
      have := rep i
      by_cases h0 : c i = 0
      · simp [hstep, h0] at this ⊢; rw [this]; rfl
      · simp [hstep, h0] at this ⊢; rw [this]; rfl
    · simp [hstep, hi]; exact rep i
  | unlock k =>
    have hk := hv k rfl
    have hm : m k = some (c k) := by
      have := rep k; simp [Nat.ne_of_gt hk] at this; exact this
    refine ⟨fun i => if i = k then (if c k - 1 < 1 then none else some (c k - 1)) else m i, by simp only [lstep, hm], ?_⟩
    intro i
    by_cases hi : i = k
    · subst hi
      simp only [hstep, if_true]
      by_cases h1 : c i - 1 = 0
      · have : c i - 1 < 1 := by omega
        simp [this, h1]
      · have : ¬ (c i - 1 < 1) := by omega
        simp [this, h1]
    · simp [hstep, hi]; exact rep i

theorem lrun_rep (es : List LEvent) : ∀ (m : LockMap) (c : Nat → Nat), LRep m c → LValid c es →
    ∃ m', lrun m es = some m' ∧ LRep m' (hrun c es) := by
  induction es with
  | nil => intro m c rep _; exact ⟨m, rfl, rep⟩
  | cons e es ih =>
    intro m c rep hv
    cases e with
    | lock k =>
      obtain ⟨m1, h1, r1⟩ := lstep_rep m c (.lock k) rep (by intro k' h; cases h)
      obtain ⟨m2, h2, r2⟩ := ih m1 _ r1 hv
      exact ⟨m2, by simp [lrun, h1, h2], by simpa [hrun] using r2⟩
    | unlock k =>
      obtain ⟨m1, h1, r1⟩ := lstep_rep m c (.unlock k) rep (by intro k' h; cases h; exact hv.1)
      obtain ⟨m2, h2, r2⟩ := ih m1 _ r1 hv.2
      exact ⟨m2, by simp [lrun, h1, h2], by simpa [hrun] using r2⟩

/-! ### limiter endpoint entries -/

/-- an endpoint entry exists exactly while some request holds or waits for a slot of it; its counter is positive and
    counter + waiters is the number of such requests -/
def QRep (q : Queues) (c : Nat → Nat) : Prop :=
  ∀ k, (c k = 0 → q k = none) ∧ (c k > 0 → ∃ cc w, q k = some (cc, w) ∧ cc + w = c k ∧ cc ≥ 1)

/-- validity of an event: a release needs a holder, a withdrawing waiter must be queued -/
def QValidEv (q : Queues) : QEvent → Prop
  | .acquire _ => True
  | .release k => q k ≠ none
  | .cancelWaiter k => ∃ cc w, q k = some (cc, w) ∧ w > 0

theorem qstep_rep (limit : Nat) (q : Queues) (c : Nat → Nat) (e : QEvent) (rep : QRep q c) (hv : QValidEv q e) :
    QRep (qstep limit q e) (ostep c e) := by
  cases e with
  | acquire k =>
    intro i
    by_cases hi : i = k
    · subst hi
      constructor
      · intro h; simp [ostep] at h
      · intro _
        by_cases h0 : c i = 0
        · have := (rep i).1 h0
          refine ⟨1, 0, ?_, ?_, ?_⟩ <;> simp [qstep, this, ostep, h0]
        · obtain ⟨cc, w, h1, h2, h3⟩ := (rep i).2 (by omega)
          by_cases hl : cc < limit
          · refine ⟨cc + 1, w, by simp [qstep, h1, hl], by simp [ostep]; omega, by omega⟩
          · refine ⟨cc, w + 1, by simp [qstep, h1, hl], by simp [ostep]; omega, h3⟩
    · have := rep i
      cases hq : q k with
      | none => simpa [qstep, hq, ostep, hi] using this
      | some p => obtain ⟨a, b⟩ := p; simpa [qstep, hq, ostep, hi] using this
  | release k =>
    have hne : q k ≠ none := hv
    have hpos : c k > 0 := by
      cases Nat.eq_zero_or_pos (c k) with
      | inl h => exact absurd ((rep k).1 h) hne
      | inr h => exact h
    obtain ⟨cc, w, h1, h2, h3⟩ := (rep k).2 hpos
    intro i
    by_cases hi : i = k
    · subst hi
      by_cases hw : w > 0
      · constructor
        · intro h; simp [ostep] at h; omega
        · intro _; exact ⟨cc, w - 1, by simp [qstep, h1, hw], by simp [ostep]; omega, h3⟩
      · have hw0 : w = 0 := by omega
        by_cases hc1 : cc - 1 = 0
        · constructor
          · intro _; simp [qstep, h1, hw, hc1]
          · intro h; simp [ostep] at h; omega
        · constructor
          · intro h; simp [ostep] at h; omega
          · intro _; exact ⟨cc - 1, w, by simp [qstep, h1, hw, hc1], by simp [ostep]; omega, by omega⟩
    · have := rep i
      simpa [qstep, h1, ostep, hi] using this
  | cancelWaiter k =>
    obtain ⟨cc, w, h1, hw⟩ := hv
    have hpos : c k > 0 := by
      cases Nat.eq_zero_or_pos (c k) with
      | inl h => have := (rep k).1 h; rw [h1] at this; cases this
      | inr h => exact h
    obtain ⟨cc', w', g1, g2, g3⟩ := (rep k).2 hpos
    rw [h1] at g1; cases g1
    intro i
    by_cases hi : i = k
    · subst hi
      constructor
      · intro h; simp [ostep] at h; omega
      · intro _; exact ⟨cc, w - 1, by simp [qstep, h1], by simp [ostep]; omega, g3⟩
    · have := rep i
      simpa [qstep, h1, ostep, hi] using this

end CoapVerif.Lemmas.Tables
