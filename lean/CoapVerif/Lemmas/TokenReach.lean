import CoapVerif.Lemmas.TokenTable
/-!
Trace-level invariants of the token-table system for C03 (used by `Props/C03.lean`):

* `InvR` — under the hypothesis that every request is issued with a token whose key differs from the keys of the
  requests issued before on the connection (`FreshKeys`: the property's "requests with distinct tokens", plus the
  hash separating them), an outstanding unanswered caller **is** registered under the key of its token (the converse
  of `InvTM.tbl`), and an answered or returned caller is not;
* `InvMsg` — everything queued or held satisfies a predicate that every arrival of the trace satisfies: used for
  "what a caller holds was an arrival of the trace, with that token and that content".
-/
namespace CoapVerif.Lemmas.TokenReach
open CoapVerif.Model.TokenTable CoapVerif.Lemmas.TokenTable

/-- distinct callers have distinct keys -/
def KeysDistinct (h : Token → Nat) (s : State) : Prop :=
  ∀ c c' cl cl', s.callers c = some cl → s.callers c' = some cl' → c ≠ c' → h cl.tok ≠ h cl'.tok

/-- **Requests with distinct tokens** (and a key function that separates them): along the history `evs` continued from `s`,
    every request is issued with a token whose key differs from the key of every request issued before. -/
def FreshKeys (h : Token → Nat) (cfg : Cfg) : State → List Event → Prop
  | _, [] => True
  | s, e :: es =>
    (match e with
     | .doStart _ tok _ _ => ∀ c' cl', s.callers c' = some cl' → h cl'.tok ≠ h tok
     | _ => True) ∧ FreshKeys h cfg (step h cfg s e) es

structure InvR (h : Token → Nat) (cfg : Cfg) (s : State) : Prop where
  kd : KeysDistinct h s
  reg : ∀ c cl, s.callers c = some cl → cl.pc ≠ .returned → cl.slot = none → s.table (h cl.tok) = some c
  gone : deliverDeletes cfg = true → ∀ c cl, s.callers c = some cl → (cl.slot ≠ none ∨ cl.pc = .returned) →
    s.table (h cl.tok) = none

theorem invR_init (h : Token → Nat) (cfg : Cfg) : InvR h cfg init := by
  constructor
  · intro c c' cl cl' h1; simp [init] at h1
  · intro c cl h1; simp [init] at h1
  · intro _ c cl h1; simp [init] at h1

theorem kd_of_tokPres (h : Token → Nat) (s s' : State) (tp : TokPres s s') (kd : KeysDistinct h s) : KeysDistinct h s' := by
  intro c c' cl cl' h1 h2 hne
  obtain ⟨a, a1, a2⟩ := tp c cl h1
  obtain ⟨b, b1, b2⟩ := tp c' cl' h2
  rw [← a2, ← b2]; exact kd c c' a b a1 b1 hne

/-- a step that leaves the table alone and changes callers only in `pc` (never to or from `returned`) -/
theorem invR_soft (h : Token → Nat) (cfg : Cfg) (s s' : State) (ht : s'.table = s.table)
    (hc : ∀ i, s'.callers i = s.callers i ∨
      ∃ cl cl', s.callers i = some cl ∧ s'.callers i = some cl' ∧ cl'.tok = cl.tok ∧ cl'.slot = cl.slot ∧
        cl.pc ≠ .returned ∧ cl'.pc ≠ .returned)
    (inv : InvR h cfg s) : InvR h cfg s' := by
  have tp : TokPres s s' := by
    intro i cl' hi
    rcases hc i with e | ⟨cl, cl2, e1, e2, e3, _⟩
    · rw [e] at hi; exact ⟨cl', hi, rfl⟩
    · rw [e2] at hi; cases hi; exact ⟨cl, e1, e3.symm⟩
  constructor
  · exact kd_of_tokPres h s s' tp inv.kd
  · intro c cl' h1 hp hs
    rw [ht]
    rcases hc c with e | ⟨cl, cl2, e1, e2, e3, e4, e5, _⟩
    · rw [e] at h1; exact inv.reg c cl' h1 hp hs
    · rw [e2] at h1; cases h1
      rw [e3]; exact inv.reg c cl e1 e5 (by rw [← e4]; exact hs)
  · intro hd c cl' h1 hor
    rw [ht]
    rcases hc c with e | ⟨cl, cl2, e1, e2, e3, e4, _, e6⟩
    · rw [e] at h1; exact inv.gone hd c cl' h1 hor
    · rw [e2] at h1; cases h1
      rw [e3]
      refine inv.gone hd c cl e1 ?_
      rcases hor with g | g
      · left; rw [← e4]; exact g
      · exact absurd g e6

theorem wakeMid_invR (h : Token → Nat) (cfg : Cfg) (s : State) (mid : Nat) (inv : InvR h cfg s) : InvR h cfg (wakeMid s mid) := by
  apply invR_soft h cfg s _ (wakeMid_table s mid) _ inv
  intro i
  rcases wakeMid_callers s mid i with e | ⟨cl, e1, e2, e3⟩
  · exact Or.inl e
  · exact Or.inr ⟨cl, _, e1, e3, rfl, rfl, (by rw [e2]; intro x; cases x), (by intro x; cases x)⟩

theorem wakeCaller_invR (h : Token → Nat) (cfg : Cfg) (s : State) (c : Nat) (inv : InvR h cfg s) : InvR h cfg (wakeCaller s c) := by
  apply invR_soft h cfg s _ (wakeCaller_table s c) _ inv
  intro i
  rcases wakeCaller_callers s c i with e | ⟨cl, e1, e2, e3⟩
  · exact Or.inl e
  · exact Or.inr ⟨cl, _, e1, e3, rfl, rfl, (by rw [e2]; intro x; cases x), (by intro x; cases x)⟩

theorem invR_congr (h : Token → Nat) (cfg : Cfg) (s s' : State) (hc : s'.callers = s.callers) (ht : s'.table = s.table)
    (inv : InvR h cfg s) : InvR h cfg s' :=
  invR_soft h cfg s s' ht (fun i => Or.inl (by rw [hc])) inv

/-- the caller leaves (returns its response, is cancelled, sees the connection close): its own key is erased — and,
    keys being distinct, nobody else's -/
theorem invR_leaving (h : Token → Nat) (cfg : Cfg) (s s' : State) (c0 : Nat) (cl0 cl0' : Caller)
    (h0 : s.callers c0 = some cl0) (hc : s'.callers = upd s.callers c0 (some cl0')) (htok : cl0'.tok = cl0.tok)
    (hret : cl0'.pc = .returned) (ht : s'.table = upd s.table (h cl0.tok) none) (inv : InvR h cfg s) : InvR h cfg s' := by
  have tp : TokPres s s' := by
    intro i cl' hi
    rw [hc] at hi
    by_cases e : i = c0
    · subst e; simp [upd] at hi; subst hi; exact ⟨cl0, h0, htok.symm⟩
    · simp [upd, e] at hi; exact ⟨cl', hi, rfl⟩
  constructor
  · exact kd_of_tokPres h s s' tp inv.kd
  · intro c cl h1 hp hs
    rw [hc] at h1
    by_cases e : c = c0
    · subst e; simp [upd] at h1; subst h1; exact absurd hret hp
    · simp [upd, e] at h1
      rw [ht]
      have hk : h cl.tok ≠ h cl0.tok := inv.kd c c0 cl cl0 h1 h0 e
      simp [upd, hk]; exact inv.reg c cl h1 hp hs
  · intro hd c cl h1 hor
    rw [hc] at h1; rw [ht]
    by_cases e : c = c0
    · subst e; simp [upd] at h1; subst h1; rw [htok]; simp [upd]
    · simp [upd, e] at h1
      have hk : h cl.tok ≠ h cl0.tok := inv.kd c c0 cl cl0 h1 h0 e
      simp [upd, hk]; exact inv.gone hd c cl h1 hor

theorem leave_invR (h : Token → Nat) (cfg : Cfg) (s : State) (c : Nat) (r : Res) (inv : InvR h cfg s) : InvR h cfg (leave h s c r) := by
  unfold leave
  split
  · rename_i cl hcl
    split
    · exact inv
    · exact invR_leaving h cfg s _ c cl { cl with pc := .returned, res := some r } hcl rfl rfl rfl rfl inv
  · exact inv

theorem finish_invR (h : Token → Nat) (cfg : Cfg) (s : State) (c : Nat) (inv : InvR h cfg s) : InvR h cfg (finish h s c) := by
  unfold finish
  split
  · rename_i cl hcl
    split
    · split
      · rename_i m _
        exact invR_leaving h cfg s _ c cl { cl with pc := .returned, slot := none, res := some (.ok m) } hcl rfl rfl rfl rfl inv
      · exact inv
    · exact inv
  · exact inv

theorem deliver_invR (h : Token → Nat) (cfg : Cfg) (s : State) (m : Msg) (itm : InvTM h s) (inv : InvR h cfg s) :
    InvR h cfg (deliver h cfg s m) := by
  unfold deliver
  split
  · rename_i c0 hc0
    obtain ⟨cl0, h0, hk0, _⟩ := itm.tbl _ c0 hc0
    -- after the hand-over
    have core : InvR h cfg (handover { s with table := if deliverDeletes cfg = true then upd s.table (h m.tok) none else s.table } c0 m) := by
      have tp : TokPres s (handover { s with table := if deliverDeletes cfg = true then upd s.table (h m.tok) none else s.table } c0 m) := by
        intro i cl' hi
        exact handover_tokPres { s with table := if deliverDeletes cfg = true then upd s.table (h m.tok) none else s.table } c0 m i cl' hi
      constructor
      · exact kd_of_tokPres h s _ tp inv.kd
      · intro c cl h1 hp hs
        rw [handover_table]
        rcases handover_callers { s with table := if deliverDeletes cfg = true then upd s.table (h m.tok) none else s.table } c0 m c with e | ⟨e0, cl1, e1, _, e2⟩
        · rw [e] at h1
          have h1' : s.callers c = some cl := h1
          by_cases ec : c = c0
          · -- the target itself: its channel was full already (otherwise the other case applies), so nothing is claimed
            subst ec
            rw [h0] at h1'; cases h1'
            exfalso
            -- slot = none would have made handover change the caller
            have : (handover { s with table := if deliverDeletes cfg = true then upd s.table (h m.tok) none else s.table } c m).callers c
                = some { cl0 with slot := some m } := by
              unfold handover; dsimp only; rw [h0]; dsimp only; rw [hs]; simp [upd]
            rw [e, h0] at this
            have := Option.some.inj this
            rw [this] at hs; cases hs
          · have hk : h cl.tok ≠ h m.tok := by rw [← hk0]; exact inv.kd c c0 cl cl0 h1' h0 ec
            dsimp only
            split
            · simp [upd, hk]; exact inv.reg c cl h1' hp hs
            · exact inv.reg c cl h1' hp hs
        · subst e0; rw [e2] at h1; cases h1; cases hs
      · intro hd c cl h1 hor
        rw [handover_table]
        dsimp only
        rw [if_pos hd]
        rcases handover_callers { s with table := if deliverDeletes cfg = true then upd s.table (h m.tok) none else s.table } c0 m c with e | ⟨e0, cl1, e1, _, e2⟩
        · rw [e] at h1
          have h1' : s.callers c = some cl := h1
          by_cases ec : c = c0
          · subst ec; rw [h0] at h1'; cases h1'; rw [hk0]; simp [upd]
          · have hk : h cl.tok ≠ h m.tok := by rw [← hk0]; exact inv.kd c c0 cl cl0 h1' h0 ec
            simp [upd, hk]; exact inv.gone hd c cl h1' hor
        · subst e0; rw [e2] at h1; cases h1
          have e1' : s.callers c = some cl1 := e1
          rw [h0] at e1'; cases e1'
          show upd s.table (h m.tok) none (h cl0.tok) = none
          rw [hk0]; simp [upd]
    dsimp only
    split
    · exact wakeCaller_invR h cfg _ c0 core
    · exact core
  · exact invR_congr h cfg s _ rfl rfl inv

theorem tokPres_step (h : Token → Nat) (cfg : Cfg) (s : State) (ev : Event)
    (hnd : ∀ c tok con mid, ev ≠ .doStart c tok con mid) : TokPres s (step h cfg s ev) := by
  cases ev with
  | doStart c tok con mid => exact absurd rfl (hnd c tok con mid)
  | arrive kind tok mid tag =>
    rw [step]
    split
    · exact tokPres_refl s
    · unfold receive enqueue
      intro i cl' hi
      have hb : TokPres s (if cfg.udp = true then wakeMid (bump s) mid else bump s) := by
        split
        · intro j cj hj; exact wakeMid_tokPres (bump s) mid j cj hj
        · exact tokPres_refl s
      split at hi
      · exact hb i cl' hi
      · exact hb i cl' hi
  | process =>
    rw [step]
    split
    · exact tokPres_refl s
    · rename_i m q _
      split
      · exact tokPres_refl s
      · intro i cl' hi
        unfold remember at hi
        have hd := deliver_tokPres h cfg { s with queue := q } m
        split at hi
        · exact hd i cl' hi
        · exact hd i cl' hi
  | ret c => rw [step]; exact finish_tokPres h s c
  | cancel c => rw [step]; exact leave_tokPres h s c _
  | close => rw [step]; exact tokPres_refl s
  | retClosed c =>
    rw [step]
    split
    · exact leave_tokPres h s c _
    · exact tokPres_refl s

/-- **`InvR` is preserved by every event** whose request token (if it is a `doStart`) has a fresh key. -/
theorem invR_step (h : Token → Nat) (cfg : Cfg) (s : State) (ev : Event) (itm : InvTM h s) (inv : InvR h cfg s)
    (hfresh : ∀ c tok con mid, ev = .doStart c tok con mid → ∀ c' cl', s.callers c' = some cl' → h cl'.tok ≠ h tok) :
    InvR h cfg (step h cfg s ev) := by
  cases ev with
  | doStart c tok con mid =>
    have hf := hfresh c tok con mid rfl
    rw [step]
    split
    · exact inv
    · rename_i hnone
      have notab : s.table (h tok) = none := by
        cases ht : s.table (h tok) with
        | none => rfl
        | some c0 =>
          obtain ⟨cl0, g1, g2, _⟩ := itm.tbl _ c0 ht
          exact absurd g2 (hf c0 cl0 g1)
      have rj : ∀ r : Res, InvR h cfg (reject s c tok mid r) := by
        intro r
        constructor
        · intro a b cla clb h1 h2 hne
          simp only [reject, upd] at h1 h2
          split at h1
          · split at h2
            · rename_i e1 e2; exact absurd (e1.trans e2.symm) hne
            · cases h1; exact Ne.symm (hf b clb h2)
          · split at h2
            · cases h2; exact hf a cla h1
            · exact inv.kd a b cla clb h1 h2 hne
        · intro a cla h1 hp hs
          simp only [reject, upd] at h1
          split at h1
          · cases h1; exact absurd rfl hp
          · exact inv.reg a cla h1 hp hs
        · intro hd a cla h1 hor
          simp only [reject, upd] at h1
          split at h1
          · cases h1; exact notab
          · exact inv.gone hd a cla h1 hor
      split
      · exact rj _
      · split
        · exact rj _
        · split
          · exact rj _
          · split
            · exact rj _
            · -- registered
              constructor
              · intro a b cla clb h1 h2 hne
                simp only [register, upd] at h1 h2
                split at h1
                · split at h2
                  · rename_i e1 e2; exact absurd (e1.trans e2.symm) hne
                  · cases h1; exact Ne.symm (hf b clb h2)
                · split at h2
                  · cases h2; exact hf a cla h1
                  · exact inv.kd a b cla clb h1 h2 hne
              · intro a cla h1 hp hs
                simp only [register, upd] at h1 ⊢
                split at h1
                · rename_i e; cases h1; simp [e]
                · have hk : h cla.tok ≠ h tok := hf a cla h1
                  simp [hk]; exact inv.reg a cla h1 hp hs
              · intro hd a cla h1 hor
                simp only [register, upd] at h1 ⊢
                split at h1
                · cases h1
                  rcases hor with g | g
                  · exact absurd rfl g
                  · dsimp only at g; split at g <;> cases g
                · have hk : h cla.tok ≠ h tok := hf a cla h1
                  simp [hk]; exact inv.gone hd a cla h1 hor
  | arrive kind tok mid tag =>
    rw [step]
    split
    · exact inv
    · unfold receive enqueue
      have hb : InvR h cfg (if cfg.udp = true then wakeMid (bump s) mid else bump s) := by
        have b0 : InvR h cfg (bump s) := invR_congr h cfg s _ rfl rfl inv
        split
        · exact wakeMid_invR h cfg _ mid b0
        · exact b0
      split
      · exact hb
      · exact invR_congr h cfg (if cfg.udp = true then wakeMid (bump s) mid else bump s) _ rfl rfl hb
  | process =>
    rw [step]
    split
    · exact inv
    · rename_i m q _
      have b0 : InvR h cfg { s with queue := q } := invR_congr h cfg s _ rfl rfl inv
      have t0 : InvTM h { s with queue := q } := invTM_congr h s _ rfl rfl itm
      split
      · exact b0
      · unfold remember
        split
        · exact invR_congr h cfg (deliver h cfg { s with queue := q } m) _ rfl rfl (deliver_invR h cfg _ m t0 b0)
        · exact deliver_invR h cfg _ m t0 b0
  | ret c => rw [step]; exact finish_invR h cfg s c inv
  | cancel c => rw [step]; exact leave_invR h cfg s c _ inv
  | close => rw [step]; exact invR_congr h cfg s _ rfl rfl inv
  | retClosed c =>
    rw [step]
    split
    · exact leave_invR h cfg s c _ inv
    · exact inv

theorem invR_fold (h : Token → Nat) (cfg : Cfg) : ∀ (evs : List Event) (s : State), InvTM h s → InvR h cfg s →
    FreshKeys h cfg s evs → InvR h cfg (evs.foldl (step h cfg) s)
  | [], _, _, ir, _ => ir
  | e :: es, s, itm, ir, hf => by
    refine invR_fold h cfg es (step h cfg s e) (invTM_step h cfg s e itm) (invR_step h cfg s e itm ir ?_) hf.2
    intro c tok con mid he
    subst he
    exact hf.1

theorem invR_run (h : Token → Nat) (cfg : Cfg) (evs : List Event) (hf : FreshKeys h cfg init evs) : InvR h cfg (run h cfg evs) :=
  invR_fold h cfg evs init (invTM_init h) (invR_init h cfg) hf

/-! ### From the syntactic condition to `FreshKeys` -/

/-- the tokens of the requests of a history -/
def doTokens : List Event → List Token
  | [] => []
  | .doStart _ tok _ _ :: es => tok :: doTokens es
  | _ :: es => doTokens es

theorem freshKeys_of_nodup (h : Token → Nat) (cfg : Cfg) : ∀ (es : List Event) (s : State) (P : List Token),
    (∀ c cl, s.callers c = some cl → cl.tok ∈ P) → ((P ++ doTokens es).map h).Nodup → FreshKeys h cfg s es
  | [], _, _, _, _ => trivial
  | e :: es, s, P, hP, hnd => by
    cases e with
    | doStart c tok con mid =>
      have hnd' : (P.map h ++ h tok :: (doTokens es).map h).Nodup := by simpa [doTokens, List.map_append] using hnd
      refine ⟨?_, ?_⟩
      · intro c' cl' h1 heq
        have hin : h cl'.tok ∈ P.map h := List.mem_map_of_mem (hP c' cl' h1)
        have := (List.nodup_append.mp hnd').2.2 (h cl'.tok) hin (h tok) (by simp)
        exact this heq
      · apply freshKeys_of_nodup h cfg es _ (P ++ [tok])
        · intro c' cl' h1
          rw [step] at h1
          split at h1
          · exact List.mem_append_left _ (hP c' cl' h1)
          · have key : ∀ r, (reject s c tok mid r).callers c' = some cl' → cl'.tok ∈ P ++ [tok] := by
              intro r hr
              simp only [reject, upd] at hr
              split at hr
              · cases hr; simp
              · exact List.mem_append_left _ (hP c' cl' hr)
            split at h1
            · exact key _ h1
            · split at h1
              · exact key _ h1
              · split at h1
                · exact key _ h1
                · split at h1
                  · exact key _ h1
                  · simp only [register, upd] at h1
                    split at h1
                    · cases h1; simp
                    · exact List.mem_append_left _ (hP c' cl' h1)
        · simpa [doTokens, List.map_append, List.append_assoc] using hnd
    | arrive kind tok mid tag =>
      refine ⟨trivial, freshKeys_of_nodup h cfg es _ P ?_ (by simpa [doTokens] using hnd)⟩
      intro c' cl' h1
      obtain ⟨cl, g1, g2⟩ := tokPres_step h cfg s (.arrive kind tok mid tag) (by intro a b c d e; cases e) c' cl' h1
      rw [← g2]; exact hP c' cl g1
    | process =>
      refine ⟨trivial, freshKeys_of_nodup h cfg es _ P ?_ (by simpa [doTokens] using hnd)⟩
      intro c' cl' h1
      obtain ⟨cl, g1, g2⟩ := tokPres_step h cfg s .process (by intro a b c d e; cases e) c' cl' h1
      rw [← g2]; exact hP c' cl g1
    | ret c =>
      refine ⟨trivial, freshKeys_of_nodup h cfg es _ P ?_ (by simpa [doTokens] using hnd)⟩
      intro c' cl' h1
      obtain ⟨cl, g1, g2⟩ := tokPres_step h cfg s (.ret c) (by intro a b c d e; cases e) c' cl' h1
      rw [← g2]; exact hP c' cl g1
    | cancel c =>
      refine ⟨trivial, freshKeys_of_nodup h cfg es _ P ?_ (by simpa [doTokens] using hnd)⟩
      intro c' cl' h1
      obtain ⟨cl, g1, g2⟩ := tokPres_step h cfg s (.cancel c) (by intro a b c d e; cases e) c' cl' h1
      rw [← g2]; exact hP c' cl g1
    | close =>
      refine ⟨trivial, freshKeys_of_nodup h cfg es _ P ?_ (by simpa [doTokens] using hnd)⟩
      intro c' cl' h1
      obtain ⟨cl, g1, g2⟩ := tokPres_step h cfg s .close (by intro a b c d e; cases e) c' cl' h1
      rw [← g2]; exact hP c' cl g1
    | retClosed c =>
      refine ⟨trivial, freshKeys_of_nodup h cfg es _ P ?_ (by simpa [doTokens] using hnd)⟩
      intro c' cl' h1
      obtain ⟨cl, g1, g2⟩ := tokPres_step h cfg s (.retClosed c) (by intro a b c d e; cases e) c' cl' h1
      rw [← g2]; exact hP c' cl g1

/-- distinct tokens that the key function separates have distinct keys -/
theorem nodup_map_of_inj (h : Token → Nat) : ∀ (l : List Token), l.Nodup →
    (∀ a ∈ l, ∀ b ∈ l, h a = h b → a = b) → (l.map h).Nodup
  | [], _, _ => by simp
  | a :: l, hnd, hinj => by
    have hn := List.nodup_cons.mp hnd
    simp only [List.map_cons, List.nodup_cons]
    refine ⟨?_, nodup_map_of_inj h l hn.2 (fun x hx y hy => hinj x (List.mem_cons_of_mem _ hx) y (List.mem_cons_of_mem _ hy))⟩
    intro hin
    obtain ⟨b, hb, hab⟩ := List.mem_map.mp hin
    have : a = b := hinj a List.mem_cons_self b (List.mem_cons_of_mem _ hb) hab.symm
    subst this; exact hn.1 hb

/-! ### Provenance: what is queued or held came from the wire -/

/-- every queued and every held message satisfies `P` -/
structure InvMsg (P : Msg → Prop) (s : State) : Prop where
  q : ∀ m ∈ s.queue, P m
  hd : ∀ c m, Holds s c m → P m

theorem invMsg_of (P : Msg → Prop) (s s' : State) (hq : ∀ m ∈ s'.queue, m ∈ s.queue)
    (hh : ∀ c m, Holds s' c m → Holds s c m ∨ m ∈ s.queue) (inv : InvMsg P s) : InvMsg P s' := by
  constructor
  · intro m hm; exact inv.q m (hq m hm)
  · intro c m h1
    rcases hh c m h1 with g | g
    · exact inv.hd c m g
    · exact inv.q m g

theorem invMsg_step (h : Token → Nat) (cfg : Cfg) (P : Msg → Prop) (s : State) (ev : Event)
    (hev : ∀ kind tok mid tag, ev = .arrive kind tok mid tag → P ⟨kind, tok, mid, tag, s.nextSeq⟩)
    (inv : InvMsg P s) : InvMsg P (step h cfg s ev) := by
  cases ev with
  | doStart c tok con mid =>
    rw [step]
    split
    · exact inv
    · rename_i hnone
      have rj : ∀ r : Res, (∀ m, r ≠ .ok m) → InvMsg P (reject s c tok mid r) := fun r hr =>
        invMsg_of P s _ (fun m hm => hm) (fun c' m hh => Or.inl (reject_holds s c tok mid r hr hnone c' m hh)) inv
      split
      · exact rj _ (by intro m; simp)
      · split
        · exact rj _ (by intro m; simp)
        · split
          · exact rj _ (by intro m; simp)
          · split
            · exact rj _ (by intro m; simp)
            · exact invMsg_of P s _ (fun m hm => hm) (fun c' m hh => Or.inl (register_holds h cfg s c tok con mid c' m hh)) inv
  | arrive kind tok mid tag =>
    have hp := hev kind tok mid tag rfl
    rw [step]
    split
    · exact inv
    · unfold receive
      have hw : InvMsg P (if cfg.udp = true then wakeMid (bump s) mid else bump s) := by
        have hb : InvMsg P (bump s) := invMsg_of P s _ (fun m hm => hm) (fun c m hh => Or.inl hh) inv
        split
        · refine invMsg_of P (bump s) _ ?_ ?_ hb
          · intro m hm; rw [wakeMid_queue] at hm; exact hm
          · intro c m hh; exact Or.inl ((wakeMid_holds _ mid c m).1 hh)
        · exact hb
      generalize (if cfg.udp = true then wakeMid (bump s) mid else bump s) = s1 at hw
      unfold enqueue
      split
      · exact hw
      · constructor
        · intro m hm
          have hm' : m ∈ s1.queue ++ [(⟨kind, tok, mid, tag, s.nextSeq⟩ : Msg)] := hm
          rcases List.mem_append.mp hm' with g | g
          · exact hw.q m g
          · simp at g; subst g; exact hp
        · intro c m h1
          have h1' : Holds s1 c m := h1
          exact hw.hd c m h1'
  | process =>
    rw [step]
    split
    · exact inv
    · rename_i m q hq
      have hmem : ∀ x ∈ q, x ∈ s.queue := fun x hx => by rw [hq]; exact List.mem_cons_of_mem _ hx
      have base : InvMsg P { s with queue := q } := invMsg_of P s _ hmem (fun c m hh => Or.inl hh) inv
      split
      · exact base
      · have hd : InvMsg P (deliver h cfg { s with queue := q } m) := by
          obtain ⟨tgt, hh⟩ := deliver_holds h cfg { s with queue := q } m
          constructor
          · intro x hx; rw [deliver_queue] at hx; exact inv.q x (hmem x hx)
          · intro c m' h1
            rcases hh c m' h1 with g | ⟨g, _⟩
            · exact inv.hd c m' g
            · subst g; exact inv.q _ (by rw [hq]; exact List.mem_cons_self)
        unfold remember
        split
        · exact invMsg_of P (deliver h cfg { s with queue := q } m) _ (fun m hm => hm) (fun c m hh => Or.inl hh) hd
        · exact hd
  | ret c =>
    rw [step]
    refine invMsg_of P s _ ?_ (fun c' m hh => Or.inl (finish_holds h s c c' m hh)) inv
    intro m hm; rw [finish_queue] at hm; exact hm
  | cancel c =>
    rw [step]
    refine invMsg_of P s _ ?_ (fun c' m hh => Or.inl (leave_holds h s c .ctx (by intro m; simp) c' m hh)) inv
    intro m hm; rw [leave_queue] at hm; exact hm
  | close => rw [step]; exact invMsg_of P s _ (fun m hm => hm) (fun c m hh => Or.inl hh) inv
  | retClosed c =>
    rw [step]
    split
    · refine invMsg_of P s _ ?_ (fun c' m hh => Or.inl (leave_holds h s c .closed (by intro m; simp) c' m hh)) inv
      intro m hm; rw [leave_queue] at hm; exact hm
    · exact inv

/-- the arrival event a message stems from -/
def arrivalOf (m : Msg) : Event := .arrive m.kind m.tok m.mid m.tag

theorem invMsg_run (h : Token → Nat) (cfg : Cfg) (evs : List Event) :
    InvMsg (fun m => arrivalOf m ∈ evs) (run h cfg evs) := by
  unfold run
  suffices ∀ (es : List Event) (s : State), (∀ e ∈ es, e ∈ evs) → InvMsg (fun m => arrivalOf m ∈ evs) s →
      InvMsg (fun m => arrivalOf m ∈ evs) (es.foldl (step h cfg) s) by
    apply this evs init (fun e he => he)
    constructor
    · intro m hm; simp [init] at hm
    · intro c m ⟨cl, h1, _⟩; simp [init] at h1
  intro es
  induction es with
  | nil => intro s _ hs; exact hs
  | cons e es ih =>
    intro s hall hs
    apply ih
    · intro e' he'; exact hall e' (List.mem_cons_of_mem _ he')
    · apply invMsg_step h cfg _ s e _ hs
      intro kind tok mid tag he
      subst he
      exact hall _ List.mem_cons_self

/-- delivery to the caller registered under the message's key, whose channel is empty, hands the message over -/
theorem deliver_reaches (h : Token → Nat) (cfg : Cfg) (s : State) (m : Msg) (c : Nat) (cl : Caller)
    (ht : s.table (h m.tok) = some c) (hc : s.callers c = some cl) (hs : cl.slot = none) :
    Holds (deliver h cfg s m) c m := by
  have hho : Holds (handover { s with table := if deliverDeletes cfg = true then upd s.table (h m.tok) none else s.table } c m) c m := by
    refine ⟨{ cl with slot := some m }, ?_, Or.inl rfl⟩
    unfold handover; dsimp only; rw [hc]; dsimp only; rw [hs]; simp [upd]
  unfold deliver; rw [ht]; dsimp only
  split
  · exact (wakeCaller_holds _ c c m).2 hho
  · exact hho

theorem remember_holds (cfg : Cfg) (s : State) (m0 : Msg) (c : Nat) (m : Msg) : Holds (remember cfg s m0) c m ↔ Holds s c m := by
  unfold remember; split <;> exact Iff.rfl

/-! ### The message-ID layer in front of the token table: what was processed once is recognised for ever

(`cache` never shrinks in this model: every history is shorter than EXCHANGE_LIFETIME; expiry of the response cache is C05's.) -/

theorem handover_cache (s : State) (c : Nat) (m : Msg) : (handover s c m).cache = s.cache := by
  unfold handover; repeat (first | rfl | split)

theorem wakeMid_cache (s : State) (mid : Nat) : (wakeMid s mid).cache = s.cache := by
  unfold wakeMid; repeat (first | rfl | split | dsimp only)

theorem wakeCaller_cache (s : State) (c : Nat) : (wakeCaller s c).cache = s.cache := by
  unfold wakeCaller; repeat (first | rfl | split | dsimp only)

theorem leave_cache (h : Token → Nat) (s : State) (c : Nat) (r : Res) : (leave h s c r).cache = s.cache := by
  unfold leave; repeat (first | rfl | split)

theorem finish_cache (h : Token → Nat) (s : State) (c : Nat) : (finish h s c).cache = s.cache := by
  unfold finish; repeat (first | rfl | split)

theorem deliver_cache (h : Token → Nat) (cfg : Cfg) (s : State) (m : Msg) : (deliver h cfg s m).cache = s.cache := by
  unfold deliver; split
  · dsimp only; split
    · rw [wakeCaller_cache, handover_cache]
    · rw [handover_cache]
  · rfl

theorem receive_cache (cfg : Cfg) (s : State) (kind : Kind) (tok : Token) (mid : Nat) (tag : String) :
    (receive cfg s kind tok mid tag).cache = s.cache := by
  unfold receive enqueue bump; split <;> split <;> first | rfl | (rw [wakeMid_cache]) | (dsimp only; rw [wakeMid_cache])

theorem remember_cache_mono (cfg : Cfg) (s : State) (m : Msg) (x : Nat) (hx : x ∈ s.cache) : x ∈ (remember cfg s m).cache := by
  unfold remember; split
  · exact List.mem_cons_of_mem _ hx
  · exact hx

/-- no event removes a message ID from the cache -/
theorem cache_mono_step (h : Token → Nat) (cfg : Cfg) (s : State) (ev : Event) (x : Nat) (hx : x ∈ s.cache) :
    x ∈ (step h cfg s ev).cache := by
  cases ev with
  | doStart c tok con mid =>
    rw [step]; split
    · exact hx
    · repeat (first | exact hx | split)
  | arrive kind tok mid tag =>
    rw [step]; split
    · exact hx
    · rw [receive_cache]; exact hx
  | process =>
    rw [step]; split
    · exact hx
    · split
      · exact hx
      · apply remember_cache_mono; rw [deliver_cache]; exact hx
  | ret c => rw [step, finish_cache]; exact hx
  | cancel c => rw [step, leave_cache]; exact hx
  | close => rw [step]; exact hx
  | retClosed c =>
    rw [step]; split
    · rw [leave_cache]; exact hx
    · exact hx

theorem cache_mono_fold (h : Token → Nat) (cfg : Cfg) (evs : List Event) (s : State) (x : Nat) (hx : x ∈ s.cache) :
    x ∈ (evs.foldl (step h cfg) s).cache := by
  induction evs generalizing s with
  | nil => exact hx
  | cons e es ih => exact ih _ (cache_mono_step h cfg s e x hx)

/-- processing a confirmable datagram leaves its message ID in the cache (it was there, or it is put there) -/
theorem process_con_cached (h : Token → Nat) (cfg : Cfg) (s : State) (m : Msg) (q : List Msg) (hudp : cfg.udp = true)
    (hq : s.queue = m :: q) (hk : m.kind = .con) : m.mid ∈ (step h cfg s .process).cache := by
  rw [step, hq]; dsimp only
  split
  · rename_i hd
    simp [dedupHit] at hd
    exact hd.2
  · unfold remember; simp [hudp, hk]

end CoapVerif.Lemmas.TokenReach
