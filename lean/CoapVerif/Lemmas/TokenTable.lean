import CoapVerif.Model.TokenTable
/-!
Invariants of the token-table system (`Model/TokenTable.lean`), proved for every event and hence for
every schedule.  Used by `Props/C03.lean`.
-/
namespace CoapVerif.Lemmas.TokenTable
open CoapVerif.Model.TokenTable

/-- caller `c` has been handed message `m` (it sits in its channel, or the call returned it) -/
def Holds (s : State) (c : Nat) (m : Msg) : Prop :=
  ∃ cl, s.callers c = some cl ∧ (cl.slot = some m ∨ cl.res = some (.ok m))

/-- (T) every entry of the token table belongs to a caller that has not returned and is filed under the
    hash of that caller's token;  (M) whatever a caller holds hashes like its own token. -/
structure InvTM (h : Token → Nat) (s : State) : Prop where
  tbl : ∀ k c, s.table k = some c → ∃ cl, s.callers c = some cl ∧ h cl.tok = k ∧ cl.pc ≠ .returned
  hold : ∀ c m, Holds s c m → ∃ cl, s.callers c = some cl ∧ h m.tok = h cl.tok

theorem upd_same {α : Type} (f : Nat → Option α) (k : Nat) (v : Option α) : upd f k v k = v := by
  simp [upd]

theorem upd_other {α : Type} (f : Nat → Option α) (k i : Nat) (v : Option α) (hne : i ≠ k) : upd f k v i = f i := by
  simp [upd, hne]

/-! #### frame facts of the helpers -/

theorem handover_table (s : State) (c : Nat) (m : Msg) : (handover s c m).table = s.table := by
  unfold handover; repeat (first | rfl | split)

theorem handover_queue (s : State) (c : Nat) (m : Msg) : (handover s c m).queue = s.queue := by
  unfold handover; repeat (first | rfl | split)

theorem handover_nextSeq (s : State) (c : Nat) (m : Msg) : (handover s c m).nextSeq = s.nextSeq := by
  unfold handover; repeat (first | rfl | split)

theorem handover_dflt (s : State) (c : Nat) (m : Msg) : (handover s c m).dflt = s.dflt := by
  unfold handover; repeat (first | rfl | split)

/-- what `handover` does to the callers -/
theorem handover_callers (s : State) (c : Nat) (m : Msg) (i : Nat) :
    (handover s c m).callers i = s.callers i ∨
    (i = c ∧ ∃ cl, s.callers c = some cl ∧ cl.slot = none ∧ (handover s c m).callers i = some { cl with slot := some m }) := by
  unfold handover
  split
  · rename_i cl hcl
    split
    · rename_i hs
      by_cases hi : i = c
      · right; subst hi; exact ⟨rfl, cl, hcl, hs, by simp [upd]⟩
      · left; simp [upd, hi]
    · left; rfl
  · left; rfl

theorem wakeMid_table (s : State) (mid : Nat) : (wakeMid s mid).table = s.table := by
  unfold wakeMid; repeat (first | rfl | split | dsimp only)

theorem wakeMid_queue (s : State) (mid : Nat) : (wakeMid s mid).queue = s.queue := by
  unfold wakeMid; repeat (first | rfl | split | dsimp only)

theorem wakeMid_nextSeq (s : State) (mid : Nat) : (wakeMid s mid).nextSeq = s.nextSeq := by
  unfold wakeMid; repeat (first | rfl | split | dsimp only)

theorem wakeMid_dflt (s : State) (mid : Nat) : (wakeMid s mid).dflt = s.dflt := by
  unfold wakeMid; repeat (first | rfl | split | dsimp only)

/-- `wakeMid` only moves one caller from `waitAck` to `waitResp` -/
theorem wakeMid_callers (s : State) (mid : Nat) (i : Nat) :
    (wakeMid s mid).callers i = s.callers i ∨
    (∃ cl, s.callers i = some cl ∧ cl.pc = .waitAck ∧ (wakeMid s mid).callers i = some { cl with pc := .waitResp }) := by
  unfold wakeMid
  split
  · left; rfl
  · rename_i c _
    dsimp only
    split
    · rename_i cl hcl
      split
      · rename_i hpc
        by_cases hi : i = c
        · right; subst hi; exact ⟨cl, hcl, hpc, by simp [upd]⟩
        · left; simp [upd, hi]
      · left; rfl
    · left; rfl

/-- a caller's held messages are untouched by `wakeMid` -/
theorem wakeMid_holds (s : State) (mid : Nat) (c : Nat) (m : Msg) : Holds (wakeMid s mid) c m ↔ Holds s c m := by
  unfold Holds
  rcases wakeMid_callers s mid c with h | ⟨cl, h1, _, h2⟩
  · rw [h]
  · rw [h1, h2]; simp

theorem leave_queue (h : Token → Nat) (s : State) (c : Nat) (r : Res) : (leave h s c r).queue = s.queue := by
  unfold leave; repeat (first | rfl | split)

theorem leave_nextSeq (h : Token → Nat) (s : State) (c : Nat) (r : Res) : (leave h s c r).nextSeq = s.nextSeq := by
  unfold leave; repeat (first | rfl | split)

theorem leave_dflt (h : Token → Nat) (s : State) (c : Nat) (r : Res) : (leave h s c r).dflt = s.dflt := by
  unfold leave; repeat (first | rfl | split)

/-- leaving without a response never makes a caller hold more -/
theorem leave_holds (h : Token → Nat) (s : State) (c0 : Nat) (r : Res) (hr : ∀ m, r ≠ .ok m) (c : Nat) (m : Msg) :
    Holds (leave h s c0 r) c m → Holds s c m := by
  unfold leave
  split
  · rename_i cl hcl
    split
    · exact id
    · intro ⟨cl', h1, h2⟩
      by_cases hc : c = c0
      · subst hc
        simp [upd] at h1
        subst h1
        refine ⟨cl, hcl, ?_⟩
        rcases h2 with h2 | h2
        · left; exact h2
        · simp at h2; exact absurd h2 (hr m)
      · simp [upd, hc] at h1
        exact ⟨cl', h1, h2⟩
  · exact id

theorem leave_invTM (h : Token → Nat) (s : State) (c0 : Nat) (r : Res) (hr : ∀ m, r ≠ .ok m) (inv : InvTM h s) :
    InvTM h (leave h s c0 r) := by
  constructor
  · intro k c hk
    unfold leave at hk ⊢
    split at hk
    · rename_i cl hcl
      split at hk
      · rename_i hpc
        simp only [hpc, if_true]
        exact inv.tbl k c hk
      · rename_i hpc
        simp only [hpc, if_false]
        simp only [upd] at hk
        split at hk
        · cases hk
        · rename_i hne
          obtain ⟨cl', h1, h2, h3⟩ := inv.tbl k c hk
          have hc : c ≠ c0 := by
            intro e; subst e; rw [hcl] at h1; cases h1; exact hne h2.symm
          exact ⟨cl', by simp [upd, hc, h1], h2, h3⟩
    · exact inv.tbl k c hk
  · intro c m hh
    have hold := inv.hold c m (leave_holds h s c0 r hr c m hh)
    obtain ⟨cl, h1, h2⟩ := hold
    unfold leave
    split
    · rename_i cl0 hcl0
      split
      · exact ⟨cl, h1, h2⟩
      · by_cases hc : c = c0
        · subst hc
          rw [hcl0] at h1; cases h1
          exact ⟨{ cl with pc := .returned, res := some r }, by simp [upd], h2⟩
        · exact ⟨cl, by simp [upd, hc, h1], h2⟩
    · exact ⟨cl, h1, h2⟩

theorem invTM_init (h : Token → Nat) : InvTM h init := by
  constructor
  · intro k c hk; simp [init] at hk
  · intro c m ⟨cl, h1, _⟩; simp [init] at h1

/-- a state that differs only in fields the invariant does not mention -/
theorem invTM_congr (h : Token → Nat) (s s' : State) (hc : s'.callers = s.callers) (ht : s'.table = s.table)
    (inv : InvTM h s) : InvTM h s' := by
  constructor
  · intro k c hk; rw [ht] at hk; rw [hc]; exact inv.tbl k c hk
  · intro c m hh; unfold Holds at hh; rw [hc] at hh; rw [hc]; exact inv.hold c m hh

theorem wakeMid_invTM (h : Token → Nat) (s : State) (mid : Nat) (inv : InvTM h s) : InvTM h (wakeMid s mid) := by
  constructor
  · intro k c hk
    rw [wakeMid_table] at hk
    obtain ⟨cl, h1, h2, h3⟩ := inv.tbl k c hk
    rcases wakeMid_callers s mid c with e | ⟨cl', e1, _, e2⟩
    · exact ⟨cl, by rw [e, h1], h2, h3⟩
    · rw [h1] at e1; cases e1
      exact ⟨_, e2, h2, by simp⟩
  · intro c m hh
    obtain ⟨cl, h1, h2⟩ := inv.hold c m ((wakeMid_holds s mid c m).1 hh)
    rcases wakeMid_callers s mid c with e | ⟨cl', e1, _, e2⟩
    · exact ⟨cl, by rw [e, h1], h2⟩
    · rw [h1] at e1; cases e1
      exact ⟨_, e2, h2⟩

theorem wakeCaller_table (s : State) (c : Nat) : (wakeCaller s c).table = s.table := by
  unfold wakeCaller; repeat (first | rfl | split | dsimp only)

theorem wakeCaller_queue (s : State) (c : Nat) : (wakeCaller s c).queue = s.queue := by
  unfold wakeCaller; repeat (first | rfl | split | dsimp only)

theorem wakeCaller_nextSeq (s : State) (c : Nat) : (wakeCaller s c).nextSeq = s.nextSeq := by
  unfold wakeCaller; repeat (first | rfl | split | dsimp only)

theorem wakeCaller_dflt (s : State) (c : Nat) : (wakeCaller s c).dflt = s.dflt := by
  unfold wakeCaller; repeat (first | rfl | split | dsimp only)

/-- `wakeCaller` only moves that caller from `waitAck` to `waitResp` -/
theorem wakeCaller_callers (s : State) (c : Nat) (i : Nat) :
    (wakeCaller s c).callers i = s.callers i ∨
    (∃ cl, s.callers i = some cl ∧ cl.pc = .waitAck ∧ (wakeCaller s c).callers i = some { cl with pc := .waitResp }) := by
  unfold wakeCaller
  split
  · left; rfl
  · rename_i cl hcl
    dsimp only
    split
    · rename_i hpc
      by_cases hi : i = c
      · right; subst hi; exact ⟨cl, hcl, hpc, by simp [upd]⟩
      · left; simp [upd, hi]
    · left; rfl

theorem wakeCaller_holds (s : State) (c0 : Nat) (c : Nat) (m : Msg) : Holds (wakeCaller s c0) c m ↔ Holds s c m := by
  unfold Holds
  rcases wakeCaller_callers s c0 c with h | ⟨cl, h1, _, h2⟩
  · rw [h]
  · rw [h1, h2]; simp

theorem wakeCaller_invTM (h : Token → Nat) (s : State) (c0 : Nat) (inv : InvTM h s) : InvTM h (wakeCaller s c0) := by
  constructor
  · intro k c hk
    rw [wakeCaller_table] at hk
    obtain ⟨cl, h1, h2, h3⟩ := inv.tbl k c hk
    rcases wakeCaller_callers s c0 c with e | ⟨cl', e1, _, e2⟩
    · exact ⟨cl, by rw [e, h1], h2, h3⟩
    · rw [h1] at e1; cases e1
      exact ⟨_, e2, h2, by simp⟩
  · intro c m hh
    obtain ⟨cl, h1, h2⟩ := inv.hold c m ((wakeCaller_holds s c0 c m).1 hh)
    rcases wakeCaller_callers s c0 c with e | ⟨cl', e1, _, e2⟩
    · exact ⟨cl, by rw [e, h1], h2⟩
    · rw [h1] at e1; cases e1
      exact ⟨_, e2, h2⟩

/-- delivery: handing `m` to the caller registered under `h m.tok` keeps (T) and (M) -/
theorem handover_invTM (h : Token → Nat) (s : State) (c : Nat) (m : Msg) (inv : InvTM h s)
    (own : ∀ cl, s.callers c = some cl → h cl.tok = h m.tok) : InvTM h (handover s c m) := by
  constructor
  · intro k c' hk
    rw [handover_table] at hk
    obtain ⟨cl, h1, h2, h3⟩ := inv.tbl k c' hk
    rcases handover_callers s c m c' with e | ⟨e0, cl', e1, _, e2⟩
    · exact ⟨cl, by rw [e, h1], h2, h3⟩
    · subst e0; rw [h1] at e1; cases e1
      exact ⟨_, e2, h2, h3⟩
  · intro c' m' ⟨cl', h1, h2⟩
    rcases handover_callers s c m c' with e | ⟨e0, cl, e1, _, e2⟩
    · rw [e] at h1
      obtain ⟨cl2, g1, g2⟩ := inv.hold c' m' ⟨cl', h1, h2⟩
      exact ⟨cl2, by rw [e, g1], g2⟩
    · subst e0
      rw [e2] at h1; cases h1
      refine ⟨_, e2, ?_⟩
      rcases h2 with h2 | h2
      · simp at h2; subst h2; exact (own cl e1).symm
      · obtain ⟨cl2, g1, g2⟩ := inv.hold c' m' ⟨cl, e1, Or.inr h2⟩
        rw [e1] at g1; cases g1; exact g2

theorem reject_invTM (h : Token → Nat) (s : State) (c : Nat) (tok : Token) (mid : Nat) (r : Res) (hr : ∀ m, r ≠ .ok m)
    (hnone : s.callers c = none) (inv : InvTM h s) : InvTM h (reject s c tok mid r) := by
  constructor
  · intro k c' hk
    obtain ⟨cl, h1, h2, h3⟩ := inv.tbl k c' hk
    have : c' ≠ c := by intro e; subst e; rw [hnone] at h1; cases h1
    exact ⟨cl, by simp [reject, upd, this, h1], h2, h3⟩
  · intro c' m' ⟨cl', h1, h2⟩
    by_cases hc : c' = c
    · subst hc; simp [reject, upd] at h1; subst h1
      rcases h2 with h2 | h2
      · simp at h2
      · simp at h2; exact absurd h2 (hr m')
    · simp [reject, upd, hc] at h1
      obtain ⟨cl2, g1, g2⟩ := inv.hold c' m' ⟨cl', h1, h2⟩
      exact ⟨cl2, by simp [reject, upd, hc, g1], g2⟩

theorem register_invTM (h : Token → Nat) (cfg : Cfg) (s : State) (c : Nat) (tok : Token) (con : Bool) (mid : Nat)
    (hnone : s.callers c = none) (inv : InvTM h s) : InvTM h (register h cfg s c tok con mid) := by
  constructor
  · intro k c' hk
    simp only [register, upd] at hk
    split at hk
    · rename_i hkk
      cases hk
      refine ⟨⟨tok, mid, if cfg.udp && con then .waitAck else .waitResp, none, none⟩, by simp [register, upd], hkk.symm, ?_⟩
      dsimp only
      split <;> simp
    · obtain ⟨cl, h1, h2, h3⟩ := inv.tbl k c' hk
      have : c' ≠ c := by intro e; subst e; rw [hnone] at h1; cases h1
      exact ⟨cl, by simp [register, upd, this, h1], h2, h3⟩
  · intro c' m' ⟨cl', h1, h2⟩
    by_cases hc : c' = c
    · subst hc; simp [register, upd] at h1; subst h1
      rcases h2 with h2 | h2 <;> simp at h2
    · simp [register, upd, hc] at h1
      obtain ⟨cl2, g1, g2⟩ := inv.hold c' m' ⟨cl', h1, h2⟩
      exact ⟨cl2, by simp [register, upd, hc, g1], g2⟩

theorem deliver_invTM (h : Token → Nat) (cfg : Cfg) (s : State) (m : Msg) (inv : InvTM h s) : InvTM h (deliver h cfg s m) := by
  unfold deliver
  split
  · rename_i c hc
    obtain ⟨cl, h1, h2, _⟩ := inv.tbl _ c hc
    have core : InvTM h (handover { s with table := if deliverDeletes cfg = true then upd s.table (h m.tok) none else s.table } c m) := by
      apply handover_invTM
      · constructor
        · intro k c' hk
          dsimp only at hk
          split at hk
          · simp only [upd] at hk
            split at hk
            · cases hk
            · exact inv.tbl k c' hk
          · exact inv.tbl k c' hk
        · intro c' m' hh
          exact inv.hold c' m' hh
      · intro cl' hcl'
        dsimp only at hcl'
        rw [h1] at hcl'; cases hcl'; exact h2
    dsimp only
    split
    · exact wakeCaller_invTM h _ c core
    · exact core
  · exact invTM_congr h s _ rfl rfl inv

theorem remember_invTM (h : Token → Nat) (cfg : Cfg) (s : State) (m : Msg) (inv : InvTM h s) : InvTM h (remember cfg s m) := by
  unfold remember
  split
  · exact invTM_congr h s _ rfl rfl inv
  · exact inv

theorem finish_invTM (h : Token → Nat) (s : State) (c : Nat) (inv : InvTM h s) : InvTM h (finish h s c) := by
  unfold finish
  split
  · rename_i cl hcl
    split
    · split
      · rename_i m hm
        constructor
        · intro k c' hk
          simp only [upd] at hk
          split at hk
          · cases hk
          · rename_i hne
            obtain ⟨cl', h1, h2, h3⟩ := inv.tbl k c' hk
            have hc : c' ≠ c := by
              intro e; subst e; rw [hcl] at h1; cases h1; exact hne h2.symm
            exact ⟨cl', by simp [upd, hc, h1], h2, h3⟩
        · intro c' m' ⟨cl', h1, h2⟩
          by_cases hc : c' = c
          · subst hc; simp [upd] at h1; subst h1
            refine ⟨{ cl with pc := .returned, slot := none, res := some (.ok m) }, by simp [upd], ?_⟩
            rcases h2 with h2 | h2
            · simp at h2
            · simp at h2; subst h2
              obtain ⟨cl2, g1, g2⟩ := inv.hold c' m ⟨cl, hcl, Or.inl hm⟩
              rw [hcl] at g1; cases g1; exact g2
          · simp [upd, hc] at h1
            obtain ⟨cl2, g1, g2⟩ := inv.hold c' m' ⟨cl', h1, h2⟩
            exact ⟨cl2, by simp [upd, hc, g1], g2⟩
      · exact inv
    · exact inv
  · exact inv

theorem enqueue_invTM (h : Token → Nat) (s : State) (m : Msg) (inv : InvTM h s) : InvTM h (enqueue s m) := by
  unfold enqueue
  split
  · exact inv
  · exact invTM_congr h s _ rfl rfl inv

theorem receive_invTM (h : Token → Nat) (cfg : Cfg) (s : State) (kind : Kind) (tok : Token) (mid : Nat) (tag : String)
    (inv : InvTM h s) : InvTM h (receive cfg s kind tok mid tag) := by
  unfold receive
  apply enqueue_invTM
  have base : InvTM h (bump s) := invTM_congr h s _ rfl rfl inv
  split
  · exact wakeMid_invTM h _ mid base
  · exact base

/-- **(T) and (M) are preserved by every event.** -/
theorem invTM_step (h : Token → Nat) (cfg : Cfg) (s : State) (ev : Event) (inv : InvTM h s) : InvTM h (step h cfg s ev) := by
  cases ev with
  | doStart c tok con mid =>
    rw [step]
    split
    · exact inv
    · rename_i hnone
      split
      · exact reject_invTM h s c tok mid _ (by intro m; simp) hnone inv
      · split
        · exact reject_invTM h s c tok mid _ (by intro m; simp) hnone inv
        · split
          · exact reject_invTM h s c tok mid _ (by intro m; simp) hnone inv
          · split
            · exact reject_invTM h s c tok mid _ (by intro m; simp) hnone inv
            · exact register_invTM h cfg s c tok con mid hnone inv
  | arrive kind tok mid tag =>
    rw [step]
    split
    · exact inv
    · exact receive_invTM h cfg s kind tok mid tag inv
  | process =>
    rw [step]
    split
    · exact inv
    · rename_i m q hq
      have base : InvTM h { s with queue := q } := invTM_congr h s _ rfl rfl inv
      split
      · exact base
      · exact remember_invTM h cfg _ m (deliver_invTM h cfg _ m base)
  | ret c => rw [step]; exact finish_invTM h s c inv
  | cancel c => rw [step]; exact leave_invTM h s c .ctx (by intro m; simp) inv
  | close => rw [step]; exact invTM_congr h s _ rfl rfl inv
  | retClosed c =>
    rw [step]
    split
    · exact leave_invTM h s c .closed (by intro m; simp) inv
    · exact inv

theorem invTM_run (h : Token → Nat) (cfg : Cfg) (evs : List Event) : InvTM h (run h cfg evs) := by
  unfold run
  suffices ∀ s, InvTM h s → InvTM h (evs.foldl (step h cfg) s) from this init (invTM_init h)
  induction evs with
  | nil => intro s hs; exact hs
  | cons e es ih => intro s hs; exact ih _ (invTM_step h cfg s e hs)

/-! ### Sequence discipline: one arrival is handed to at most one caller -/

structure InvS (s : State) : Prop where
  qlt : ∀ m ∈ s.queue, m.seq < s.nextSeq
  qnd : s.queue.Pairwise (fun a b => a.seq ≠ b.seq)
  hlt : ∀ c m, Holds s c m → m.seq < s.nextSeq
  hq : ∀ c m, Holds s c m → ∀ q ∈ s.queue, q.seq ≠ m.seq
  uniq : ∀ c c' m m', Holds s c m → Holds s c' m' → m.seq = m'.seq → c = c'

theorem invS_init : InvS init := by
  constructor
  · intro m hm; simp [init] at hm
  · simp [init]
  · intro c m ⟨cl, h1, _⟩; simp [init] at h1
  · intro c m ⟨cl, h1, _⟩; simp [init] at h1
  · intro c c' m m' ⟨cl, h1, _⟩; simp [init] at h1

/-- transfer along a step that keeps queue and counter and does not let anybody hold more -/
theorem invS_mono (s s' : State) (hq : s'.queue = s.queue) (hn : s'.nextSeq = s.nextSeq)
    (hh : ∀ c m, Holds s' c m → Holds s c m) (inv : InvS s) : InvS s' := by
  constructor
  · intro m hm; rw [hq] at hm; rw [hn]; exact inv.qlt m hm
  · rw [hq]; exact inv.qnd
  · intro c m h1; rw [hn]; exact inv.hlt c m (hh c m h1)
  · intro c m h1 q hq'; rw [hq] at hq'; exact inv.hq c m (hh c m h1) q hq'
  · intro c c' m m' h1 h2; exact inv.uniq c c' m m' (hh c m h1) (hh c' m' h2)

theorem reject_holds (s : State) (c : Nat) (tok : Token) (mid : Nat) (r : Res) (hr : ∀ m, r ≠ .ok m)
    (hnone : s.callers c = none) (c' : Nat) (m : Msg) : Holds (reject s c tok mid r) c' m → Holds s c' m := by
  intro ⟨cl', h1, h2⟩
  by_cases hc : c' = c
  · subst hc; simp [reject, upd] at h1; subst h1
    rcases h2 with h2 | h2
    · simp at h2
    · simp at h2; exact absurd h2 (hr m)
  · simp [reject, upd, hc] at h1
    exact ⟨cl', h1, h2⟩

theorem register_holds (h : Token → Nat) (cfg : Cfg) (s : State) (c : Nat) (tok : Token) (con : Bool) (mid : Nat)
    (c' : Nat) (m : Msg) : Holds (register h cfg s c tok con mid) c' m → Holds s c' m := by
  intro ⟨cl', h1, h2⟩
  by_cases hc : c' = c
  · subst hc; simp [register, upd] at h1; subst h1
    rcases h2 with h2 | h2 <;> simp at h2
  · simp [register, upd, hc] at h1
    exact ⟨cl', h1, h2⟩

theorem finish_holds (h : Token → Nat) (s : State) (c : Nat) (c' : Nat) (m : Msg) :
    Holds (finish h s c) c' m → Holds s c' m := by
  unfold finish
  split
  · rename_i cl hcl
    split
    · split
      · rename_i m0 hm0
        intro ⟨cl', h1, h2⟩
        by_cases hc : c' = c
        · subst hc; simp [upd] at h1; subst h1
          rcases h2 with h2 | h2
          · simp at h2
          · simp at h2; subst h2; exact ⟨cl, hcl, Or.inl hm0⟩
        · simp [upd, hc] at h1
          exact ⟨cl', h1, h2⟩
      · exact id
    · exact id
  · exact id

theorem finish_queue (h : Token → Nat) (s : State) (c : Nat) : (finish h s c).queue = s.queue := by
  unfold finish; repeat (first | rfl | split)

theorem finish_nextSeq (h : Token → Nat) (s : State) (c : Nat) : (finish h s c).nextSeq = s.nextSeq := by
  unfold finish; repeat (first | rfl | split)

/-- who can hold what after `handover`: what was held before, or the target now holds `m` -/
theorem handover_holds (s : State) (c : Nat) (m : Msg) (c' : Nat) (m' : Msg) :
    Holds (handover s c m) c' m' → Holds s c' m' ∨ (m' = m ∧ c' = c) := by
  intro ⟨cl', h1, h2⟩
  rcases handover_callers s c m c' with e | ⟨e0, cl, e1, _, e2⟩
  · left; rw [e] at h1; exact ⟨cl', h1, h2⟩
  · subst e0
    rw [e2] at h1; cases h1
    rcases h2 with h2 | h2
    · right; simp at h2; exact ⟨h2.symm, rfl⟩
    · left; exact ⟨cl, e1, Or.inr h2⟩

theorem deliver_holds (h : Token → Nat) (cfg : Cfg) (s : State) (m : Msg) :
    ∃ tgt, ∀ c' m', Holds (deliver h cfg s m) c' m' → Holds s c' m' ∨ (m' = m ∧ c' = tgt) := by
  unfold deliver
  split
  · rename_i c _
    refine ⟨c, ?_⟩
    intro c' m' hh
    have hh' : Holds (handover { s with table := if deliverDeletes cfg = true then upd s.table (h m.tok) none else s.table } c m) c' m' := by
      dsimp only at hh
      split at hh
      · exact (wakeCaller_holds _ c c' m').1 hh
      · exact hh
    rcases handover_holds _ c m c' m' hh' with g | g
    · left; exact g
    · right; exact g
  · exact ⟨0, fun c' m' hh => Or.inl hh⟩

theorem deliver_queue (h : Token → Nat) (cfg : Cfg) (s : State) (m : Msg) : (deliver h cfg s m).queue = s.queue := by
  unfold deliver; split
  · dsimp only; split
    · rw [wakeCaller_queue, handover_queue]
    · rw [handover_queue]
  · rfl

theorem deliver_nextSeq (h : Token → Nat) (cfg : Cfg) (s : State) (m : Msg) : (deliver h cfg s m).nextSeq = s.nextSeq := by
  unfold deliver; split
  · dsimp only; split
    · rw [wakeCaller_nextSeq, handover_nextSeq]
    · rw [handover_nextSeq]
  · rfl

/-- delivering a message that is neither queued nor held by anybody keeps the discipline -/
theorem deliver_invS (h : Token → Nat) (cfg : Cfg) (s : State) (m : Msg) (inv : InvS s)
    (hm1 : m.seq < s.nextSeq) (hm2 : ∀ x ∈ s.queue, x.seq ≠ m.seq) (hm3 : ∀ c m', Holds s c m' → m'.seq ≠ m.seq) :
    InvS (deliver h cfg s m) := by
  obtain ⟨tgt, hh⟩ := deliver_holds h cfg s m
  constructor
  · intro x hx; rw [deliver_queue] at hx; rw [deliver_nextSeq]; exact inv.qlt x hx
  · rw [deliver_queue]; exact inv.qnd
  · intro c m' h1; rw [deliver_nextSeq]
    rcases hh c m' h1 with g | ⟨g, _⟩
    · exact inv.hlt c m' g
    · subst g; exact hm1
  · intro c m' h1 q hq; rw [deliver_queue] at hq
    rcases hh c m' h1 with g | ⟨g, _⟩
    · exact inv.hq c m' g q hq
    · subst g; exact hm2 q hq
  · intro c c' m1 m2 h1 h2 he
    rcases hh c m1 h1 with g1 | ⟨g1, t1⟩ <;> rcases hh c' m2 h2 with g2 | ⟨g2, t2⟩
    · exact inv.uniq c c' m1 m2 g1 g2 he
    · subst g2; exact absurd he (hm3 c m1 g1)
    · subst g1; exact absurd he.symm (hm3 c' m2 g2)
    · rw [t1, t2]

theorem remember_invS (cfg : Cfg) (s : State) (m : Msg) (inv : InvS s) : InvS (remember cfg s m) := by
  unfold remember
  split
  · exact invS_mono s _ rfl rfl (fun c m h => h) inv
  · exact inv

/-- **The sequence discipline is preserved by every event.** -/
theorem invS_step (h : Token → Nat) (cfg : Cfg) (s : State) (ev : Event) (inv : InvS s) : InvS (step h cfg s ev) := by
  cases ev with
  | doStart c tok con mid =>
    rw [step]
    split
    · exact inv
    · rename_i hnone
      have rj : ∀ r : Res, (∀ m, r ≠ .ok m) → InvS (reject s c tok mid r) := fun r hr =>
        invS_mono s _ rfl rfl (reject_holds s c tok mid r hr hnone) inv
      split
      · exact rj _ (by intro m; simp)
      · split
        · exact rj _ (by intro m; simp)
        · split
          · exact rj _ (by intro m; simp)
          · split
            · exact rj _ (by intro m; simp)
            · exact invS_mono s _ rfl rfl (register_holds h cfg s c tok con mid) inv
  | arrive kind tok mid tag =>
    rw [step]
    split
    · exact inv
    · unfold receive
      -- the woken state: counter bumped, queue and holdings as before
      have hw : ∀ s1 : State, s1 = (if cfg.udp = true then wakeMid (bump s) mid else bump s) →
          s1.queue = s.queue ∧ s1.nextSeq = s.nextSeq + 1 ∧ (∀ c m, Holds s1 c m ↔ Holds s c m) := by
        intro s1 e
        subst e
        split
        · refine ⟨by rw [wakeMid_queue]; rfl, by rw [wakeMid_nextSeq]; rfl, ?_⟩
          intro c m; rw [wakeMid_holds]; exact Iff.rfl
        · exact ⟨rfl, rfl, fun c m => Iff.rfl⟩
      obtain ⟨w1, w2, w3⟩ := hw _ rfl
      generalize (if cfg.udp = true then wakeMid (bump s) mid else bump s) = s1 at w1 w2 w3
      unfold enqueue
      split
      · constructor
        · intro m hm; rw [w1] at hm; rw [w2]; exact Nat.lt_succ_of_lt (inv.qlt m hm)
        · rw [w1]; exact inv.qnd
        · intro c m h1; rw [w2]; exact Nat.lt_succ_of_lt (inv.hlt c m ((w3 c m).1 h1))
        · intro c m h1 q hq; rw [w1] at hq; exact inv.hq c m ((w3 c m).1 h1) q hq
        · intro c c' m m' h1 h2; exact inv.uniq c c' m m' ((w3 c m).1 h1) ((w3 c' m').1 h2)
      · constructor
        · intro m hm
          show m.seq < s1.nextSeq
          rw [w2]
          have hm' : m ∈ s1.queue ++ [(⟨kind, tok, mid, tag, s.nextSeq⟩ : Msg)] := hm
          rw [List.mem_append, w1] at hm'
          rcases hm' with g | g
          · exact Nat.lt_succ_of_lt (inv.qlt m g)
          · simp at g; subst g; exact Nat.lt_succ_self _
        · show (s1.queue ++ [(⟨kind, tok, mid, tag, s.nextSeq⟩ : Msg)]).Pairwise _
          rw [List.pairwise_append, w1]
          refine ⟨inv.qnd, by simp, ?_⟩
          intro a ha b hb
          simp at hb; subst hb
          exact Nat.ne_of_lt (inv.qlt a ha)
        · intro c m h1
          show m.seq < s1.nextSeq
          rw [w2]
          have h1' : Holds s1 c m := h1
          exact Nat.lt_succ_of_lt (inv.hlt c m ((w3 c m).1 h1'))
        · intro c m h1 q hq
          have h1' : Holds s1 c m := h1
          have hq' : q ∈ s1.queue ++ [(⟨kind, tok, mid, tag, s.nextSeq⟩ : Msg)] := hq
          rw [List.mem_append, w1] at hq'
          rcases hq' with g | g
          · exact inv.hq c m ((w3 c m).1 h1') q g
          · simp at g; subst g
            exact Ne.symm (Nat.ne_of_lt (inv.hlt c m ((w3 c m).1 h1')))
        · intro c c' m m' h1 h2
          have h1' : Holds s1 c m := h1
          have h2' : Holds s1 c' m' := h2
          exact inv.uniq c c' m m' ((w3 c m).1 h1') ((w3 c' m').1 h2')
  | process =>
    rw [step]
    split
    · exact inv
    · rename_i m q hq
      have qnd := inv.qnd
      rw [hq, List.pairwise_cons] at qnd
      have base : InvS { s with queue := q } := by
        constructor
        · intro x hx; exact inv.qlt x (by rw [hq]; exact List.mem_cons_of_mem _ hx)
        · exact qnd.2
        · intro c m' h1; exact inv.hlt c m' h1
        · intro c m' h1 x hx; exact inv.hq c m' h1 x (by rw [hq]; exact List.mem_cons_of_mem _ hx)
        · intro c c' m1 m2 h1 h2; exact inv.uniq c c' m1 m2 h1 h2
      split
      · exact base
      · apply remember_invS
        apply deliver_invS h cfg _ m base
        · exact inv.qlt m (by rw [hq]; exact List.mem_cons_self)
        · intro x hx; exact Ne.symm (qnd.1 x hx)
        · intro c m' h1
          exact Ne.symm (inv.hq c m' h1 m (by rw [hq]; exact List.mem_cons_self))
  | ret c =>
    rw [step]
    exact invS_mono s _ (finish_queue h s c) (finish_nextSeq h s c) (finish_holds h s c) inv
  | cancel c =>
    rw [step]
    exact invS_mono s _ (leave_queue h s c _) (leave_nextSeq h s c _) (leave_holds h s c .ctx (by intro m; simp)) inv
  | close => rw [step]; exact invS_mono s _ rfl rfl (fun c m hh => hh) inv
  | retClosed c =>
    rw [step]
    split
    · exact invS_mono s _ (leave_queue h s c _) (leave_nextSeq h s c _) (leave_holds h s c .closed (by intro m; simp)) inv
    · exact inv

theorem invS_run (h : Token → Nat) (cfg : Cfg) (evs : List Event) : InvS (run h cfg evs) := by
  unfold run
  suffices ∀ s, InvS s → InvS (evs.foldl (step h cfg) s) from this init invS_init
  induction evs with
  | nil => intro s hs; exact hs
  | cons e es ih => intro s hs; exact ih _ (invS_step h cfg s e hs)

/-! ### Tokens in play -/

/-- the tokens an event brings into play -/
def evTokens : Event → List Token
  | .doStart _ tok _ _ => [tok]
  | .arrive _ tok _ _ => [tok]
  | _ => []

def tokensInPlay (evs : List Event) : List Token := evs.flatMap evTokens

/-- every token a caller has, and every token a queued or held message carries, is in `T` -/
structure InvP (T : List Token) (s : State) : Prop where
  ctok : ∀ c cl, s.callers c = some cl → cl.tok ∈ T
  qtok : ∀ m ∈ s.queue, m.tok ∈ T
  htok : ∀ c m, Holds s c m → m.tok ∈ T

/-- no caller changes its token -/
def TokPres (s s' : State) : Prop :=
  ∀ i cl', s'.callers i = some cl' → ∃ cl, s.callers i = some cl ∧ cl.tok = cl'.tok

theorem tokPres_refl (s : State) : TokPres s s := fun _ cl' h => ⟨cl', h, rfl⟩

theorem handover_tokPres (s : State) (c : Nat) (m : Msg) : TokPres s (handover s c m) := by
  intro i cl' hi
  rcases handover_callers s c m i with e | ⟨_, cl, e1, _, e2⟩
  · rw [e] at hi; exact ⟨cl', hi, rfl⟩
  · subst_vars; rw [e2] at hi; cases hi; exact ⟨cl, e1, rfl⟩

theorem wakeMid_tokPres (s : State) (mid : Nat) : TokPres s (wakeMid s mid) := by
  intro i cl' hi
  rcases wakeMid_callers s mid i with e | ⟨cl, e1, _, e2⟩
  · rw [e] at hi; exact ⟨cl', hi, rfl⟩
  · rw [e2] at hi; cases hi; exact ⟨cl, e1, rfl⟩

theorem leave_tokPres (h : Token → Nat) (s : State) (c : Nat) (r : Res) : TokPres s (leave h s c r) := by
  unfold leave
  split
  · rename_i cl hcl
    split
    · exact tokPres_refl s
    · intro i cl' hi
      by_cases hc : i = c
      · subst hc; simp [upd] at hi; subst hi; exact ⟨cl, hcl, rfl⟩
      · simp [upd, hc] at hi; exact ⟨cl', hi, rfl⟩
  · exact tokPres_refl s

theorem finish_tokPres (h : Token → Nat) (s : State) (c : Nat) : TokPres s (finish h s c) := by
  unfold finish
  split
  · rename_i cl hcl
    split
    · split
      · intro i cl' hi
        by_cases hc : i = c
        · subst hc; simp [upd] at hi; subst hi; exact ⟨cl, hcl, rfl⟩
        · simp [upd, hc] at hi; exact ⟨cl', hi, rfl⟩
      · exact tokPres_refl s
    · exact tokPres_refl s
  · exact tokPres_refl s

theorem wakeCaller_tokPres (s : State) (c : Nat) : TokPres s (wakeCaller s c) := by
  intro i cl' hi
  rcases wakeCaller_callers s c i with e | ⟨cl, e1, _, e2⟩
  · rw [e] at hi; exact ⟨cl', hi, rfl⟩
  · rw [e2] at hi; cases hi; exact ⟨cl, e1, rfl⟩

theorem deliver_tokPres (h : Token → Nat) (cfg : Cfg) (s : State) (m : Msg) : TokPres s (deliver h cfg s m) := by
  unfold deliver
  split
  · dsimp only
    split
    · intro i cl' hi
      obtain ⟨cl1, g1, g2⟩ := wakeCaller_tokPres _ _ i cl' hi
      obtain ⟨cl0, f1, f2⟩ := handover_tokPres _ _ m i cl1 g1
      exact ⟨cl0, f1, f2.trans g2⟩
    · intro i cl' hi
      have := handover_tokPres _ _ m i cl' hi
      exact this
  · exact tokPres_refl s

theorem invP_of (T : List Token) (s s' : State) (tp : TokPres s s') (hq : ∀ m ∈ s'.queue, m ∈ s.queue)
    (hh : ∀ c m, Holds s' c m → Holds s c m ∨ m ∈ s.queue) (inv : InvP T s) : InvP T s' := by
  constructor
  · intro c cl' hc
    obtain ⟨cl, h1, h2⟩ := tp c cl' hc
    rw [← h2]; exact inv.ctok c cl h1
  · intro m hm; exact inv.qtok m (hq m hm)
  · intro c m h1
    rcases hh c m h1 with g | g
    · exact inv.htok c m g
    · exact inv.qtok m g

theorem invP_step (h : Token → Nat) (cfg : Cfg) (T : List Token) (s : State) (ev : Event)
    (hev : ∀ t ∈ evTokens ev, t ∈ T) (inv : InvP T s) : InvP T (step h cfg s ev) := by
  cases ev with
  | doStart c tok con mid =>
    have htok : tok ∈ T := hev tok (by simp [evTokens])
    rw [step]
    split
    · exact inv
    · rename_i hnone
      have rj : ∀ r : Res, (∀ m, r ≠ .ok m) → InvP T (reject s c tok mid r) := by
        intro r hr
        constructor
        · intro c' cl' hc
          by_cases e : c' = c
          · subst e; simp [reject, upd] at hc; subst hc; exact htok
          · simp [reject, upd, e] at hc; exact inv.ctok c' cl' hc
        · intro m hm; exact inv.qtok m hm
        · intro c' m h1; exact inv.htok c' m (reject_holds s c tok mid r hr hnone c' m h1)
      split
      · exact rj _ (by intro m; simp)
      · split
        · exact rj _ (by intro m; simp)
        · split
          · exact rj _ (by intro m; simp)
          · split
            · exact rj _ (by intro m; simp)
            · constructor
              · intro c' cl' hc
                by_cases e : c' = c
                · subst e; simp [register, upd] at hc; subst hc; exact htok
                · simp [register, upd, e] at hc; exact inv.ctok c' cl' hc
              · intro m hm; exact inv.qtok m hm
              · intro c' m h1; exact inv.htok c' m (register_holds h cfg s c tok con mid c' m h1)
  | arrive kind tok mid tag =>
    have htok : tok ∈ T := hev tok (by simp [evTokens])
    rw [step]
    split
    · exact inv
    · unfold receive
      have hw : InvP T (if cfg.udp = true then wakeMid (bump s) mid else bump s) := by
        have hb : InvP T (bump s) := invP_of T s _ (tokPres_refl s) (fun m hm => hm) (fun c m hh => Or.inl hh) inv
        split
        · refine invP_of T (bump s) _ (wakeMid_tokPres _ mid) ?_ ?_ hb
          · intro m hm; rw [wakeMid_queue] at hm; exact hm
          · intro c m hh; exact Or.inl ((wakeMid_holds _ mid c m).1 hh)
        · exact hb
      generalize (if cfg.udp = true then wakeMid (bump s) mid else bump s) = s1 at hw
      unfold enqueue
      split
      · exact hw
      · constructor
        · intro c cl hc; exact hw.ctok c cl hc
        · intro m hm
          have hm' : m ∈ s1.queue ++ [(⟨kind, tok, mid, tag, s.nextSeq⟩ : Msg)] := hm
          rw [List.mem_append] at hm'
          rcases hm' with g | g
          · exact hw.qtok m g
          · simp at g; subst g; exact htok
        · intro c m h1
          have h1' : Holds s1 c m := h1
          exact hw.htok c m h1'
  | process =>
    rw [step]
    split
    · exact inv
    · rename_i m q hq
      have hmem : ∀ x ∈ q, x ∈ s.queue := fun x hx => by rw [hq]; exact List.mem_cons_of_mem _ hx
      have base : InvP T { s with queue := q } :=
        invP_of T s _ (tokPres_refl s) hmem (fun c m hh => Or.inl hh) inv
      split
      · exact base
      · have hd : InvP T (deliver h cfg { s with queue := q } m) := by
          obtain ⟨tgt, hh⟩ := deliver_holds h cfg { s with queue := q } m
          constructor
          · intro c cl' hc
            obtain ⟨cl, h1, h2⟩ := deliver_tokPres h cfg _ m c cl' hc
            rw [← h2]; exact inv.ctok c cl h1
          · intro x hx; rw [deliver_queue] at hx; exact inv.qtok x (hmem x hx)
          · intro c m' h1
            rcases hh c m' h1 with g | ⟨g, _⟩
            · exact inv.htok c m' g
            · subst g; exact inv.qtok _ (by rw [hq]; exact List.mem_cons_self)
        unfold remember
        split
        · exact invP_of T (deliver h cfg { s with queue := q } m) _ (fun i cl' hi => ⟨cl', hi, rfl⟩) (fun m hm => hm)
            (fun c m hh => Or.inl hh) hd
        · exact hd
  | ret c =>
    rw [step]
    refine invP_of T s _ (finish_tokPres h s c) ?_ (fun c' m hh => Or.inl (finish_holds h s c c' m hh)) inv
    intro m hm; rw [finish_queue] at hm; exact hm
  | cancel c =>
    rw [step]
    refine invP_of T s _ (leave_tokPres h s c _) ?_ (fun c' m hh => Or.inl (leave_holds h s c .ctx (by intro m; simp) c' m hh)) inv
    intro m hm; rw [leave_queue] at hm; exact hm
  | close => rw [step]; exact invP_of T s _ (tokPres_refl s) (fun m hm => hm) (fun c m hh => Or.inl hh) inv
  | retClosed c =>
    rw [step]
    split
    · refine invP_of T s _ (leave_tokPres h s c _) ?_ (fun c' m hh => Or.inl (leave_holds h s c .closed (by intro m; simp) c' m hh)) inv
      intro m hm; rw [leave_queue] at hm; exact hm
    · exact inv

theorem invP_init (T : List Token) : InvP T init := by
  constructor
  · intro c cl hc; simp [init] at hc
  · intro m hm; simp [init] at hm
  · intro c m ⟨cl, h1, _⟩; simp [init] at h1

theorem invP_run (h : Token → Nat) (cfg : Cfg) (evs : List Event) : InvP (tokensInPlay evs) (run h cfg evs) := by
  unfold run
  suffices ∀ (T : List Token) (es : List Event) s, (∀ e ∈ es, ∀ t ∈ evTokens e, t ∈ T) → InvP T s →
      InvP T (es.foldl (step h cfg) s) by
    apply this (tokensInPlay evs) evs init _ (invP_init _)
    intro e he t ht
    unfold tokensInPlay
    rw [List.mem_flatMap]
    exact ⟨e, he, ht⟩
  intro T es
  induction es with
  | nil => intro s _ hs; exact hs
  | cons e es ih =>
    intro s hall hs
    apply ih
    · intro e' he'; exact hall e' (List.mem_cons_of_mem _ he')
    · exact invP_step h cfg T s e (hall e List.mem_cons_self) hs

end CoapVerif.Lemmas.TokenTable
