import CoapVerif.Lemmas.RefParser
import CoapVerif.Lemmas.PoolRetry
/-!
Provenance of decoded fields: token, payload and every option value of an accepted message are
contiguous regions (`<:+:`) of the byte string that was decoded — for the pooled API, of the message's
own copy of the input.
-/
set_option linter.unusedVariables false
namespace CoapVerif.Lemmas.Views
open CoapVerif.Generated.Codec CoapVerif.Generated.OptionDefs
open CoapVerif.Spec.Wire
open CoapVerif.Model CoapVerif.Model.OptionCodec CoapVerif.Model.PoolMessage
open CoapVerif.Lemmas CoapVerif.Lemmas.OptionCodec CoapVerif.Lemmas.CoderDecode

/-- All byte-string fields of a message are regions of `buf`. -/
def ViewsIn (buf : Bytes) (m : Msg) : Prop :=
  m.token <:+: buf ∧ m.payload <:+: buf ∧ ∀ o ∈ m.options, o.val <:+: buf

theorem suffix_of_append {bs pre r : Bytes} (h : bs = pre ++ r) : r <:+ bs := ⟨pre, h.symm⟩

theorem keepOpt_val (defs : Defs) (id : Nat) (v : Bytes) (o : Opt) (h : keepOpt defs id v = some o) : o.val = v := by
  unfold keepOpt at h
  split at h
  · rename_i hne
    injection h with h; subst h
    unfold optionUnmarshal at hne ⊢
    split
    · rename_i lo hi fmt hl
      rw [hl] at hne
      simp only at hne
      split
      · rename_i hf; simp [hf] at hne
      · rename_i hf
        simp only [hf, ↓reduceIte] at hne
        simp only []
        split
        · rename_i hr; simp [hr] at hne
        · rfl
    · rfl
  · cases h

theorem decLoop_views (defs : Defs) (cap n prev : Nat) (bs : Bytes) (os : List Opt) (rest : Bytes)
    (h : decLoop defs cap n prev bs = .ok (os, rest)) : rest <:+ bs ∧ ∀ o ∈ os, o.val <:+: bs := by
  induction hl : bs.length using Nat.strongRecOn generalizing n prev bs os rest with
  | _ len ih =>
    subst hl
    obtain ⟨pre, hpre⟩ := decLoop_suffix _ _ _ _ _ _ _ h
    refine ⟨suffix_of_append hpre, ?_⟩
    cases bs with
    | nil => rw [decLoop.eq_def] at h; simp at h; obtain ⟨rfl, _⟩ := h; simp
    | cons b t =>
      rw [RefParser.decLoop_cons] at h
      by_cases hff : b = 0xff
      · simp [hff] at h; obtain ⟨rfl, _⟩ := h; simp
      · simp only [hff, ↓reduceIte] at h
        by_cases hm : b.toNat / 16 = 15 ∨ b.toNat % 16 = 15
        · simp [hm] at h
        · simp only [hm, ↓reduceIte] at h
          cases hd : decExt (b.toNat / 16) t with
          | error e => simp [hd] at h
          | ok r1 =>
            obtain ⟨delta, t1⟩ := r1
            simp only [hd] at h
            cases hl2 : decExt (b.toNat % 16) t1 with
            | error e => simp [hl2] at h
            | ok r2 =>
              obtain ⟨len', t2⟩ := r2
              simp only [hl2] at h
              by_cases hlen : t2.length < len'
              · simp [hlen] at h
              · simp only [hlen, ↓reduceIte] at h
                by_cases hov : prev + delta > 65535
                · simp [hov] at h
                · simp only [hov, ↓reduceIte] at h
                  by_cases hc : cap = n
                  · simp [hc] at h
                  · simp only [hc, ↓reduceIte] at h
                    obtain ⟨p1, hp1⟩ := decExt_suffix hd
                    obtain ⟨p2, hp2⟩ := decExt_suffix hl2
                    have st2 : t2 <:+ (b :: t) := by
                      refine ⟨b :: (p1 ++ p2), ?_⟩
                      rw [hp1, hp2]; simp
                    have l1 := decExt_len hd
                    have l2 := decExt_len hl2
                    have hlt : (t2.drop len').length < (b :: t).length := by simp; omega
                    cases hrec : decLoop defs cap
                        (if (keepOpt defs (prev + delta) (List.take len' t2)).isSome = true then n + 1 else n)
                        (prev + delta) (t2.drop len') with
                    | error e => simp [hrec] at h
                    | ok r3 =>
                      obtain ⟨os', rest'⟩ := r3
                      obtain ⟨_, hv'⟩ := ih _ hlt _ _ _ _ _ hrec rfl
                      simp only [hrec, Except.ok.injEq, Prod.mk.injEq] at h
                      obtain ⟨hos, _⟩ := h
                      have hdrop : (t2.drop len') <:+: (b :: t) :=
                        ((List.drop_suffix len' t2).trans st2).isInfix
                      have hold : ∀ o ∈ os', o.val <:+: (b :: t) := fun o ho => (hv' o ho).trans hdrop
                      cases hk : keepOpt defs (prev + delta) (List.take len' t2) with
                      | none => rw [hk] at hos; simp only at hos; subst hos; exact hold
                      | some o =>
                        rw [hk] at hos; simp only at hos; subst hos
                        intro o' ho'
                        rcases List.mem_cons.mp ho' with rfl | ho'
                        · rw [keepOpt_val _ _ _ _ hk]
                          exact ((List.take_prefix len' t2).isInfix).trans st2.isInfix
                        · exact hold o' ho'

theorem udpDec_views (cap : Nat) (bs : Bytes) (m : Msg) (k : Nat) (h : udpDec cap bs = .ok (m, k)) : ViewsIn bs m := by
  unfold udpDec at h
  split at h
  · rename_i b0 b1 b2 b3 rest
    split at h
    · cases h
    · split at h
      · cases h
      · split at h
        · cases h
        · split at h
          · cases h
          · rename_i os pay hd
            simp only [Except.ok.injEq, Prod.mk.injEq] at h
            obtain ⟨rfl, _⟩ := h
            obtain ⟨hs, hv⟩ := decLoop_views _ _ _ _ _ _ _ hd
            have hrest : rest <:+ (b0 :: b1 :: b2 :: b3 :: rest) := ⟨[b0, b1, b2, b3], rfl⟩
            have hdrop : (rest.drop (b0.toNat % 16)) <:+: (b0 :: b1 :: b2 :: b3 :: rest) :=
              ((List.drop_suffix _ rest).trans hrest).isInfix
            refine ⟨((List.take_prefix _ rest).isInfix).trans hrest.isInfix, hs.isInfix.trans hdrop, ?_⟩
            intro o ho
            exact (hv o ho).trans hdrop
  · cases h

theorem tcpHdr_token (bs : Bytes) (h : TcpCoder.Header) (hh : tcpHdr bs = .ok h) : h.token <:+: bs := by
  unfold tcpHdr at hh
  cases bs with
  | nil => simp at hh
  | cons b t =>
    simp only at hh
    split at hh
    · cases hh
    · split at hh
      · cases hh
      · rename_i opLen t' off hext
        have st' : t' <:+ t := by
          unfold tcpExt at hext
          split at hext
          · simp at hext; obtain ⟨_, rfl, _⟩ := hext; exact List.suffix_refl _
          · split at hext
            · cases t with
              | nil => simp at hext
              | cons e r => simp at hext; obtain ⟨_, rfl, _⟩ := hext; exact ⟨[e], rfl⟩
            · split at hext
              · match t, hext with
                | [], hext => simp at hext
                | [_], hext => simp at hext
                | e0 :: e1 :: r, hext => simp at hext; obtain ⟨_, rfl, _⟩ := hext; exact ⟨[e0, e1], rfl⟩
              · split at hext
                · match t, hext with
                  | [], hext => simp at hext
                  | [_], hext => simp at hext
                  | [_, _], hext => simp at hext
                  | [_, _, _], hext => simp at hext
                  | e0 :: e1 :: e2 :: e3 :: r, hext =>
                    simp at hext; obtain ⟨_, rfl, _⟩ := hext; exact ⟨[e0, e1, e2, e3], rfl⟩
                · simp at hext; obtain ⟨_, rfl, _⟩ := hext; exact List.suffix_refl _
        unfold tcpHdrRest at hh
        split at hh
        · cases hh
        · split at hh
          · cases hh
          · rename_i x1 x2 x3 code r
            split at hh
            · cases hh
            · injection hh with hh; subst hh
              simp only
              have sr : r <:+ (b :: t) := (List.suffix_cons code r).trans (st'.trans (List.suffix_cons b t))
              exact ((List.take_prefix _ r).isInfix).trans sr.isInfix

theorem tcpDec_views (cap : Nat) (bs : Bytes) (m : Msg) (k : Nat) (h : tcpDec cap bs = .ok (m, k)) : ViewsIn bs m := by
  unfold tcpDec at h
  split at h
  · cases h
  · rename_i hd hh
    split at h
    · cases h
    · split at h
      · cases h
      · rename_i os pay hdl
        simp only [Except.ok.injEq, Prod.mk.injEq] at h
        obtain ⟨rfl, _⟩ := h
        obtain ⟨hs, hv⟩ := decLoop_views _ _ _ _ _ _ _ hdl
        have hbody : ((bs.take hd.messageLength).drop hd.length) <:+: bs :=
          ((List.drop_suffix _ _).isInfix).trans (List.take_prefix _ bs).isInfix
        refine ⟨tcpHdr_token bs hd hh, hs.isInfix.trans hbody, ?_⟩
        intro o ho
        exact (hv o ho).trans hbody

theorem decode_views (c : Coder) (cap : Nat) (bs : Bytes) (m : Msg) (k : Nat) (h : c.decode cap bs = .ok (m, k)) :
    ViewsIn bs m := by
  cases c with
  | udp => simp only [Coder.decode, udp_decode_eq] at h; exact udpDec_views cap bs m k h
  | tcp => simp only [Coder.decode, tcp_decode_eq] at h; exact tcpDec_views cap bs m k h

end CoapVerif.Lemmas.Views
