import CoapVerif.Generated.Blockwise
/-!
Model of `net/blockwise/blockwise.go`: `EncodeBlockOption`, `DecodeBlockOption`, `SZX.Size`,
`bufferSize`.  Constants and the size table come from `Generated/Blockwise.lean`
(regenerated from /repo on every run).  Go's `uint32` arithmetic is modelled modulo 2^32,
`int64` block numbers as `Int` (no reachable overflow: guarded by `maxBlockNumber`).
-/
namespace CoapVerif.Model.BlockOpt
open CoapVerif.Generated.Blockwise

inductive Err | invalidSZX | exceedLimit | invalidSize
  deriving Repr, DecidableEq

def Err.toString : Err → String
  | .invalidSZX => "invalidSZX" | .exceedLimit => "exceedLimit" | .invalidSize => "invalidSize"

def u32 (n : Nat) : Nat := n % 4294967296

/-- `EncodeBlockOption(szx SZX, blockNumber int64, more bool) (uint32, error)`; `szx` is a `uint8`. -/
def encodeBlock (szx : Nat) (num : Int) (more : Bool) : Except Err Nat :=
  if szx > szxBERT then .error .invalidSZX
  else if num < 0 then .error .exceedLimit
  else if num > (maxBlockNumber : Int) then .error .exceedLimit
  else
    let blockVal := u32 (num.toNat * 16)          -- math.CastTo[uint32](blockNumber << 4)
    let blockVal := u32 (blockVal + (if more then 8 else 0))   -- blockVal += m << 3
    .ok (u32 (blockVal + szx))                   -- blockVal += uint32(szx)

/-- `DecodeBlockOption(blockVal uint32)`; returns the triple or the error the Go code sets. -/
def decodeBlock (v : Nat) : Except Err (Nat × Nat × Bool) :=
  if v > maxBlockValue then .error .invalidSize
  else
    let szx := v &&& szxMask
    let more := (v &&& moreMask) != 0
    let num := v >>> 4
    if num > maxBlockNumber then .error .exceedLimit
    else .ok (szx, num, more)

/-- `SZX.Size()`: table lookup, -1 when absent. -/
def szxSize (szx : Nat) : Int :=
  match szxToSize.lookup szx with
  | some v => v
  | none => -1

/-- `bufferSize(szx, maxMessageSize uint32) int64` (Go `/` on non-negative operands, divisor > 0 in the table). -/
def bufferSize (szx : Nat) (maxMessageSize : Nat) : Int :=
  if szx < szxBERT then szxSize szx
  else ((maxMessageSize : Int) / szxSize szx) * szxSize szx

end CoapVerif.Model.BlockOpt
