import CoapVerif.Model.BlockOpt
import CoapVerif.Model.OptionValues
/-!
The block option *as a message carries it* (C19 glue, between `net/blockwise` and the option list / the coders):

* sending: `r.SetOptionUint32(blockType, EncodeBlockOption(szx, num, more))` — `message.EncodeUint32` writes the value
  big-endian in the fewest bytes (none for 0), `Model/OptionValues.encodeUint32Bytes`;
* receiving: `r.GetOptionUint32(blockType)` → `message.DecodeUint32` reads the big-endian value of at most four bytes
  (`Model/OptionValues.decodeUint32`, never fails) → `DecodeBlockOption`.

Nothing new is modelled here: the two functions below are the compositions of C19's and C15's model functions that
`blockwise.go` performs at every block (createSendingMessage / processReceivedMessage / fitSZX).
-/
namespace CoapVerif.Model.BlockOptWire
open CoapVerif.Model.BlockOpt CoapVerif.Model.Options

/-- the value bytes of the Block1/Block2 option of a block message: `SetOptionUint32(id, EncodeBlockOption(...))` -/
def toWire (szx : Nat) (num : Int) (more : Bool) : Except BlockOpt.Err (List UInt8) :=
  match encodeBlock szx num more with
  | .ok v => .ok (encodeUint32Bytes v)
  | .error e => .error e

/-- what the receiver makes of the option's value bytes: `DecodeBlockOption(GetOptionUint32(id))` -/
def fromWire (bs : List UInt8) : Except BlockOpt.Err (Nat × Nat × Bool) := decodeBlock (decodeUint32 bs)

end CoapVerif.Model.BlockOptWire
