import CoapVerif.Model.BlockOpt
/-!
The codec inside a transfer (eleventh seeded round, C19-W): the block-wise layer of `net/blockwise/blockwise.go` asked for
block number `num` of a body of `body` bytes — the arithmetic of `createSendingMessage` (offset = number · unit, the read of
at most one buffer, `more`, the number written back = offset / unit, `EncodeBlockOption`) around the codec of
`Model/BlockOpt`, for the three entrances that produce blocks of a body:

* `dl`  `Handle`: a GET without Block2 (`handleReceivedMessage → startSendingMessage`), then a GET whose Block2 value is
        `num·16 + szx` as the peer wrote it (`continueSendingMessage`);
* `ul`  `Do` (first block), then the peer's 2.31 Continue naming the block before `num` (`continueSendingMessage`, skipSent);
* `wm`  `WriteMessage` (`startSendingMessage`), then the same 2.31 Continue.

Sizes are unbounded naturals (a body is an `io.ReadSeeker`; its size is an `int64`); the only width that matters is the
`uint32` of the Size1/Size2 option (`math.SafeCastTo[uint32]`).  Bodies that fit one block leave without a block option
(`plain`); that case belongs to C04 and is not modelled here (`skip`).
-/
namespace CoapVerif.Model.BlockOptXfer
open CoapVerif.Model.BlockOpt CoapVerif.Generated.Blockwise

inductive Way | dl | ul | wm
  deriving Repr, DecidableEq

/-- what the layer did: a block (option value, payload length), or a refusal (`some e`: with the codec's error) -/
inductive Res
  | block (val len : Nat)
  | refused (e : Option Err)
  | skip
  deriving Repr, DecidableEq

/-- `SZX.Size()` as a natural (the table has no negative entry for 0..7). -/
def unit (szx : Nat) : Nat := (szxSize szx).toNat
/-- `bufferSize` as a natural. -/
def bufLen (szx maxMsg : Nat) : Nat := (bufferSize szx maxMsg).toNat

/-- `getSzx(szx, maxSzx)` -/
def getSzx (szx maxSzx : Nat) : Nat := if szx > maxSzx then maxSzx else szx

/-- `createSendingMessage(msg, maxSZX, maxMessageSize, block, skipSent)` for a message whose body has `body` bytes;
    `block1` = the message is a POST/PUT (Block1/Size1), else Block2/Size2. -/
def createSending (block1 : Bool) (maxSzx maxMsg body block : Nat) (skipSent : Bool) : Res :=
  match decodeBlock block with
  | .error e => .refused (some e)
  | .ok (szx, num, _) =>
    let szx := getSzx szx maxSzx
    let buf := bufLen szx maxMsg
    let off := num * unit szx + (if block1 && skipSent then buf else 0)
    -- Seek(off) succeeds for every offset; io.ReadFull of `buf` bytes
    let readed := min buf (body - off)
    if buf ≠ 0 ∧ readed < buf ∧ off + readed ≠ body then .refused none      -- "cannot read response"
    else if body ≥ 4294967296 then .refused none                            -- SafeCastTo[uint32](payloadSize)
    else
      let more := off + readed ≠ body
      let num' := off / unit szx
      match encodeBlock szx (num' : Int) more with
      | .error e => .refused (some e)
      | .ok v => .block v readed

/-- the value of the peer's 2.31 Continue: it acknowledges the block sent before block `num` -/
def ackValue (szx maxMsg num : Nat) : Option Nat :=
  let k := bufLen szx maxMsg / unit szx
  if k = 0 ∨ num < k then none
  else match encodeBlock szx ((num - k : Nat) : Int) true with
    | .ok v => some v
    | .error _ => none

/-- block `num` of a body of `body` bytes through the entrance `way`, exponent `szx` (≤ 7: `Handle` panics otherwise) -/
def xfer (way : Way) (szx maxMsg body num : Nat) : Res :=
  if szx > szxBERT then .skip
  else if body ≤ unit szx then .skip                     -- no block-wise transfer (C04)
  else
    match encodeBlock szx 0 true with
    | .error e => .refused (some e)
    | .ok start =>
      match way with
      | .dl =>
        -- first request: startSendingMessage(…, start); it must succeed for the body to be registered
        match createSending false szx maxMsg body start false with
        | .block v l =>
          if num = 0 then .block v l
          else createSending false szx maxMsg body (num * 16 + szx) true
        | r => r
      | .ul =>
        -- Do: Size1 needs a uint32; first block = the first buffer
        if body ≥ 4294967296 then .refused none
        else if num = 0 then .block start (min (bufLen szx maxMsg) body)
        else match ackValue szx maxMsg num with
          | none => .skip
          | some a => createSending true szx maxMsg body a true
      | .wm =>
        match createSending true szx maxMsg body start false with
        | .block v l =>
          if num = 0 then .block v l
          else match ackValue szx maxMsg num with
            | none => .skip
            | some a => createSending true szx maxMsg body a true
        | r => r

end CoapVerif.Model.BlockOptXfer
