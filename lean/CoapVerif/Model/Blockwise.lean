import CoapVerif.Model.BlockOpt
import CoapVerif.Generated.Blockwise
import CoapVerif.Generated.BlockwiseXfer
/-!
Model of the block-wise transfer layer `net/blockwise/blockwise.go` (everything except the option codec,
which is C19's `Model/BlockOpt.lean` and is imported, not repeated):

`getSzx`, `fitSZX`, use of `bufferSize`; `createSendingMessage` (offset = NUM·size, `+ bufLen` for Block1,
`more` from the real end of the body, NUM recomputed from the seek offset); `Do` (first block; the loop is driven
by `Handle` on the receive path, as in the source); `startSendingMessage` / `WriteMessage`; `continueSendingMessage`;
`wantsToBeReceived`; `Handle` dispatch; `handleReceivedMessage`; `processReceivedMessage` (append only when the
offset equals the number of bytes held, ETag change truncates, completion, the no-cached-entry-and-no-more
shortcut); the two caches keyed by token hash with expiry (`pkg/cache`: `Load` hides expired entries,
`LoadWithFunc` does not, `LoadOrStore` replaces expired entries, `CheckExpirations` sweeps and runs the
receiving cache's `onExpire`, which deletes the sending entry of the same key).

Conventions.  Byte strings are `List UInt8`.  A token is identified with its table key (CRC-64 of the token;
collisions are C03's finding F13); key 0 stands for the empty token.  Block options are kept as raw option values
and decoded with C19's `decodeBlock`.  `Msg.deadline` is the deadline of the message's `context` (never on the
wire).  A `ResponseWriter` is `Option Msg`: `none` = untouched (nothing will be sent).  `next` (the handler the
layer hands complete messages to) is a parameter `App`.  Time is `Int` nanoseconds.  The per-entry semaphore
(`messageGuard`) makes `processReceivedMessage` atomic per token; the model's step is that atomic section.
The Observe branch (`isObserveResponse`, `handleObserveResponse`: fresh token, `getSentRequestFromOutside`) is modelled on top of
this file in `Model/BlockwiseObserve.lean`.  Not modelled: message type.
Thresholds `<=` / `<`, the Block1 addend and the shape of the shortcut come from `Generated/BlockwiseXfer.lean`.
-/
namespace CoapVerif.Model.Blockwise
open CoapVerif.Model.BlockOpt (encodeBlock decodeBlock szxSize bufferSize)
open CoapVerif.Generated.BlockwiseXfer

abbrev Bytes := List UInt8

/-- which block option a transfer uses -/
inductive BT | b1 | b2
  deriving DecidableEq, Repr

structure Msg where
  code : Nat := 0
  tok : Nat := 0
  block1 : Option Nat := none
  block2 : Option Nat := none
  size1 : Option Nat := none
  size2 : Option Nat := none
  etag : Option Bytes := none
  other : List (Nat × Bytes) := []
  body : Bytes := []
  deadline : Option Int := none
  deriving DecidableEq, Repr, Inhabited

def Msg.block (m : Msg) : BT → Option Nat
  | .b1 => m.block1
  | .b2 => m.block2

def Msg.setBlock (m : Msg) : BT → Nat → Msg
  | .b1, v => { m with block1 := some v }
  | .b2, v => { m with block2 := some v }

def Msg.setSize (m : Msg) : BT → Nat → Msg
  | .b1, v => { m with size1 := some v }
  | .b2, v => { m with size2 := some v }

/-- `Remove(blockType); Remove(sizeType)` -/
def Msg.removeBlockSize (m : Msg) : BT → Msg
  | .b1 => { m with block1 := none, size1 := none }
  | .b2 => { m with block2 := none, size2 := none }

def isPostPut (c : Nat) : Bool := c == codePOST || c == codePUT
/-- `code >= codes.GET && code <= codes.DELETE` -/
def isRequest (c : Nat) : Bool := decide (codeGET ≤ c) && decide (c ≤ codeDELETE)
/-- the block option a message being *sent* block by block uses (`createSendingMessage`, `continueSendingMessage`) -/
def sendBT (code : Nat) : BT := if isPostPut code then .b1 else .b2

def getSzx (szx maxSzx : Nat) : Nat := if szx > maxSzx then maxSzx else szx
def sizeN (szx : Nat) : Nat := (szxSize szx).toNat
def bufLen (szx maxSize : Nat) : Nat := (bufferSize szx maxSize).toNat

/-- `fitSZX(r, blockType, maxSZX)` -/
def fitSZX (r : Msg) (bt : BT) (maxSZX : Nat) : Nat :=
  match r.block bt with
  | none => maxSZX
  | some v =>
    match decodeBlock v with
    | .error _ => maxSZX
    | .ok (szx, _, _) => if maxSZX > szx then szx else maxSZX

/-- the "fits one block" comparison, `<=` or `<` as the source has it -/
def fits (le : Bool) (len size : Nat) : Bool := if le then decide (len ≤ size) else decide (len < size)

/-! ### caches (`pkg/cache` over `pkg/sync.Map`) -/

structure Entry where
  msg : Msg
  validUntil : Int
  deriving DecidableEq, Repr

/-- `Element.IsExpired(now)`: `now.After(validUntil)` (the zero time "never" is not used by this package) -/
def Entry.expired (e : Entry) (now : Int) : Bool := decide (now > e.validUntil)

/-- what `Cache.Load` returns for a slot: an expired entry is hidden -/
def live (slot : Option Entry) (now : Int) : Option Entry :=
  match slot with
  | some e => if e.expired now then none else some e
  | none => none

/-- `Cache.LoadOrStore` on a slot: an unexpired entry wins (`loaded = true`), otherwise the new one is stored -/
def storeIfAbsent (slot : Option Entry) (e : Entry) (now : Int) : Option Entry × Bool :=
  match live slot now with
  | some _ => (slot, true)
  | none => (some e, false)

abbrev Cache := Nat → Option Entry

def Cache.empty : Cache := fun _ => none
def Cache.put (c : Cache) (k : Nat) (v : Option Entry) : Cache := fun k' => if k' = k then v else c k'

structure Cfg where
  szx : Nat
  maxSize : Nat
  expiration : Int
  deriving DecidableEq, Repr

structure Endpoint extends Cfg where
  sending : Cache := Cache.empty
  receiving : Cache := Cache.empty

/-- the two cache entries stored under one key (token hash).  Every cache access of `Handle` uses the key of the
    token of the message being handled (the response writer carries that token, set by the connection), so one
    call of `Handle` reads and writes exactly one `Slots`. -/
structure Slots where
  snd : Option Entry := none
  rcv : Option Entry := none
  deriving DecidableEq, Repr

def Endpoint.slots (ep : Endpoint) (k : Nat) : Slots := ⟨ep.sending k, ep.receiving k⟩
def Endpoint.put (ep : Endpoint) (k : Nat) (s : Slots) : Endpoint :=
  { ep with sending := ep.sending.put k s.snd, receiving := ep.receiving.put k s.rcv }

/-- `CheckExpirations(now)`: receiving cache first (its `onExpire` deletes the sending entry of the key), then sending -/
def sweepSlots (s : Slots) (now : Int) : Slots :=
  match s.rcv with
  | some e => if e.expired now then ⟨none, none⟩ else ⟨live s.snd now, s.rcv⟩
  | none => ⟨live s.snd now, none⟩

def sweep (ep : Endpoint) (now : Int) : Endpoint :=
  { ep with
    sending := fun k => (sweepSlots (ep.slots k) now).snd
    receiving := fun k => (sweepSlots (ep.slots k) now).rcv }

/-! ### sender side -/

/-- offset `createSendingMessage` seeks to: NUM·size, plus — when the caller asks for it (`skip`) — the buffer length for
    Block1 ("skip the already sent bytes") -/
def sendOffWith (skip : Bool) (bt : BT) (szx num nb : Nat) : Nat :=
  num * sizeN szx + (if bt == .b1 && skip then nb else 0)

/-- … as `continueSendingMessage` calls it -/
def sendOff (bt : BT) (szx num nb : Nat) : Nat := sendOffWith block1SkipsSent bt szx num nb

/-- the part of `createSendingMessage` after the offset is known: read up to `nb` bytes at `off`, derive `more` from
    the real end of the body, recompute NUM from the offset -/
def createSendingAt (sm : Msg) (bt : BT) (szx off nb : Nat) : Option (Msg × Bool) :=
  -- (F39) `body := sendingMessage.Body(); if body == nil { return error }`: a message without body — in this model the
  -- empty body: nobody calls `SetBody` with an empty reader — has no block to send
  if refusesBodylessSending = true ∧ sm.body = [] then none else
  -- io.ReadFull: EOF / ErrUnexpectedEOF are forgiven only when the read ended exactly at the end of the body
  if nb > 0 ∧ off > sm.body.length then none else
  if sm.body.length ≥ 4294967296 then none else
  let pay := (sm.body.drop off).take nb
  let more := decide (off + pay.length ≠ sm.body.length)
  match encodeBlock szx ((off / sizeN szx : Nat) : Int) more with
  | .error _ => none
  | .ok v => some ({ (sm.setSize bt sm.body.length).setBlock bt v with body := pay }, more)

/-- `createSendingMessage(sendingMessage, maxSZX, maxMessageSize, block[, skipSent])`; `none` = an error is returned. -/
def createSendingWith (skip : Bool) (sm : Msg) (maxSZX maxSize block : Nat) : Option (Msg × Bool) :=
  match decodeBlock block with
  | .error _ => none
  | .ok (szx0, num, _) =>
    let szx := getSzx szx0 maxSZX
    let nb := bufLen szx maxSize
    createSendingAt sm (sendBT sm.code) szx (sendOffWith skip (sendBT sm.code) szx num nb) nb

/-- … as `continueSendingMessage` calls it: `block` is the block that was acknowledged / asked for -/
def createSending (sm : Msg) (maxSZX maxSize block : Nat) : Option (Msg × Bool) :=
  createSendingWith block1SkipsSent sm maxSZX maxSize block

/-- … as `startSendingMessage` calls it: the first block of a response or of a one-way write.  On the pinned tree the
    same addend is applied (O1: a one-way POST/PUT starts with block 1); `startSkipsSent` is regenerated. -/
def createSendingFirst (sm : Msg) (maxSZX maxSize block : Nat) : Option (Msg × Bool) :=
  createSendingWith startSkipsSent sm maxSZX maxSize block

/-- the zero time ("never expires") that `Do` gives the entry of a request whose context has no deadline — the entry then
    lives until `Do`'s deferred `Delete` (repair F35).  `Entry.validUntil` is an `Int`: "never" is a time later than any a
    history reaches (2^62 ns, about 146 years after the epoch of the scenario). -/
def never : Int := 4611686018427387904

/-- `Do` up to the call of `do(req)` on the sending slot of the request's token: the slot afterwards and the message
    handed to `do` (`none`: `Do` returned an error; its deferred `Delete` is already applied). -/
def doStartS (cfg : Cfg) (snd : Option Entry) (now : Int) (r : Msg) : Option Entry × Option Msg :=
  if cfg.szx > 7 then (snd, none) else
  if r.tok = 0 then (snd, none) else
  let expire := match r.deadline with | some d => d | none => never   -- `expire, _ := r.Context().Deadline()`
  let (snd1, loaded) := storeIfAbsent snd ⟨r, expire⟩ now
  if loaded then (snd, none) else
  let len := r.body.length
  if fits doDirectIsLe len (sizeN cfg.szx) then (snd1, some r) else
  if !isPostPut r.code then (none, none) else
  if len ≥ 4294967296 then (none, none) else
  match encodeBlock cfg.szx 0 true with
  | .error _ => (none, none)
  | .ok v => (snd1, some { r with size1 := some len, block1 := some v, body := r.body.take (bufLen cfg.szx cfg.maxSize) })

def doStart (ep : Endpoint) (now : Int) (r : Msg) : Endpoint × Option Msg :=
  let (snd, m) := doStartS ep.toCfg (ep.sending r.tok) now r
  ({ ep with sending := ep.sending.put r.tok snd }, m)

/-- the deferred `sendingMessagesCache.Delete(token)` of `Do` -/
def doFinish (ep : Endpoint) (tok : Nat) : Endpoint := { ep with sending := ep.sending.put tok none }

/-- `startSendingMessage(w, maxSZX, maxMessageSize, block)` on the sending slot of the response's token;
    `.error` = an error is returned (slot unchanged). -/
def startSendingS (cfg : Cfg) (snd : Option Entry) (now : Int) (w : Option Msg) (maxSZX block : Nat) :
    Except Unit (Option Entry × Option Msg) :=
  match w with
  | none => .ok (snd, none)          -- BodySize of the untouched response is 0
  | some m =>
    if fits startDirectIsLe m.body.length (sizeN maxSZX) then .ok (snd, some m) else
    match createSendingFirst m maxSZX cfg.maxSize block with
    | none => .error ()
    | some (sm, _) =>
      let expire := match sm.deadline with | some d => d | none => now + cfg.expiration
      let (snd1, loaded) := storeIfAbsent snd ⟨m, expire⟩ now
      if loaded then .error () else .ok (snd1, some sm)

/-- `WriteMessage(request, maxSZX, maxMessageSize, writeMessage)`: the message handed to `writeMessage`, or `none`. -/
def writeMessage (ep : Endpoint) (now : Int) (r : Msg) : Endpoint × Option Msg :=
  match encodeBlock ep.szx 0 true with
  | .error _ => (ep, none)
  | .ok blk =>
    match startSendingS ep.toCfg (ep.sending r.tok) now (some r) ep.szx blk with
    | .error _ => (ep, none)
    | .ok (snd, w) => ({ ep with sending := ep.sending.put r.tok snd }, w)

/-- `continueSendingMessage`: the next block of the cached message, chosen by the block option of `r`. -/
def continueSendingS (cfg : Cfg) (snd : Option Entry) (r : Msg) (code : Nat) : Option (Msg × Bool) :=
  match r.block (sendBT code) with
  | none => none
  | some blk =>
    match snd with                       -- LoadWithFunc: no expiry test
    | none => none
    | some e => createSending e.msg cfg.szx cfg.maxSize blk

/-! ### receiver side -/

abbrev App := Msg → Option Msg

/-- `next(w, r)`: the handler may fill in the response; the response writer keeps the token the connection gave it
    (the token of the message being handled). -/
def next (app : App) (w : Option Msg) (r : Msg) : Option Msg :=
  match app r with
  | some x => some { x with tok := r.tok }
  | none => w

def wantsToBeReceived (r : Msg) : Bool :=
  if r.block1.isSome && isPostPut r.code then true
  else if r.block2.isSome && isRequest r.code then false
  else if r.code == codeContinue then false
  else true

/-- ETag handling of `getPayloadFromCachedReceivedMessage` on the cached message `c` -/
def applyEtag (r c : Msg) : Msg :=
  match r.etag, c.etag with
  | some _, none => c
  | none, some _ => c
  | re, ce =>
    if re = ce then c
    else if restartTakesNewOptions then { r with body := [], tok := c.tok, deadline := c.deadline }
    else { c with etag := re, body := [] }

/-- `requestsFollowingBlock2(r)`: `r` asks for a block of the response other than the first -/
def requestsFollowingBlock2 (r : Msg) : Bool :=
  match r.block2 with
  | none => false
  | some v =>
    match decodeBlock v with
    | .error _ => false
    | .ok (_, num, _) => decide (num > 0)

/-- result of the receive path: slots, response writer, messages handed to `next`, "an error is returned" -/
structure HR where
  sl : Slots
  w : Option Msg := none
  delivered : List Msg := []
  failed : Bool := false

def continueMsg (tok : Nat) : Msg := { code := codeContinue, tok := tok }
def entityIncomplete (tok : Nat) : Msg := { code := codeRequestEntityIncomplete, tok := tok }
/-- request for the next Block2 block, built from the request that was sent -/
def nextRequest (sent : Msg) : Msg := { sent with block1 := none, size1 := none, body := [], deadline := none }

/-- the cached message after a block was looked at: ETag handling, restart on the first block, then the block's payload
    is appended iff the block starts exactly where the held bytes end (`copyToPayloadFromOffset` at `off == payloadSize`) -/
def blockBase (r c0 : Msg) (off : Nat) : Msg :=
  -- (F10e) a block at offset 0 (re)starts the transfer: nothing of an abandoned one is kept, options and code are the block's
  if block0Restarts = true ∧ off = 0 then { r with body := [], tok := c0.tok, deadline := c0.deadline } else applyEtag r c0

def absorb (r c0 : Msg) (off : Nat) : Msg × Bool :=
  let c := blockBase r c0 off
  if off = c.body.length then ({ c with body := c.body ++ r.body }, true) else (c, false)

/-- the answer that asks for / acknowledges a block: 2.31 Continue for Block1, the sent request again for Block2
    (`none`: an error is returned instead) -/
def blockReply (bt : BT) (sent : Option Msg) (tok szx num held : Nat) (more : Bool) : Option Msg :=
  match bt, sent with
  | .b2, some s =>
    let num' := held / sizeN szx
    if refusesBodylessRestart && decide (num' = 0) && isPostPut s.code then none else
    match encodeBlock szx (num' : Int) more with
    | .error _ => none
    | .ok v => some ((nextRequest s).setBlock .b2 v)
  | _, _ =>
    match encodeBlock szx (num : Int) more with
    | .error _ => none
    | .ok v => some ((continueMsg tok).setBlock bt v)

/-- `processReceivedMessage(w, r, maxSzx, next, blockType, sizeType)` -/
def processReceived (cfg : Cfg) (sl : Slots) (now : Int) (w : Option Msg) (r : Msg) (maxSzx : Nat) (app : App) (bt : BT) : HR :=
  let pass : HR := { sl := sl, w := next app w r, delivered := [r] }
  let fail : HR := { sl := sl, w := w, failed := true }
  if r.tok = 0 then pass else
  if r.code = codeGET ∨ r.code = codeDELETE then pass else
  match r.block bt with
  | none => if refusesLostContinuation = true ∧ bt = .b1 ∧ requestsFollowingBlock2 r = true then fail else pass
  | some blk =>
  match decodeBlock blk with
  | .error _ => fail
  | .ok (szx0, num, more) =>
    let sent := sl.snd.map (·.msg)            -- getSentRequest (LoadWithFunc: no expiry test)
    let validUntil := match sent.bind (·.deadline) with | some d => d | none => now + cfg.expiration
    if bt = .b2 ∧ sent.isNone then fail else
    match live sl.rcv now with
    | none =>
      if more = false then
        -- nothing is held and no block follows: the message is handed on as it is
        if shortcutNeedsNum0 = true ∧ num > 0 then fail else pass
      else
        let szx := getSzx szx0 maxSzx
        let (c2, _) := absorb r { r with body := [] } (num * sizeN szx)
        match blockReply bt sent r.tok szx num c2.body.length more with
        | none => { sl := { sl with rcv := none }, w := w, failed := true }
        | some m => { sl := { sl with rcv := some ⟨c2, validUntil⟩ }, w := some m }
    | some ent =>
      let (c2, appended) := absorb r ent.msg (num * sizeN szx0)
      if appended = true ∧ more = false then
        let d := c2.removeBlockSize bt
        { sl := { sl with rcv := none }, w := next app w d, delivered := [d] }
      else
        match blockReply bt sent r.tok (getSzx szx0 maxSzx) num c2.body.length more with
        | none => { sl := { sl with rcv := none }, w := w, failed := true }
        | some m => { sl := { sl with rcv := some ⟨c2, ent.validUntil⟩ }, w := some m }

def isSignal (c : Nat) : Bool :=
  c == codeEmpty || c == codeCSM || c == codePing || c == codePong || c == codeRelease || c == codeAbort

/-- the `startSendingMessage` call that ends `handleReceivedMessage` -/
def finishReceived (cfg : Cfg) (now : Int) (h : HR) (mx blk : Nat) : HR :=
  if h.failed then h else
  match startSendingS cfg h.sl.snd now h.w mx blk with
  | .error _ => { h with failed := true }
  | .ok (snd, w') => { h with sl := { h.sl with snd := snd }, w := w' }

/-- `handleReceivedMessage` -/
def handleReceived (cfg : Cfg) (sl : Slots) (now : Int) (r : Msg) (app : App) : HR :=
  match encodeBlock cfg.szx 0 true with
  | .error _ => { sl := sl, failed := true }
  | .ok startBlk =>
    if isSignal r.code then { sl := sl, w := next app none r, delivered := [r] } else
    if r.code = codeGET ∨ r.code = codeDELETE then
      let mx := fitSZX r .b2 cfg.szx
      let w1 := next app none r
      let blk := match r.block2, w1 with
        | some b, some m => if m.code = codeContent then b else startBlk
        | _, _ => startBlk
      finishReceived cfg now { sl := sl, w := w1, delivered := [r] } mx blk
    else if isPostPut r.code then
      let mx := fitSZX r .b1 cfg.szx
      finishReceived cfg now (processReceived cfg sl now none r mx app .b1) mx startBlk
    else
      let mx := fitSZX r .b2 cfg.szx
      finishReceived cfg now (processReceived cfg sl now none r mx app .b2) mx startBlk

/-- what one call of `Handle` does besides changing the caches -/
structure Out where
  reply : Option Msg := none        -- the response writer's message, if it was touched (the connection sends it)
  delivered : List Msg := []        -- calls of `next`
  err : Bool := false               -- the `errors` callback was invoked
  deriving DecidableEq, Repr

/-- `Handle` on the slots of the message's token -/
def handleS (cfg : Cfg) (sl : Slots) (now : Int) (r : Msg) (app : App) : Slots × Out :=
  let recv : Slots × Out :=
    let h := handleReceived cfg sl now r app
    if h.failed then (h.sl, { reply := some (entityIncomplete r.tok), delivered := h.delivered, err := true })
    else (h.sl, { reply := h.w, delivered := h.delivered })
  if r.tok = 0 then recv else
  match live sl.snd now with
  | none => recv
  | some e =>
    if wantsToBeReceived r then recv else
    match continueSendingS cfg sl.snd r e.msg.code with
    | none => ({ sl with snd := none }, { err := true })
    | some (sm, more) =>
      (if more = false ∧ e.msg.code > codeDELETE then { sl with snd := none } else sl, { reply := some sm })

/-- `Handle(w, r, maxSZX, maxMessageSize, next)` with `maxSZX`, `maxMessageSize` of the endpoint -/
def handle (ep : Endpoint) (now : Int) (r : Msg) (app : App) : Endpoint × Out :=
  let (sl, out) := handleS ep.toCfg (ep.slots r.tok) now r app
  (ep.put r.tok sl, out)

/-! ### one endpoint under an arbitrary sequence of arrivals -/

/-- what can happen to one endpoint: the network hands it a message at some time (any message, any order, any
    number of times — this is what delivery, duplication, loss, reordering and replay amount to for the receiver),
    or its caches are swept -/
inductive Arrival
  | msg (now : Int) (r : Msg)
  | sweep (now : Int)

def Endpoint.step (app : App) (ep : Endpoint) : Arrival → Endpoint × List Msg
  | .msg now r => ((handle ep now r app).1, (handle ep now r app).2.delivered)
  | .sweep now => (sweep ep now, [])

/-- the endpoint after the arrivals, and every message it handed to its application, in order -/
def Endpoint.run (app : App) : Endpoint → List Arrival → Endpoint × List Msg
  | ep, [] => (ep, [])
  | ep, a :: as => ((Endpoint.run app (ep.step app a).1 as).1, (ep.step app a).2 ++ (Endpoint.run app (ep.step app a).1 as).2)

/-! ### two endpoints and a relay -/

inductive Side | A | B
  deriving DecidableEq, Repr

def Side.other : Side → Side
  | .A => .B
  | .B => .A

structure Packet where
  dst : Side
  msg : Msg
  deriving DecidableEq, Repr

/-- a `Do` call of endpoint A waiting for its response -/
structure Pending where
  tok : Nat
  deadline : Option Int
  deriving DecidableEq, Repr

inductive Event
  | wire (src : Side) (m : Msg)          -- `src` handed `m` to the network
  | arrive (dst : Side) (m : Msg)        -- the network handed `m` to `dst`
  | deliver (dst : Side) (m : Msg)       -- the layer of `dst` handed `m` to the application (`next`)
  | ret (tok : Nat) (resp : Option Msg)  -- A's `Do` returned: the response, or `none` for an error
  | wret (src : Side) (tok : Nat) (ok : Bool)   -- `WriteMessage` returned
  | errcb (dst : Side)                   -- the layer's `errors` callback ran
  deriving Repr

structure World where
  a : Endpoint
  b : Endpoint
  appB : App
  now : Int := 0
  queue : List Packet := []       -- in flight, oldest first
  hist : List Packet := []        -- every message that left the queue (delivered or dropped), oldest first
  pending : List Pending := []

/-- the relay's choice for the oldest message in flight (or an old one) -/
inductive Fault
  | deliver
  | dup                 -- deliver it and keep a copy in flight
  | drop
  | swap                -- exchange the two oldest messages in flight
  | replay (k : Nat)    -- deliver the k-th message of the history again
  deriving DecidableEq, Repr

def World.ep (w : World) : Side → Endpoint
  | .A => w.a
  | .B => w.b

def World.setEp (w : World) : Side → Endpoint → World
  | .A, e => { w with a := e }
  | .B, e => { w with b := e }

/-- a message as the network carries it (contexts stay behind) -/
def onWire (m : Msg) : Msg := { m with deadline := none }

/-- A's application: the token handler of a pending `Do` takes the first message delivered for its token. -/
def completeDo (w : World) (m : Msg) : World × List Event :=
  if w.pending.any (·.tok == m.tok) then
    ({ w with pending := w.pending.filter (·.tok != m.tok), a := doFinish w.a m.tok }, [.ret m.tok (some m)])
  else (w, [])

/-- … for every message handed to A's application by one `Handle` call, in order -/
def completeAll : World → List Msg → World × List Event
  | w, [] => (w, [])
  | w, m :: ms => ((completeAll (completeDo w m).1 ms).1, (completeDo w m).2 ++ (completeAll (completeDo w m).1 ms).2)

/-- the application of a side: A's never answers what it is handed, B's is `appB` -/
def World.appOf (w : World) : Side → App
  | .A => fun _ => none
  | .B => w.appB

/-- the pending calls that the messages handed to the application of side `s` complete (only A has callers) -/
def World.afterDeliveries (w : World) (s : Side) (ds : List Msg) : World × List Event :=
  match s with
  | .A => completeAll w ds
  | .B => (w, [])

def World.enqueue (w : World) (p : Packet) : World := { w with queue := w.queue ++ [p] }

/-- the network hands `p.msg` to `p.dst`: one `Handle` call, its reply goes in flight -/
def World.recv (w : World) (p : Packet) : World × List Event :=
  let res := handle (w.ep p.dst) w.now p.msg (w.appOf p.dst)
  let fin := (w.setEp p.dst res.1).afterDeliveries p.dst res.2.delivered
  let evs := [Event.arrive p.dst p.msg] ++ res.2.delivered.map (Event.deliver p.dst) ++ fin.2 ++
    (if res.2.err then [Event.errcb p.dst] else [])
  match res.2.reply with
  | some m => (fin.1.enqueue ⟨p.dst.other, onWire m⟩, evs ++ [Event.wire p.dst (onWire m)])
  | none => (fin.1, evs)

def World.fault (w : World) : Fault → World × List Event
  | .deliver =>
    match w.queue with
    | [] => (w, [])
    | p :: q => World.recv { w with queue := q, hist := w.hist ++ [p] } p
  | .dup =>
    match w.queue with
    | [] => (w, [])
    | p :: _ => World.recv { w with hist := w.hist ++ [p] } p
  | .drop =>
    match w.queue with
    | [] => (w, [])
    | p :: q => ({ w with queue := q, hist := w.hist ++ [p] }, [])
  | .swap =>
    match w.queue with
    | p :: p' :: q => ({ w with queue := p' :: p :: q }, [])
    | _ => (w, [])
  | .replay k =>
    match w.hist[k]? with
    | some p => World.recv w p
    | none => (w, [])

/-- the application of A calls `Do(r)` -/
def World.startDo (w : World) (r : Msg) : World × List Event :=
  match doStart w.a w.now r with
  | (a', some m) =>
    ({ w with a := a', queue := w.queue ++ [⟨.B, onWire m⟩], pending := w.pending ++ [⟨r.tok, r.deadline⟩] },
     [.wire .A (onWire m)])
  | (a', none) => ({ w with a := a' }, [.ret r.tok none])

/-- the application of `s` calls `WriteMessage(r)` (one-way) -/
def World.startWrite (w : World) (s : Side) (r : Msg) : World × List Event :=
  match writeMessage (w.ep s) w.now r with
  | (e', some m) =>
    ({ w.setEp s e' with queue := w.queue ++ [⟨s.other, onWire m⟩] }, [.wire s (onWire m), .wret s r.tok true])
  | (e', none) => (w.setEp s e', [.wret s r.tok false])

/-- virtual time advances; `Do` calls whose context deadline is reached return with an error -/
def World.sleep (w : World) (d : Int) : World × List Event :=
  let now := w.now + d
  let due := w.pending.filter (fun p => match p.deadline with | some t => decide (t ≤ now) | none => false)
  let a' := due.foldl (fun a p => doFinish a p.tok) w.a
  ({ w with now := now, a := a',
            pending := w.pending.filter (fun p => match p.deadline with | some t => decide (now < t) | none => true) },
   due.map (fun p => Event.ret p.tok none))

def World.tick (w : World) (s : Side) : World := w.setEp s (sweep (w.ep s) w.now)

/-- what can happen in the two-endpoint system: the relay decides about a message, the client's application starts a
    request/response call or a one-way write, time passes, the caches of a side are swept -/
inductive Op
  | fault (f : Fault)
  | doReq (r : Msg)
  | writeReq (r : Msg)
  | sleep (d : Int)
  | tick (s : Side)

def World.op (w : World) : Op → World × List Event
  | .fault f => w.fault f
  | .doReq r => w.startDo r
  | .writeReq r => w.startWrite .A r
  | .sleep d => w.sleep d
  | .tick s => (w.tick s, [])

/-- the system after a script of operations (every fault sequence is one), and everything that was observed -/
def World.run : World → List Op → World × List Event
  | w, [] => (w, [])
  | w, o :: os => ((World.run (w.op o).1 os).1, (w.op o).2 ++ (World.run (w.op o).1 os).2)

end CoapVerif.Model.Blockwise
