import CoapVerif.Model.Blockwise
/-!
C04, tenth seeded round: a request/response call WITHOUT a deadline that its application abandons.

`World.sleep` ends the pending `Do` calls whose context deadline is reached.  A call whose context has no deadline
(`Msg.deadline = none`: its entry in the sending cache never expires, and the reassembly entry of its response lives for
the layer's transfer timeout, `processReceived`: `validUntil = now + cfg.expiration`) ends when the application cancels the
context: `Do` returns an error and its deferred `Delete` removes the request from the sending cache — nothing else.  In
particular the partly reassembled response stays in the receiving cache until the transfer timeout: the state a later
request under the same token finds (RFC 7959 section 2.5: its first block has to restart the reassembly).
-/
namespace CoapVerif.Model.Blockwise

/-- the application of A cancels the context of its pending call for `tok` -/
def World.cancel (w : World) (tok : Nat) : World × List Event :=
  if w.pending.any (·.tok == tok) then
    ({ w with pending := w.pending.filter (·.tok != tok), a := doFinish w.a tok }, [.ret tok none])
  else (w, [])

end CoapVerif.Model.Blockwise
