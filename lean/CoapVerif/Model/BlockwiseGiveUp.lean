import CoapVerif.Generated.SyncShape
import CoapVerif.Generated.SyncCallSites
/-!
C04, eleventh seeded round: the END of a `BlockWise.Do` call against a continuation that is being handled at that moment.

`Model/Blockwise.lean` treats one `Handle` call as one atomic step (`handleS`) and `doFinish` as another.  For the guard of
a reassembly entry that assumption has its own obligation (`guard_held_across_handler`); for the SENDING entry of a pending
`Do` it rests on the table's lock: `continueSendingMessage` looks at the caller's request — `createSendingMessage` seeks and
reads the request's body — inside the callback of `sync.Map.LoadWithFunc`, which runs under the map's read lock, and `Do`
removes its entry with `Delete` (write lock) before it returns.  This file makes that a model of its own, two threads and
the RW lock, whose shape is READ from the regenerated facts:

* `Generated/SyncShape.lean` (critical-section structure of pkg/sync/map.go): is the callback of `LoadWithFunc` inside the
  read-locked section (`cbUnderReadLock`), is `Delete` one write-locked section (`deleteUnderWriteLock`);
* `Generated/SyncCallSites.lean`: `BlockWise.Do` ends with a deferred `Delete` on `sendingMessagesCache`, and
  `continueSendingMessage` calls `createSendingMessage` inside `LoadWithFunc` on the same field (`doEndsWithDelete`,
  `continuationReadsInsideCallback`).

Threads (each `step` is one atomic action; a step that cannot be taken — the lock is not available — leaves the state as it is):

  continuation  c0 —RLock (no writer)→ c1 —look the entry up→ c2 —callback: Seek in the caller's body (if found)→ c3
                —callback: Read from the caller's body→ c4 —RUnlock→ c5.
                If the callback is NOT under the lock the RUnlock happens at c2 (→ c2u) and the callback follows.
  caller (Do)   d0 —context ended; Lock (no reader, no writer)→ d1 —delete the entry→ d2 —Unlock→ d3 —Do returns→ d4 —
                the application uses its body again (retry: Seek)→ d5 (… Read) → d5.

An access of the layer to the caller's body is an event `layer afterReturn`, `afterReturn` = the caller is at d4 or later.
-/
namespace CoapVerif.Model.BlockwiseGiveUp
open CoapVerif.Generated

def sectionsOf (m : String) : List SyncShape.Section := (SyncShape.mapMethods.lookup m).getD []

/-- pkg/sync/map.go: `LoadWithFunc` = one read-locked section: look-up, then the callback -/
def cbUnderReadLock : Bool := sectionsOf "LoadWithFunc" == [(.r, [.read, .cb "onLoadFunc"])]

/-- pkg/sync/map.go: `Delete` = one write-locked section -/
def deleteUnderWriteLock : Bool := sectionsOf "Delete" == [(.w, [.delete])]

/-- net/blockwise: `Do` ends (deferred) with `Delete` on the sending cache -/
def doEndsWithDelete : Bool :=
  SyncCallSites.calls.any fun c => c.fn == "BlockWise.Do" && c.field == "sendingMessagesCache" && c.method == "Delete" && c.deferred

/-- net/blockwise: the continuation builds its block (`createSendingMessage`: Seek / Read of the request's body) inside the
    callback of `LoadWithFunc` on the sending cache -/
def continuationReadsInsideCallback : Bool :=
  SyncCallSites.calls.any fun c => c.fn == "BlockWise.continueSendingMessage" && c.field == "sendingMessagesCache" &&
    c.method == "LoadWithFunc" && c.inside.contains "createSendingMessage"

inductive CPc | c0 | c1 | c2 | c2u | c3 | c4 | c5
  deriving DecidableEq, Repr
inductive DPc | d0 | d1 | d2 | d3 | d4 | d5
  deriving DecidableEq, Repr

structure St where
  cont : CPc := .c0
  found : Bool := false
  caller : DPc := .d0
  deriving DecidableEq, Repr

/-- shape of the table's methods: callback under the read lock / Delete exclusive -/
structure Shape where
  held : Bool
  excl : Bool

def St.rlocked (sh : Shape) (s : St) : Bool :=
  s.cont == .c1 || s.cont == .c2 || (sh.held && (s.cont == .c3 || s.cont == .c4))
def St.wlocked (s : St) : Bool := s.caller == .d1 || s.caller == .d2
/-- the entry `Do` registered is in the table until `Do`'s `Delete` has run -/
def St.entry (s : St) : Bool := s.caller == .d0 || s.caller == .d1
def St.returned (s : St) : Bool := s.caller == .d4 || s.caller == .d5

inductive Ev
  | layer (afterReturn : Bool)   -- the layer seeks / reads in the caller's body
  | owner                        -- the application does, after `Do` has returned
  deriving DecidableEq, Repr

inductive Thread | cont | caller
  deriving DecidableEq, Repr

def stepCont (sh : Shape) (s : St) : St × List Ev :=
  match s.cont with
  | .c0 => if s.wlocked then (s, []) else ({ s with cont := .c1 }, [])
  | .c1 => ({ s with cont := .c2, found := s.entry }, [])
  | .c2 =>
    if sh.held then
      if s.found then ({ s with cont := .c3 }, [.layer s.returned]) else ({ s with cont := .c4 }, [])
    else ({ s with cont := .c2u }, [])
  | .c2u => if s.found then ({ s with cont := .c3 }, [.layer s.returned]) else ({ s with cont := .c5 }, [])
  | .c3 => ({ s with cont := .c4 }, [.layer s.returned])
  | .c4 => ({ s with cont := .c5 }, [])
  | .c5 => (s, [])

def stepCaller (sh : Shape) (s : St) : St × List Ev :=
  match s.caller with
  | .d0 => if s.wlocked || (sh.excl && s.rlocked sh) then (s, []) else ({ s with caller := .d1 }, [])
  | .d1 => ({ s with caller := .d2 }, [])
  | .d2 => ({ s with caller := .d3 }, [])
  | .d3 => ({ s with caller := .d4 }, [])
  | .d4 => ({ s with caller := .d5 }, [.owner])
  | .d5 => (s, [.owner])

def step (sh : Shape) (s : St) : Thread → St × List Ev
  | .cont => stepCont sh s
  | .caller => stepCaller sh s

/-- a schedule = which thread takes the next action -/
def run (sh : Shape) : St → List Thread → St × List Ev
  | s, [] => (s, [])
  | s, t :: ts =>
    let r := step sh s t
    let r' := run sh r.1 ts
    (r'.1, r.2 ++ r'.2)

/-- the shape of the tree the facts were regenerated from -/
def codeShape : Shape := { held := cbUnderReadLock, excl := deleteUnderWriteLock }

/-- the judged outcome: the layer touched the caller's body after `Do` had returned -/
def touchedAfterReturn (es : List Ev) : Bool := es.any fun e => e == .layer true

/-- … and that touch lies between two accesses of the application itself (the retry's Seek and its Read): the retry
    reads from where the stale access left the position -/
def interleavedWithOwner : List Ev → Bool
  | .owner :: .layer true :: .owner :: _ => true
  | _ :: es => interleavedWithOwner es
  | [] => false

end CoapVerif.Model.BlockwiseGiveUp
