import CoapVerif.Model.Blockwise
/-!
The Observe branch of `net/blockwise/blockwise.go` (RFC 7959 §2.6), on top of `Model/Blockwise.lean`.

What `Model/Blockwise.lean` leaves out and this module adds — each item is a line of the source:

* `getSentRequest`: the request a block-wise response is paired with comes from the sending cache of the message's token
  (`LoadWithFunc`: no expiry test) or, if there is none, from `getSentRequestFromOutside` (the connection's observation
  table) — here a parameter `Outside`.
* `isObserveResponse(r)` (an Observe option is present and `code >= 2.01`; `DecodeUint32` never fails) →
  `handleObserveResponse(sentRequest)`: no sent request → error ("observation is not registered"); `message.GetToken()` —
  here the parameter `fresh`, ANY value; `validUntil := now + expiration`; `cloneMessage(sentRequest)` (code, options,
  context — no body) with the fresh token is stored in the SENDING cache under the fresh token by `LoadOrStore`; a live
  entry under that key → error ("message with token already exist").  From `tokenStr := token.Hash()` on, everything
  (`receivingMessagesCache.Load / LoadOrStore / Delete`, `sendMessage.SetToken(token)`) is keyed by the fresh token, while
  the reassembly message is built from `r` and so keeps the ORIGINAL token.
* `sendMessage.Remove(message.Observe)` on every follow-up request (with `Remove(Block1)`, `Remove(Size1)`, which
  `nextRequest` already does).
* on completion: `if !bytes.Equal(cachedReceivedMessage.Token(), token) { b.sendingMessagesCache.Delete(tokenStr) }` — the
  clone of the request is dropped together with the reassembly entry.
* `startSendingMessage`: an observe response that goes out block-wise is NOT stored in the sending cache
  (`if isObserveResponse(w.Message()) { …; return nil }`): the client fetches the rest with GETs under a new token.

One `Handle` call now touches the slots of up to two keys (the message's token and the fresh token); the functions here
therefore work on the whole `Endpoint` (caches are functions key → entry, updated in program order, so a fresh token that
happens to equal the message's token is followed as well).  `processReceived` of `Model/Blockwise.lean` is used as it is:
it reads the sent request only through `sl.snd.map (·.msg)` (code, deadline, and as the template of the follow-up request)
and never looks at the token of the held message.
-/
namespace CoapVerif.Model.BlockwiseObserve
open CoapVerif.Model.BlockOpt (encodeBlock decodeBlock)
open CoapVerif.Generated.BlockwiseXfer
open CoapVerif.Model.Blockwise

/-- `msg.GetOptionUint32(message.Observe)` succeeds: the option is there (its value is never refused) -/
def hasObserve (m : Msg) : Bool := m.other.any (fun o => o.1 == optObserve)

/-- `isObserveResponse(msg)` -/
def isObserveResponse (m : Msg) : Bool := hasObserve m && decide (codeCreated ≤ m.code)

/-- `Remove(message.Observe)` -/
def removeObserve (m : Msg) : Msg := { m with other := m.other.filter (fun o => o.1 != optObserve) }

/-- `getSentRequestFromOutside`: the observation table of the connection (token → registered request) -/
abbrev Outside := Nat → Option Msg

/-- `getSentRequest(token)` -/
def getSentRequest (ep : Endpoint) (outside : Outside) (tok : Nat) : Option Msg :=
  match ep.sending tok with
  | some e => some e.msg          -- LoadWithFunc: no expiry test
  | none => outside tok

/-- `bwSentRequest := b.cloneMessage(sentRequest); bwSentRequest.SetToken(token)` -/
def cloneFor (sent : Msg) (fresh : Nat) : Msg := { sent with tok := fresh, body := [] }

/-- the guards of `processReceivedMessage` in front of `getSentRequest`: token, code, block option present and decodable -/
def reachesSent (r : Msg) (bt : BT) : Bool :=
  decide (r.tok ≠ 0) && !(decide (r.code = codeGET) || decide (r.code = codeDELETE)) &&
  (match r.block bt with
   | none => false
   | some blk => match decodeBlock blk with | .ok _ => true | .error _ => false)

/-- result of the receive path on an endpoint -/
structure ResO where
  ep : Endpoint
  w : Option Msg := none
  delivered : List Msg := []
  failed : Bool := false
  drew : Bool := false            -- `message.GetToken()` was called (the fresh token is used up)

/-- what is written back under key `key` after `processReceived` ran on its receiving slot: the receiving slot as
    `processReceived` left it; the sending slot is deleted when a reassembly completed (`hadLive`, something was handed on)
    whose message carries another token than the key's (`bytes.Equal` line) -/
def writeBack (ep : Endpoint) (key : Nat) (hadLive : Bool) (h : HR) : Endpoint :=
  let foreign := hadLive && h.delivered.any (fun d => d.tok != key)
  ep.put key ⟨if foreign then none else ep.sending key, h.sl.rcv⟩

/-- `processReceivedMessage(w, r, maxSzx, next, blockType, sizeType)` with the observe branch.  `bt = .b1` is only used for
    POST/PUT (never an observe response: `isObserveResponse_postPut`). -/
def processReceivedO (ep : Endpoint) (outside : Outside) (fresh : Nat) (now : Int) (w : Option Msg) (r : Msg)
    (maxSzx : Nat) (app : App) (bt : BT) : ResO :=
  let cfg := ep.toCfg
  let sent := getSentRequest ep outside r.tok
  match sent with
  | some s =>
    if reachesSent r bt = true ∧ bt = .b2 ∧ isObserveResponse r = true then
      -- handleObserveResponse(sentRequest)
      let (snd1, loaded) := storeIfAbsent (ep.sending fresh) ⟨cloneFor s fresh, now + cfg.expiration⟩ now
      if loaded then { ep := ep, w := w, failed := true, drew := true } else
      let ep1 : Endpoint := { ep with sending := ep.sending.put fresh snd1 }
      -- from `tokenStr := token.Hash()` on: key = fresh token, validUntil = now + expiration, follow-ups carry the fresh token
      let h := processReceived cfg ⟨some ⟨removeObserve { s with tok := fresh, deadline := none }, 0⟩, ep1.receiving fresh⟩ now w r maxSzx app bt
      { ep := writeBack ep1 fresh (live (ep1.receiving fresh) now).isSome h, w := h.w, delivered := h.delivered, failed := h.failed, drew := true }
    else
      let h := processReceived cfg ⟨some ⟨removeObserve s, 0⟩, ep.receiving r.tok⟩ now w r maxSzx app bt
      { ep := writeBack ep r.tok (reachesSent r bt && (live (ep.receiving r.tok) now).isSome) h, w := h.w, delivered := h.delivered, failed := h.failed }
  | none =>
    let h := processReceived cfg ⟨none, ep.receiving r.tok⟩ now w r maxSzx app bt
    { ep := writeBack ep r.tok (reachesSent r bt && (live (ep.receiving r.tok) now).isSome) h, w := h.w, delivered := h.delivered, failed := h.failed }

/-- `startSendingMessage`: as `startSendingS`, but an observe response that is cut into blocks is not stored -/
def startSendingSO (cfg : Cfg) (snd : Option Entry) (now : Int) (w : Option Msg) (maxSZX block : Nat) :
    Except Unit (Option Entry × Option Msg) :=
  match w with
  | none => .ok (snd, none)
  | some m =>
    if fits startDirectIsLe m.body.length (sizeN maxSZX) then .ok (snd, some m) else
    match createSendingFirst m maxSZX cfg.maxSize block with
    | none => .error ()
    | some (sm, _) =>
      if isObserveResponse sm then .ok (snd, some sm)      -- RFC 7959 §2.6: not stored
      else startSendingS cfg snd now w maxSZX block

/-- the `startSendingMessage` call that ends `handleReceivedMessage`: on the sending slot of the response's token -/
def finishReceivedO (now : Int) (h : ResO) (mx blk : Nat) : ResO :=
  if h.failed then h else
  match h.w with
  | none => h
  | some m =>
    match startSendingSO h.ep.toCfg (h.ep.sending m.tok) now h.w mx blk with
    | .error _ => { h with failed := true }
    | .ok (snd, w') => { h with ep := { h.ep with sending := h.ep.sending.put m.tok snd }, w := w' }

/-- `handleReceivedMessage` -/
def handleReceivedO (ep : Endpoint) (outside : Outside) (fresh : Nat) (now : Int) (r : Msg) (app : App) : ResO :=
  match encodeBlock ep.szx 0 true with
  | .error _ => { ep := ep, failed := true }
  | .ok startBlk =>
    if isSignal r.code then { ep := ep, w := next app none r, delivered := [r] } else
    if r.code = codeGET ∨ r.code = codeDELETE then
      let mx := fitSZX r .b2 ep.szx
      let w1 := next app none r
      let blk := match r.block2, w1 with
        | some b, some m => if m.code = codeContent then b else startBlk
        | _, _ => startBlk
      finishReceivedO now { ep := ep, w := w1, delivered := [r] } mx blk
    else if isPostPut r.code then
      let mx := fitSZX r .b1 ep.szx
      finishReceivedO now (processReceivedO ep outside fresh now none r mx app .b1) mx startBlk
    else
      let mx := fitSZX r .b2 ep.szx
      finishReceivedO now (processReceivedO ep outside fresh now none r mx app .b2) mx startBlk

/-- `Handle(w, r, maxSZX, maxMessageSize, next)`; the last component says whether the fresh token was drawn -/
def handleO (ep : Endpoint) (outside : Outside) (fresh : Nat) (now : Int) (r : Msg) (app : App) : Endpoint × Out × Bool :=
  let recv : Endpoint × Out × Bool :=
    let h := handleReceivedO ep outside fresh now r app
    if h.failed then (h.ep, { reply := some (entityIncomplete r.tok), delivered := h.delivered, err := true }, h.drew)
    else (h.ep, { reply := h.w, delivered := h.delivered }, h.drew)
  if r.tok = 0 then recv else
  match live (ep.sending r.tok) now with
  | none => recv
  | some _ =>
    if wantsToBeReceived r then recv else
    -- continueSendingMessage: nothing of the above is involved
    ((handle ep now r app).1, (handle ep now r app).2, false)

/-- `WriteMessage` (one-way), with `startSendingSO` -/
def writeMessageO (ep : Endpoint) (now : Int) (r : Msg) : Endpoint × Option Msg :=
  match encodeBlock ep.szx 0 true with
  | .error _ => (ep, none)
  | .ok blk =>
    match startSendingSO ep.toCfg (ep.sending r.tok) now (some r) ep.szx blk with
    | .error _ => (ep, none)
    | .ok (snd, w) => ({ ep with sending := ep.sending.put r.tok snd }, w)

/-! ### one endpoint under an arbitrary sequence of arrivals, each with the token `GetToken` would return -/

inductive ArrivalO
  | msg (now : Int) (r : Msg) (fresh : Nat)
  | sweep (now : Int)

def stepO (app : App) (outside : Outside) (ep : Endpoint) : ArrivalO → Endpoint × List Msg
  | .msg now r fresh => ((handleO ep outside fresh now r app).1, (handleO ep outside fresh now r app).2.1.delivered)
  | .sweep now => (sweep ep now, [])

def runO (app : App) (outside : Outside) : Endpoint → List ArrivalO → Endpoint × List Msg
  | ep, [] => (ep, [])
  | ep, a :: as => ((runO app outside (stepO app outside ep a).1 as).1, (stepO app outside ep a).2 ++ (runO app outside (stepO app outside ep a).1 as).2)

/-! ### two endpoints and the relay, with observation tables and a scripted token source -/

structure OWorld where
  w : World
  outA : Outside := fun _ => none
  outB : Outside := fun _ => none
  freshQ : List Nat := []          -- tokens `GetToken` returns next (scripted) …
  freshBase : Nat := 0             -- … and afterwards `freshBase + drawn`
  drawn : Nat := 0

def OWorld.outside (o : OWorld) : Side → Outside
  | .A => o.outA
  | .B => o.outB

def OWorld.nextFresh (o : OWorld) : Nat :=
  match o.freshQ with
  | t :: _ => t
  | [] => o.freshBase + o.drawn

def OWorld.consume (o : OWorld) (drew : Bool) : OWorld :=
  if drew then
    match o.freshQ with
    | _ :: q => { o with freshQ := q }
    | [] => { o with drawn := o.drawn + 1 }
  else o

/-- `World.recv` with `handleO` -/
def OWorld.recv (o : OWorld) (p : Packet) : OWorld × List Event :=
  let w := o.w
  let res := handleO (w.ep p.dst) (o.outside p.dst) o.nextFresh w.now p.msg (w.appOf p.dst)
  let fin := (w.setEp p.dst res.1).afterDeliveries p.dst res.2.1.delivered
  let evs := [Event.arrive p.dst p.msg] ++ res.2.1.delivered.map (Event.deliver p.dst) ++ fin.2 ++
    (if res.2.1.err then [Event.errcb p.dst] else [])
  let o' := o.consume res.2.2
  match res.2.1.reply with
  | some m => ({ o' with w := fin.1.enqueue ⟨p.dst.other, onWire m⟩ }, evs ++ [Event.wire p.dst (onWire m)])
  | none => ({ o' with w := fin.1 }, evs)

def OWorld.fault (o : OWorld) : Fault → OWorld × List Event
  | .deliver =>
    match o.w.queue with
    | [] => (o, [])
    | p :: q => OWorld.recv { o with w := { o.w with queue := q, hist := o.w.hist ++ [p] } } p
  | .dup =>
    match o.w.queue with
    | [] => (o, [])
    | p :: _ => OWorld.recv { o with w := { o.w with hist := o.w.hist ++ [p] } } p
  | .drop =>
    match o.w.queue with
    | [] => (o, [])
    | p :: q => ({ o with w := { o.w with queue := q, hist := o.w.hist ++ [p] } }, [])
  | .swap =>
    match o.w.queue with
    | p :: p' :: q => ({ o with w := { o.w with queue := p' :: p :: q } }, [])
    | _ => (o, [])
  | .replay k =>
    match o.w.hist[k]? with
    | some p => OWorld.recv o p
    | none => (o, [])

/-- the application of `s` calls `WriteMessage(r)` (one-way) -/
def OWorld.startWrite (o : OWorld) (s : Side) (r : Msg) : OWorld × List Event :=
  match writeMessageO (o.w.ep s) o.w.now r with
  | (e', some m) =>
    ({ o with w := { o.w.setEp s e' with queue := o.w.queue ++ [⟨s.other, onWire m⟩] } }, [.wire s (onWire m), .wret s r.tok true])
  | (e', none) => ({ o with w := o.w.setEp s e' }, [.wret s r.tok false])

end CoapVerif.Model.BlockwiseObserve
