import CoapVerif.Model.Blockwise
import CoapVerif.Model.BlockwiseObserve
/-!
The two-endpoint system with the observe-aware layer (`OWorld`, `Model/BlockwiseObserve.lean`) under a script of operations:
exactly the steps the driver `Driver/C04.lean` executes for `net …` (`OWorld.fault`), `write` (`OWorld.startWrite`), `do`
(`World.startDo` on the underlying world), `sleep`, `tick`.  Same `Op` as the plain system, so that the two can be compared
script by script (`Lemmas/BlockwiseConserv.lean`).
-/
namespace CoapVerif.Model.BlockwiseObserve
open CoapVerif.Model.Blockwise

/-- an operation of the plain world that does not go through `Handle` / `startSendingMessage`, carried over -/
def OWorld.lift (o : OWorld) (r : World × List Event) : OWorld × List Event := ({ o with w := r.1 }, r.2)

def OWorld.op (o : OWorld) : Op → OWorld × List Event
  | .fault f => o.fault f
  | .doReq r => o.lift (o.w.startDo r)
  | .writeReq r => o.startWrite .A r
  | .sleep d => o.lift (o.w.sleep d)
  | .tick s => o.lift (o.w.tick s, [])

/-- the observe-aware system after a script of operations, and everything that was observed -/
def OWorld.run : OWorld → List Op → OWorld × List Event
  | o, [] => (o, [])
  | o, x :: xs => ((OWorld.run (o.op x).1 xs).1, (o.op x).2 ++ (OWorld.run (o.op x).1 xs).2)

end CoapVerif.Model.BlockwiseObserve
