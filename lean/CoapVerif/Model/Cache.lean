import CoapVerif.Model.SyncMap
import CoapVerif.Model.SyncSystem
/-!
Model of `pkg/cache/cache.go` (after the F8 repair: the sweep removes a key only inside one write-locked section that
re-checks that the stored element is still the expired element it saw) on top of the model of `pkg/sync.Map`, and the
implementation record (`impl`) that the concurrent system of `Model/SyncSystem.lean` runs.

`Cache` embeds `*sync.Map`, so all `Map` methods are also `Cache` methods (values are `*Element`: identity + expiry time).
`time.Now()` is read in the same atomic step as the adjacent critical section (the clock is part of the shared state; a
`tick` operation of any thread advances it).
-/
namespace CoapVerif.Model.Cache
open CoapVerif.Spec.SeqMap (Val Entries RFn Res Op)
open CoapVerif.Generated.SyncShape (Lock Prim Section)
open CoapVerif.Model.SyncMap CoapVerif.Model.SyncSystem

/-- `LoadAndDeleteAll` does not clear the Go map, it **replaces** it (`m.data = make(...)`) and hands the old map object to
    its caller.  A `Range` that is under way keeps iterating the map object it started on (`for … range m.data` evaluates
    `m.data` once).  So the shared state records which map object is current (`gen`) and keeps the replaced ones (`old`). -/
structure MState where
  data : Entries                      -- Map.data (the current map object)
  now : Nat                           -- the clock
  gen : Nat := 0                      -- how often the map object was replaced
  old : List (Nat × Entries) := []    -- the replaced map objects, by generation
  deriving DecidableEq, Repr

/-- the map object of generation `g` -/
def iterData (d : MState) (g : Nat) : Entries := if g = d.gen then d.data else (d.old.lookup g).getD []

/-- `Cache.LoadOrStore(key, e)`: `now := time.Now()`, then one `ReplaceWithFunc` section -/
def cacheLoadOrStoreSection (k : Nat) (e : Val) (now : Nat) (m : Entries) : Entries × Res :=
  match mget k m with
  | some o =>
    if o.expired now then (mset k e m, .stored e false)      -- expired: replaced by e; `actual != e` is false
    else (mset k o m, .stored o (o != e))                     -- kept (written back); loaded = `actual != e`
  | none => (mset k e m, .stored e false)

/-- `Cache.Load(key)`: one `Map.Load` section, then the expiry test against `time.Now()` -/
def cacheLoadSection (k : Nat) (now : Nat) (m : Entries) : Res :=
  match mget k m with
  | some o => .opt (if o.expired now then none else some o)
  | none => .opt none

/-- the write-locked section of the repaired sweep for one visited pair `(k, e)`:
    `removed = oldLoaded && oldValue == value && oldValue.IsExpired(now); return oldValue, removed || !oldLoaded` -/
def expireSection (k : Nat) (e : Val) (t : Nat) (m : Entries) : Entries × Bool :=
  match mget k m with
  | some o => if o = e ∧ o.expired t then (merase k m, true) else (mset k o m, false)
  | none => (merase k m, false)

/-- What a program invokes: an operation and, for the two iterating calls, the oracle for Go's map iteration (the keys
    the iterator will try to produce, in order; iteration ends at the first key that is not in the map, or when the
    oracle is exhausted). -/
structure Call where
  op : Op
  oracle : List Nat := []
  deriving DecidableEq, Repr

/-- local state of a running call -/
inductive L
  | single (op : Op)                                                   -- about to run its only section
  | rangeStart (stop : Option Nat) (oracle : List Nat)                 -- Range: about to RLock and start `range m.data`
  | range (stop : Option Nat) (acc : Entries) (oracle : List Nat) (g : Nat)   -- … about to RLock and advance the iterator (of map object g)
  | rangeStop (acc : Entries)                                          -- callback returned false: RLock, return
  | sweepStart (t : Option Nat) (oracle : List Nat)                    -- CheckExpirations(now): now = t, or the clock read here; first RLock
  | sweepIter (t : Nat) (acc : List Val) (oracle : List Nat) (g : Nat) -- about to RLock and advance the iterator
  | sweepExpire (t : Nat) (k : Nat) (e : Val) (acc : List Val) (oracle : List Nat) (g : Nat)   -- saw (k, e) expired: about to Lock
  deriving DecidableEq, Repr

def start (c : Call) : L :=
  match c.op with
  | .range stop _ _ => .rangeStart stop c.oracle
  | .sweep t => .sweepStart t c.oracle
  | op => .single op

def view (c : Call) : Op :=
  match c.op with
  | .range stop _ _ => .range stop [] none
  | .sweep t => .sweep t
  | op => op

/-- one read-locked step of an iteration: the next key the iterator produces and its current value -/
def advance (oracle : List Nat) (m : Entries) : Option (Nat × Val × List Nat) :=
  match oracle with
  | [] => none
  | c :: cs => (mget c m).map (fun v => (c, v, cs))

/-- after `Range`'s iterator produced `(c, e)` at time `t`: the callback of `CheckExpirations` (outside the lock) -/
def sweepAfterVisit (t : Nat) (c : Nat) (e : Val) (acc : List Val) (cs : List Nat) (g : Nat) : L :=
  if e.expired t then .sweepExpire t c e acc cs g else .sweepIter t acc cs g

/-- `Range`: one read-locked step (advance the iterator of map object `g` once, then the callback outside the lock) -/
def rangeStep (stop : Option Nat) (acc : Entries) (oracle : List Nat) (g : Nat) (d : MState) : MState × (L ⊕ Res) :=
  match advance oracle (iterData d g) with
  | none => (d, .inr (.visits acc))                               -- iterator exhausted: deferred RUnlock, return
  | some (c, v, cs) =>
    let acc' := acc ++ [(c, v)]
    if stop = some acc'.length then (d, .inl (.rangeStop acc'))    -- f returned false
    else (d, .inl (.range stop acc' cs g))

def sweepStep (t : Nat) (acc : List Val) (oracle : List Nat) (g : Nat) (d : MState) : MState × (L ⊕ Res) :=
  match advance oracle (iterData d g) with
  | none => (d, .inr .unit)
  | some (c, e, cs) => (d, .inl (sweepAfterVisit t c e acc cs g))

/-- one atomic step -/
def step (l : L) (d : MState) : MState × (L ⊕ Res) :=
  match l with
  | .single op =>
    match op with
    | .cacheLoadOrStore k e =>
      let r := cacheLoadOrStoreSection k e d.now d.data
      ({ d with data := r.1 }, .inr r.2)
    | .cacheLoad k => (d, .inr (cacheLoadSection k d.now d.data))
    | .tick n => ({ d with now := d.now + n }, .inr .unit)
    | .loadAndDeleteAll =>
      -- data := m.data; m.data = make(map[K]V): the old map object lives on (in the hands of the caller and of iterators)
      ({ d with data := [], gen := d.gen + 1, old := (d.gen, d.data) :: d.old }, .inr (.dump (canon d.data)))
    | op =>
      match mapSection op d.data with
      | some (m', r) => ({ d with data := m' }, .inr r)
      | none => (d, .inr .unit)      -- not a single-section operation (never started as `single`)
  | .rangeStart stop oracle => rangeStep stop [] oracle d.gen d
  | .range stop acc oracle g => rangeStep stop acc oracle g d
  | .rangeStop acc => (d, .inr (.visits acc))
  | .sweepStart t oracle => sweepStep (t.getD d.now) [] oracle d.gen d
  | .sweepIter t acc oracle g => sweepStep t acc oracle g d
  | .sweepExpire t k e acc cs g =>
    let r := expireSection k e t d.data
    ({ d with data := r.1 }, .inl (.sweepIter t (if r.2 then acc ++ [e] else acc) cs g))

def impl : Impl MState Call L := { view := view, start := start, step := step }

/-- elements handed to `onExpire` so far by a running sweep (for the correspondence runs) -/
def L.expiredSoFar : L → List Val
  | .sweepIter _ acc _ _ => acc
  | .sweepExpire _ _ _ acc _ _ => acc
  | _ => []

def cacheShapes : List (String × List Section) := [
  ("LoadOrStore", [(.none, [.clock, .call "ReplaceWithFunc", .argBegin, .expiry, .argEnd])]),
  ("Load", [(.none, [.call "Load", .expiry, .clock])]),
  ("CheckExpirations", [(.none, [.call "Range", .argBegin, .expiry, .call "ReplaceWithFunc", .argBegin, .expiry, .argEnd,
      .cb "onExpire", .argEnd])])
]

end CoapVerif.Model.Cache
