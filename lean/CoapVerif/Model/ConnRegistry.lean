import CoapVerif.Generated.BlockingWaits
/-!
# Model of the registry of accepted connections (`pkg/connections`) at the end of `Serve` (C09)

The stream and DTLS servers hand every accepted connection to a `connections.Connections`; `Serve` ends with
`defer connections.Close()` and `defer wg.Wait()`: after `Stop()` the registry's `Close()` is the only thing that
unblocks the readers of the accepted connections (they sit in `Read` on silent peers), and `Serve` returns only when every
reader has left.

A connection's `Close()` releases the transport *whatever it reports*: a `tls.Conn` / pion conn whose close_notify alert can
not be delivered to a failed peer closes the socket and returns an error.  `closeFails` is that fault; it is an input of the
model, for every connection independently.
-/
namespace CoapVerif.Model.ConnRegistry

/-- one registered connection: its transport is still open (its reader sits in `Read`), and whether its `Close()` reports an
error (it releases the transport in both cases) -/
structure Conn where
  opened : Bool
  closeFails : Bool
  deriving Repr, DecidableEq

/-- `cc.Close()`: the transport is released; the result says whether an error was reported -/
def Conn.close (c : Conn) : Conn × Bool := ({ c with opened := false }, c.closeFails)

/-- `Connections.Close()` whose loop nothing leaves early: every connection of the snapshot is closed, what a `Close()`
reports is dropped -/
def closeAll : List Conn → List Conn
  | [] => []
  | c :: cs => c.close.1 :: closeAll cs

/-- the other shape: the loop is left at the first `Close()` that reports an error -/
def closeUntilError : List Conn → List Conn
  | [] => []
  | c :: cs => if c.close.2 then c.close.1 :: cs else c.close.1 :: closeUntilError cs

/-- `Connections.Close()` in the shape the source has (`registryCloseVisitsAll`, read from the AST on every run) -/
def registryClose (cs : List Conn) : List Conn :=
  if CoapVerif.Generated.BlockingWaits.registryCloseVisitsAll then closeAll cs else closeUntilError cs

/-- the readers that are still in `Read` (their transport is open): `wg.Wait()` of `Serve` waits for exactly these -/
def readersLeft (cs : List Conn) : Nat := (cs.filter (·.opened)).length

/-- `Serve` returns after `Stop()`: the registry has been closed and no reader is left -/
def serveReturns (cs : List Conn) : Bool := readersLeft (registryClose cs) == 0

end CoapVerif.Model.ConnRegistry
