import CoapVerif.Generated.Dedup
import CoapVerif.Spec.Dedup
/-!
Model of the request path of `udp/client/conn.go` for C05: `Process` (checkMyMessageID) →
`handleReq` (per-MID lock ⇒ one atomic step per arrival; `checkResponseCache`; `handle`;
`processResponse` with its four cases and the key each stores under (the empty / reset reply is cached
since the F28 fix; whether it is comes from the regenerated `emptyReplyCached`)) →
`ProcessReceivedMessageWithHandler` / `writeMessageAsync`, the response cache
(`messageCache` over `pkg/cache`: `Load` misses on an expired entry, `LoadOrStore` keeps an
unexpired entry, `CheckExpirations` removes `now.After(validUntil)`), and the own message-ID counter
(`GetMessageID`, one increment per call site, including the unused ones).

The lifetime, the store key and the MID-guard constants are parameters here; `run` instantiates them
with the values regenerated from /repo (`Generated/Dedup.lean`).
-/
namespace CoapVerif.Model.Dedup
open CoapVerif.Spec.Dedup

structure Params where
  lifetime : Nat
  storeKeyIsRequestMID : Bool
  emptyReplyCached : Bool
  midGuard : Nat
  midJump : Nat
  midJumpOnNon : Bool := false

/-- A cached reply (the marshalled response message) and its deadline. -/
structure CEntry where
  reply : Dgram
  validUntil : Nat
  deriving Repr, DecidableEq

structure State where
  now : Nat
  msgID : Nat                        -- Conn.msgID (uint32)
  cache : List (Nat × CEntry)        -- responseMsgCache, key = decimal MID
  nexec : Nat                        -- handler invocations so far
  sep : List (List UInt8 × Nat)      -- separate responses the application still has to send
  trace : List Obs                   -- arrivals, most recent first
  deriving Repr

inductive Ev
  | recv (typ : RType) (mid : Nat) (tok : List UInt8) (beh : Beh) (dur : Nat)
  | sleep (d : Nat)
  | tick
  | flush
  deriving Repr

/-- What one event made visible: handler invocations and datagrams written. -/
structure Out where
  ran : List Nat
  sent : List Dgram
  deriving Repr

def u16 (n : Nat) : Nat := n % 65536
def u32 (n : Nat) : Nat := n % 4294967296

/-- `NewConnWithOpts`: `msgID.Store(uint32(cfg.GetMID() - 0xffff/2))` (int32 → uint32 conversion wraps). -/
def initMsgID (getMID offset : Nat) : Nat := u32 (getMID + 4294967296 - offset)

def init (msgID : Nat) : State := ⟨0, msgID, [], 0, [], []⟩

/-- `cache.Load` + `Element.IsExpired`: a hit needs an entry that is not `now.After(validUntil)`. -/
def lookupRaw (c : List (Nat × CEntry)) (mid : Nat) : Option CEntry :=
  match c.find? (fun p => p.1 == mid) with
  | some p => some p.2
  | none => none

def lookup (c : List (Nat × CEntry)) (now mid : Nat) : Option CEntry :=
  match lookupRaw c mid with
  | some e => if now ≤ e.validUntil then some e else none
  | none => none

/-- `cache.LoadOrStore`: an unexpired entry is kept, otherwise the new one replaces it. -/
def store (c : List (Nat × CEntry)) (now key : Nat) (e : CEntry) : List (Nat × CEntry) :=
  match lookup c now key with
  | some _ => c
  | none => (key, e) :: c.filter (fun p => p.1 != key)

/-- `cache.CheckExpirations`. -/
def sweep (c : List (Nat × CEntry)) (now : Nat) : List (Nat × CEntry) :=
  c.filter (fun p => now ≤ p.2.validUntil)

/-- `checkMyMessageID` (in `Process`; for confirmable messages and — `midJumpOnNon`, repair F37 — non-confirmable ones: both
    carry a message ID of the peer's own; one jump always suffices). -/
def checkMyMessageID (P : Params) (typ : RType) (mid msgID : Nat) : Nat :=
  let moved := if u16 (mid + 65536 - u16 msgID) ≥ P.midGuard then msgID else u32 (msgID + P.midJump)
  match typ with
  | .con => moved
  | .non => if P.midJumpOnNon then moved else msgID

def digits (n : Nat) : List UInt8 := (Nat.repr n).toList.map (fun c => UInt8.ofNat c.toNat)

/-- The response as the handler left it in the response writer. -/
structure Wr where
  code : Nat
  opts : List (Nat × List UInt8)
  pay : List UInt8
  rst : Bool := false     -- the handler set the type to Reset (`w.Message().SetType(message.Reset)`)

def seqBytes (n start : Nat) : List UInt8 := (List.range n).map (fun i => UInt8.ofNat (start + i))

/-- The unknown option numbers the harness handlers `ox` (elective: even numbers) and `oc` (critical: odd numbers) add. -/
def electiveOpts : List (Nat × List UInt8) :=
  [(252, seqBytes 8 0x10), (292, []), (292, seqBytes 20 0x40), (65000, seqBytes 300 0)]
def criticalOpts : List (Nat × List UInt8) := [(2049, [0x61, 0x62]), (2049, []), (65001, seqBytes 14 0x70)]
def mixedOpts : List (Nat × List UInt8) :=
  [(252, seqBytes 8 0x10), (292, []), (292, seqBytes 20 0x40), (2049, [0x61, 0x62]), (2049, []), (65000, seqBytes 300 0),
   (65001, seqBytes 14 0x70)]

/-- `Options.Add` (`AddOptionBytes`): the option goes behind the last one whose number is not greater. -/
def insertOpt (o : Nat × List UInt8) : List (Nat × List UInt8) → List (Nat × List UInt8)
  | [] => [o]
  | p :: r => if p.1 ≤ o.1 then p :: insertOpt o r else o :: p :: r

/-- What the harness handler writes for each behaviour (`none`: the writer is left unmodified). -/
def handlerWr (beh : Beh) (n : Nat) : Option Wr :=
  match beh with
  | .pb => some { code := 69, opts := [(12, [])], pay := digits n }
  | .blk => some { code := 69, opts := [(12, [])], pay := digits n }
  | .pbe => some { code := 132, opts := [], pay := [] }
  | .empty => some { code := 0, opts := [], pay := [] }
  | .rst => some { code := 0, opts := [], pay := [], rst := true }
  | .rstc => some { code := 132, opts := [], pay := [], rst := true }
  | .ox => some { code := 69, opts := (12, []) :: electiveOpts, pay := digits n }
  | .oc => some { code := 69, opts := (12, []) :: criticalOpts, pay := digits n }
  | .oxc => some { code := 69, opts := (12, []) :: mixedOpts, pay := digits n }
  | .ov id len => some { code := 69, opts := insertOpt (id, seqBytes len 0x21) [(12, [])], pay := digits n }
  | .none => none
  | .sep => none

def dupType : RType → MType
  | .con => .ack
  | .non => .non

/-- `processResponse`: the new value of the own-ID counter and, if something is to be written, the
    response message together with whether it is put into the response cache. -/
def respond (emptyCached : Bool) (typ : RType) (mid : Nat) (tok : List UInt8) (w : Option Wr) (msgID : Nat) : Nat × Option (Dgram × Bool) :=
  match w with
  | some w =>
    if w.code = 0 || w.rst then
      -- isPongOrResetResponse (code 0.00, or type Reset whatever the code): cached like any other reply since the F28 fix
      -- (`emptyCached` is read from the source); a Reset to a NON request keeps its type
      match typ with
      | .con => (msgID, some (⟨.ack, w.code, mid, tok, w.opts, w.pay⟩, emptyCached))
      | .non => (u32 (msgID + 1), some (⟨if w.rst then .rst else .non, w.code, u16 (msgID + 1), tok, w.opts, w.pay⟩, emptyCached))
    else
      -- `SetMessageID(cc.GetMessageID())` runs before the confirmable case overrides type and MID
      match typ with
      | .con => (u32 (msgID + 1), some (⟨.ack, w.code, mid, tok, w.opts, w.pay⟩, true))
      | .non => (u32 (msgID + 1), some (⟨.con, w.code, u16 (msgID + 1), tok, w.opts, w.pay⟩, true))
  | none =>
    match typ with
    | .con => (msgID, some (⟨.ack, 0, mid, [], [], []⟩, true))   -- sendJustAcknowledgeMessage: bare ACK
    | .non => (msgID, none)                                       -- nothing is sent

/-- The handler's own confirmable message in the `blk` behaviour (`WriteMessage`: one `GetMessageID`). -/
def nestedOf (beh : Beh) (tok : List UInt8) (n msgID : Nat) : Nat × List Dgram :=
  match beh with
  | .blk => (u32 (msgID + 1), [⟨.con, 69, u16 (msgID + 1), nestedTok tok, [], digits n⟩])
  | _ => (msgID, [])

def sepOf (beh : Beh) (tok : List UInt8) (n : Nat) (sep : List (List UInt8 × Nat)) : List (List UInt8 × Nat) :=
  match beh with
  | .sep => sep ++ [(tok, n)]
  | _ => sep

/-- One arrival, atomic per message ID (the per-MID mutex of `handleReq`). -/
def recv (P : Params) (s : State) (typ : RType) (mid : Nat) (tok : List UInt8) (beh : Beh) (dur : Nat) : State × Out :=
  let msgID0 := checkMyMessageID P typ mid s.msgID
  match lookup s.cache s.now mid with
  | some e =>
    -- checkResponseCache: cached reply, re-addressed to this copy; written by writeMessageAsync (one GetMessageID)
    let r : Dgram := { e.reply with mid := mid, typ := dupType typ }
    let o : Obs := ⟨s.now, dur, typ, mid, tok, beh, [], [r]⟩
    ({ s with msgID := u32 (msgID0 + 1), trace := o :: s.trace }, ⟨[], [r]⟩)
  | none =>
    let n := s.nexec + 1
    let nm := nestedOf beh tok n msgID0
    let now' := s.now + dur
    let rc := respond P.emptyReplyCached typ mid tok (handlerWr beh n) nm.1
    let cache' := match rc.2 with
      | some (r, true) => store s.cache now' (if P.storeKeyIsRequestMID then mid else r.mid) ⟨r, now' + P.lifetime⟩
      | _ => s.cache
    -- ProcessReceivedMessageWithHandler: a modified response is written by writeMessageAsync (one GetMessageID)
    let msgID3 := match rc.2 with
      | some _ => u32 (rc.1 + 1)
      | none => rc.1
    let sent := match rc.2 with
      | some (r, _) => nm.2 ++ [r]
      | none => nm.2
    let o : Obs := ⟨s.now, dur, typ, mid, tok, beh, [n], sent⟩
    ({ now := now', msgID := msgID3, cache := cache', nexec := n, sep := sepOf beh tok n s.sep, trace := o :: s.trace }, ⟨[n], sent⟩)

/-- The application sends its pending separate responses as NON messages through `Conn.WriteMessage`
    (`writeMessage` and `writeMessageAsync` each call `GetMessageID`; the first value is used). -/
def flush (s : State) : State × Out :=
  let (m, ds) := s.sep.foldl (fun (acc : Nat × List Dgram) p =>
      (u32 (acc.1 + 2), acc.2 ++ [⟨.non, 69, u16 (acc.1 + 1), p.1, [], digits p.2⟩])) (s.msgID, [])
  ({ s with msgID := m, sep := [] }, ⟨[], ds⟩)

def step (P : Params) (s : State) : Ev → State × Out
  | .recv typ mid tok beh dur => recv P s typ mid tok beh dur
  | .sleep d => ({ s with now := s.now + d }, ⟨[], []⟩)
  | .tick => ({ s with cache := sweep s.cache s.now }, ⟨[], []⟩)
  | .flush => flush s

def runFrom (P : Params) (s : State) (evs : List Ev) : State := evs.foldl (fun s e => (step P s e).1) s

/-- Parameters as the code has them today (regenerated from /repo on every run). -/
def params : Params :=
  ⟨Generated.Dedup.exchangeLifetimeNs, Generated.Dedup.storeKeyIsRequestMID, Generated.Dedup.emptyReplyCached,
   Generated.Dedup.midGuard, Generated.Dedup.midJump, Generated.Dedup.midJumpOnNon⟩

def run (msgID : Nat) (evs : List Ev) : State := runFrom params (init msgID) evs

end CoapVerif.Model.Dedup
