import CoapVerif.Generated.Dedup
/-!
Interleaving model of the critical section of `udp/client/conn.go: handleReq` for C05's clause "even when the
copies are processed concurrently": two goroutines each process one copy of the same request (same message ID).
Each runs the program

    lock(msgIDMutex[mid]) ; check cache ; (miss: run handler ; store reply) ; reply ; unlock

one statement per step, under an arbitrary schedule.  Whether the lock / unlock statements are there is the
regenerated shape fact `Generated.Dedup.handleReqLockedPerMID` (without them `lock` and `unlock` are plain steps).
-/
namespace CoapVerif.Model.DedupLock

inductive PC | idle | locked | miss | handled | replied | done
  deriving Repr, DecidableEq

structure State where
  pa : PC                  -- goroutine A
  pb : PC                  -- goroutine B
  lock : Option Bool       -- holder of the per-MID mutex (false = A, true = B)
  cached : Bool            -- a reply for this message ID is in the response cache
  runs : Nat               -- handler executions
  deriving Repr, DecidableEq

/-- Both copies arrive; `cached0` says whether an earlier copy was already answered. -/
def init (cached0 : Bool) : State := ⟨.idle, .idle, none, cached0, 0⟩

def pc (s : State) (t : Bool) : PC := if t then s.pb else s.pa
def setPc (s : State) (t : Bool) (p : PC) : State := if t then { s with pb := p } else { s with pa := p }

/-- One statement of goroutine `t`. A goroutine waiting for the mutex does not move. -/
def step (useLock : Bool) (s : State) (t : Bool) : State :=
  match pc s t with
  | .idle =>
    if useLock then
      match s.lock with
      | none => setPc { s with lock := some t } t .locked
      | some _ => s
    else setPc s t .locked
  | .locked => if s.cached then setPc s t .replied else setPc s t .miss      -- checkResponseCache
  | .miss => setPc { s with runs := s.runs + 1 } t .handled                   -- cc.handle: the application handler
  | .handled => setPc { s with cached := true } t .replied                    -- processResponse: addResponseToCache
  | .replied => setPc (if useLock then { s with lock := none } else s) t .done   -- deferred Unlock
  | .done => s

def exec (useLock : Bool) (s : State) (sched : List Bool) : State := sched.foldl (step useLock) s

/-- The program as the code has it today. -/
def run (cached0 : Bool) (sched : List Bool) : State := exec Generated.Dedup.handleReqLockedPerMID (init cached0) sched

end CoapVerif.Model.DedupLock
