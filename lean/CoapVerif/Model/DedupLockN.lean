
/-!
Interleaving model of `udp/client/conn.go: handleReq` over the **modelled `MutexMap`** (`udp/client/mutexmap.go`) for C05's
clause "even when the copies are processed concurrently" — any number of goroutines, any number of message IDs.

Every goroutine processes one copy of a request (its message ID is `G.key`) and runs the program

    l, ok := msgIDMutex.TryLock(mid)            -- start   (entry for mid in the map?  no: create it, count 1, its mutex taken)
    if !ok { TryToReplaceLoop(); l = msgIDMutex.Lock(mid) }
                                                -- retry   (under the map lock: find or create the entry, count++)
                                                -- waiting (entry.el.Lock(): blocks while the entry's mutex is taken)
    defer l.Unlock()
    checkResponseCache                          -- locked  (hit: reply := cached reply)
    handle                                      -- miss    (the application handler runs; its reply is a value)
    processResponse / addResponseToCache        -- handled (LoadOrStore: an entry that is there is kept)
    (reply written)                             -- replied
    l.Unlock():  under the map lock: e := ma[mid] (panic if none); e.cnt--; if e.cnt < 1 { delete(ma, mid) }
                                                -- replied → unlocking
                 e.el.Unlock()                  -- unlocking → done

one statement per step, under an arbitrary schedule (`List Ev`).  The sections of `MutexMap` that run under the map lock
`ml` (they do not block inside) are one step each.  Copies **arrive** at arbitrary points of the schedule (`Ev.arrive`), the
reply-cache entry of a message ID can **expire** at arbitrary points (`Ev.expire`: the lifetime sweep / `Load` of an
expired element), the Go scheduler's choice of who gets a released mutex is the schedule's choice (a waiting goroutine whose
turn comes while the mutex is taken does not move).

Entries of the map are heap objects (`mutexMapEntry` pointers): `heap k e` is the `e`-th entry ever created for key `k`
(an entry carries its key — `mutexMapEntry.key` —, so the pair is the pointer), `ma k` is the entry the map holds for `k`.
That a goroutine waiting for / holding an entry's mutex always refers to the entry that is in the map is *not* built in:
it is the theorem about the reference count (`Lemmas/DedupLockN.lean`).  The count is a `uint16` in the code; the model
counts in `Nat` (fewer than 65 536 goroutines referring to one key at a time — trusted).

Both shapes of the regenerated facts are programs of this model: `useLock` (`handleReqLockedPerMID`: without it `start`
and `replied` are plain steps) and `tryFirst` (`copyWaitsAfterHandover`: without it `start` is `Lock` directly).  The
configuration the code has today (`Model/DedupLockNCfg.lean`: `cfg`, `run`) is read from `Generated/Dedup.lean`; this file and
the invariant proof do not depend on the generated facts.

The reply of an execution is a value: the index of the goroutine that ran the handler.  `runs k` lists the executions for `k`.
-/
namespace CoapVerif.Model.DedupLockN

inductive PC
  | start | retry | waiting (e : Nat) | locked | miss | handled (v : Nat) | replied (v : Nat)
  | unlocking (e v : Nat) | done (v : Nat) | panicked | gone
  deriving Repr, DecidableEq

/-- One goroutine: the message ID of its copy and where it is. -/
structure G where
  key : Nat
  pc : PC
  deriving Repr, DecidableEq

/-- `mutexMapEntry`: reference count and the entry's own mutex `el` (who holds it). -/
structure Entry where
  cnt : Nat
  held : Option Nat
  deriving Repr, DecidableEq

structure State where
  gs : List G                    -- the goroutines, in order of arrival
  ma : Nat → Option Nat          -- MutexMap.ma: key → entry
  heap : Nat → Nat → Entry       -- the entries ever created, per key
  next : Nat → Nat               -- how many were created per key
  cache : Nat → Option Nat       -- response cache: message ID → reply value
  runs : Nat → List Nat          -- handler executions per message ID (who ran it), most recent first
  exps : Nat → Nat               -- expiries per message ID

structure Cfg where
  useLock : Bool
  tryFirst : Bool

inductive Ev
  | arrive (k : Nat)   -- a copy with message ID k arrives: a new goroutine
  | step (i : Nat)     -- goroutine i executes its next statement
  | expire (k : Nat)   -- the cached reply for k is gone (lifetime)
  | pad                -- a slot that never does anything (keeps the numbering in projections)
  | nop
  deriving Repr, DecidableEq

def upd {α : Type} (f : Nat → α) (k : Nat) (v : α) : Nat → α := fun x => if x = k then v else f x

def init (c0 : Nat → Option Nat) : State :=
  ⟨[], fun _ => none, fun _ _ => ⟨0, none⟩, fun _ => 0, c0, fun _ => [], fun _ => 0⟩

def setPc (s : State) (i k : Nat) (p : PC) : State := { s with gs := s.gs.set i ⟨k, p⟩ }

def setEntry (s : State) (k e : Nat) (en : Entry) : State := { s with heap := upd s.heap k (upd (s.heap k) e en) }

/-- A new entry for `k` is put into the map. -/
def newEntry (s : State) (k : Nat) (en : Entry) : State :=
  { setEntry s k (s.next k) en with ma := upd s.ma k (some (s.next k)), next := upd s.next k (s.next k + 1) }

/-- `MutexMap.Lock`, the part under the map lock: find or create the entry, count one more reference. -/
def lockRef (s : State) (i k : Nat) : State :=
  match s.ma k with
  | some e => setPc (setEntry s k e { s.heap k e with cnt := (s.heap k e).cnt + 1 }) i k (.waiting e)
  | none => setPc (newEntry s k ⟨1, none⟩) i k (.waiting (s.next k))

/-- `mutexMapEntry.Unlock`, the part under the map lock. -/
def unlockRef (s : State) (i k v : Nat) : State :=
  match s.ma k with
  | none => setPc s i k .panicked
  | some e =>
    let cnt' := (s.heap k e).cnt - 1
    let s1 := setEntry s k e { s.heap k e with cnt := cnt' }
    setPc (if cnt' < 1 then { s1 with ma := upd s1.ma k none } else s1) i k (.unlocking e v)

/-- One statement of goroutine `i` (which is `g`). -/
def stepG (c : Cfg) (s : State) (i : Nat) (g : G) : State :=
  let k := g.key
  match g.pc with
  | .start =>
    if c.useLock then
      if c.tryFirst then
        match s.ma k with
        | some _ => setPc s i k .retry                                   -- TryLock: somebody holds or waits
        | none => setPc (newEntry s k ⟨1, some i⟩) i k .locked            -- TryLock: new entry, its mutex taken
      else lockRef s i k
    else setPc s i k .locked
  | .retry => lockRef s i k
  | .waiting e =>
    match (s.heap k e).held with
    | none => setPc (setEntry s k e { s.heap k e with held := some i }) i k .locked
    | some _ => s
  | .locked =>
    match s.cache k with
    | some v => setPc s i k (.replied v)
    | none => setPc s i k .miss
  | .miss => setPc { s with runs := upd s.runs k (i :: s.runs k) } i k (.handled i)
  | .handled v =>
    match s.cache k with
    | some _ => setPc s i k (.replied v)
    | none => setPc { s with cache := upd s.cache k (some v) } i k (.replied v)
  | .replied v => if c.useLock then unlockRef s i k v else setPc s i k (.done v)
  | .unlocking e v => setPc (setEntry s k e { s.heap k e with held := none }) i k (.done v)
  | .done _ => s
  | .panicked => s
  | .gone => s

def step (c : Cfg) (s : State) : Ev → State
  | .arrive k => { s with gs := s.gs ++ [⟨k, .start⟩] }
  | .step i =>
    match s.gs[i]? with
    | some g => stepG c s i g
    | none => s
  | .expire k => { s with cache := upd s.cache k none, exps := upd s.exps k (s.exps k + 1) }
  | .pad => { s with gs := s.gs ++ [⟨0, .gone⟩] }
  | .nop => s

def exec (c : Cfg) (s : State) (sched : List Ev) : State := sched.foldl (step c) s

/-- Can goroutine `g` move in `s`?  (Only a goroutine waiting for a taken mutex cannot, and one that is through.) -/
def runnable (s : State) (g : G) : Bool :=
  match g.pc with
  | .waiting e => (s.heap g.key e).held.isNone
  | .done _ | .panicked | .gone => false
  | _ => true

/-- A goroutine that has arrived and is not through. -/
def live (g : G) : Bool :=
  match g.pc with
  | .done _ | .panicked | .gone => false
  | _ => true

end CoapVerif.Model.DedupLockN
