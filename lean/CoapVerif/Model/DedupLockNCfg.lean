import CoapVerif.Generated.Dedup
import CoapVerif.Model.DedupLockN
/-! The n-goroutine model of `handleReq` (`Model/DedupLockN.lean`) with the program shape the code has today, as regenerated
from /repo: with the per-message-ID lock iff `handleReqLockedPerMID` **and** `mutexMapRefCounted` (`udp/client/mutexmap.go` has the
shape the model's `TryLock` / `Lock` / `Unlock` statements follow; were it anything else, the lock statements of the model would not
be the code's and the program counts as unlocked), `TryLock` before `Lock` iff `copyWaitsAfterHandover`. -/
namespace CoapVerif.Model.DedupLockN

def cfg : Cfg :=
  ⟨Generated.Dedup.handleReqLockedPerMID && Generated.Dedup.mutexMapRefCounted, Generated.Dedup.copyWaitsAfterHandover⟩

/-- Any schedule of arrivals, statements and expiries, from an empty `MutexMap` and the response cache `c0`. -/
def run (c0 : Nat → Option Nat) (sched : List Ev) : State := exec cfg (init c0) sched

end CoapVerif.Model.DedupLockN
