import CoapVerif.Generated.OptionDefs
import CoapVerif.Spec.Dedup
/-!
What the response cache of `udp/client/conn.go` does to a reply between `messageCache.Store` and `messageCache.Load`: the
reply is stored as encoded bytes and decoded again for every duplicate (`pool.Message.UnmarshalWithDecoder` →
`coder.Decode` → `message.Option.Unmarshal` with the table `CoapOptionDefs`), and that decoder **skips** an option whose
number has an entry in the table and whose value length is outside the entry's limits (or whose entry says `ValueUnknown`).
Header, token, payload and every other option come back as they went in (C01's round trip).  The table is a parameter;
`served` instantiates it with the one regenerated from /repo (`Generated/OptionDefs.lean`).
-/
namespace CoapVerif.Model.DedupRecode
open CoapVerif.Spec.Dedup

/-- `Option.Unmarshal`: is the option kept? `defs` = (number, MinLen, MaxLen, ValueFormat). -/
def survives (defs : List (Nat × Nat × Nat × Nat)) (o : Nat × List UInt8) : Bool :=
  match defs.find? (fun e => e.1 == o.1) with
  | some e => e.2.2.2 != 0 && e.2.1 ≤ o.2.length && o.2.length ≤ e.2.2.1
  | none => true

def recode (defs : List (Nat × Nat × Nat × Nat)) (d : Dgram) : Dgram :=
  { d with opts := d.opts.filter (survives defs) }

/-- The reply as it comes out of the cache today. -/
def served (d : Dgram) : Dgram := recode Generated.OptionDefs.coapOptionDefs d

end CoapVerif.Model.DedupRecode
