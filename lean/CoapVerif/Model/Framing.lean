import CoapVerif.Generated.TcpFraming
/-!
Model of the stream framing path:
`tcp/coder/coder.go: DecodeHeader` (header pre-parse, short-read signalling, 64-bit length check),
`tcp/coder/coder.go: Decode` + `message/options.go: Options.Unmarshal` *as far as accept/reject and the
position of the payload are concerned* (option values/IDs are the business of C01/C02),
`tcp/client/session.go: processBuffer / seekBufferToNextMessage / Run` (accumulate-then-parse loop).
Thresholds and addends come from `Generated/TcpFraming.lean`.
-/
namespace CoapVerif.Model.Framing
open CoapVerif.Generated.TcpFraming

abbrev Bytes := List UInt8

structure Hdr where
  len : Nat      -- MessageHeader.Length: bytes of Len/TKL byte + extended length + code + token
  msgLen : Nat   -- MessageHeader.MessageLength: length of the whole frame
  code : Nat
  tkl : Nat
  deriving Repr, DecidableEq

inductive HdrRes
  | short                -- message.ErrShortRead
  | invalid              -- reserved token length, or declared length does not fit 32 bits: an error other than short read
  | ok (h : Hdr)
  deriving Repr, DecidableEq

/-- The `switch` on the Len nibble: returns (hdrOff after the extended length, opLen) or `none` = short read.
    The cases are tested in source order; a nibble matching no case leaves opLen = 0. -/
def lenField (lenNib : Nat) (rest : Bytes) : Option (Nat × Nat) :=
  if lenNib < len13Base then some (1, lenNib)
  else if lenNib = 13 then
    match rest with
    | b :: _ => some (2, len13Base + b.toNat)
    | [] => none
  else if lenNib = 14 then
    match rest with
    | b0 :: b1 :: _ => some (3, len14Base + (b0.toNat * 256 + b1.toNat))
    | _ => none
  else if lenNib = 15 then
    match rest with
    | b0 :: b1 :: b2 :: b3 :: _ => some (5, len15Base + (((b0.toNat * 256 + b1.toNat) * 256 + b2.toNat) * 256 + b3.toNat))
    | _ => none
  else some (1, 0)

/-- Second half of `Coder.DecodeHeader`, after the extended length was consumed. -/
def mkHdr (bs : Bytes) (tkl hdrOff opLen : Nat) : HdrRes :=
  if hdrOff + 1 + tkl + opLen > 4294967295 then .invalid          -- 64-bit sum does not fit uint32
  else if bs.length < hdrOff + 1 then .short                      -- code byte missing
  else if bs.length < hdrOff + 1 + tkl then .short                -- token incomplete
  else .ok ⟨hdrOff + 1 + tkl, hdrOff + 1 + tkl + opLen, (bs.getD hdrOff 0).toNat, tkl⟩

/-- `Coder.DecodeHeader`. -/
def decodeHeader (bs : Bytes) : HdrRes :=
  match bs with
  | [] => .short
  | first :: rest =>
    -- token lengths above MaxTokenSize are refused as soon as the first byte is seen (message.ErrInvalidTokenLen)
    if headerChecksTkl && first.toNat % 16 > maxTokenSize then .invalid
    else
    match lenField (first.toNat / 16) rest with
    | none => .short
    | some (hdrOff, opLen) => mkHdr bs (first.toNat % 16) hdrOff opLen

/-- `parseExtOpt`. -/
def parseExt (opt : Nat) (bs : Bytes) : Option (Nat × Bytes) :=
  if opt = extByteCode then
    match bs with
    | b :: r => some (b.toNat + extByteAddend, r)
    | [] => none
  else if opt = extWordCode then
    match bs with
    | b0 :: b1 :: r => some (b0.toNat * 256 + b1.toNat + extWordAddend, r)
    | _ => none
  else some (opt, bs)

theorem parseExt_len {opt : Nat} {bs : Bytes} {v : Nat} {r : Bytes} (h : parseExt opt bs = some (v, r)) :
    r.length ≤ bs.length := by
  unfold parseExt at h
  split at h
  · cases bs with
    | nil => simp at h
    | cons b t => simp at h; obtain ⟨_, rfl⟩ := h; simp
  · split at h
    · match bs, h with
      | b0 :: b1 :: t, h => simp at h; obtain ⟨_, rfl⟩ := h; simp; omega
    · simp at h; obtain ⟨_, rfl⟩ := h; simp

/-- `Options.Unmarshal` reduced to: does it return an error, and where does the payload start?
    `some p` = accepted with payload bytes `p` (bytes after the 0xFF marker; `[]` when there is none). -/
def walkOpts (prev : Nat) (bs : Bytes) : Option Bytes :=
  match bs with
  | [] => some []
  | b :: t =>
    if b = 0xff then some t else
    let d := b.toNat / 16
    let l := b.toNat % 16
    if d = extError ∨ l = extError then none else
    match hd : parseExt d t with
    | none => none
    | some (delta, t1) =>
      match hl : parseExt l t1 with
      | none => none
      | some (len, t2) =>
        if t2.length < len then none
        else if prev + delta > 65535 then none      -- math.SafeCastTo[OptionID] (uint16)
        else walkOpts (prev + delta) (t2.drop len)
termination_by bs.length
decreasing_by
  have h1 := parseExt_len hd
  have h2 := parseExt_len hl
  simp [List.length_drop]; omega

structure Msg where
  code : Nat
  token : Bytes
  payload : Bytes
  deriving Repr, DecidableEq

/-- `Coder.Decode` on a slice holding exactly one frame (as `processBuffer` passes it). -/
def decodeFrame (frame : Bytes) : Option Msg :=
  match decodeHeader frame with
  | .ok h =>
    if frame.length < h.msgLen then none
    else
      match walkOpts 0 (frame.drop h.len) with
      | some pay => some ⟨h.code, (frame.drop (h.len - h.tkl)).take h.tkl, pay⟩
      | none => none
  | _ => none

theorem lenField_pos {n : Nat} {r : Bytes} {a b : Nat} (h : lenField n r = some (a, b)) : 1 ≤ a := by
  unfold lenField at h
  split at h
  · simp at h; omega
  · split at h
    · split at h <;> simp at h; omega
    · split at h
      · split at h <;> simp at h; omega
      · split at h
        · split at h <;> simp at h; omega
        · simp at h; omega

theorem mkHdr_msgLen {bs : Bytes} {tkl hdrOff opLen : Nat} {h : Hdr} (e : mkHdr bs tkl hdrOff opLen = .ok h) :
    h.msgLen = hdrOff + 1 + tkl + opLen ∧ h.len = hdrOff + 1 + tkl ∧ h.tkl = tkl ∧ h.len ≤ bs.length
      ∧ h.msgLen ≤ 4294967295 := by
  unfold mkHdr at e
  split at e
  · cases e
  · split at e
    · cases e
    · split at e
      · cases e
      · injection e with e; subst e; simp; omega

theorem decodeHeader_msgLen_pos {bs : Bytes} {h : Hdr} (e : decodeHeader bs = .ok h) : 2 ≤ h.msgLen := by
  unfold decodeHeader at e
  split at e
  · cases e
  · split at e
    · cases e
    · split at e
      · cases e
      · rename_i hdrOff opLen hl
        have := lenField_pos hl
        have := mkHdr_msgLen e
        omega

structure St where
  buf : Bytes
  out : List Msg
  closed : Bool
  deriving Repr, DecidableEq

/-- `Session.processBuffer`: parse as many complete frames as the buffer holds. -/
def proc (max : Nat) (buf : Bytes) (out : List Msg) : St :=
  match hh : decodeHeader buf with
  | .short => ⟨buf, out, false⟩                       -- wait for more bytes
  | .invalid => ⟨buf, out, true⟩                      -- error → Run returns → connection closed
  | .ok hd =>
    if hd.msgLen > max then ⟨buf, out, true⟩          -- limit checked on the header, before the body
    else if hlt : buf.length < hd.msgLen then ⟨buf, out, false⟩   -- wait for the body
    else
      match decodeFrame (buf.take hd.msgLen) with
      | none => ⟨buf, out, true⟩
      | some m => proc max (buf.drop hd.msgLen) (out ++ [m])   -- consume exactly MessageLength bytes
termination_by buf.length
decreasing_by
  have := decodeHeader_msgLen_pos hh
  simp [List.length_drop]; omega

/-- One `Read` of the `Run` loop: append, then `processBuffer`. A closed session ignores further input. -/
def feed (max : Nat) (s : St) (chunk : Bytes) : St :=
  if s.closed then s else proc max (s.buf ++ chunk) s.out

def init : St := ⟨[], [], false⟩

/-- The session fed with the byte stream cut into `chunks`. -/
def run (max : Nat) (chunks : List Bytes) : St := chunks.foldl (feed max) init

/-- What an observer can see: deliveries, whether the connection was closed, and (while open) nothing else. -/
def St.obs (s : St) : List Msg × Bool := (s.out, s.closed)

end CoapVerif.Model.Framing
