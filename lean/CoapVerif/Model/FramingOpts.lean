import CoapVerif.Model.Framing
import CoapVerif.Generated.OptionDefs
import CoapVerif.Generated.CodecConsts
/-!
C07, "delivers exactly the sent messages, each once, **complete** and in order": the options of a delivered message.

`Model/Framing.lean` reduces `Options.Unmarshal` to accept/reject + payload position.  This file puts the option list
itself into the model: `tcp/coder DecodeWithHeader` selects the definition table by the frame's code (`defsFor`),
`message.Options.Unmarshal` walks the option area and hands every option to `Option.Unmarshal`, which **skips** it
(leaves `option.ID` at 0, and the loop appends only `option.ID != 0`) exactly when the selected table lists the number
and the entry has format `ValueUnknown` or the value's length lies outside `[MinLen, MaxLen]`; a number the table does
not list is delivered as an opaque option.  Tables: `Generated/OptionDefs.lean`, codes: `Generated/CodecConsts.lean`.
`procO` / `feedO` / `runO` are `proc` / `feed` / `run` with messages that carry their options.
-/
namespace CoapVerif.Model.FramingOpts
open CoapVerif.Model.Framing
open CoapVerif.Generated.TcpFraming

abbrev Defs := List (Nat × Nat × Nat × Nat)
abbrev Opt := Nat × Bytes

/-- Go map lookup `optionDefs[id]`. -/
def lookup (defs : Defs) (id : Nat) : Option (Nat × Nat × Nat) :=
  match defs with
  | [] => none
  | (k, lo, hi, fmt) :: r => if k = id then some (lo, hi, fmt) else lookup r id

/-- `Option.Unmarshal` sets `o.ID` (and the loop of `Options.Unmarshal` appends the option, `option.ID != 0`). -/
def keeps (defs : Defs) (id len : Nat) : Bool :=
  id ≠ 0 &&
  match lookup defs id with
  | some (lo, hi, fmt) => fmt ≠ Generated.OptionDefs.fmtUnknown && lo ≤ len % 4294967296 && len % 4294967296 ≤ hi
  | none => true

/-- The `switch header.Code` of `Coder.DecodeWithHeader`. -/
def defsFor (code : Nat) : Defs :=
  if code = Generated.Codec.codeCSM then Generated.OptionDefs.tcpSignalCSMOptionDefs
  else if code = Generated.Codec.codePing ∨ code = Generated.Codec.codePong then Generated.OptionDefs.tcpSignalPingPongOptionDefs
  else if code = Generated.Codec.codeRelease then Generated.OptionDefs.tcpSignalReleaseOptionDefs
  else if code = Generated.Codec.codeAbort then Generated.OptionDefs.tcpSignalAbortOptionDefs
  else Generated.OptionDefs.coapOptionDefs

/-- The options `Options.Unmarshal` appends while it walks the area (same walk as `Framing.walkOpts`, which decides
    accept/reject and the payload; on a rejected area the list is irrelevant). -/
def walkOptsO (defs : Defs) (prev : Nat) (bs : Bytes) : List Opt :=
  match bs with
  | [] => []
  | b :: t =>
    if b = 0xff then [] else
    let d := b.toNat / 16
    let l := b.toNat % 16
    if d = extError ∨ l = extError then [] else
    match _hd : parseExt d t with
    | none => []
    | some (delta, t1) =>
      match _hl : parseExt l t1 with
      | none => []
      | some (len, t2) =>
        if t2.length < len then []
        else if prev + delta > 65535 then []
        else
          let rest := walkOptsO defs (prev + delta) (t2.drop len)
          if keeps defs (prev + delta) len then (prev + delta, t2.take len) :: rest else rest
termination_by bs.length
decreasing_by
  have h1 := parseExt_len _hd
  have h2 := parseExt_len _hl
  simp [List.length_drop]; omega

structure MsgO where
  code : Nat
  token : Bytes
  opts : List Opt
  payload : Bytes
  deriving Repr, DecidableEq

def MsgO.erase (m : MsgO) : Msg := ⟨m.code, m.token, m.payload⟩

/-- `Coder.Decode` on a slice holding exactly one frame, with the option list. -/
def decodeFrameO (frame : Bytes) : Option MsgO :=
  match decodeHeader frame with
  | .ok h =>
    if frame.length < h.msgLen then none
    else
      match walkOpts 0 (frame.drop h.len) with
      | some pay => some ⟨h.code, (frame.drop (h.len - h.tkl)).take h.tkl, walkOptsO (defsFor h.code) 0 (frame.drop h.len), pay⟩
      | none => none
  | _ => none

theorem decodeFrameO_erase (frame : Bytes) : (decodeFrameO frame).map MsgO.erase = decodeFrame frame := by
  unfold decodeFrameO decodeFrame
  cases decodeHeader frame with
  | short => rfl
  | invalid => rfl
  | ok h =>
    simp only []
    by_cases hl : frame.length < h.msgLen
    · simp [hl]
    · simp only [hl, ↓reduceIte]
      cases walkOpts 0 (frame.drop h.len) with
      | none => rfl
      | some pay => rfl

structure StO where
  buf : Bytes
  out : List MsgO
  closed : Bool
  deriving Repr, DecidableEq

def StO.erase (s : StO) : St := ⟨s.buf, s.out.map MsgO.erase, s.closed⟩

/-- `Session.processBuffer` (as `Framing.proc`), delivering messages with their options. -/
def procO (max : Nat) (buf : Bytes) (out : List MsgO) : StO :=
  match hh : decodeHeader buf with
  | .short => ⟨buf, out, false⟩
  | .invalid => ⟨buf, out, true⟩
  | .ok hd =>
    if hd.msgLen > max then ⟨buf, out, true⟩
    else if hlt : buf.length < hd.msgLen then ⟨buf, out, false⟩
    else
      match decodeFrameO (buf.take hd.msgLen) with
      | none => ⟨buf, out, true⟩
      | some m => procO max (buf.drop hd.msgLen) (out ++ [m])
termination_by buf.length
decreasing_by
  have := decodeHeader_msgLen_pos hh
  simp [List.length_drop]; omega

def feedO (max : Nat) (s : StO) (chunk : Bytes) : StO :=
  if s.closed then s else procO max (s.buf ++ chunk) s.out

def initO : StO := ⟨[], [], false⟩

def runO (max : Nat) (chunks : List Bytes) : StO := chunks.foldl (feedO max) initO

def StO.obs (s : StO) : List MsgO × Bool := (s.out, s.closed)

end CoapVerif.Model.FramingOpts
