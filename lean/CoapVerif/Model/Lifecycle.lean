import CoapVerif.Generated.BlockingWaits
/-!
C09 model.

Part 1 — blocking operations as wait programs.  A client operation is a sequence of blocking points; each blocking
point has a wake-up set (`Generated/BlockingWaits.lean`, read from the AST of /repo).  The environment is adversarial
about results (the peer may stay silent, send garbage, acknowledge without responding …): a `result` case may never
fire.  Cancellation of the request context and closing of the connection are persistent signals.

Part 2 — the close protocol of a session (`Close`, reader exit, `shutdown`, `popOnClose`, done signal) as a small-step
system with any number of concurrent closers, at the granularity of the critical sections / atomic operations of
`udp/server/session.go`, `tcp/client/session.go`, `net/conn.go` (CAS guarded socket close).
-/
namespace CoapVerif.Model.Lifecycle
open CoapVerif.Generated.BlockingWaits

/-- a wait ends at once when a persistent signal it listens to is set, or when it does not block at all -/
def covered (w : Wait) : Bool :=
  w.cases.contains "default" || (w.cases.contains "reqctx" && w.cases.contains "connctx")

/-- blocking points of the receive path have no request context: they must listen to the connection's -/
def receivePath (w : Wait) : Bool :=
  ["Conn.Process", "Conn.pushToReceivedMessageQueue", "ReceivedMessageReader.loop",
   "Conn.ProcessReceivedMessageWithHandler", "Observation.handle"].contains w.fn

/-- slot waits (total limiter, per-endpoint queue, NSTART): they listen to the request context; they end on close
    through the finite chain of releases by the slot holders, whose own waits are covered -/
def slotWait (w : Wait) : Bool :=
  w.kind == "acquire" || w.fn == "LimitParallelRequests.acquireEndpoint"

/-- the queue-draining goroutine is not run by the socket reader: it may wait for the END of the shutdown (`cc.Done()`,
    class `conndone`), which comes once the reader has returned.  Every other wait that listened to `conndone` instead of
    the connection's context could outlive `Close()` for as long as the reader stays in its read - and inside the reader
    itself (`Process`, `pushToReceivedMessageQueue`) it would wait for its own return. -/
def drainLoop (w : Wait) : Bool := w.fn == "ReceivedMessageReader.loop"

/-- `net/conn.go handshake`: the awaited result is the transport's own handshake, which the closing of the socket ends
    (trusted: pion dtls / crypto/tls); the context it listens to is its caller's - the request's for an operation, the
    connection's for the reader (Part 4) -/
def transportWait (w : Wait) : Bool := w.fn == "Conn.handshake"

def waitOK (w : Wait) : Bool :=
  covered w || (receivePath w && (w.cases.contains "connctx" || (drainLoop w && w.cases.contains "conndone"))) ||
  (slotWait w && w.cases.contains "reqctx") || (transportWait w && w.cases.contains "reqctx")

structure Signals where
  reqCancelled : Bool
  connClosed : Bool
  deriving Repr, DecidableEq

/-- does the wait return in this step?  `resultReady` is the adversary's choice for this step. -/
def fires (w : Wait) (sg : Signals) (resultReady : Bool) : Bool :=
  w.cases.contains "default" ||
  (w.cases.contains "reqctx" && sg.reqCancelled) ||
  (w.cases.contains "connctx" && sg.connClosed) ||
  (w.cases.contains "result" && resultReady)

/-- run a wait program against an adversary schedule (one Bool per step); returns the waits still ahead -/
def runProg (sg : Signals) : List Wait → List Bool → List Wait
  | [], _ => []
  | ws, [] => ws
  | w :: ws, r :: rs => if fires w sg r then runProg sg ws rs else runProg sg (w :: ws) rs

/-- A slot (limiter / per-endpoint queue / NSTART) with its FIFO of requests: the head holds the slot and runs the waits it
    has left; the others are parked in the slot wait, which listens to *their own* request context only — the connection's
    closing reaches them through the chain: the holder's waits fire, it returns and releases, the next one acquires.
    One scheduler step (`r` = the adversary's choice whether an awaited result is there). -/
def qstep (sg : Signals) (q : List (List Wait)) (r : Bool) : List (List Wait) :=
  match q with
  | [] => []
  | [] :: rest => rest                       -- the holder has returned: its slot goes to the next in line
  | (w :: ws) :: rest => if fires w sg r then ws :: rest else (w :: ws) :: rest

def qrun (sg : Signals) (q : List (List Wait)) (rs : List Bool) : List (List Wait) := rs.foldl (qstep sg) q

/-- steps the queue needs at most: every wait once, plus one hand-over per request -/
def qcost (q : List (List Wait)) : Nat := (q.map (fun p => p.length + 1)).sum

/-! ### Part 2: close protocol -/

structure Sess where
  cancelled : Bool := false          -- context cancelled
  socketClosed : Nat := 0            -- how many times the underlying socket was really closed (CAS guarded: ≤ 1)
  casFlag : Bool := false            -- net.Conn.closed
  onClose : List Nat := []           -- registered callbacks (guarded by the session mutex)
  popped : List Nat := []            -- list taken by shutdown's popOnClose, still to run
  ran : List Nat := []               -- callbacks executed
  doneClosed : Nat := 0              -- executions of close(done) / doneCancel
  readerPc : Nat := 0                -- 0 reading, 1 left the loop (Close done), 2 popped, 3 all callbacks run, 4 done closed
  deriving Repr, DecidableEq

inductive Step
  | close                -- some goroutine calls Close(): cancel the context, close the socket once
  | readerSeesClose      -- the reader's blocking read fails (context / socket) and it leaves the loop, calling Close() itself
  | pop                  -- shutdown: popOnClose under the mutex
  | runOne               -- shutdown: run the next popped callback
  | closeDone            -- shutdown: close(done)
  | addOnClose (f : Nat) -- AddOnClose(f) under the mutex
  deriving Repr, DecidableEq

def doClose (s : Sess) : Sess :=
  if s.casFlag then { s with cancelled := true }
  else { s with cancelled := true, casFlag := true, socketClosed := s.socketClosed + 1 }

def step (s : Sess) : Step → Sess
  | .close => doClose s
  | .readerSeesClose => if s.readerPc = 0 ∧ (s.cancelled ∨ s.casFlag) then { doClose s with readerPc := 1 } else s
  | .pop => if s.readerPc = 1 then { s with popped := s.onClose, onClose := [], readerPc := 2 } else s
  | .runOne =>
    if s.readerPc = 2 then
      match s.popped with
      | [] => { s with readerPc := 3 }
      | f :: r => { s with popped := r, ran := s.ran ++ [f] }
    else s
  | .closeDone => if s.readerPc = 3 then { s with doneClosed := s.doneClosed + 1, readerPc := 4 } else s
  | .addOnClose f => { s with onClose := s.onClose ++ [f] }

def run (s : Sess) (sched : List Step) : Sess := sched.foldl step s

/-! ### Part 3: a frame write blocked in the transport (`net/conn.go`)

The peer has stopped reading, so `c.connection.Write` blocks while `WriteWithContext` holds the write lock.  What can end
it: the socket being closed (by `Close`, by the reader after a peer close / a malformed frame), or a write deadline
armed from the request context.  `closeLocks` / `armsDeadline` are the facts read from the source. -/

structure WState where
  writerBlocked : Bool := true     -- a goroutine is inside connection.Write, holding the write lock
  socketClosed : Bool := false
  ctxDone : Bool := false          -- the blocked request's context has ended
  closeReturned : Bool := false    -- some Close() call has returned
  deriving Repr, DecidableEq

inductive WEv
  | callClose        -- a goroutine runs Close() as far as it can
  | sched            -- the runtime runs the blocked writer as far as it can
  | ctxEnds          -- the request's context is cancelled / its deadline passes
  deriving Repr, DecidableEq

def wstep (closeLocks armsDeadline : Bool) (s : WState) : WEv → WState
  | .callClose =>
    if closeLocks && s.writerBlocked then s        -- waits for the lock the blocked writer holds
    else { s with socketClosed := true, closeReturned := true }
  | .sched =>
    if s.socketClosed || (armsDeadline && s.ctxDone) then { s with writerBlocked := false } else s
  | .ctxEnds => { s with ctxDone := true }

def wrun (closeLocks armsDeadline : Bool) (s : WState) (evs : List WEv) : WState :=
  evs.foldl (wstep closeLocks armsDeadline) s

/-! ### Part 4: the handshake gate (`net/conn.go handshake`, DTLS / TLS)

The peer leaves the handshake unanswered.  The connection's reader is inside the transport's `HandshakeContext` (with
the connection's context) and holds the transport's handshake mutex; an operation calls `handshake(ctx)` with its own
context.  `waitsForCtx` is the fact read from the source: the operation waits in a select with a `ctx.Done()` case
instead of calling the transport directly. -/

structure HState where
  readerIn : Bool := true     -- the reader's handshake is in progress (it holds the transport's handshake mutex)
  opWaiting : Bool := true    -- the operation is inside handshake(ctx)
  opCtxDone : Bool := false
  closed : Bool := false      -- the socket has been closed
  deriving Repr, DecidableEq

inductive HEv
  | ctxEnds     -- the operation's context is cancelled / expires
  | close       -- somebody closes the connection
  | sched       -- the runtime runs every goroutine as far as it can
  deriving Repr, DecidableEq

def hstep (waitsForCtx : Bool) (s : HState) : HEv → HState
  | .ctxEnds => { s with opCtxDone := true }
  | .close => { s with closed := true }
  | .sched =>
    let readerIn := s.readerIn && !s.closed          -- the transport ends a handshake whose socket is closed
    -- the operation leaves handshake(ctx): by its select, or - once the mutex is free - because its own transport
    -- handshake ends with its context / the socket
    let leaves := (waitsForCtx && s.opCtxDone) || (!readerIn && (s.opCtxDone || s.closed))
    if s.opWaiting && leaves then
      { s with readerIn := readerIn, opWaiting := false, closed := true }   -- a failed handshake closes the connection
    else { s with readerIn := readerIn }

def hrun (waitsForCtx : Bool) (s : HState) (evs : List HEv) : HState := evs.foldl (hstep waitsForCtx) s

end CoapVerif.Model.Lifecycle
