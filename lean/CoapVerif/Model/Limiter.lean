/-!
Model of `net/client/limitParallelRequests/limitParallelRequests.go` (after the F6 repair) as an event system.

One **event** is one atomic action of the real program:

* `arrive id k`   – the critical section of `acquireEndpoint`'s `LoadOrStoreWithFunc` (write lock of the endpoint map)
                    executed by the goroutine of request `id` for path hash `k`;
* `cancel id`     – the request's context becomes done (a flag; it only enables select branches);
* `finish id`     – the wrapped `do` function of a running request returns;
* `step id br`    – the goroutine of `id` resolves the blocking `select` it is parked in with branch `br`
                    (`grant` = the channel closed for it, `cancel` = `ctx.Done()`) and executes the critical
                    section that follows, or executes its next deferred release.

When both branches of a `select` are ready Go picks either; the model allows both (`br` is part of the event).
Safety theorems are inductions over **arbitrary** event lists, i.e. every interleaving.

The program counter of a request:

```
idle ─arrive→ epGranted | epQueued          (counter < endpointLimit, or key absent  |  else appended to orderedRequest)
epQueued  ─(release of the slot owner closes the channel)→ epGranted
epQueued/epGranted ─step cancel→ done ctx | relEp ctx      (cancelEndpoint: still queued ⇒ removed | admitted ⇒ owns a slot, releases it)
epGranted ─step grant→ running | semQueued | relEp ctx      (semaphore.Acquire: fast path | pushed back | ctx already done)
semQueued ─(Release/notifyWaiters closes `ready`)→ semGranted
semQueued/semGranted ─step cancel→ relEp ctx                (Acquire's ctx.Done branch: remove waiter | give the unit back)
semGranted ─step grant→ running | relEp ctx                 (ctx done is re-checked after `ready`)
running ─finish→ relSem ─step→ relEp ok ─step→ done ok       (deferred limit.Release, deferred releaseEndpoint)
```

`golang.org/x/sync/semaphore.Weighted` (v0.11.0, weight always 1) is modelled, not verified: FIFO waiters, `notifyWaiters` loop.
-/
namespace CoapVerif.Model.Limiter

abbrev Id := Nat
abbrev Key := Nat

/-- what `Do` returns: the result of `do`, or an error wrapping `ctx.Err()`. -/
inductive Res | ok | ctx
  deriving DecidableEq, Repr

inductive Pc
  | idle
  | epQueued
  | epGranted
  | semQueued
  | semGranted
  | running
  | relSem
  | relEp (r : Res)
  | done (r : Res)
  deriving DecidableEq, Repr

/-- `endpointQueue{processedCounter, orderedRequest}`; waiter channels are identified with their request. -/
structure Ep where
  counter : Int
  queue : List Id
  deriving DecidableEq, Repr

inductive Br | grant | cancel
  deriving DecidableEq, Repr

inductive Event
  | arrive (id : Id) (k : Key)
  | cancel (id : Id)
  | finish (id : Id)
  | step (id : Id) (br : Br)
  deriving DecidableEq, Repr

structure State where
  limit : Int                  -- semaphore size (effective)
  epLimit : Int                -- endpointLimit (effective)
  eps : Key → Option Ep        -- endpointQueues
  semCur : Int                 -- Weighted.cur
  semWaiters : List Id         -- Weighted.waiters (front first)
  pc : Id → Pc
  key : Id → Key
  cancelled : Id → Bool
  ids : List Id                -- requests that have arrived, in arrival order

def maxInt64 : Int := 9223372036854775807

/-- `New`: a limit ≤ 0 means "no limit" (math.MaxInt64). -/
def effective (l : Int) : Int := if l ≤ 0 then maxInt64 else l

def init (limit epLimit : Int) : State :=
  { limit := effective limit, epLimit := effective epLimit, eps := fun _ => none, semCur := 0, semWaiters := [],
    pc := fun _ => .idle, key := fun _ => 0, cancelled := fun _ => false, ids := [] }

def upd {β : Type} (f : Nat → β) (i : Nat) (v : β) : Nat → β := fun j => if j = i then v else f j

@[simp] theorem upd_same {β : Type} (f : Nat → β) (i : Nat) (v : β) : upd f i v i = v := by simp [upd]
@[simp] theorem upd_other {β : Type} (f : Nat → β) (i j : Nat) (v : β) (h : j ≠ i) : upd f i v j = f j := by simp [upd, h]

def setPc (s : State) (id : Id) (p : Pc) : State := { s with pc := upd s.pc id p }

/-- The closure pair handed to `LoadOrStoreWithFunc` in `acquireEndpoint`. -/
def epRegister (s : State) (id : Id) (k : Key) : State :=
  match s.eps k with
  | none => { s with eps := upd s.eps k (some ⟨1, []⟩), pc := upd s.pc id .epGranted }
  | some ep =>
    if ep.counter < s.epLimit then
      { s with eps := upd s.eps k (some { ep with counter := ep.counter + 1 }), pc := upd s.pc id .epGranted }
    else
      { s with eps := upd s.eps k (some { ep with queue := ep.queue ++ [id] }), pc := upd s.pc id .epQueued }

/-- Closing a waiter's channel wakes it only if it is still parked on it. -/
def wakeEp (pc : Id → Pc) (h : Id) : Id → Pc := if pc h = .epQueued then upd pc h .epGranted else pc

/-- `releaseEndpoint`: hand the slot to the first waiter, else decrement and delete the entry at zero. -/
def epRelease (s : State) (k : Key) : State :=
  match s.eps k with
  | none => s
  | some ep =>
    match ep.queue with
    | h :: t => { s with eps := upd s.eps k (some { ep with queue := t }), pc := wakeEp s.pc h }
    | [] =>
      if ep.counter - 1 = 0 then { s with eps := upd s.eps k none }
      else { s with eps := upd s.eps k (some { ep with counter := ep.counter - 1 }) }

/-- `notifyWaiters` (all weights are 1): grant to waiters from the front while a unit is free. -/
def notifyLoop (limit : Int) : Int → List Id → (Id → Pc) → Int × List Id × (Id → Pc)
  | cur, [], pc => (cur, [], pc)
  | cur, w :: ws, pc =>
    if limit - cur < 1 then (cur, w :: ws, pc)
    else notifyLoop limit (cur + 1) ws (if pc w = .semQueued then upd pc w .semGranted else pc)

def semNotify (s : State) : State :=
  let r := notifyLoop s.limit s.semCur s.semWaiters s.pc
  { s with semCur := r.1, semWaiters := r.2.1, pc := r.2.2 }

/-- `Weighted.Release(1)` -/
def semRelease (s : State) : State := semNotify { s with semCur := s.semCur - 1 }

/-- `Weighted.Acquire(ctx, 1)` up to its `select`. -/
def semAcquire (s : State) (id : Id) : State :=
  if s.cancelled id then setPc s id (.relEp .ctx)
  else if s.limit - s.semCur ≥ 1 ∧ s.semWaiters = [] then setPc { s with semCur := s.semCur + 1 } id .running
  else setPc { s with semWaiters := s.semWaiters ++ [id] } id .semQueued

/-- `Acquire`'s `ctx.Done()` branch. -/
def semCancel (s : State) (id : Id) : State :=
  if s.pc id = .semGranted then
    setPc (semNotify { s with semCur := s.semCur - 1 }) id (.relEp .ctx)
  else
    let isFront := s.semWaiters.head? = some id
    let s1 := { s with semWaiters := s.semWaiters.erase id }
    let s2 := if isFront ∧ s1.limit > s1.semCur then semNotify s1 else s1
    setPc s2 id (.relEp .ctx)

/-- `acquireEndpoint`'s `ctx.Done()` branch (repaired): a request still in `orderedRequest` is removed from it and
    touches nothing else; a request whose channel was closed concurrently owns a slot and releases it. -/
def epCancel (s : State) (id : Id) : State :=
  let k := s.key id
  match s.eps k with
  | none => setPc s id (.relEp .ctx)
  | some ep =>
    if id ∈ ep.queue then
      setPc { s with eps := upd s.eps k (some { ep with queue := ep.queue.erase id }) } id (.done .ctx)
    else setPc s id (.relEp .ctx)

def step (s : State) : Event → State
  | .arrive id k =>
    if s.pc id = .idle ∧ id ∉ s.ids then epRegister { s with key := upd s.key id k, ids := s.ids ++ [id] } id k else s
  | .cancel id => { s with cancelled := upd s.cancelled id true }
  | .finish id => if s.pc id = .running then setPc s id .relSem else s
  | .step id br =>
    match s.pc id, br with
    | .epQueued, .cancel => if s.cancelled id then epCancel s id else s
    | .epGranted, .cancel => if s.cancelled id then epCancel s id else s
    | .epGranted, .grant => semAcquire s id
    | .semQueued, .cancel => if s.cancelled id then semCancel s id else s
    | .semGranted, .cancel => if s.cancelled id then semCancel s id else s
    | .semGranted, .grant =>
      if s.cancelled id then setPc (semRelease s) id (.relEp .ctx) else setPc s id .running
    | .relSem, _ => setPc (semRelease s) id (.relEp .ok)
    | .relEp r, _ => setPc (epRelease s (s.key id)) id (.done r)
    | _, _ => s

def run (s : State) (evs : List Event) : State := evs.foldl step s

/-! Observables -/

def isRunning : Pc → Bool
  | .running => true
  | _ => false

/-- owns an endpoint slot (counted in `processedCounter`) -/
def epHolder : Pc → Bool
  | .epGranted | .semQueued | .semGranted | .running | .relSem | .relEp _ => true
  | _ => false

/-- owns a unit of the semaphore -/
def semHolder : Pc → Bool
  | .semGranted | .running | .relSem => true
  | _ => false

def isDone : Pc → Bool
  | .done _ => true
  | _ => false

/-- requests inside `do` for path `k` -/
def inFlight (s : State) (k : Key) : Nat := s.ids.countP (fun i => isRunning (s.pc i) && s.key i == k)
/-- requests inside `do` -/
def inFlightTotal (s : State) : Nat := s.ids.countP (fun i => isRunning (s.pc i))
def holders (s : State) (k : Key) : Nat := s.ids.countP (fun i => epHolder (s.pc i) && s.key i == k)
def semHolders (s : State) : Nat := s.ids.countP (fun i => semHolder (s.pc i))
/-- the waiters of path `k`, in arrival order -/
def waitingFor (s : State) (k : Key) : List Id := s.ids.filter (fun i => s.pc i == .epQueued && s.key i == k)

def allReturned (s : State) : Prop := ∀ id ∈ s.ids, isDone (s.pc id) = true
def isIdle (s : State) : Prop := (∀ k, s.eps k = none) ∧ s.semCur = 0 ∧ s.semWaiters = []

/-- Is an internal step of `id` enabled, and with which branches?  (used by the driver to run to quiescence) -/
def enabledBranches (s : State) (id : Id) : List Br :=
  match s.pc id with
  | .epQueued => if s.cancelled id then [.cancel] else []
  | .epGranted => .grant :: (if s.cancelled id then [.cancel] else [])
  | .semQueued => if s.cancelled id then [.cancel] else []
  | .semGranted => .grant :: (if s.cancelled id then [.cancel] else [])
  | .relSem => [.grant]
  | .relEp _ => [.grant]
  | _ => []

end CoapVerif.Model.Limiter
