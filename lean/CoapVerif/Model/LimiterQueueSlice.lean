/-!
The waiter queue of one path as the Go value it is: `endpointQueue.orderedRequest []chan struct{}` — a slice (backing array,
length, capacity) that `acquireEndpoint` appends to, `releaseEndpoint` pops by re-slicing (`q[1:]`) and `cancelEndpoint` thins
with `slices.Delete`.  `Model/Limiter.lean` keeps only the list of the queued requests (`Ep.queue`); this file models the slice
operations themselves, so that `Props/C16Queue.lean` can prove that — for queues of ANY length and arrays of ANY capacity — the
list is what the slice contains, and show what a step that changes the array (a "shrink") must preserve.

A slice is represented by the cells of its backing array from the slice's first element on (`cells`, so `cap = cells.length`)
and its length.  Channels are identified with the request that waits on them, as in `Model/Limiter.lean`; `0` stands for the
zero value of a cell.
-/
namespace CoapVerif.Model.LimiterQueueSlice

structure GoSlice where
  cells : List Nat
  len : Nat
  deriving DecidableEq, Repr

namespace GoSlice

def cap (q : GoSlice) : Nat := q.cells.length

/-- `len(q) <= cap(q)` -/
def WF (q : GoSlice) : Prop := q.len ≤ q.cells.length

/-- the elements `q[0] … q[len-1]` -/
def contents (q : GoSlice) : List Nat := q.cells.take q.len

/-- the nil slice (a fresh `endpointQueue`) -/
def empty : GoSlice := ⟨[], 0⟩

/-- `make([]chan struct{}, len, cap)` -/
def make (len cap : Nat) : GoSlice := ⟨List.replicate cap 0, len⟩

/-- capacity after `append` had to move the slice (runtime growslice for small slices: double; only `> cap` matters here) -/
def grown (c : Nat) : Nat := if c = 0 then 1 else 2 * c

/-- `append(q, x)`: in place while there is spare capacity, else into a new, larger array -/
def append (q : GoSlice) (x : Nat) : GoSlice :=
  if q.len < q.cells.length then ⟨q.cells.set q.len x, q.len + 1⟩
  else ⟨q.contents ++ x :: List.replicate (grown q.cells.length - (q.len + 1)) 0, q.len + 1⟩

/-- `q[1:]`: the same array seen from the next cell on — length AND capacity go down by one -/
def pop (q : GoSlice) : GoSlice := ⟨q.cells.tail, q.len - 1⟩

/-- `slices.Delete(q, i, i+1)`: the tail moves one cell to the left in the same array, the vacated cell is cleared -/
def delete (q : GoSlice) (i : Nat) : GoSlice :=
  if i < q.len then ⟨q.contents.eraseIdx i ++ 0 :: q.cells.drop q.len, q.len - 1⟩ else q

/-- `copy(dst, src)` followed by using `dst`: `min(len(dst), len(src))` elements are copied -/
def copyFrom (dst src : GoSlice) : GoSlice :=
  let n := min dst.len src.len
  ⟨src.cells.take n ++ dst.cells.drop n, dst.len⟩

/-- a queue that keeps its array (the reviewed `releaseEndpoint`: no step between the pop and the store) -/
def keep (q : GoSlice) : GoSlice := q

/-- a shrink that allocates the new array WITH the length of the queue and copies into it -/
def shrinkCopy (q : GoSlice) (minCap : Nat) : GoSlice :=
  if q.cells.length < minCap ∨ q.len > q.cells.length / 4 then q
  else copyFrom (make q.len (q.cells.length / 2)) q

/-- the seeded shape (C16-W): the new slice is made with length 0 (`make(…, 0, cap/2)`) and `copy` is used to fill it -/
def shrinkIntoEmpty (q : GoSlice) (minCap : Nat) : GoSlice :=
  if q.cells.length < minCap ∨ q.len > q.cells.length / 4 then q
  else copyFrom (make 0 (q.cells.length / 2)) q

/-- a burst: `n` requests `first, first+1, …` appended one after the other -/
def burst (q : GoSlice) (first : Nat) : Nat → GoSlice
  | 0 => q
  | n + 1 => burst (q.append first) (first + 1) n

def popN (q : GoSlice) : Nat → GoSlice
  | 0 => q
  | n + 1 => popN q.pop n

end GoSlice
end CoapVerif.Model.LimiterQueueSlice
