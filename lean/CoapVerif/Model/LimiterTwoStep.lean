import CoapVerif.Model.Limiter
/-!
`acquireEndpoint` at the granularity of the endpoint table's operations (C16 x C14).

`Model/Limiter.lean` takes `arrive id k` — the whole `LoadOrStoreWithFunc(key, onLoad, create)` of `acquireEndpoint` — as ONE
atomic event.  That is a fact about `pkg/sync.Map`, not about the limiter: the method looks the key up and runs the callback
on what it found.  Here the two are separate events,

* `lookup id k`  – the element of `k` is looked up (what is found is remembered by its *stamp*: entries of a key are
                   distinguished by how many entries were created for that key before them, because an entry that
                   `releaseEndpoint` dropped from the table and a fresh entry for the same path are different objects);
* `apply id k`   – the callback pair runs: `onLoad` **on the element that was found**, `create` if none was found,

with arbitrary events of the other goroutines in between.  When the element found is still the element of the table
(`Current`) the callback pair does what `Model.Limiter.step _ (.arrive id k)` does.  Otherwise `onLoad` runs on an **orphan**:
an entry that is not in the table any more.  `releaseEndpoint` drops an entry exactly when its counter has reached 0 and its
queue is empty, so an orphan starts as `⟨0, []⟩`; the request is admitted against the orphan's counter (or queues on the orphan,
where no release ever looks) and the table is left alone.
-/
namespace CoapVerif.Model.LimiterTwoStep
open CoapVerif.Model.Limiter

inductive Ev2
  | lookup (id : Id) (k : Key)
  | apply (id : Id) (k : Key)
  | other (e : Event)            -- any event of `Model/Limiter.lean` (releases, cancellations, semaphore steps, other arrivals)
  deriving DecidableEq, Repr

structure S2 where
  s : State
  gen : Key → Nat                       -- number of entries created for the key so far = stamp of its current entry
  found : Id → Option (Option Nat)      -- what the request's look-up found: `some none` = no entry, `some (some g)` = entry g
  orph : Key → Nat → Ep                 -- entries that were dropped from the table (they start as ⟨0, []⟩)

def init2 (limit epLimit : Int) : S2 :=
  { s := init limit epLimit, gen := fun _ => 0, found := fun _ => none, orph := fun _ _ => ⟨0, []⟩ }

/-- the stamp of the entry that is in the table under `k` right now -/
def curStamp (x : S2) (k : Key) : Option Nat := if (x.s.eps k).isSome then some (x.gen k) else none

/-- a step of the underlying limiter; an entry that appears where there was none is a new object -/
def lift (x : S2) (e : Event) : S2 :=
  let s' := step x.s e
  { x with s := s', gen := fun k => if (x.s.eps k).isNone && (s'.eps k).isSome then x.gen k + 1 else x.gen k }

/-- `onLoad` on an entry that is not in the table: admitted against ITS counter, or queued on IT -/
def applyOrphan (x : S2) (id : Id) (k : Key) (g : Nat) : S2 :=
  if x.s.pc id = .idle ∧ id ∉ x.s.ids then
    let ep := x.orph k g
    let s1 := { x.s with key := upd x.s.key id k, ids := x.s.ids ++ [id] }
    if ep.counter < x.s.epLimit then
      { x with s := { s1 with pc := upd s1.pc id .epGranted },
               orph := fun k' g' => if k' = k ∧ g' = g then { ep with counter := ep.counter + 1 } else x.orph k' g' }
    else
      { x with s := { s1 with pc := upd s1.pc id .epQueued },
               orph := fun k' g' => if k' = k ∧ g' = g then { ep with queue := ep.queue ++ [id] } else x.orph k' g' }
  else x

def step2 (x : S2) : Ev2 → S2
  | .lookup id k => { x with found := upd x.found id (some (curStamp x k)) }
  | .apply id k =>
    match x.found id with
    | none => x                                         -- no look-up yet: nothing to apply
    | some seen =>
      if seen = curStamp x k then lift x (.arrive id k)  -- the callbacks run on the element of the table
      else match seen with
        | some g => applyOrphan x id k g                 -- `onLoad` on an element that is no longer in the table
        | none => { x with found := upd x.found id (some (curStamp x k)) }   -- nothing found, but now there is an entry: the store
                                                                              -- is double-checked under the write lock = a new look-up
  | .other e => lift x e

def run2 (x : S2) (evs : List Ev2) : S2 := evs.foldl step2 x

/-- "the callback runs on the element that is CURRENTLY in the table" -/
def Current (x : S2) (id : Id) (k : Key) : Prop := x.found id = some (curStamp x k)

instance (x : S2) (id : Id) (k : Key) : Decidable (Current x id k) := by unfold Current; infer_instance

/-- every `apply` of the run happens in a state in which its request's look-up is current -/
def GoodRun : S2 → List Ev2 → Prop
  | _, [] => True
  | x, e :: es => (match e with | .apply id k => Current x id k | _ => True) ∧ GoodRun (step2 x e) es

/-- what the run is at the granularity of `Model/Limiter.lean`: look-ups vanish, `apply` is the atomic `arrive` -/
def abs : List Ev2 → List Event
  | [] => []
  | .lookup _ _ :: es => abs es
  | .apply id k :: es => .arrive id k :: abs es
  | .other e :: es => e :: abs es

/-- the shape of the reviewed source: look-up and callbacks in ONE write-locked section, nothing in between -/
def oneSection : List ((Id × Key) ⊕ Event) → List Ev2
  | [] => []
  | .inl (id, k) :: es => .lookup id k :: .apply id k :: oneSection es
  | .inr e :: es => .other e :: oneSection es

def atomicOf : List ((Id × Key) ⊕ Event) → List Event
  | [] => []
  | .inl (id, k) :: es => .arrive id k :: atomicOf es
  | .inr e :: es => e :: atomicOf es

end CoapVerif.Model.LimiterTwoStep
