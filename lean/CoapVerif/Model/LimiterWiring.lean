import CoapVerif.Generated.LimiterWiring
/-!
Which limits a connection gets, depending on who made it (for C16's connection-level correspondence).

* A connection made by a client constructor (`udp.Client`, `tcp.Client`, `dtls.Client`, `Dial`) with
  `options.WithLimitClientParallelRequest(L)` / `WithLimitClientEndpointParallelRequest(E)` runs with exactly `L` / `E`.
* A connection **accepted by a server** is built by the server's `createConn` / `getOrCreateConn` from the client package's
  `DefaultConfig`; each of the two limits is the default unless the server assigns it (the extractor lists the assignments,
  `Generated.LimiterWiring.serverWirings`).  The property demands *at most* the limits the server was configured with, so a
  server may leave the (minimal) defaults or hand down its own setting of the same limit.
-/
namespace CoapVerif.Model.LimiterWiring
open CoapVerif.Generated.LimiterWiring

/-- limits of a connection accepted by a server that was configured with `L` / `E`, given how the server builds the Config -/
def acceptedLimits (w : ServerWiring) (dflt : Int × Int) (L E : Int) : Int × Int :=
  (if w.sets.any (fun a => a.1 == "LimitClientParallelRequests") then L else dflt.1,
   if w.sets.any (fun a => a.1 == "LimitClientEndpointParallelRequests") then E else dflt.2)

/-- defaults of the client package a server builds its connections from -/
def defaultsOf (pkg : String) : Int × Int := if pkg == "tcp/server" then tcpDefaultLimits else udpDefaultLimits

/-- the limits the model runs a connection-level history with: `tr` is the harness' transport name (`…srv` = accepted by that server) -/
def limitsFor (tr : String) (L E : Int) : Int × Int :=
  let pkg := if tr == "dtlssrv" then "dtls/server" else if tr == "tcpsrv" then "tcp/server" else if tr == "udpsrv" then "udp/server" else ""
  match serverWirings.find? (fun w => w.pkg == pkg) with
  | some w => acceptedLimits w (defaultsOf pkg) L E
  | none => (L, E)

end CoapVerif.Model.LimiterWiring
