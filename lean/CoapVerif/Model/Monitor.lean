import CoapVerif.Generated.Monitor
import CoapVerif.Spec.Monitor
/-!
Model of `net/monitor/inactivity`: `Monitor` (Notify, CheckInactivity), `KeepAlive` (OnInactive, failure
counter, ping generation token, cancel of the superseded ping), `KeepAliveMonitor.Notify`, and of the datagram
server's `getConn` look-ahead.  Shape facts (strict comparison, `v > maxRetries`, Notify resets the counter,
the look-ahead) are regenerated from the AST of /repo.  Time is `Int` nanoseconds.
-/
namespace CoapVerif.Model.Monitor
open CoapVerif.Generated.Monitor
open CoapVerif.Spec.Monitor (Ev Out)

structure Cfg where
  period : Int                 -- Monitor.duration; 0 disables the monitor
  maxRetries : Option Nat      -- none: plain inactivity monitor (onInactive closes); some n: keep-alive with n retries
  deriving Repr, DecidableEq

structure St where
  last : Int                   -- lastActivity
  closed : Bool := false
  fails : Nat := 0             -- KeepAlive.numFails
  gen : Nat := 0               -- KeepAlive.pongToken
  pending : Option Nat := none -- generation of the ping whose answer handler is registered
  cancelSet : Option Nat := none  -- generation whose cancel function is stored in cancelPing
  deriving Repr, DecidableEq

/-- `Notify()`: refresh lastActivity; with keep-alive (`KeepAliveMonitor.Notify`) also reset the counter. -/
def notify (cfg : Cfg) (s : St) (t : Int) : St :=
  { s with last := t, fails := if cfg.maxRetries.isSome && notifyResetsFails then 0 else s.fails }

/-- `KeepAlive.OnInactive` (n = maxRetries); `sendOK` = does `sendPing` succeed. -/
def onInactive (n : Nat) (s : St) (sendOK : Bool := true) : St × List Out :=
  let v := s.fails + 1
  let cancelOut : List Out := match s.cancelSet with | some g => [.cancelPing g] | none => []
  let s1 := { s with fails := v, cancelSet := none, pending := none }     -- checkCancelPing removes the handler
  if (if closeWhenGreater then v > n else v ≥ n) then
    ({ s1 with closed := true }, cancelOut ++ [.close])
  else
    let g := s.gen + 1
    if sendOK then ({ s1 with gen := g, pending := some g, cancelSet := some g }, cancelOut ++ [.ping g])
    else ({ s1 with gen := g }, cancelOut ++ [.pingFailed g])       -- `sendPing` returned an error: nothing to cancel later

/-- `CheckInactivity(now)`. -/
def check (cfg : Cfg) (s : St) (now : Int) (sendOK : Bool := true) : St × List Out :=
  if cfg.period = 0 then (s, [])
  else if (if fireStrict then now > s.last + cfg.period else now ≥ s.last + cfg.period) then
    match cfg.maxRetries with
    | none => ({ s with closed := true }, [.close])
    | some n => onInactive n s sendOK
  else (s, [])

def step (cfg : Cfg) (s : St) (ev : Ev) : St × List Out :=
  if s.closed then (s, []) else
  match ev with
  | .recv t => (notify cfg s t, [])
  | .pong g t =>
    let s1 := notify cfg s t
    if s1.pending = some g then
      -- the pong callback: credited only if g is still the current generation
      ({ s1 with pending := none, fails := if s1.gen = g then 0 else s1.fails }, [])
    else (s1, [])
  | .tick t => check cfg s t
  | .tickFail t => check cfg s t false
  | .datagram t =>
    -- udp/server getConn: CheckExpirations(now + look-ahead); if still open Notify(); then the datagram is processed
    let (s1, o) := check cfg s (t + serverLookaheadNs)
    if s1.closed then (s1, o) else (notify cfg s1 t, o)

def run (cfg : Cfg) : St → List Ev → St × List Out
  | s, [] => (s, [])
  | s, e :: es =>
    let (s1, o1) := step cfg s e
    let (s2, o2) := run cfg s1 es
    (s2, o1 ++ o2)

def init (t0 : Int) : St := { last := t0 }

/-! ### A server: one monitor per accepted connection, one housekeeping tick for all of them

`tcp/server`, `dtls/server`: every accepted connection gets its monitor from the configured factory; the function handed to
the periodic runner walks `pkg/connections` and calls `CheckExpirations(now)` on every connection. -/

inductive SrvEv
  | conn (i : Nat) (e : Ev)    -- an event on the i-th accepted connection (message / pong received)
  | tickAll (t : Int)          -- the server's housekeeping tick
  deriving Repr, DecidableEq

/-- apply `f` to the i-th element -/
def modifyAt (f : St → St) : Nat → List St → List St
  | _, [] => []
  | 0, s :: r => f s :: r
  | i + 1, s :: r => s :: modifyAt f i r

def srvStep (cfg : Cfg) (ss : List St) : SrvEv → List St
  | .conn i e => modifyAt (fun s => (step cfg s e).1) i ss
  | .tickAll t => ss.map (fun s => (step cfg s (.tick t)).1)

def srvRun (cfg : Cfg) (ss : List St) (evs : List SrvEv) : List St := evs.foldl (srvStep cfg) ss

/-- what the i-th connection sees of a server history -/
def projEv (i : Nat) : SrvEv → List Ev
  | .conn j e => if j = i then [e] else []
  | .tickAll t => [.tick t]

def proj (i : Nat) (evs : List SrvEv) : List Ev := evs.flatMap (projEv i)

end CoapVerif.Model.Monitor
