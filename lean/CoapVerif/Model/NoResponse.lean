import CoapVerif.Generated.NoResponse
import CoapVerif.Spec.NoResponse
/-!
Model of `message/noresponse/noresponse.go: IsNoResponseCode`, `message/encodeDecodeUint32.go:
DecodeUint32`, `net/responsewriter/responseWriter.go: New / SetResponse` and of the outcome of
`udp/client/conn.go: processResponse` / `tcp/client/conn.go: ProcessReceivedMessageWithHandler`
for a handler that makes one `SetResponse` call.  The class switch (shift and arms) is regenerated
from the AST of /repo on every run.
-/
namespace CoapVerif.Model.NoResponse
open CoapVerif.Generated.NoResponse

/-- `switch code >> classShift { case A: classBit = X … }`; `var classBit uint32` starts at 0. -/
def classBit (code : Nat) : Nat :=
  match classBits.lookup (code >>> classShift) with
  | some b => b
  | none => 0

/-- `IsNoResponseCode(code codes.Code /*uint16*/, noRespValue uint32) error` — true = ErrMessageNotInterested. -/
def isNoResponse (code v : Nat) : Bool := (v &&& classBit code) != 0

/-- `DecodeUint32`: big-endian value of the first (at most) four bytes. -/
def decodeUint32 (bs : List UInt8) : Nat :=
  (bs.take 4).foldl (fun acc b => acc * 256 + b.toNat) 0

/-- `responsewriter.New`: the No-Response value is read from the first option with that number. -/
def noResponseValue (firstNoRespOpt : Option (List UInt8)) : Option Nat :=
  firstNoRespOpt.map decodeUint32

/-- `Options.GetUint32(NoResponse)` over the request's option list (sorted by number, as the parser and the setters
    keep it): the value of the first option numbered 258, wherever it stands in the list. -/
def noRespOption (opts : List (Nat × List UInt8)) : Option (List UInt8) :=
  (opts.find? (fun o => o.1 == 258)).map (·.2)

/-- `SetResponse`: refused (error, response untouched) iff a value is present and the code is suppressed. -/
def setResponseAccepted (noResp : Option Nat) (code : Nat) : Bool :=
  match noResp with
  | some v => !isNoResponse code v
  | none => true

open CoapVerif.Spec.NoResponse (Transport ReqType Sent)

/-- Outcome of one request whose handler calls `SetResponse(code, …)` once (and nothing else). -/
def serve (tr : Transport) (rt : ReqType) (noResp : Option Nat) (code : Nat) : Bool × List Sent :=
  let acc := setResponseAccepted noResp code
  match tr with
  | .tcp => (acc, if acc then [⟨"-", code, "-", true⟩] else [])
  | .udp =>
    if acc then
      -- processResponse: modified response
      if code = 0 then
        -- isPongOrResetResponse (code Empty): CON → ACK with the request MID; NON → NON with own MID
        match rt with
        | .con => (acc, [⟨"ack", 0, "req", true⟩])
        | .non => (acc, [⟨"non", 0, "own", true⟩])
      else
        match rt with
        | .con => (acc, [⟨"ack", code, "req", true⟩])      -- piggybacked
        | .non => (acc, [⟨"con", code, "own", true⟩])      -- sent as a fresh confirmable message
    else
      match rt with
      | .con => (acc, [⟨"ack", 0, "req", false⟩])          -- sendJustAcknowledgeMessage: bare ACK, token cleared
      | .non => (acc, [])                                  -- unmodified: nothing is sent

/-- What `processResponse` / `ProcessReceivedMessageWithHandler` put on the wire for a response message whose code the
    handler set (`some code`) or that was left untouched (`none`). -/
def wire (tr : Transport) (rt : ReqType) : Option Nat → List Sent
  | some code =>
    match tr with
    | .tcp => [⟨"-", code, "-", true⟩]
    | .udp =>
      if code = 0 then
        match rt with
        | .con => [⟨"ack", 0, "req", true⟩]
        | .non => [⟨"non", 0, "own", true⟩]
      else
        match rt with
        | .con => [⟨"ack", code, "req", true⟩]
        | .non => [⟨"con", code, "own", true⟩]
  | none =>
    match tr with
    | .tcp => []
    | .udp =>
      match rt with
      | .con => [⟨"ack", 0, "req", false⟩]
      | .non => []

/-- The response message after a handler's successive `SetResponse` calls: a refused call returns its error before it
    touches the message, an accepted one overwrites code (and body); `none` = the message is still unmodified. -/
def afterCalls (noResp : Option Nat) (cs : List Nat) : Option Nat :=
  cs.foldl (fun s c => if setResponseAccepted noResp c then some c else s) none

/-- Outcome of one request whose handler calls `SetResponse` with the codes `cs`, in that order: the result of every call
    and what goes on the wire. -/
def serveCalls (tr : Transport) (rt : ReqType) (noResp : Option Nat) (cs : List Nat) : List Bool × List Sent :=
  (cs.map (setResponseAccepted noResp), wire tr rt (afterCalls noResp cs))

end CoapVerif.Model.NoResponse
