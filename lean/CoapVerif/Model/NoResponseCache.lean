import CoapVerif.Generated.Dedup
import CoapVerif.Model.NoResponse
/-!
Model of what sits between the wire and the response writer on a datagram connection when a message ID comes
again: `udp/client/conn.go: handleReq → checkResponseCache → messageCache.Load → pkg/cache: Cache.Load`
(an element that is past its `ValidUntil` is NOT returned), `processResponse → addResponseToCache →
messageCache.Store` (valid for `ExchangeLifetime` from now on; `LoadOrStore` puts the new element in the place of
an absent or expired one) and `Conn.CheckExpirations → Cache.CheckExpirations` (the periodic sweep that removes
expired elements).  A request whose message ID finds a live element is answered with the cached datagram and
neither the handler nor the response writer is consulted; every other request is served as `Model.NoResponse.serve`
says.  Times are absolute, in milliseconds; `ExchangeLifetime` comes from the generated facts.
-/
namespace CoapVerif.Model.NoResponseCache
open CoapVerif.Spec.NoResponse (Transport ReqType Sent)
open CoapVerif.Model.NoResponse

/-- `udp/client/conn.go: ExchangeLifetime` in milliseconds -/
def lifetimeMs : Nat := CoapVerif.Generated.Dedup.exchangeLifetimeNs / 1000000

/-- a request on the connection: `id` tells the requests of one history apart (it stands for the token) -/
structure Req where
  id : Nat
  mid : Nat
  rt : ReqType
  noResp : Option Nat
  code : Nat          -- the code the handler passes to `SetResponse`
  deriving Repr, DecidableEq

/-- one datagram on the wire; `tok` = the request whose token it carries (`none`: no token) -/
structure CSent where
  typ : String
  code : Nat
  mid : String
  tok : Option Nat
  deriving Repr, DecidableEq

/-- outcome of one request: the handler's `SetResponse` result (`none`: the handler was not called) and the wire -/
structure Out where
  ran : Option Bool
  sent : List CSent
  deriving Repr, DecidableEq

/-- `cache.Element`: the stored datagram (code, token) and `ValidUntil` -/
structure Entry where
  validUntil : Nat
  code : Nat
  tok : Option Nat
  deriving Repr, DecidableEq

/-- the response cache, by message ID -/
abbrev Cache := Nat → Option Entry

def empty : Cache := fun _ => none

/-- `Element.IsExpired(now)`: `now.After(ValidUntil)` -/
def Entry.expired (e : Entry) (now : Nat) : Bool := decide (e.validUntil < now)

/-- `Cache.Load(key)` at time `now`: the element under the key, unless it is expired -/
def load (c : Cache) (mid now : Nat) : Option Entry :=
  match c mid with
  | some e => if e.expired now then none else some e
  | none => none

/-- `Cache.CheckExpirations(now)`: every expired element is removed -/
def sweep (c : Cache) (now : Nat) : Cache := fun m => load c m now

def store (c : Cache) (mid : Nat) (e : Entry) : Cache := fun m => if m = mid then some e else c m

/-- the request is handled: handler, response writer, `processResponse` (`Model.NoResponse.serve`) -/
def fresh (r : Req) : Out :=
  let s := serve .udp r.rt r.noResp r.code
  ⟨some s.1, s.2.map (fun m => ⟨m.typ, m.code, m.mid, if m.token then some r.id else none⟩)⟩

/-- `checkResponseCache` found a live element: the cached datagram goes out under the request's message ID, as an
    acknowledgement of a confirmable request, as a non-confirmable message otherwise -/
def replay (r : Req) (e : Entry) : Out :=
  ⟨none, [⟨match r.rt with | .con => "ack" | .non => "non", e.code, "req", e.tok⟩]⟩

/-- what `processResponse` puts into the cache: whatever it sends (the bare acknowledgement included) -/
def cached (t : Nat) (o : Out) : Option Entry :=
  match o.sent with
  | m :: _ => some ⟨t + lifetimeMs, m.code, m.tok⟩
  | [] => none

/-- one request arriving at time `t` -/
def request (c : Cache) (t : Nat) (r : Req) : Cache × Out :=
  match load c r.mid t with
  | some e => (c, replay r e)
  | none =>
    let o := fresh r
    (match cached t o with
     | some e => store c r.mid e
     | none => c, o)

inductive Ev
  | req (r : Req)
  | sweep
  deriving Repr, DecidableEq

def step (c : Cache) (t : Nat) : Ev → Cache × Option Out
  | .req r => let (c', o) := request c t r; (c', some o)
  | .sweep => (sweep c t, none)

/-- the cache after a history (events with their absolute times) -/
def after (c : Cache) : List (Nat × Ev) → Cache
  | [] => c
  | (t, e) :: h => after (step c t e).1 h

/-- the outcomes of the requests of a history, in order -/
def run (c : Cache) : List (Nat × Ev) → List Out
  | [] => []
  | (t, e) :: h =>
    match (step c t e).2 with
    | some o => o :: run (step c t e).1 h
    | none => run (step c t e).1 h

end CoapVerif.Model.NoResponseCache
