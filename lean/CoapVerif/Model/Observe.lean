import CoapVerif.Generated.Observe
import CoapVerif.Spec.Observe
/-!
Model of `net/observation`: `ValidSequenceNumber`, `Observation.wantBeNotified`, `Observation.handle`,
`Handler.Handle`, `Handler.NewObservation` (register-if-absent, first-response hand-over, clean-up on
failure / not-supported), `Observation.Cancel` (clean-up part).  The window shifts, the timeout and the
accepted registration codes are regenerated from /repo.

Time is `Int` nanoseconds; `none` is the zero `time.Time` ("never"): Go's `Time.Sub` saturates at
±(2^63−1) ns, so `now.Sub(zero)` exceeds every timeout.  Tokens are identified with their table key
(the CRC-64 of the token; collisions are C03's finding F13).
-/
namespace CoapVerif.Model.Observe
open CoapVerif.Generated.Observe
open CoapVerif.Spec.Observe (Obs)

/-- `ValidSequenceNumber(oldValue, newValue uint32, lastEventOccurs, now time.Time)`.
    The uint32 subtractions cannot wrap: each is guarded by the comparison before it. -/
def validSeq (old new : Nat) (last : Option Int) (now : Int) : Bool :=
  (old < new && new - old < 2 ^ windowShiftLt) ||
  (old > new && old - new > 2 ^ windowShiftGt) ||
  (match last with
   | none => true
   | some t => now - t > (sequenceTimeoutNs : Int))

/-- per-observation fields guarded by its mutex + the `waitForResponse` flag -/
structure ObsState where
  seq : Nat := 0
  last : Option Int := none
  waiting : Bool := true
  deriving Repr, DecidableEq

/-- `Observation.wantBeNotified`: a message without Observe option is always passed on and changes nothing. -/
def wantBeNotified (o : ObsState) (seqOpt : Option Nat) (now : Int) : Bool × ObsState :=
  match seqOpt with
  | none => (true, o)
  | some v => if validSeq o.seq v o.last now then (true, { o with seq := v, last := some now }) else (false, o)

structure Entry where
  tok : Nat
  id : Nat
  st : ObsState
  deriving Repr, DecidableEq

/-- first-response signal of a registration (`respObservationChan`, capacity 1): (code, notSupported) -/
structure Sig where
  id : Nat
  code : Nat
  notSupported : Bool
  deriving Repr, DecidableEq

structure State where
  table : List Entry := []        -- Handler.observations (at most one entry per token, see `Inv`)
  sigs : List Sig := []           -- pending first-response signals
  nextId : Nat := 0               -- identities of Observation objects: one fresh id per NewObservation call
  deriving Repr, DecidableEq

inductive Ev
  | reg (tok : Nat)                                           -- NewObservation: LoadOrStore + write request
  | arrive (tok code : Nat) (seq : Option Nat) (now : Int) (tag : Nat)   -- Handler.Handle(message)
  | regDone (tok id : Nat)                                    -- NewObservation takes the first-response signal
  | regAbort (tok id : Nat)                                   -- NewObservation leaves by context / connection close
  | cancel (tok id : Nat)                                     -- Observation.Cancel (its clean-up)
  deriving Repr, DecidableEq

def lookup (t : List Entry) (tok : Nat) : Option Entry := t.find? (fun e => e.tok == tok)

/-- `pullOutObservation(token hash)`: removes whatever is stored under the token. -/
def remove (t : List Entry) (tok : Nat) : List Entry := t.filter (fun e => e.tok != tok)

def update (t : List Entry) (tok : Nat) (st : ObsState) : List Entry :=
  t.map (fun e => if e.tok == tok then { e with st := st } else e)

def step (s : State) : Ev → State × List Obs
  | .reg tok =>
    let id := s.nextId
    match lookup s.table tok with
    | some _ => ({ s with nextId := id + 1 }, [.regErr id])   -- ErrKeyAlreadyExists; the existing entry stays
    | none => ({ s with table := s.table ++ [⟨tok, id, {}⟩], nextId := id + 1 }, [.registered id tok])
  | .arrive tok code seq now tag =>
    match lookup s.table tok with
    | none => (s, [.toDefault tok tag])
    | some e =>
      -- Observation.handle: first message after registration signals (code, !hasObserve), once
      let sigs := if e.st.waiting then s.sigs ++ [⟨e.id, code, seq.isNone⟩] else s.sigs
      let st0 := { e.st with waiting := false }
      let (want, st1) := wantBeNotified st0 seq now
      ({ s with table := update s.table tok st1, sigs := sigs }, if want then [.cb e.id tok seq now tag] else [])
  | .regDone tok id =>
    match s.sigs.find? (fun g => g.id == id) with
    | none => (s, [])                                         -- still waiting
    | some g =>
      let sigs := s.sigs.filter (fun g => g.id != id)
      let gone : List Obs := match lookup s.table tok with | some e => [.cancelled e.id] | none => []
      if !(okCodes.contains g.code) then
        ({ s with table := remove s.table tok, sigs := sigs }, .regErr id :: gone)     -- err → cleanUp
      else if g.notSupported then
        ({ s with table := remove s.table tok, sigs := sigs }, .regOk id :: gone)      -- cleanUp, still success
      else ({ s with sigs := sigs }, [.regOk id])
  | .regAbort tok _id =>
    -- err → o.cleanUp(): LoadAndDelete by token hash, whatever observation is stored there
    match lookup s.table tok with
    | some e => ({ s with table := remove s.table tok }, [.regErr _id, .cancelled e.id])
    | none => (s, [.regErr _id])
  | .cancel tok _id =>
    -- Observation.Cancel: cleanUp() first; only if something was removed the deregistration is sent
    match lookup s.table tok with
    | some e => ({ s with table := remove s.table tok }, [.cancelled e.id])
    | none => (s, [])

def run : State → List Ev → State × List Obs
  | s, [] => (s, [])
  | s, e :: es =>
    let (s1, o1) := step s e
    let (s2, o2) := run s1 es
    (s2, o1 ++ o2)

end CoapVerif.Model.Observe
