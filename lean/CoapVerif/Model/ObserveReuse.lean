import CoapVerif.Model.Observe
/-!
Second use of a request message (C08, tenth seeded round).

`Model/Observe.lean` lets the *event* name the token a `regDone` / `regAbort` / `cancel` works on, and the history theorems
need the hypothesis that this is the token of the registration (`Props/C08.consistent`): "the real API cannot produce
anything else".  That sentence rests on a representation fact of the code: the `Observation` object keeps its token as a
**value fixed at registration** (`NewObservation` stores `req.Token()`, and `pool.Message.Token()` hands out a copy), so
nothing the application later does to *its* request message reaches it.

This file makes the fact part of the model.  The application-level events carry no token for the continuations of a
registration - only the identity of the handle - and there is an event for the second use of the request message:
`reuse id tok` (the application writes another token into the message it registered `id` with: `SetToken`, `SetupGet`, …).
The state keeps two things per registration: `stored` (what the observation object holds) and `msg` (what the caller's
message object holds now).  `astep` works from `stored`; `astepAlias` is the machine one gets when the observation object
shares the message's token bytes instead (it works from `msg`) - the negative shape, see `Props/C08Reuse.lean`.
The harness ties the representation to the code: `reuse` lines on real connections (`checks/c08.py`).
-/
namespace CoapVerif.Model.Observe
open CoapVerif.Spec.Observe (Obs)

inductive AEv
  | reg (tok : Nat)
  | arrive (tok code : Nat) (seq : Option Nat) (now : Int) (tag : Nat)
  | regDone (id : Nat)
  | regAbort (id : Nat)
  | cancel (id : Nat)
  | reuse (id tok : Nat)      -- second use of the request message of registration `id`: another token is written into it
  deriving Repr, DecidableEq

structure AState where
  base : State := {}
  stored : List Nat := []     -- k-th registration: the token VALUE its Observation object holds (fixed at registration)
  msg : List Nat := []        -- k-th registration: the token that is in the caller's request message now
  deriving Repr, DecidableEq

/-- the table-level event an application-level event amounts to, given the token each handle works with -/
def lower (toks : List Nat) : AEv → Option Ev
  | .reg tok => some (.reg tok)
  | .arrive tok code seq now tag => some (.arrive tok code seq now tag)
  | .regDone id => (toks[id]?).map (fun t => .regDone t id)
  | .regAbort id => (toks[id]?).map (fun t => .regAbort t id)
  | .cancel id => (toks[id]?).map (fun t => .cancel t id)
  | .reuse _ _ => none

def bookkeeping (s : AState) : AEv → AState
  | .reg tok => { s with stored := s.stored ++ [tok], msg := s.msg ++ [tok] }
  | .reuse id tok => { s with msg := s.msg.set id tok }
  | _ => s

/-- the code: every continuation of a registration works with the value stored at registration -/
def astep (s : AState) (e : AEv) : AState × List Obs :=
  match lower s.stored e with
  | some ev => let r := step s.base ev; (bookkeeping { s with base := r.1 } e, r.2)
  | none => (bookkeeping s e, [])

def arun : AState → List AEv → AState × List Obs
  | s, [] => (s, [])
  | s, e :: es =>
    let r1 := astep s e
    let r2 := arun r1.1 es
    (r2.1, r1.2 ++ r2.2)

/-- the aliasing machine: the observation object shares the token bytes of the caller's message -/
def astepAlias (s : AState) (e : AEv) : AState × List Obs :=
  match lower s.msg e with
  | some ev => let r := step s.base ev; (bookkeeping { s with base := r.1 } e, r.2)
  | none => (bookkeeping s e, [])

def arunAlias : AState → List AEv → AState × List Obs
  | s, [] => (s, [])
  | s, e :: es =>
    let r1 := astepAlias s e
    let r2 := arunAlias r1.1 es
    (r2.1, r1.2 ++ r2.2)

/-- the table-level history of an application-level history -/
def lowerAll : List Nat → List AEv → List Ev
  | _, [] => []
  | toks, e :: es =>
    let toks' := match e with | .reg tok => toks ++ [tok] | _ => toks
    match lower toks e with
    | some ev => ev :: lowerAll toks' es
    | none => lowerAll toks' es

end CoapVerif.Model.Observe
