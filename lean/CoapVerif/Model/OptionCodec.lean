import CoapVerif.Go.Basic
import CoapVerif.Generated.CodecConsts
import CoapVerif.Generated.OptionDefs
import CoapVerif.Spec.Wire
/-!
# Model of the option codec — `message/option.go`, `message/options.go` (Marshal / Unmarshal)

The functions follow the Go source statement by statement (DESIGN §3):

* every slice expression `b[i:]`, `b[:j]`, `b[i]` and every write `b[i] = x` is a *checked* primitive
  that returns `Err.panic` exactly when the Go runtime would panic (indexing against `len`);
* a destination buffer is its *contents* (`Bytes`, length = `len(buf)`); a callee that gets
  `buf[k:]` is run on `buf.drop k` and its result is spliced back (`withSub`), which is what
  writing through a sub-slice of the same backing array does; the Go idiom `buf = nil` ("too small,
  keep counting") is the flag `live = false`;
* constants and tables come from `Generated/CodecConsts.lean`, `Generated/OptionDefs.lean`.

The only types shared with the specification are the data types `Bytes`, `Opt`, `Msg`.
The dead `default: return -1, err` arms of the encoders (the error can only be nil or ErrTooSmall)
are not modelled.
-/
set_option linter.unusedVariables false
namespace CoapVerif.Model.OptionCodec
open CoapVerif.Generated.Codec
open CoapVerif.Spec.Wire (Bytes Opt Msg)

/-- Error enumeration of the line protocol (DESIGN appendix A). -/
inductive Err
  | panic | tooSmall | truncated | badVersion | badToken | badMID | badType | badCode
  | optTruncated | optExtMarker | optOverflow | optCap | shortRead | invalidLen
deriving Repr, DecidableEq, Inhabited

def Err.toString : Err → String
  | .panic => "panic" | .tooSmall => "tooSmall" | .truncated => "truncated" | .badVersion => "badVersion"
  | .badToken => "badToken" | .badMID => "badMID" | .badType => "badType" | .badCode => "badCode" | .optTruncated => "optTruncated"
  | .optExtMarker => "optExtMarker" | .optOverflow => "optOverflow" | .optCap => "optCap"
  | .shortRead => "shortRead" | .invalidLen => "invalidLen"

/-! ## Checked slice primitives -/

/-- `b[i]` -/
def idx (b : Bytes) (i : Nat) : Except Err UInt8 :=
  if h : i < b.length then .ok b[i] else .error .panic

/-- `b[i:]` -/
def sliceFrom (b : Bytes) (i : Nat) : Except Err Bytes :=
  if i ≤ b.length then .ok (b.drop i) else .error .panic

/-- `b[:j]` (checked against `len`; Go checks against `cap`, so this is the stricter reading) -/
def sliceTo (b : Bytes) (j : Nat) : Except Err Bytes :=
  if j ≤ b.length then .ok (b.take j) else .error .panic

/-- `b[i] = v` -/
def setAt (b : Bytes) (i : Nat) (v : UInt8) : Except Err Bytes :=
  if i < b.length then .ok (b.set i v) else .error .panic

/-- `binary.BigEndian.Uint16(b)` (bounds check `_ = b[1]` first). -/
def getU16 (b : Bytes) : Except Err Nat :=
  if h : 1 < b.length then .ok (b[0].toNat * 256 + b[1].toNat) else .error .panic

/-- `binary.BigEndian.Uint32(b)` (bounds check `_ = b[3]` first). -/
def getU32 (b : Bytes) : Except Err Nat :=
  if h : 3 < b.length then
    .ok (b[0].toNat * 16777216 + b[1].toNat * 65536 + b[2].toNat * 256 + b[3].toNat)
  else .error .panic

/-- `binary.BigEndian.PutUint16(b, v)` with `v` already cast to `uint16`. -/
def putU16 (b : Bytes) (v : Nat) : Except Err Bytes :=
  if 1 < b.length then .ok ((b.set 0 (UInt8.ofNat (v / 256))).set 1 (UInt8.ofNat (v % 256)))
  else .error .panic

/-- `copy(dst, src)`: copies `min(len)` bytes, never panics. -/
def goCopy (dst src : Bytes) : Bytes := src.take dst.length ++ dst.drop src.length

/-- Run a callee on the sub-slice `buf[k:]` and splice what it wrote back into `buf`. -/
def withSub {α : Type} (buf : Bytes) (k : Nat) (f : Bytes → Except Err (α × Bytes)) : Except Err (α × Bytes) :=
  if k ≤ buf.length then
    match f (buf.drop k) with
    | .error e => .error e
    | .ok (a, sub) => .ok (a, buf.take k ++ sub)
  else .error .panic

/-- `byte(x)` of a Go `int`: truncation modulo 256. -/
def byteOfInt (x : Int) : UInt8 := UInt8.ofNat (x % 256).toNat

/-! ## Encoder side -/

/-- `extendOpt(opt int) (int, int)` -/
def extendOpt (opt : Int) : Int × Int :=
  if opt ≥ (extByteAddend : Int) then
    if opt ≥ (extWordAddend : Int) then ((extWordCode : Int), opt - (extWordAddend : Int))
    else ((extByteCode : Int), opt - (extByteAddend : Int))
  else (opt, 0)

/-- `marshalOptionHeaderExt(buf, opt, ext)`: returns (bytes needed, too small?, buffer contents). -/
def marshalOptionHeaderExt (buf : Bytes) (opt ext : Int) : Except Err (Nat × Bool × Bytes) :=
  if opt = (extByteCode : Int) then
    if buf.length > 0 then do
      let b ← setAt buf 0 (byteOfInt ext)
      .ok (1, false, b)
    else .ok (1, true, buf)
  else if opt = (extWordCode : Int) then
    if buf.length > 1 then do
      let b ← putU16 buf (ext % 65536).toNat      -- math.CastTo[uint16](ext)
      .ok (2, false, b)
    else .ok (2, true, buf)
  else .ok (0, false, buf)

/-- The callee gets `buf[size:]` when `live`, `nil` otherwise. -/
def headerExtStep (buf : Bytes) (live : Bool) (size : Nat) (opt ext : Int) : Except Err ((Nat × Bool) × Bytes) :=
  if live then
    withSub buf size fun sub => do
      let (n, small, sub') ← marshalOptionHeaderExt sub opt ext
      .ok ((n, small), sub')
  else do
    let (n, small, _) ← marshalOptionHeaderExt [] opt ext
    .ok ((n, small), buf)

/-- `marshalOptionHeader(buf, delta, length)` -/
def marshalOptionHeader (buf : Bytes) (delta length : Int) : Except Err (Nat × Bool × Bytes) := do
  let (d, dx) := extendOpt delta
  let (l, lx) := extendOpt length
  -- first byte, or `buf = nil`
  let (buf, live) ←
    (if buf.length > 0 then do
      let b ← setAt buf 0 (byteOfInt (d * 16) ||| byteOfInt l)
      pure (b, true)
    else pure (buf, false) : Except Err (Bytes × Bool))
  let size := 1
  let ((lenBuf, small), buf) ← headerExtStep buf live size d dx
  let live := live && !small
  let size := size + lenBuf
  let ((lenBuf, small), buf) ← headerExtStep buf live size l lx
  let live := live && !small
  let size := size + lenBuf
  .ok (size, !live, buf)

/-- `Option.MarshalValue(buf)` -/
def marshalValue (buf : Bytes) (v : Bytes) : Nat × Bool × Bytes :=
  if buf.length < v.length then (v.length, true, buf) else (v.length, false, goCopy buf v)

/-- `Option.Marshal(buf, previousID)` -/
def optionMarshal (buf : Bytes) (prev : Nat) (o : Opt) : Except Err (Nat × Bool × Bytes) := do
  let delta : Int := (o.id : Int) - (prev : Int)
  let (lenBuf, _, _) := marshalValue [] o.val                   -- o.MarshalValue(nil): length only
  let (hdrLen, small, buf) ← marshalOptionHeader buf delta (lenBuf : Int)
  let live := !small
  let length := hdrLen
  let ((lenBuf, small), buf) ←
    (if live then
      withSub buf length fun sub =>
        let (n, s, sub') := marshalValue sub o.val
        .ok ((n, s), sub')
    else
      let (n, s, _) := marshalValue [] o.val
      .ok ((n, s), buf) : Except Err ((Nat × Bool) × Bytes))
  let live := live && !small
  let length := length + lenBuf
  .ok (length, !live, buf)

/-- Loop of `Options.Marshal`: `buf` contents, `live` = (`buf != nil`), previous ID, running length. -/
def optionsMarshalLoop (buf : Bytes) (live : Bool) (prev length : Nat) : List Opt → Except Err (Nat × Bool × Bytes)
  | [] => .ok (length, !live, buf)
  | o :: os => do
    let live := live && decide (length ≤ buf.length)          -- if length > len(buf) { buf = nil }
    let ((n, small), buf) ←
      (if live then
        withSub buf length fun sub => do
          let (n, s, sub') ← optionMarshal sub prev o
          .ok ((n, s), sub')
      else do
        let (n, s, _) ← optionMarshal [] prev o
        .ok ((n, s), buf) : Except Err ((Nat × Bool) × Bytes))
    let live := live && !small
    optionsMarshalLoop buf live o.id (length + n) os

/-- `Options.Marshal(buf)`; `none` is the nil slice. Returns (length, ErrTooSmall?, contents). -/
def optionsMarshal (buf : Option Bytes) (os : List Opt) : Except Err (Nat × Bool × Bytes) :=
  optionsMarshalLoop (buf.getD []) buf.isSome 0 0 os

/-! ## Decoder side -/

/-- `parseExtOpt(data, opt)`: (processed, value). -/
def parseExtOpt (data : Bytes) (opt : Nat) : Except Err (Nat × Nat) :=
  if opt = extByteCode then
    if data.length < 1 then .error .optTruncated
    else do
      let b ← idx data 0
      .ok (1, b.toNat + extByteAddend)
  else if opt = extWordCode then
    if data.length < 2 then .error .optTruncated
    else do
      let d ← sliceTo data 2
      let v ← getU16 d
      .ok (2, v + extWordAddend)
  else .ok (0, opt)

abbrev Defs := List (Nat × Nat × Nat × Nat)

/-- Go map lookup `optionDefs[id]`. -/
def lookupDef (defs : Defs) (id : Nat) : Option (Nat × Nat × Nat) :=
  match defs with
  | [] => none
  | (k, lo, hi, fmt) :: r => if k = id then some (lo, hi, fmt) else lookupDef r id

/-- `Option.Unmarshal(data, optionDefs, optionID)`: the option (ID 0 = skipped, the zero value) and
the processed count. -/
def optionUnmarshal (data : Bytes) (defs : Defs) (id : Nat) : Opt × Nat :=
  match lookupDef defs id with
  | some (lo, hi, fmt) =>
    if fmt = CoapVerif.Generated.OptionDefs.fmtUnknown then (⟨0, []⟩, data.length)
    else
      let dataLen := data.length % 4294967296         -- math.CastTo[uint32](len(data))
      if dataLen < lo ∨ dataLen > hi then (⟨0, []⟩, data.length)
      else (⟨id, data⟩, data.length)
  | none => (⟨id, data⟩, data.length)

/-- `b[i:]` carrying the length fact the termination argument of the loop needs (same check as `sliceFrom`). -/
def sliceFromP (b : Bytes) (i : Nat) : Except Err {r : Bytes // r = b.drop i} :=
  if i ≤ b.length then .ok ⟨b.drop i, rfl⟩ else .error .panic

/-- Loop of `Options.Unmarshal`.  `cap` = `cap(*options)`, `n` = `len(*options)`; returns the options
appended by this call and the processed count. -/
def unmarshalLoop (defs : Defs) (cap n prev processed : Nat) (data : Bytes) : Except Err (List Opt × Nat) :=
  if hpos : data.length > 0 then
    match idx data 0 with
    | .error e => .error e
    | .ok b0 =>
      if b0 = 0xff then .ok ([], processed + 1)
      else
        let delta := (b0 >>> 4).toNat
        let length := (b0 &&& 0x0f).toNat
        if delta = extError ∨ length = extError then .error .optExtMarker
        else
          match sliceFromP data 1 with
          | .error e => .error e
          | .ok ⟨data1, h1⟩ =>
            match parseExtOpt data1 delta with
            | .error e => .error e
            | .ok (proc1, delta) =>
              match sliceFromP data1 proc1 with
              | .error e => .error e
              | .ok ⟨data2, h2⟩ =>
                match parseExtOpt data2 length with
                | .error e => .error e
                | .ok (proc2, length) =>
                  match sliceFromP data2 proc2 with
                  | .error e => .error e
                  | .ok ⟨data3, h3⟩ =>
                    if data3.length < length then .error .optTruncated
                    else if prev + delta > maxOptionID then .error .optOverflow   -- math.SafeCastTo[OptionID]
                    else
                      let oid := prev + delta
                      match sliceTo data3 length with
                      | .error e => .error e
                      | .ok v =>
                        let (o, proc3) := optionUnmarshal v defs oid
                        if cap = n then .error .optCap
                        else
                          match sliceFromP data3 proc3 with
                          | .error e => .error e
                          | .ok ⟨data4, h4⟩ =>
                            match unmarshalLoop defs cap (if o.id ≠ 0 then n + 1 else n) oid
                                (processed + 1 + proc1 + proc2 + proc3) data4 with
                            | .error e => .error e
                            | .ok (rest, p) => .ok (if o.id ≠ 0 then o :: rest else rest, p)
  else .ok ([], processed)
termination_by data.length
decreasing_by
  subst h1 h2 h3 h4
  simp only [List.length_drop]
  omega

/-- `Options.Unmarshal(data, optionDefs)` on an option slice with `len = n`, `cap = cap`. -/
def optionsUnmarshal (defs : Defs) (cap n : Nat) (data : Bytes) : Except Err (List Opt × Nat) :=
  unmarshalLoop defs cap n 0 0 data

end CoapVerif.Model.OptionCodec
