import CoapVerif.Model.PoolOptions
/-!
Model of the option-list part of two users of `pool.Message` inside the library (C15, clone / reset-to through glue):

* `net/responsewriter`: `ResponseWriter.SetResponse(code, contentFormat, body, opts...)` =
  `ResetOptionsTo(opts)`, then `SetContentFormat` when there is a body;
* `net/observation`: `Handler.NewObservation(req, …)` keeps a copy of the request's options
  (`req.Options().Clone()`), `Observation.Request()` shows it, `Handler.GetObservationRequest` copies it into a fresh
  message (`ResetOptionsTo`), `Observation.Cancel` builds the deregistration request from it (Observe = 1, the path).

Whether `SetResponse` resets unconditionally and whether `NewObservation` clones (or merely copies the slice, keeping the
values as views into the request message's buffer) is read from the AST (`Generated/OptionListShape.lean`); the model
follows the source in either shape.
-/
namespace CoapVerif.Model.Options
open CoapVerif.Generated.OptionList CoapVerif.Generated.OptionListShape

namespace Msg

/-- the option part of `ResponseWriter.SetResponse` on the response message `r`; `cf` is the `MediaType` (uint16) -/
def setResponse (g : Nat → Nat) (gb : Nat → Nat → Nat) (r : Msg) (cf : Nat) (hasBody : Bool) (inp : List (Opt View)) :
    M (Msg × Option Err) := do
  let (r1, e1) ← (if setResponseAlwaysResets ∨ inp ≠ [] then r.resetOptionsTo g gb inp else pure (r, none) : M (Msg × Option Err))
  match e1 with
  | some e => pure (r1, some e)
  | none => if hasBody then r1.setOptionUint32 g gb contentFormat cf else pure (r1, none)

end Msg

/-- `NewObservation`: `req.Observe()` must be 0; the options kept are a clone of the request's (or, in the other shape,
a new slice holding the same views). `none` = the registration is refused. -/
def observeRequest (g : Nat → Nat) (m : Mem) (req : Options View) : M (Mem × Option (Options View)) := do
  match ← Options.getUint32 m req observe with
  | some 0 =>
    if observationClonesOptions then
      match ← Options.clone g m req with
      | (m', c, none) => pure (m', some c)
      | (m', _, some _) => pure (m', none)
    else
      -- options := make(message.Options, len(req.Options())); copy(options, req.Options())
      pure (m, some ⟨req.toList, req.len⟩)
  | _ => pure (m, none)

/-- `GetObservationRequest`: a fresh message reset to the kept options; returns its option list as a reader sees it. -/
def observationRequestItems (g : Nat → Nat) (gb : Nat → Nat → Nat) (m : Mem) (kept : Options View) :
    M (Mem × List (Nat × List UInt8)) := do
  let fresh := Msg.new m newMessageOptionsCap
  let (r, _) ← fresh.resetOptionsTo g gb kept.toList
  pure (r.mem, r.items)

/-- `Observation.Cancel`: the options of the deregistration request handed to the connection; `etag` is the ETag of the
latest notification delivered with one (`SetETag` ignores a length outside 1..8). -/
def cancelRequestItems (g : Nat → Nat) (gb : Nat → Nat → Nat) (m : Mem) (kept : Options View) (etag : List UInt8) :
    M (Mem × List (Nat × List UInt8)) := do
  let fresh := Msg.new m newMessageOptionsCap
  let (r1, _) ← fresh.resetOptionsTo g gb []
  let (r2, _) ← r1.setOptionUint32 g gb observe 1
  let (p, e) ← Options.pathString r2.mem kept uriPath
  let r3 ← (match e with
    | some _ => pure r2
    | none => do let (r3, _) ← r2.setPath g gb p; pure r3 : M Msg)
  let r4 ← (if 1 ≤ etag.length ∧ etag.length ≤ 8 then r3.putOptionBytes true g gb eTag etag else pure r3 : M Msg)
  pure (r4.mem, r4.items)

/-- which of the request builders of `net/client/client.go` -/
inductive ReqKind | get | post | put | delete | observe
  deriving DecidableEq, Repr

/-- `Client.New{Get,Post,Put,Delete,Observe}Request(ctx, path, [contentFormat, payload,] opts...)`: a message from the
pool, `ResetOptionsTo(opts)`, `SetPath(path)`, Content-Format when POST/PUT carry a payload, `SetObserve(0)` for an
observe request (or, in the other shape read from the AST, an Observe option appended to `opts`).  `none` = refused. -/
def buildRequest (g : Nat → Nat) (gb : Nat → Nat → Nat) (m : Mem) (k : ReqKind) (path : List UInt8) (cf : Nat)
    (hasBody : Bool) (inp : List (Nat × List UInt8)) : M (Mem × Option (List (Nat × List UInt8))) := do
  let fresh := Msg.new m newMessageOptionsCap
  let inp' := if k = .observe ∧ ¬ newObserveRequestSetsObserve then inp ++ [(observe, [])] else inp
  let r1 ← fresh.step g gb (.resetTo inp')
  let (r2, e) ← r1.setPath g gb path
  match e with
  | some _ => pure (r2.mem, none)
  | none =>
    let r3 ← (if hasBody ∧ (k = .post ∨ k = .put) then r2.step g gb (.setUint32 contentFormat cf) else pure r2 : M Msg)
    let r4 ← (if k = .observe ∧ newObserveRequestSetsObserve then r3.step g gb (.setUint32 observe 0) else pure r3 : M Msg)
    pure (r4.mem, some r4.items)

end CoapVerif.Model.Options
