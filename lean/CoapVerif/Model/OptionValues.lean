import CoapVerif.Model.Options
import CoapVerif.Generated.OptionListShape
/-!
Model of the value-carrying half of `message/options.go`: the functions that take a destination buffer
(`SetBytes`, `AddBytes`, `SetString`, `AddString`, `SetUint32`, `AddUint32`, `setPath`/`SetPath`/`SetLocationPath`,
`GetPathBufferSize`, `ResetOptionsTo`, `Clone`) and the getters that read values (`GetUint32(s)`, `GetString(s)`,
`GetBytes(s)`, `path`/`Path`/`LocationPath`, `Queries`, `ContentFormat`), plus `EncodeUint32`/`DecodeUint32`
(`message/encodeDecodeUint32.go`).

Option values are **views** `(buffer id, offset, length)` into a heap `Mem` of byte buffers, because the Go code
stores sub-slices of the caller's buffer: `Value: buf[:len(data)]`.  A Go `[]byte` argument is a `Slice`
`(buffer id, offset, length)`, its capacity being the rest of the buffer.  `copy` never panics (copies the
minimum); slice expressions are checked.
-/
namespace CoapVerif.Model.Options
open CoapVerif.Generated.OptionList CoapVerif.Generated.OptionListShape

/-- A stored option value: sub-slice of a value buffer. `⟨0,0,0⟩` models `nil` / the zero `Option{}`. -/
structure View where
  bid : Nat
  off : Nat
  len : Nat
  deriving DecidableEq, Repr

instance : Inhabited View := ⟨⟨0, 0, 0⟩⟩

/-- A `[]byte` header (length window; capacity = rest of the buffer). -/
structure Slice where
  bid : Nat
  off : Nat
  len : Nat
  deriving DecidableEq, Repr

/-- The heap: buffer id ↦ bytes of the backing array (fixed size once allocated). -/
abbrev Mem := List (List UInt8)

namespace Mem

def buf (m : Mem) (b : Nat) : List UInt8 := m.getD b []
def size (m : Mem) (b : Nat) : Nat := (m.buf b).length
def read (m : Mem) (v : View) : List UInt8 := ((m.buf v.bid).drop v.off).take v.len
/-- `make([]byte, n)` -/
def alloc (m : Mem) (n : Nat) : Mem × Slice := (m ++ [List.replicate n 0], ⟨m.length, 0, n⟩)
/-- a buffer holding given bytes (memory owned by the caller of the library) -/
def allocBytes (m : Mem) (bs : List UInt8) : Mem × View := (m ++ [bs], ⟨m.length, 0, bs.length⟩)
/-- overwrite `data.length` bytes of buffer `b` from offset `off` (callers stay inside the buffer) -/
def write (m : Mem) (b off : Nat) (data : List UInt8) : Mem :=
  m.set b ((m.buf b).take off ++ data ++ (m.buf b).drop (off + data.length))
/-- `copy(dst, data)` -/
def copyTo (m : Mem) (dst : Slice) (data : List UInt8) : Mem := m.write dst.bid dst.off (data.take dst.len)

end Mem

namespace Slice
/-- `buf[n:]` -/
def tail (s : Slice) (n : Nat) : M Slice :=
  if n ≤ s.len then .ok ⟨s.bid, s.off + n, s.len - n⟩ else .error .slice
/-- `buf[:n]` as an option value -/
def head (m : Mem) (s : Slice) (n : Nat) : M View :=
  if s.off + n ≤ m.size s.bid then .ok ⟨s.bid, s.off, n⟩ else .error .slice
def cap (m : Mem) (s : Slice) : Nat := m.size s.bid - s.off
end Slice

/-- Result of an `Options` method that edits: `(Options, int, error)` plus the heap after the call. -/
structure Res where
  mem : Mem
  opts : Options View
  used : Int
  err : Option Err

/-! ### `message/encodeDecodeUint32.go` -/

def encodeUint32Bytes (v : Nat) : List UInt8 :=
  if v = 0 then []
  else if v ≤ max1ByteNumber then [UInt8.ofNat v]
  else if v ≤ max2ByteNumber then [UInt8.ofNat (v / 256), UInt8.ofNat v]
  else if v ≤ max3ByteNumber then [UInt8.ofNat (v / 65536), UInt8.ofNat (v / 256), UInt8.ofNat v]
  else [UInt8.ofNat (v / 16777216), UInt8.ofNat (v / 65536), UInt8.ofNat (v / 256), UInt8.ofNat v]

/-- `EncodeUint32(buf, value) (int, error)` (value a `uint32`) -/
def encodeUint32 (m : Mem) (buf : Slice) (v : Nat) : Mem × Nat × Option Err :=
  let bs := encodeUint32Bytes v
  if buf.len < bs.length then (m, bs.length, some .tooSmall) else (m.copyTo buf bs, bs.length, none)

/-- `DecodeUint32(buf)`: big-endian value of the first (at most four) bytes; never fails. -/
def decodeUint32 (bs : List UInt8) : Nat := (bs.take 4).foldl (fun acc b => acc * 256 + b.toNat) 0

namespace Options

/-! ### editing with a destination buffer -/

/-- `SetBytes(buf, id, data)` -/
def setBytes (g : Nat → Nat) (m : Mem) (o : Options View) (buf : Slice) (id : Nat) (data : List UInt8) : M Res :=
  if buf.len < data.length then pure ⟨m, o, data.length, some .tooSmall⟩
  else if id = uriPath ∧ data.length > maxPathValue then pure ⟨m, o, -1, some .invalidLen⟩
  else do
    let m' := m.copyTo buf data
    let v ← buf.head m' data.length
    let o' ← o.set g (id, v)
    pure ⟨m', o', data.length, none⟩

/-- `AddBytes(buf, id, data)` -/
def addBytes (g : Nat → Nat) (m : Mem) (o : Options View) (buf : Slice) (id : Nat) (data : List UInt8) : M Res :=
  if buf.len < data.length then pure ⟨m, o, data.length, some .tooSmall⟩
  else if id = uriPath ∧ data.length > maxPathValue then pure ⟨m, o, -1, some .invalidLen⟩
  else do
    let m' := m.copyTo buf data
    let v ← buf.head m' data.length
    let o' ← o.add g (id, v)
    pure ⟨m', o', data.length, none⟩

/-- `SetString` / `AddString`: `[]byte(str)` then `SetBytes` / `AddBytes`. -/
def setString := @setBytes
def addString := @addBytes

/-- `SetUint32(buf, id, value)` -/
def setUint32 (g : Nat → Nat) (m : Mem) (o : Options View) (buf : Slice) (id : Nat) (v : Nat) : M Res :=
  match encodeUint32 m buf v with
  | (_, enc, some e) => pure ⟨m, o, enc, some e⟩
  | (m', enc, none) => do
    let val ← buf.head m' enc
    let o' ← o.set g (id, val)
    pure ⟨m', o', enc, none⟩

/-- `AddUint32(buf, id, value)` -/
def addUint32 (g : Nat → Nat) (m : Mem) (o : Options View) (buf : Slice) (id : Nat) (v : Nat) : M Res :=
  match encodeUint32 m buf v with
  | (_, enc, some e) => pure ⟨m, o, enc, some e⟩
  | (m', enc, none) => do
    let val ← buf.head m' enc
    let o' ← o.add g (id, val)
    pure ⟨m', o', enc, none⟩

/-! ### paths -/

def slash : UInt8 := 47

/-- `strings.Index(s, "/")` -/
def indexSlash : List UInt8 → Option Nat
  | [] => none
  | c :: r => if c = slash then some 0 else (indexSlash r).map (· + 1)

/-- The loop of `GetPathBufferSize` on `path[start:]` (`rest`), accumulated `size`. -/
def pathSizeLoop : Nat → List UInt8 → Nat → M (Except Err Nat)
  | 0, _, _ => .error .fuel
  | fuel + 1, rest, size =>
    if rest = [] then pure (.ok size)
    else
      match indexSlash rest with
      | some 0 => pathSizeLoop fuel rest.tail size
      | r =>
        let segmentSize := r.getD rest.length
        if segmentSize > maxPathValue then pure (.error .invalidLen)
        else pathSizeLoop fuel (rest.drop (segmentSize + 1)) (size + segmentSize)

/-- `GetPathBufferSize(path) (int, error)` -/
def getPathBufferSize (path : List UInt8) : M (Except Err Nat) := pathSizeLoop (path.length + 1) path 0

/-- The segment loop of `setPath` on `path[start:]`. -/
def setPathLoop (g : Nat → Nat) (id : Nat) (buf : Slice) : Nat → Mem → Options View → Nat → List UInt8 → M Res
  | 0, _, _, _, _ => .error .fuel
  | fuel + 1, m, o, encoded, rest =>
    if rest = [] then pure ⟨m, o, encoded, none⟩
    else
      match indexSlash rest with
      | some 0 => setPathLoop g id buf fuel m o encoded rest.tail
      | r => do
        let stop := r.getD rest.length
        let data ← buf.tail encoded
        let res ← addString g m o data id (rest.take stop)
        match res.err with
        | some e => pure ⟨res.mem, res.opts, -1, some e⟩
        | none => setPathLoop g id buf fuel res.mem res.opts (encoded + res.used.toNat) (rest.drop (stop + 1))

/-- `setPath(options, optionID, buf, path)` in the order "validate the path, check the buffer, then remove the old
path options" (the source after the repair of F19). -/
def setPathChecked (g : Nat → Nat) (m : Mem) (o : Options View) (id : Nat) (buf : Slice) (path : List UInt8) : M Res :=
  if path = [] then pure ⟨m, o, 0, none⟩
  else do
    let path := if path.head? = some slash then path.tail else path
    match ← getPathBufferSize path with
    | .error e => pure ⟨m, o, -1, some e⟩
    | .ok requiredSize =>
      if requiredSize > buf.len then pure ⟨m, o, -1, some .tooSmall⟩
      else
        let o1 ← o.remove id
        setPathLoop g id buf (path.length + 1) m o1 0 path

/-- `setPath` in the order "remove first, validate afterwards, return `options` on error" (the source before F19 was
repaired).  `Remove` works in place: the caller's header `options` then sees the compacted array with its old length. -/
def setPathUnchecked (g : Nat → Nat) (m : Mem) (o : Options View) (id : Nat) (buf : Slice) (path : List UInt8) : M Res :=
  if path = [] then pure ⟨m, o, 0, none⟩
  else do
    let o1 ← o.remove id
    let options : Options View := ⟨o1.arr, o.len⟩
    let path := if path.head? = some slash then path.tail else path
    match ← getPathBufferSize path with
    | .error e => pure ⟨m, options, -1, some e⟩
    | .ok requiredSize =>
      if requiredSize > buf.len then pure ⟨m, options, -1, some .tooSmall⟩
      else setPathLoop g id buf (path.length + 1) m o1 0 path

/-- `setPath`: the statement order is read from the AST (`setPathValidatesBeforeRemove`). -/
def setPath (g : Nat → Nat) (m : Mem) (o : Options View) (id : Nat) (buf : Slice) (path : List UInt8) : M Res :=
  if setPathValidatesBeforeRemove then setPathChecked g m o id buf path else setPathUnchecked g m o id buf path

/-- `for i := firstIdx; i < lastIdx; i++ { needed += len(options[i].Value); needed++ }` -/
def pathNeeded (o : Options View) : Nat → Int → Nat → M Nat
  | 0, _, needed => pure needed
  | k + 1, i, needed => do
    let x ← o.getI i
    pathNeeded o k (i + 1) (needed + x.2.len + 1)

/-- the copy loop of `path`: `rem` = `len(buf)`, `out` = bytes written so far -/
def pathWrite (m : Mem) (o : Options View) : Nat → Int → Nat → List UInt8 → M (List UInt8)
  | 0, _, _, out => pure out
  | k + 1, i, rem, out =>
    if rem = 0 then .error .index            -- buf[0] = '/'
    else do
      let x ← o.getI i
      let v := m.read x.2
      let rem := rem - 1                     -- buf = buf[1:]
      if x.2.len > rem then .error .slice    -- buf = buf[len(options[i].Value):]
      else pathWrite m o k (i + 1) (rem - x.2.len) (out ++ slash :: v.take rem)

/-- `path(buf, id) (int, error)` on a buffer of length `bufLen`; third component: the bytes written to `buf`. -/
def path (m : Mem) (o : Options View) (bufLen : Nat) (id : Nat) : M (Int × Option Err × List UInt8) := do
  match ← o.find id with
  | none => pure (-1, some .notFound, [])
  | some (firstIdx, lastIdx) =>
    -- both loops are `for i := firstIdx; i ? lastIdx; i++`; `?` is read from the AST
    let iterations := (lastIdx - firstIdx).toNat + (if pathLoopsStrict then 0 else 1)
    let needed ← pathNeeded o iterations firstIdx 0
    if bufLen < needed then pure (needed, some .tooSmall, [])
    else
      let out ← pathWrite m o iterations firstIdx bufLen []
      pure (needed, none, out)

/-- `Path()` / `LocationPath()` : `(string, error)` -/
def pathString (m : Mem) (o : Options View) (id : Nat) : M (List UInt8 × Option Err) := do
  let r ← path m o 32 id
  let (r, bufLen) ← (match r with
    | (needed, some .tooSmall, _) => do
      -- buf = append(buf, make([]byte, m)...)
      let r' ← path m o (32 + needed.toNat) id
      pure (r', 32 + needed.toNat)
    | r => pure (r, 32) : M ((Int × Option Err × List UInt8) × Nat))
  match r with
  | (_, some e, _) => pure ([], some e)
  | (n, none, out) =>
    -- buf = buf[:m]
    if n < 0 ∨ n.toNat > bufLen then .error .slice else pure (out.take n.toNat, none)

/-! ### getters that read values -/

def getBytes (m : Mem) (o : Options View) (id : Nat) : M (Option (List UInt8)) := do
  return (← o.getFirst id).map m.read

def getUint32 (m : Mem) (o : Options View) (id : Nat) : M (Option Nat) := do
  return (← o.getFirst id).map (fun v => decodeUint32 (m.read v))

/-- `ContentFormat() (MediaType, error)`: `math.CastTo[MediaType](v)` truncates to the width of `MediaType`. -/
def contentFormatOf (m : Mem) (o : Options View) : M (Option Nat) := do
  return (← getUint32 m o contentFormat).map (· % 2 ^ mediaTypeBits)

/-- `GetBytess` on a result slice of length `n` -/
def getBytess (m : Mem) (o : Options View) (id : Nat) (n : Nat) : M (Int × Option Err × List (List UInt8)) := do
  let (c, e, vs) ← o.getMulti getBytessLoopStrict id n
  pure (c, e, vs.map m.read)

/-- `GetStrings` on a result slice of length `n` -/
def getStrings (m : Mem) (o : Options View) (id : Nat) (n : Nat) : M (Int × Option Err × List (List UInt8)) := do
  let (c, e, vs) ← o.getMulti getStringsLoopStrict id n
  pure (c, e, vs.map m.read)

/-- `GetUint32s` -/
def getUint32s (m : Mem) (o : Options View) (id : Nat) (n : Nat) : M (Int × Option Err × List Nat) := do
  let (c, e, vs) ← o.getMulti getUint32sLoopStrict id n
  pure (c, e, vs.map (fun v => decodeUint32 (m.read v)))

/-- `Queries() ([]string, error)` -/
def queries (m : Mem) (o : Options View) : M (Option (List (List UInt8))) := do
  let r ← getStrings m o uriQuery 4
  let (r, qLen) ← (match r with
    | (n, some .tooSmall, _) => do
      -- q = append(q, make([]string, n-len(q))...)
      if n < 4 then .error .slice   -- make with negative length panics
      else
        let r' ← getStrings m o uriQuery n.toNat
        pure (r', n.toNat)
    | r => pure (r, 4) : M ((Int × Option Err × List (List UInt8)) × Nat))
  match r with
  | (_, some _, _) => pure none
  | (n, none, vs) => if n < 0 ∨ n.toNat > qLen then .error .slice else pure (some (vs.take n.toNat))

/-! ### `ResetOptionsTo`, `Clone` -/

/-- `for _, o := range in { total += len(o.Value) }` -/
def totalLen (inp : List (Opt View)) : Nat := inp.foldl (fun acc x => acc + x.2.len) 0

/-- the copy-and-add loop of `ResetOptionsTo` -/
def resetLoop (g : Nat → Nat) : List (Opt View) → Mem → Options View → Slice → Nat → M Res
  | [], m, opts, _, used => pure ⟨m, opts, used, none⟩
  | x :: rest, m, opts, buf, used => do
    let m' := m.copyTo buf (m.read x.2)
    let v ← buf.head m' x.2.len
    let opts' ← opts.add g (x.1, v)
    let buf' ← buf.tail x.2.len
    resetLoop g rest m' opts' buf' (used + x.2.len)

/-- `ResetOptionsTo(buf, in)` with the size checked before anything is overwritten (the source after the repair of finding C15-resetto) -/
def resetOptionsToChecked (g : Nat → Nat) (m : Mem) (o : Options View) (buf : Slice) (inp : List (Opt View)) : M Res :=
  let total := totalLen inp
  if buf.len < total then pure ⟨m, o, total, some .tooSmall⟩
  else do
    let opts ← o.reslice 0
    resetLoop g inp m opts buf 0

/-- the loop of `ResetOptionsTo` as it was before finding C15-resetto: the check sits inside the loop; `callerArr` is the array the
caller's header points to (it follows the in-place `Add`s until the first reallocation) -/
def resetLoopUnchecked (g : Nat → Nat) (origLen : Nat) :
    List (Opt View) → Mem → Options View → List (Opt View) → Slice → Nat → M Res
  | [], m, opts, _, _, used => pure ⟨m, opts, used, none⟩
  | x :: rest, m, opts, callerArr, buf, used =>
    if buf.len < x.2.len then
      pure ⟨m, ⟨callerArr, origLen⟩, used + totalLen (x :: rest), some .tooSmall⟩
    else do
      let m' := m.copyTo buf (m.read x.2)
      let v ← buf.head m' x.2.len
      let inPlace := opts.len < opts.arr.length
      let opts' ← opts.add g (x.1, v)
      let buf' ← buf.tail x.2.len
      resetLoopUnchecked g origLen rest m' opts' (if inPlace then opts'.arr else callerArr) buf' (used + x.2.len)

def resetOptionsToUnchecked (g : Nat → Nat) (m : Mem) (o : Options View) (buf : Slice) (inp : List (Opt View)) : M Res := do
  let opts ← o.reslice 0
  resetLoopUnchecked g o.len inp m opts o.arr buf 0

/-- `ResetOptionsTo`: where the size check sits is read from the AST (`resetChecksSizeBeforeOverwrite`). -/
def resetOptionsTo (g : Nat → Nat) (m : Mem) (o : Options View) (buf : Slice) (inp : List (Opt View)) : M Res :=
  if resetChecksSizeBeforeOverwrite then resetOptionsToChecked g m o buf inp else resetOptionsToUnchecked g m o buf inp

/-- The copy-and-add loop of `ResetOptionsTo` when `in` is a slice `options[k:k+n]` of the receiver's **own backing
array** (`m.ResetOptionsTo(m.Options()[k:])`): iteration `idx` reads `in[idx]`, i.e. element `rd = k + idx` of the array
*as it is at that moment*, while the `Add`s of the earlier iterations have been writing into the same array.  `src` is
the array `in` points to: it follows `opts.arr` as long as `Add` works in place and is frozen at the first reallocation. -/
def resetLoopAliased (g : Nat → Nat) : Nat → Nat → Mem → Options View → List (Opt View) → Slice → Nat → M Res
  | 0, _, m, opts, _, _, used => pure ⟨m, opts, used, none⟩
  | cnt + 1, rd, m, opts, src, buf, used => do
    let x ← (match src[rd]? with
      | some x => pure x
      | none => .error .index : M (Opt View))
    let m' := m.copyTo buf (m.read x.2)
    let v ← buf.head m' x.2.len
    let inPlace := opts.len < opts.arr.length
    let opts' ← opts.add g (x.1, v)
    let buf' ← buf.tail x.2.len
    resetLoopAliased g cnt (rd + 1) m' opts' (if inPlace then opts'.arr else src) buf' (used + x.2.len)

/-- `options.ResetOptionsTo(buf, options[k:k+n])`: the input aliases the receiver's array (modelled for the repaired
statement order; the sizes are summed before anything is written). -/
def resetOptionsToAliased (g : Nat → Nat) (m : Mem) (o : Options View) (buf : Slice) (k n : Nat) : M Res :=
  if k + n > o.arr.length then .error .slice           -- options[k:k+n] beyond the capacity
  else if resetChecksSizeBeforeOverwrite then
    let total := totalLen ((o.arr.drop k).take n)
    if buf.len < total then pure ⟨m, o, total, some .tooSmall⟩
    else do
      let opts ← o.reslice 0
      resetLoopAliased g n k m opts o.arr buf 0
  else resetOptionsToUnchecked g m o buf ((o.arr.drop k).take n)   -- (array aliasing not modelled for the old shape)

/-- `Clone() (Options, error)`; `gb` is the growth policy of `append` on byte slices (minimum = what is asked for). -/
def clone (g : Nat → Nat) (m : Mem) (o : Options View) : M (Mem × Options View × Option Err) := do
  let opts : Options View := Options.make o.len
  let (m1, buf) := m.alloc 64
  let r ← resetOptionsTo g m1 opts buf o.toList
  match r.err with
  | some .tooSmall =>
    -- buf = append(buf, make([]byte, used-len(buf))...): len = cap = 64, so a fresh buffer of length `used`
    let (m2, buf2) := r.mem.alloc r.used.toNat
    let m2 := m2.copyTo buf2 (r.mem.read ⟨buf.bid, buf.off, buf.len⟩)
    let r2 ← resetOptionsTo g m2 r.opts buf2 o.toList
    pure (r2.mem, r2.opts, r2.err)
  | e => pure (r.mem, r.opts, e)

end Options
end CoapVerif.Model.Options
