import CoapVerif.Generated.OptionList
/-!
Model of `message/options.go` (everything except `Marshal`/`Unmarshal`): `findPosition`, `Find`, `Set`, `Add`,
`Remove`, the getters' index loops, over the **header/array** representation of DESIGN §3.

* `Options α` is a Go slice header `(arr, len)` over a backing array; `cap = arr.length`.  The backing array is a
  `List` of fixed length (chosen over `Array` only because core has the richer `take/drop/set` lemma library; all
  accesses are by index and *checked*: they return `Panic` exactly where the Go runtime would panic).
* `α` is the representation of an option value.  In `Model/PoolMessage.lean` it is a *view* `(buffer, offset,
  length)` into the message's value buffers, as the Go code stores sub-slices; here it is abstract, because the
  list code never looks at a value.
* Writes are in place (`setAt`), `append` writes in place when `len < cap` and reallocates (fresh array, old one
  untouched) exactly when `len = cap`; the new capacity is given by an arbitrary growth policy `g` (Go: runtime
  `growslice`); every theorem holds for every policy.
* Loops that are `for` loops over an index in Go are recursions on the iteration count; the binary-search loop of
  `findPosition`, which has no syntactic bound, takes explicit fuel (`2·len + 2`) and `Props/C15.lean` proves it
  never runs out (termination measure `2·(max − min) + [pivot ∈ {min,max}]`).
-/
namespace CoapVerif.Model.Options

inductive Err | notFound | tooSmall | invalidLen
  deriving DecidableEq, Repr

/-- Ways a Go operation can crash. `explicit` = `panic(fmt.Errorf(..: %w, err))` in `pool.Message` setters. -/
inductive Panic | index | slice | explicit (e : Err) | fuel
  deriving DecidableEq, Repr

abbrev M := Except Panic

/-- `message.Option{ID, Value}`. -/
abbrev Opt (α : Type) := Nat × α

/-- `message.Options` = slice header over a backing array. -/
structure Options (α : Type) where
  arr : List (Opt α)
  len : Nat
  deriving Repr

variable {α : Type}

namespace Options

def cap (o : Options α) : Nat := o.arr.length

/-- `make(Options, 0, cap)` -/
def make [Inhabited α] (cap : Nat) : Options α := ⟨List.replicate cap default, 0⟩

/-- The Go value `options[0:len]` as a list: what a reader of the slice sees. -/
def toList (o : Options α) : List (Opt α) := o.arr.take o.len

/-- `options[i]` (read), `i` a Go `int` known to be non-negative. -/
def get (o : Options α) (i : Nat) : M (Opt α) :=
  if i < o.len then
    match o.arr[i]? with
    | some x => .ok x
    | none => .error .index
  else .error .index

/-- `options[i]` (read) for a Go `int` that may be negative. -/
def getI (o : Options α) (i : Int) : M (Opt α) :=
  if i < 0 then .error .index else o.get i.toNat

/-- `options[i] = x` -/
def setAt (o : Options α) (i : Nat) (x : Opt α) : M (Options α) :=
  if i < o.len ∧ i < o.arr.length then .ok ⟨o.arr.set i x, o.len⟩ else .error .index

def setAtI (o : Options α) (i : Int) (x : Opt α) : M (Options α) :=
  if i < 0 then .error .index else o.setAt i.toNat x

/-- `options[:n]` -/
def reslice (o : Options α) (n : Nat) : M (Options α) :=
  if n ≤ o.arr.length then .ok ⟨o.arr, n⟩ else .error .slice

def resliceI (o : Options α) (n : Int) : M (Options α) :=
  if n < 0 then .error .slice else o.reslice n.toNat

/-- `append(options, x)`: in place when `len < cap`; otherwise a fresh array of capacity `max (g cap) (len+1)`. -/
def append [Inhabited α] (g : Nat → Nat) (o : Options α) (x : Opt α) : Options α :=
  if o.len < o.arr.length then ⟨o.arr.set o.len x, o.len + 1⟩
  else
    let n := max (g o.arr.length) (o.len + 1)
    ⟨o.arr.take o.len ++ x :: List.replicate (n - (o.len + 1)) default, o.len + 1⟩

/-- The `for { switch … }` loop of `findPosition` up to the point where it enters its first case: returns the pivot. -/
def findPivot (o : Options α) (id : Nat) : Nat → Nat → Nat → Nat → M Nat
  | 0, _, _, _ => .error .fuel
  | fuel + 1, minIdx, maxIdx, pivot => do
    let p ← o.get pivot
    if id = p.1 ∨ (maxIdx - minIdx) / 2 = 0 then pure pivot
    else if id < p.1 then findPivot o id fuel minIdx pivot (pivot - (pivot - minIdx) / 2)
    else findPivot o id fuel pivot maxIdx (pivot + (maxIdx - pivot) / 2)

/-- `for maxIdx = pivot; maxIdx < len(options) && options[maxIdx].ID <= id; { maxIdx++ }` (`k` = iterations left) -/
def scanRight (o : Options α) (id : Nat) : Nat → Nat → M Nat
  | 0, i => pure i
  | k + 1, i =>
    if i < o.len then do
      let x ← o.get i
      if x.1 ≤ id then scanRight o id k (i + 1) else pure i
    else pure i

/-- `for minIdx = pivot; minIdx >= 0 && options[minIdx].ID >= id; { minIdx-- }` -/
def scanLeft (o : Options α) (id : Nat) : Nat → M Int
  | 0 => do
    let x ← o.get 0
    if x.1 ≥ id then pure (-1) else pure 0
  | i + 1 => do
    let x ← o.get (i + 1)
    if x.1 ≥ id then scanLeft o id i else pure ((i + 1 : Nat) : Int)

/-- `findPosition(id) (minIdx, maxIdx int)` -/
def findPosition (o : Options α) (id : Nat) : M (Int × Int) :=
  if o.len = 0 then pure (-1, 0)
  else do
    let pivot ← findPivot o id (2 * o.len + 2) 0 o.len 0
    let mx ← scanRight o id (o.len - pivot) pivot
    let mx : Int := if mx = o.len then -1 else (mx : Int)
    let mn ← scanLeft o id pivot
    pure (mn, mx)

/-- `Find(id) (int, int, error)`; the error is always `ErrOptionNotFound`. -/
def find (o : Options α) (id : Nat) : M (Option (Int × Int)) := do
  let (idxPre, idxPost) ← o.findPosition id
  if idxPre = -1 ∧ idxPost = 0 then pure none
  else if idxPre = (o.len : Int) - 1 ∧ idxPost = -1 then pure none
  else if idxPre < idxPost ∧ idxPost - idxPre = 1 then pure none
  else pure (some (idxPre + 1, if idxPost < 0 then (o.len : Int) else idxPost))

/-- `for i := hi; i > lo; i-- { options[i] = options[i-1]; updateIdx++ }` with `k = hi - lo` iterations. -/
def shiftRight : Options α → Nat → Int → Int → M (Options α × Int)
  | o, 0, _, u => pure (o, u)
  | o, k + 1, i, u => do
    let x ← o.getI (i - 1)
    let o' ← o.setAtI i x
    shiftRight o' k (i - 1) (u + 1)

/-- `for i := from; i < to; i++ { options[updateIdx] = options[i]; updateIdx++ }` with `k = to - from` iterations. -/
def shiftLeft : Options α → Nat → Int → Int → M (Options α × Int)
  | o, 0, _, u => pure (o, u)
  | o, k + 1, i, u => do
    let x ← o.getI i
    let o' ← o.setAtI u x
    shiftLeft o' k (i + 1) (u + 1)

/-- `if len(options) == cap(options) { options = append(options, Option{}) } else { options = options[:len(options)+1] }` -/
def growOne [Inhabited α] (g : Nat → Nat) (o : Options α) : M (Options α) :=
  if o.len = o.arr.length then pure (o.append g default) else o.reslice (o.len + 1)

/-- The `switch` of `Set`: `(insertPosition, updateTo, updateFrom, replace-in-place-and-return)`; the variables keep
their zero values when no case matches. -/
def setSwitch (optsLength idxPre idxPost : Int) : Int × Int × Int × Bool :=
  if idxPre = -1 ∧ idxPost ≥ 0 then (0, 1, idxPost, false)
  else if idxPre = idxPost then (idxPre, idxPre + 1, idxPre, false)
  else if idxPre ≥ 0 then
    let updateFrom := if idxPost < 0 then optsLength else idxPost
    (idxPre + 1, idxPre + 2, updateFrom, idxPre + 2 = updateFrom)
  else (0, 0, 0, false)

/-- The part of `Set` after the `switch`: grow by one, "replace + move", store, cut to `updateIdx`. -/
def setMove [Inhabited α] (g : Nat → Nat) (o : Options α) (opt : Opt α) (insertPosition updateTo updateFrom : Int) :
    M (Options α) := do
  let optsLength : Int := o.len
  let o1 ← growOne g o
  let (o2, updateIdx) ←
    if updateFrom < updateTo then shiftRight o1 (optsLength - updateFrom).toNat optsLength updateTo
    else shiftLeft o1 (optsLength - updateFrom).toNat updateFrom updateTo
  let o3 ← o2.setAtI insertPosition opt
  o3.resliceI updateIdx

/-- `Set(opt) Options` -/
def set [Inhabited α] (g : Nat → Nat) (o : Options α) (opt : Opt α) : M (Options α) := do
  let (idxPre, idxPost) ← o.findPosition opt.1
  if idxPre = -1 ∧ idxPost = -1 then
    -- options = append(options[:0], opt)
    let o0 ← o.reslice 0
    pure (o0.append g opt)
  else
    let (insertPosition, updateTo, updateFrom, early) := setSwitch o.len idxPre idxPost
    if early then o.setAtI insertPosition opt
    else setMove g o opt insertPosition updateTo updateFrom

/-- `Add(opt) Options` -/
def add [Inhabited α] (g : Nat → Nat) (o : Options α) (opt : Opt α) : M (Options α) := do
  let (_, idxPost) ← o.findPosition opt.1
  let idxPost : Int := if idxPost = -1 then o.len else idxPost
  let o1 ← growOne g o
  -- for i := len(options) - 1; i > idxPost; i-- { options[i] = options[i-1] }
  let (o2, _) ← shiftRight o1 ((o1.len : Int) - 1 - idxPost).toNat ((o1.len : Int) - 1) 0
  o2.setAtI idxPost opt

/-- `Remove(id) Options` -/
def remove (o : Options α) (id : Nat) : M (Options α) := do
  match ← o.find id with
  | none => pure o
  | some (idxPre, idxPost) =>
    let (o1, _) ← shiftLeft o ((o.len : Int) - idxPost).toNat idxPost idxPre
    o1.resliceI ((o.len : Int) - (idxPost - idxPre))

/-- `HasOption(id)` -/
def has (o : Options α) (id : Nat) : M Bool := do
  return (← o.find id).isSome

/-- The single-value getters (`GetUint32`, `GetString`, `GetBytes`): `options[firstIdx].Value` or `ErrOptionNotFound`. -/
def getFirst (o : Options α) (id : Nat) : M (Option α) := do
  match ← o.find id with
  | none => pure none
  | some (firstIdx, _) => return some (← o.getI firstIdx).2

/-- `for i := firstIdx; i < lastIdx; i++ { r[idx] = options[i].Value; idx++ }` — `r` has length `n`; returns what was
written to `r[0:idx]` (in order). -/
def collect (o : Options α) (n : Nat) : Nat → Int → List α → M (List α)
  | 0, _, acc => pure acc.reverse
  | k + 1, i, acc => do
    let x ← o.getI i
    if acc.length < n then collect o n k (i + 1) (x.2 :: acc) else .error .index

/-- The multi-value getters (`GetUint32s`, `GetStrings`, `GetBytess`) on a result slice of length `n`:
`(count, err, r[0:count])`.  `strict` says whether the loop is `for i := firstIdx; i < lastIdx; i++` (true) or
`i <= lastIdx` (false, the form `GetUint32s` had before F1); it is read from the AST per function
(`Generated/OptionListShape.lean`). -/
def getMulti (strict : Bool) (o : Options α) (id : Nat) (n : Nat) : M (Int × Option Err × List α) := do
  match ← o.find id with
  | none => pure (0, some .notFound, [])
  | some (firstIdx, lastIdx) =>
    if (n : Int) < lastIdx - firstIdx then pure (lastIdx - firstIdx, some .tooSmall, [])
    else
      let vs ← collect o n ((lastIdx - firstIdx).toNat + (if strict then 0 else 1)) firstIdx []
      pure (vs.length, none, vs)

end Options
end CoapVerif.Model.Options
