import CoapVerif.Spec.Ownership
/-!
C12 model, part 1: the typestate monitor that is run over the lifecycle traces recorded from the real code
(hook h1 in message/pool: `acq`/`rel`/`poison`; `hold`/`unhold` are emitted by the harness around every place the
application is handed a message).  An object never seen before is `held` by whoever created it (pool.NewMessage).

Part 2: the message-handling paths of the library routines as small programs over these events, parameterised by
what the application's handler does (`Handler`), see `routineTrace`.
-/
namespace CoapVerif.Model.Ownership
open CoapVerif.Spec.Ownership (Ev)

inductive TS | free | held | app deriving Repr, DecidableEq

inductive Viol
  | doubleRelease (o : Nat)
  | releasedWhileAppHolds (o : Nat)
  | handedOutReleased (o : Nat)
  | writtenAfterRelease (o : Nat)
  deriving Repr, DecidableEq

abbrev Store := Nat → TS

def Store.init : Store := fun _ => .held
def Store.set (m : Store) (o : Nat) (t : TS) : Store := fun x => if x = o then t else m x

def stepM (m : Store) : Ev → Except Viol Store
  | .acq o =>
    match m o with
    | .app => .error (.releasedWhileAppHolds o)     -- recycled while the application holds it
    | _ => .ok (m.set o .held)
  | .rel o =>
    match m o with
    | .free => .error (.doubleRelease o)
    | .app => .error (.releasedWhileAppHolds o)
    | .held => .ok (m.set o .free)
  | .hold o =>
    match m o with
    | .free => .error (.handedOutReleased o)
    | _ => .ok (m.set o .app)
  | .unhold o => .ok (if m o = .app then m.set o .held else m)
  | .poisonBad o => .error (.writtenAfterRelease o)

def monitor (m : Store) : List Ev → Option Viol
  | [] => none
  | e :: es =>
    match stepM m e with
    | .error v => some v
    | .ok m' => monitor m' es

/-! ### Part 2: routines as path programs -/

/-- What an application handler may do with the response writer and the request it is given. -/
inductive HandlerOp
  | setMessage (fresh : Nat)   -- w.SetMessage(m): the library releases the current response, m (object `fresh`, owned by the handler) replaces it
  | swap (fresh : Nat)         -- w.Swap(m): replaces without releasing; the handler keeps the old one and must release it itself
  | releaseSwapped             -- the handler releases the message it got back from Swap
  | hijack                     -- req.Hijack(): the handler keeps the request beyond its return and releases it later
  deriving Repr, DecidableEq

structure PathState where
  resp : Nat                   -- object currently installed in the response writer
  swapped : List Nat := []     -- objects handed back to the handler by Swap, not yet released by it
  hijacked : Bool := false
  deriving Repr

/-- Events caused by the handler's operations (the handler itself holds `req` for its whole duration). -/
def handlerTrace (s : PathState) : List HandlerOp → PathState × List Ev
  | [] => (s, [])
  | .setMessage f :: r =>
    let (s', t) := handlerTrace { s with resp := f } r
    (s', .rel s.resp :: t)
  | .swap f :: r =>
    let (s', t) := handlerTrace { s with resp := f, swapped := s.resp :: s.swapped } r
    (s', t)
  | .releaseSwapped :: r =>
    match s.swapped with
    | [] => handlerTrace s r
    | o :: rest =>
      let (s', t) := handlerTrace { s with swapped := rest } r
      (s', .rel o :: t)
  | .hijack :: r =>
    let (s', t) := handlerTrace { s with hijacked := true } r
    (s', t)

/-- `ProcessReceivedMessageWithHandler`: acquire a response, run the handler on (w, req), write the response if
    modified, release whatever response is installed and release the request unless it was hijacked.
    udp/client releases the response first (both releases are deferred, LIFO), tcp/client releases the request
    first (the release of the response is deferred to the end of the function). -/
def processReceived (tcp : Bool) (req resp : Nat) (ops : List HandlerOp) : List Ev :=
  let (s, t) := handlerTrace { resp := resp } ops
  let relReq : List Ev := if s.hijacked then [] else [.rel req]
  .acq resp :: .hold req :: (t ++ (.unhold req ::
    (if tcp then relReq ++ [.rel s.resp] else [.rel s.resp] ++ relReq)))

/-- `doInternal` hand-over: the token handler hijacks the received response `r`, the receive path therefore does
    not release it, the caller gets it, uses it and releases it. -/
def doHandover (r resp : Nat) : List Ev :=
  processReceived false r resp [.hijack] ++ [.hold r, .unhold r, .rel r]

/-- `midElement`: the pending confirmable's private clone is released under its lock, at most once, whichever of
    {ACK/RST arrives, expiry sweep, retransmission error} gets there (`n` attempts, only the first finds it). -/
def midElementReleases (clone : Nat) (n : Nat) : List Ev :=
  if n = 0 then [] else [.rel clone]

end CoapVerif.Model.Ownership
