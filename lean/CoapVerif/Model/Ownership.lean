import CoapVerif.Spec.Ownership
/-!
C12 model, part 1: the typestate monitor that is run over the lifecycle traces recorded from the real code
(hook h1 in message/pool: `acq`/`rel`/`poison`; `hold`/`unhold` are emitted by the harness around every place the
application is handed a message).

Per object the monitor knows
* `free`        — released, sits in the pool;
* `held out`    — owned by some code of the library or of the application, no application hold in progress.
                  `out = true`: the pool handed it out (`acq`) and it was not released since; `out = false`: nothing
                  seen yet, or only events of an object that did not come out of the pool (`pool.NewMessage`: the
                  tracker logs `acq` only for objects taken from the sync.Pool);
* `app out n`   — as `held out`, and the application holds it `n+1` times (counted holds).
`Store.init` = nothing seen yet = every object `held false`.

Part 2: the message-handling paths of the library routines as small programs over these events, parameterised by
what the application's handler does (`Handler`), see `routineTrace`.

Part 3: `midElement` (udp/client/conn.go), the pending confirmable's stored clone with its lock, as a small
transition system over arbitrary schedules of release attempts and retransmissions.
-/
namespace CoapVerif.Model.Ownership
open CoapVerif.Spec.Ownership (Ev)

inductive TS
  | free
  | held (out : Bool)
  | app (out : Bool) (n : Nat)
  deriving Repr, DecidableEq

inductive Viol
  | doubleRelease (o : Nat)
  | releasedWhileAppHolds (o : Nat)
  | handedOutReleased (o : Nat)
  | writtenAfterRelease (o : Nat)
  | handedOutTwice (o : Nat)       -- the pool hands out an object that is still out (no release since its last hand-out)
  | usedAfterRelease (o : Nat)     -- the library reads/writes an object that sits in the pool
  deriving Repr, DecidableEq

abbrev Store := Nat → TS

/-- Nothing seen yet. -/
def Store.init : Store := fun _ => .held false
def Store.set (m : Store) (o : Nat) (t : TS) : Store := fun x => if x = o then t else m x

/-- The object an event is about. -/
def objOf : Ev → Nat
  | .acq o | .rel o | .hold o | .unhold o | .poisonBad o | .use o => o

/-- One step of the typestate of object `o` under an event about `o`. -/
def stepTS (o : Nat) (t : TS) : Ev → Except Viol TS
  | .acq _ =>
    match t with
    | .app _ _ => .error (.releasedWhileAppHolds o)     -- recycled while the application holds it
    | .held true => .error (.handedOutTwice o)          -- second owner without a release in between
    | .held false => .ok (.held true)
    | .free => .ok (.held true)
  | .rel _ =>
    match t with
    | .free => .error (.doubleRelease o)
    | .app _ _ => .error (.releasedWhileAppHolds o)
    | .held _ => .ok .free
  | .hold _ =>
    match t with
    | .free => .error (.handedOutReleased o)
    | .held out => .ok (.app out 0)
    | .app out n => .ok (.app out (n + 1))
  | .unhold _ =>
    match t with
    | .app out 0 => .ok (.held out)
    | .app out (n + 1) => .ok (.app out n)
    | t => .ok t
  | .poisonBad _ => .error (.writtenAfterRelease o)
  | .use _ =>
    match t with
    | .free => .error (.usedAfterRelease o)
    | t => .ok t

def stepM (m : Store) (e : Ev) : Except Viol Store :=
  match stepTS (objOf e) (m (objOf e)) e with
  | .error v => .error v
  | .ok t => .ok (m.set (objOf e) t)

def monitor (m : Store) : List Ev → Option Viol
  | [] => none
  | e :: es =>
    match stepM m e with
    | .error v => some v
    | .ok m' => monitor m' es

/-! ### Part 2: routines as path programs -/

/-- What an application handler may do with the response writer and the request it is given. -/
inductive HandlerOp
  | setMessage (fresh : Nat)   -- w.SetMessage(m): the library releases the current response, m (object `fresh`, owned by the handler) replaces it
  | swap (fresh : Nat)         -- w.Swap(m): replaces without releasing; the handler keeps the old one and must release it itself
  | releaseSwapped             -- the handler releases the message it got back from Swap
  | hijack                     -- req.Hijack(): the handler keeps the request beyond its return and releases it later
  deriving Repr, DecidableEq

structure PathState where
  resp : Nat                   -- object currently installed in the response writer
  swapped : List Nat := []     -- objects handed back to the handler by Swap, not yet released by it
  hijacked : Bool := false
  deriving Repr

/-- Events caused by the handler's operations (the handler itself holds `req` for its whole duration). -/
def handlerTrace (s : PathState) : List HandlerOp → PathState × List Ev
  | [] => (s, [])
  | .setMessage f :: r =>
    let (s', t) := handlerTrace { s with resp := f } r
    (s', .rel s.resp :: t)
  | .swap f :: r =>
    let (s', t) := handlerTrace { s with resp := f, swapped := s.resp :: s.swapped } r
    (s', t)
  | .releaseSwapped :: r =>
    match s.swapped with
    | [] => handlerTrace s r
    | o :: rest =>
      let (s', t) := handlerTrace { s with swapped := rest } r
      (s', .rel o :: t)
  | .hijack :: r =>
    let (s', t) := handlerTrace { s with hijacked := true } r
    (s', t)

/-- `ProcessReceivedMessageWithHandler`: acquire a response, run the handler on (w, req), write the response if
    modified, release whatever response is installed and release the request unless it was hijacked.
    udp/client releases the response first (both releases are deferred, LIFO), tcp/client releases the request
    first (the release of the response is deferred to the end of the function). -/
def processReceived (tcp : Bool) (req resp : Nat) (ops : List HandlerOp) : List Ev :=
  let (s, t) := handlerTrace { resp := resp } ops
  let relReq : List Ev := if s.hijacked then [] else [.rel req]
  .acq resp :: .hold req :: (t ++ (.unhold req ::
    (if tcp then relReq ++ [.rel s.resp] else [.rel s.resp] ++ relReq)))

/-- `doInternal` hand-over: the token handler hijacks the received response `r`, the receive path therefore does
    not release it, the caller gets it, uses it and releases it. -/
def doHandover (r resp : Nat) : List Ev :=
  processReceived false r resp [.hijack] ++ [.hold r, .unhold r, .rel r]

/-! ### Part 3: `midElement` — the stored clone of a pending confirmable, under its lock

udp/client/conn.go: `prepareWriteMessage` acquires a message, clones the request into it and stores it in a
`midElement` (`private.msg`, guarded by `private.Mutex`).
* `midElement.ReleaseMessage` (callers: `handleSpecialMessages` on ACK/RST, the response path, `checkMidHandlerContainer`
  on expiry and on a retransmission error, the close function of a failed/finished write): lock; if `private.msg != nil`
  release it and set it to nil; unlock.
* `midElement.GetMessage` (caller: `checkMidHandlerContainer`, retransmission): lock; if `private.msg == nil` return;
  acquire a message from the pool; clone `private.msg` into it (on error release the copy); unlock.  The caller writes
  the copy to the session and releases it.

Model: the state is (stored clone present?, pointers taken and not yet cloned, copies in flight); the lock is modelled by
its granularity: a step of the schedule is one whole critical section (or one lock-free action of a caller).  A schedule
is an arbitrary list of steps: any number of release attempts and retransmissions in any interleaving.  The objects
the pool hands to `AcquireMessage` are named by the schedule (`k`); that the pool hands out only objects nobody owns
is the pool's side of C12 (clause `okAfterAcq`, checked on the real traces), so a step proposing the stored clone or a
copy still in flight as the acquired object is not a behaviour of the system and does nothing.

`takePtr`/`cloneUnlocked` are NOT what the code does: they are the shape of the seeded change C12-A (`GetMessage`
reads the pointer under the lock but clones after unlocking), kept in the same transition system so that the negative
theorem (`midElement_unlocked_clone_rejected`) speaks about the same model. -/
inductive MidStep
  | release                          -- one `midElement.ReleaseMessage` (ACK, RST, response, expiry, write error)
  | getMessage (k : Nat) (fail : Bool) -- one `midElement.GetMessage`; the pool hands out `k`; `fail`: Clone returns an error
  | finish (k : Nat)                 -- the retransmission wrote copy `k` to the session and releases it
  | takePtr                          -- (seeded shape) lock; p := private.msg; unlock
  | cloneUnlocked (k : Nat)          -- (seeded shape) if p != nil: acquire `k`, clone p into it — outside the lock
  deriving Repr, DecidableEq

/-- The steps of the code as it is: every access to the stored clone is inside the critical section. -/
def MidStep.underLock : MidStep → Bool
  | .takePtr | .cloneUnlocked _ => false
  | _ => true

structure MidState where
  stored : Bool := true      -- `private.msg != nil`
  ptrs : Nat := 0            -- (seeded shape) non-nil pointers read under the lock and not yet cloned
  copies : List Nat := []    -- copies made for a retransmission, not yet released
  deriving Repr

/-- Is `k` an object the pool may hand out now, as far as this element knows: not the stored clone while it is
    stored (once released it is in the pool and may well come back as a copy), not a copy in flight. -/
def MidState.poolMayGive (clone : Nat) (s : MidState) (k : Nat) : Bool :=
  (k != clone || !s.stored) && !s.copies.contains k

def midStep (clone : Nat) (s : MidState) : MidStep → MidState × List Ev
  | .release =>
    if s.stored then ({ s with stored := false }, [.rel clone]) else (s, [])
  | .getMessage k fail =>
    if s.stored && s.poolMayGive clone k then
      if fail then (s, [.acq k, .use clone, .use k, .rel k])
      else ({ s with copies := k :: s.copies }, [.acq k, .use clone, .use k])
    else (s, [])
  | .finish k =>
    if s.copies.contains k then ({ s with copies := s.copies.erase k }, [.use k, .rel k]) else (s, [])
  | .takePtr =>
    if s.stored then ({ s with ptrs := s.ptrs + 1 }, []) else (s, [])
  | .cloneUnlocked k =>
    if s.ptrs != 0 && s.poolMayGive clone k then
      ({ s with ptrs := s.ptrs - 1, copies := k :: s.copies }, [.acq k, .use clone, .use k])
    else (s, [])

def midRun (clone : Nat) (s : MidState) : List MidStep → List Ev
  | [] => []
  | st :: r => (midStep clone s st).2 ++ midRun clone (midStep clone s st).1 r

/-- Life of the stored clone: acquired and filled by `prepareWriteMessage`, then whatever the schedule does. -/
def midElementTrace (clone : Nat) (sched : List MidStep) : List Ev :=
  .acq clone :: .use clone :: midRun clone {} sched

end CoapVerif.Model.Ownership
