import CoapVerif.Model.Ownership
/-!
C12 model, part 4: path programs of the observation callbacks (net/observation) and of the block-wise layer
(net/blockwise/blockwise.go), as transition systems over schedules.

## The slot machine

A path program is written in a small language of **slot operations**.  A *slot* is a place of the Go code that holds a
`*pool.Message`: a local variable of one goroutine, a field (`ResponseWriter.response`), a cache entry
(`sendingMessagesCache[token]`), the hands of the application.  `Place` says for every object in which slot it is (or
that this program knows nothing of it: it is in the pool or somebody else's) and whether the application holds it.

* `acq s k`   — `s := AcquireMessage()` and the pool hands out `k`;
* `rel s k`   — `ReleaseMessage(s)` where slot `s` holds `k`;
* `use s k`   — the code reads or writes the message through slot `s`;
* `mv s s' k` — the pointer goes from `s` to `s'` (stored into a cache, installed in the response writer, `Swap`,
                 returned to the caller, hijacked) — no lifecycle event;
* `hold s k` / `unhold s k` — the application is handed `k` (callback / handler / return value) and is done with it.

These operations are **linear**: each names the slot the pointer is taken from, and is executed only if the object is
there (`Op.guard`).  A step of a program is a list of operations, executed all or not at all (`execOps`): a step the
schedule proposes in a state where it cannot happen — it names an object that is not where the step takes it from, or
proposes as freshly acquired an object that this program still owns (the pool does not do that: clause `okAfterAcq`,
checked on the real traces) — is not a behaviour of the system and does nothing, exactly as `midStep` does.

`relAlias` / `useAlias` / `holdAlias` are NOT linear: they act through a pointer that was copied out of its slot.  They
are what the seeded wrong shapes do (the `onExpire` callback that releases the reassembly message through the cache
entry's pointer while a handler works on it; a receive path that ignores the hijack mark …), kept in the same machine
so that the negative theorems speak about the same model.

That the Go code is an instance of these programs is the hand abstraction; it is tied to the real code by comparing
recorded lifecycle traces step by step with the programs (harness/c12 `paths_test.go`, driver mode `model`).

Objects that are still in a slot when a run ends were never released: the garbage collector gets them (the block-wise
layer does that with every reassembly message, with the originals kept in `sendingMessagesCache`, with the working
copy of `WriteMessage`).  Leaking is not a violation of C12.
-/
namespace CoapVerif.Model.OwnershipPaths
open CoapVerif.Spec.Ownership (Ev)
open CoapVerif.Model.Ownership

abbrev Place := Nat → Option (Nat × Bool)

def Place.empty : Place := fun _ => none
def Place.set (P : Place) (k : Nat) (v : Option (Nat × Bool)) : Place := fun x => if x = k then v else P x

inductive Op
  | acq (s k : Nat)
  | rel (s k : Nat)
  | use (s k : Nat)
  | mv (s s' k : Nat)
  | hold (s k : Nat)
  | unhold (s k : Nat)
  | relAlias (k : Nat)
  | useAlias (k : Nat)
  | holdAlias (k : Nat)
  deriving Repr, DecidableEq

def Op.linear : Op → Bool
  | .relAlias _ | .useAlias _ | .holdAlias _ => false
  | _ => true

/-- is `k` in slot `s` (held by the application or not) -/
def Place.inSlot (P : Place) (s k : Nat) : Bool :=
  match P k with
  | some (s', _) => s' == s
  | none => false

def Op.guard (P : Place) : Op → Bool
  | .acq _ k => (P k).isNone
  | .rel s k => P k == some (s, false)
  | .use s k => P.inSlot s k
  | .mv s _ k => P.inSlot s k
  | .hold s k => P k == some (s, false)
  | .unhold s k => P k == some (s, true)
  | .relAlias _ | .useAlias _ | .holdAlias _ => true

def Op.apply (P : Place) : Op → Place
  | .acq s k => P.set k (some (s, false))
  | .rel _ k => P.set k none
  | .use _ _ => P
  | .mv _ s' k => P.set k ((P k).map (fun v => (s', v.2)))
  | .hold s k => P.set k (some (s, true))
  | .unhold s k => P.set k (some (s, false))
  | .relAlias _ => P          -- the program goes on believing the object is where it was
  | .useAlias _ => P
  | .holdAlias _ => P

def Op.evs : Op → List Ev
  | .acq _ k => [.acq k]
  | .rel _ k => [.rel k]
  | .use _ k => [.use k]
  | .mv _ _ _ => []
  | .hold _ k => [.hold k]
  | .unhold _ k => [.unhold k]
  | .relAlias k => [.rel k]
  | .useAlias k => [.use k]
  | .holdAlias k => [.hold k]

/-- one step: all operations or none -/
def execOps (P : Place) : List Op → Option (Place × List Ev)
  | [] => some (P, [])
  | op :: r =>
    if op.guard P then
      match execOps (op.apply P) r with
      | some (P', e) => some (P', op.evs ++ e)
      | none => none
    else none

/-- A path program: control state `C` (flags and the pointers the code keeps), steps `St`. -/
structure Prog (C St : Type) where
  step : C → St → C × List Op

/-- Run a schedule: final control state, final placement, lifecycle trace. -/
def Prog.run {C St : Type} (p : Prog C St) (c : C) (P : Place) : List St → C × Place × List Ev
  | [] => (c, P, [])
  | st :: r =>
    match execOps P (p.step c st).2 with
    | some (P', e) =>
      let (c', P'', t) := p.run (p.step c st).1 P' r
      (c', P'', e ++ t)
    | none => p.run c P r

def Prog.trace {C St : Type} (p : Prog C St) (c : C) (P : Place) (sched : List St) : List Ev := (p.run c P sched).2.2

/-- every step of the program, in every control state, consists of linear operations only -/
def Prog.Linear {C St : Type} (p : Prog C St) : Prop := ∀ c st, ∀ op ∈ (p.step c st).2, op.linear = true

/-! ## Observation (net/observation/handler.go, observation.go; net/client/client.go `Observe`)

In this code the observation keeps **no pooled message**: `NewObservation` copies token, code and a clone of the options
into a plain `message.Message` (`o.req`); there is nothing to release on `Cancel`, on handler removal or when the
connection closes.  `GetObservationRequest` (the block-wise layer's `getSentRequestFromOutside`) acquires a fresh message,
fills it from `o.req` and hands it to the layer, which releases it (deferred release in `processReceivedMessage`).

A notification is the pooled message of the receive path (`Process` acquired it): the callback gets it, the receive
path releases it after the callback returned unless the callback hijacked it — then it is the application's.  The
response to the registration request is delivered through the same callback the same way.  `Cancel` removes the
observation first (`cleanUp`; only the caller that removed it goes on), acquires the deregistration request, sends it
through `do`, and releases response and request by deferred calls (response first).

Slots: 1 receive path's message, 2 response writer, 4 application (hijacked notifications), 5 Cancel's request,
6 Cancel's response, 7 copy made by GetObservationRequest (owner: the block-wise layer), 8 `Client.Observe`'s request. -/
inductive ObsStep
  | observeStart (req : Nat)          -- Client.Observe: acquire the request; NewObservation: LoadOrStore, WriteMessage, wait
  | observeEnd (ok : Bool)            -- NewObservation returned (`ok = false`: error, cleanUp); deferred release of the request
  | deliver (r w : Nat) (notify : Bool) -- receive path: acquire r, unmarshal, acquire the response w; Handler.Handle → o.handle(r);
                                      -- `notify`: wantBeNotified — the callback is called with r
  | hijack (r : Nat)                  -- the callback calls r.Hijack()
  | cbReturn (tcp : Bool) (r : Nat)   -- the callback returned; the receive path releases w and, unless hijacked, r
  | appRelease (r : Nat)              -- the application is done with a notification it hijacked
  | cancel (q : Nat)                  -- Observation.Cancel: cleanUp; if this call removed the observation: acquire the request q
  | cancelResp (p : Nat)              -- `do` returned the response p (handed over by the receive path: now Cancel's)
  | cancelFail                        -- `do` failed: deferred release of q
  | cancelEnd                         -- deferred: release p, then q
  | getRequest (t : Nat)              -- Handler.GetObservationRequest: acquire t, fill it from o.req
  | tmpRelease (t : Nat)              -- block-wise layer: deferred release of that copy
  | close                             -- the connection closes: nothing is kept, nothing is released
  -- wrong shape (not what the code does): the receive path releases the notification although the callback hijacked it
  | cbReturnIgnoringHijack (r : Nat)
  deriving Repr, DecidableEq

structure ObsCtl where
  registered : Bool := false
  oreq : Option Nat := none
  inCb : List (Nat × Nat) := []     -- deliveries in progress: (received message, response message)
  called : List Nat := []           -- … whose callback was called (the application holds the message)
  hij : List Nat := []
  cq : Option Nat := none
  cp : Option Nat := none
  deriving Repr

def obsStep (c : ObsCtl) : ObsStep → ObsCtl × List Op
  | .observeStart req =>
    if c.registered || c.oreq.isSome then (c, [])
    else ({ c with registered := true, oreq := some req }, [.acq 8 req, .use 8 req])
  | .observeEnd ok =>
    match c.oreq with
    | some req => ({ c with oreq := none, registered := c.registered && ok }, [.rel 8 req])
    | none => (c, [])
  | .deliver r w notify =>
    ({ c with inCb := (r, w) :: c.inCb, called := if notify then r :: c.called else c.called },
     [.acq 1 r, .use 1 r, .acq 2 w] ++ (if notify then [.hold 1 r] else []))
  | .hijack r =>
    if c.called.contains r then ({ c with hij := r :: c.hij }, [.use 1 r]) else (c, [])
  | .cbReturn tcp r =>
    match c.inCb.lookup r with
    | none => (c, [])
    | some w =>
      let c' := { c with inCb := c.inCb.filter (fun x => x.1 != r), called := c.called.filter (· != r), hij := c.hij.filter (· != r) }
      if c.hij.contains r then (c', [.rel 2 w, .mv 1 4 r])            -- the application keeps it (and goes on holding it)
      else
        let un : List Op := if c.called.contains r then [.unhold 1 r] else []
        (c', un ++ (if tcp then [.rel 1 r, .rel 2 w] else [.rel 2 w, .rel 1 r]))
  | .appRelease r => (c, [.unhold 4 r, .rel 4 r])
  | .cancel q =>
    if c.registered && c.cq.isNone then ({ c with registered := false, cq := some q }, [.acq 5 q, .use 5 q]) else (c, [])
  | .cancelResp p =>
    match c.cq, c.cp with
    | some _, none => ({ c with cp := some p }, [.acq 6 p, .use 6 p])
    | _, _ => (c, [])
  | .cancelFail =>
    match c.cq, c.cp with
    | some q, none => ({ c with cq := none }, [.rel 5 q])
    | _, _ => (c, [])
  | .cancelEnd =>
    match c.cq, c.cp with
    | some q, some p => ({ c with cq := none, cp := none }, [.use 6 p, .rel 6 p, .rel 5 q])
    | _, _ => (c, [])
  | .getRequest t => if c.registered then (c, [.acq 7 t, .use 7 t]) else (c, [])
  | .tmpRelease t => (c, [.rel 7 t])
  | .close => (c, [])
  | .cbReturnIgnoringHijack r =>
    match c.inCb.lookup r with
    | none => (c, [])
    | some w => ({ c with inCb := c.inCb.filter (fun x => x.1 != r) }, [.rel 2 w, .relAlias r])

def obsProg : Prog ObsCtl ObsStep := ⟨obsStep⟩

def ObsStep.asCoded : ObsStep → Bool
  | .cbReturnIgnoringHijack _ => false
  | _ => true

/-! ## The block-wise layer, one token (net/blockwise/blockwise.go)

Slots: 1 application (the request it passes to `Do`/`WriteMessage`, responses and reassembled messages handed to it),
2 `Do`'s first-block clone, 3 receive path's message, 4 response writer (`w.response`), 5 a block just created
(`createSendingMessage`) or a control message (2.31 / next-block request / 4.08) before it is installed in the writer,
6 the layer's own entries of `sendingMessagesCache` (the original response `startSendingMessage` keeps, the clone
`handleObserveResponse` stores under a new token), 7 `WriteMessage`'s working copy and block, 8 the copy
`getSentRequest` hands to `processReceivedMessage`, 9 reassembly messages (`receivingMessagesCache`, under their guard).

What the code does with them:
* `Do(r)`: registers **r itself** in `sendingMessagesCache` for the duration of the call (`defer Delete`): the layer reads
  it only inside the cache's lock, never releases it.  Body larger than a block: `cloneMessage` → first block, released
  by `defer ReleaseMessage(req)` when `Do` returns, however it returns.
* receive side, continuation (2.31 Continue / a GET for the next Block2): `getSendingMessageCode` and
  `createSendingMessage` run inside `LoadWithFunc`; the new block replaces the response (`w.SetMessage`: the old one is
  released), the receive path writes and releases it.
* `startSendingMessage` (response larger than a block, or `WriteMessage`): a block is created from `w.Message()`,
  `Swap` takes the original out; an observe response is released at once, otherwise the original goes into
  `sendingMessagesCache` (token in use: released, error).  Nobody releases a cached original: deleted / expired entries go
  to the garbage collector.
* `WriteMessage`: working copy from the pool; the copy (small body) or the block (large) is written and then dropped,
  never released.
* `processReceivedMessage`: `getSentRequest` makes a copy inside `LoadWithFunc` (or `GetObservationRequest` does),
  released by the deferred release when `processReceivedMessage` returns — after `next` returned, if `next` is called.
  `handleObserveResponse` clones it into a new `sendingMessagesCache` entry (never released).  The reassembly message is
  acquired on the first block, worked on under its `messageGuard`, handed to `next` when complete — and never released
  by the layer: if `next` is the client's token handler the caller of `Do` gets it and releases it; an application
  handler / observation callback just returns.  `onExpire` of a reassembly entry deletes the paired sending entry; it
  does not touch the message.
-/
inductive WriteKind | small | createFail | observe | normal
  deriving Repr, DecidableEq

inductive BwStep
  | appAcquire (r : Nat)
  | appRelease (r : Nat)
  | appHold (k : Nat)
  | appUnhold (k : Nat)
  | doStart (r : Nat) (big : Bool) (c : Nat)  -- Do(r): LoadOrStore(token, r); body larger than a block: clone c = first block
  | doReturn                                   -- Do returns (response, error, context given up): release the clone, Delete
  | rxStart (x w : Nat)                        -- receive path: acquire x, unmarshal; acquire the response w
  | rxToCaller (x : Nat)                       -- `next` is the token handler of a waiting request: x is hijacked
  | rxEnd (x : Nat)                            -- receive path: write the response, release it, release x unless hijacked
  | contCode (x : Nat)                         -- Handle: getSendingMessageCode (inside the cache lock)
  | contCreate (x sm : Nat) (fail : Bool)      -- continueSendingMessage: LoadWithFunc{createSendingMessage}; w.SetMessage
  | contDone                                   -- last block of a response was sent: Delete the entry
  | write (r c : Nat) (kind : WriteKind) (sm : Nat)  -- WriteMessage(r)
  | respond (x : Nat) (kind : WriteKind) (sm e : Nat) -- startSendingMessage on the response of invocation x (after `next`)
  | getSent (x t : Nat) (fromObs : Bool)       -- getSentRequest → copy t (from the sending cache, or from the observation)
  | obsClone (x b : Nat)                       -- handleObserveResponse: clone of the copy, stored under a new token
  | reasmEnter (x m : Nat) (lost : Bool)       -- getCachedReceivedMessage; `lost`: acquired m but LoadOrStore found an entry
  | reasmAppend (x : Nat)
  | reasmMore (x sm : Nat)                     -- not the last block: control message sm installed; guard and copy released
  | reasmErr (x : Nat)                         -- error after the guard was taken: Delete the entry; guard and copy released
  | reasmComplete (x : Nat) (toCaller : Bool)  -- last block: Delete the entry, `next(w, m)`
  | reasmLeave (x : Nat)                       -- `next` returned: guard released, copy released
  | forward (x : Nat)                          -- no block-wise work: `next(w, x)` with the received message (application handler)
  | forwardReturn (x : Nat)
  | sweep                                      -- CheckExpirations: expired entries removed (nothing is released)
  -- wrong shapes (not what the code does)
  | sweepRelease                               -- onExpire releases the reassembly message (seeded C12-M)
  | writeDoubleRelease (r c : Nat) (sm : Nat)  -- WriteMessage releases its working copy again on the error return (seeded C12-F)
  | contFailReleasesRequest (x sm : Nat)       -- a failing continuation releases the message of the sending entry (seeded C12-R)
  deriving Repr, DecidableEq

structure BwCtl where
  sendEntry : Option (Nat × Bool) := none   -- sendingMessagesCache[token]: (object, `true` = the request registered by Do)
  doRuns : Bool := false
  doClone : Option Nat := none
  hand : List (Nat × Nat) := []             -- receive-path invocations in progress: (received message, installed response)
  hij : List Nat := []
  recvEntry : Option Nat := none            -- receivingMessagesCache[token]
  cur : List (Nat × Nat) := []              -- (invocation, reassembly message whose guard it holds)
  nexted : List (Nat × Bool) := []          -- invocations inside `next` with the reassembled message (held by the application?)
  tmpOf : List (Nat × Nat) := []            -- (invocation, copy of the sent request)
  fwd : List Nat := []
  deriving Repr

def slotOfEntry (own : Bool) : Nat := if own then 1 else 6

def BwCtl.setHand (c : BwCtl) (x w : Nat) : BwCtl :=
  { c with hand := (x, w) :: c.hand.filter (fun p => p.1 != x) }

/-- leaving `processReceivedMessage`: the guard is released, the copy of the sent request is released -/
def BwCtl.leave (c : BwCtl) (x : Nat) : BwCtl × List Op :=
  ({ c with cur := c.cur.filter (fun p => p.1 != x), tmpOf := c.tmpOf.filter (fun p => p.1 != x),
            nexted := c.nexted.filter (fun p => p.1 != x) },
   match c.tmpOf.lookup x with
   | some t => [.rel 8 t]
   | none => [])

def bwStep (c : BwCtl) : BwStep → BwCtl × List Op
  | .appAcquire r => (c, [.acq 1 r])
  | .appRelease r =>
    -- the application does not release its request while `Do` runs with it (the API's contract)
    if c.doRuns && c.sendEntry == some (r, true) then (c, []) else (c, [.rel 1 r])
  | .appHold k => (c, [.hold 1 k])
  | .appUnhold k => (c, [.unhold 1 k])
  | .doStart r big cl =>
    if c.doRuns then (c, [])
    else if c.sendEntry.isSome then (c, [.use 1 r])                  -- "invalid token"
    else
      ({ c with sendEntry := some (r, true), doRuns := true, doClone := if big then some cl else none },
       [.use 1 r] ++ (if big then [.acq 2 cl, .use 1 r, .use 2 cl] else []))
  | .doReturn =>
    if c.doRuns then
      ({ c with doRuns := false, doClone := none, sendEntry := none },
       match c.doClone with
       | some cl => [.rel 2 cl]
       | none => [])
    else (c, [])
  | .rxStart x w => ({ c with hand := (x, w) :: c.hand }, [.acq 3 x, .use 3 x, .acq 4 w])
  | .rxToCaller x =>
    if (c.hand.lookup x).isSome then ({ c with hij := x :: c.hij }, [.use 3 x]) else (c, [])
  | .rxEnd x =>
    match c.hand.lookup x with
    | none => (c, [])
    | some w =>
      let c' := { c with hand := c.hand.filter (fun p => p.1 != x), hij := c.hij.filter (· != x) }
      if c.hij.contains x then (c', [.use 4 w, .rel 4 w, .mv 3 1 x]) else (c', [.use 4 w, .rel 4 w, .rel 3 x])
  | .contCode x =>
    match c.hand.lookup x, c.sendEntry with
    | some _, some (o, own) => (c, [.use 3 x, .use (slotOfEntry own) o])
    | _, _ => (c, [])
  | .contCreate x sm fail =>
    match c.hand.lookup x, c.sendEntry with
    | some w, some (o, own) =>
      if fail then ({ c with sendEntry := none }, [.acq 5 sm, .use (slotOfEntry own) o, .rel 5 sm])
      else (c.setHand x sm, [.acq 5 sm, .use (slotOfEntry own) o, .rel 4 w, .mv 5 4 sm])
    | _, _ => (c, [])
  | .contDone =>
    match c.sendEntry with
    | some (_, false) => ({ c with sendEntry := none }, [])
    | _ => (c, [])
  | .write r cp kind sm =>
    match kind with
    | .small => (c, [.acq 7 cp, .use 1 r, .use 7 cp])
    | .createFail => (c, [.acq 7 cp, .use 1 r, .acq 5 sm, .use 7 cp, .rel 5 sm])
    | .observe => (c, [.acq 7 cp, .use 1 r, .acq 5 sm, .use 7 cp, .rel 7 cp, .use 5 sm])
    | .normal =>
      if c.sendEntry.isSome then (c, [.acq 7 cp, .use 1 r, .acq 5 sm, .use 7 cp, .rel 7 cp])      -- token in use
      else ({ c with sendEntry := some (cp, false) }, [.acq 7 cp, .use 1 r, .acq 5 sm, .use 7 cp, .mv 7 6 cp, .use 5 sm])
  | .respond x kind sm e =>
    match c.hand.lookup x with
    | none => (c, [])
    | some w =>
      match kind with
      | .small => (c, [.use 4 w])
      | .createFail => (c.setHand x e, [.acq 5 sm, .use 4 w, .rel 5 sm, .acq 5 e, .rel 4 w, .mv 5 4 e])
      | .observe => (c.setHand x sm, [.acq 5 sm, .use 4 w, .mv 4 6 w, .mv 5 4 sm, .rel 6 w])
      | .normal =>
        if c.sendEntry.isSome then
          (c.setHand x e, [.acq 5 sm, .use 4 w, .mv 4 6 w, .mv 5 4 sm, .rel 6 w, .acq 5 e, .rel 4 sm, .mv 5 4 e])
        else
          ({ (c.setHand x sm) with sendEntry := some (w, false) }, [.acq 5 sm, .use 4 w, .mv 4 6 w, .mv 5 4 sm])
  | .getSent x t fromObs =>
    if (c.hand.lookup x).isNone || (c.tmpOf.lookup x).isSome then (c, [])
    else
      match c.sendEntry with
      | some (o, own) => ({ c with tmpOf := (x, t) :: c.tmpOf }, [.acq 8 t, .use (slotOfEntry own) o, .use 8 t])
      | none => if fromObs then ({ c with tmpOf := (x, t) :: c.tmpOf }, [.acq 8 t, .use 8 t]) else (c, [])
  | .obsClone x b =>
    match c.tmpOf.lookup x with
    | some t =>
      -- stored under a NEW token, under which the rest of this notification's body is fetched: from here on the
      -- exchange this program follows is the one under that token
      ({ c with sendEntry := if c.sendEntry.isNone then some (b, false) else c.sendEntry }, [.acq 6 b, .use 8 t, .use 6 b])
    | none => (c, [])
  | .reasmEnter x m lost =>
    if (c.hand.lookup x).isNone || (c.cur.lookup x).isSome then (c, [])
    else
      match c.recvEntry with
      | some m0 =>
        -- the guard of the entry is free only if no invocation works on m0
        if c.cur.any (fun p => p.2 == m0) then (c, [])
        else if lost then ({ c with cur := (x, m0) :: c.cur }, [.acq 9 m, .use 9 m, .use 9 m0])
        else ({ c with cur := (x, m0) :: c.cur }, [.use 9 m0])
      | none =>
        if lost then (c, [])
        else ({ c with recvEntry := some m, cur := (x, m) :: c.cur }, [.acq 9 m, .use 3 x, .use 9 m])
  | .reasmAppend x =>
    match c.cur.lookup x with
    | some m => (c, [.use 3 x, .use 9 m])
    | none => (c, [])
  | .reasmMore x sm =>
    match c.cur.lookup x, c.hand.lookup x with
    | some _, some w =>
      let (c', rl) := c.leave x
      (c'.setHand x sm, [.acq 5 sm, .rel 4 w, .mv 5 4 sm] ++ rl)
    | _, _ => (c, [])
  | .reasmErr x =>
    match c.cur.lookup x with
    | some _ =>
      let (c', rl) := c.leave x
      ({ c' with recvEntry := none }, rl)
    | none => (c, [])
  | .reasmComplete x toCaller =>
    match c.cur.lookup x with
    | some m =>
      if (c.nexted.lookup x).isSome then (c, [])
      else
        -- Delete of the receiving entry; a body fetched under the token of `handleObserveResponse`: Delete of that sending entry
        let se := match c.sendEntry with
          | some (_, false) => none
          | e => e
        if toCaller then
          ({ c with recvEntry := none, sendEntry := se, nexted := (x, false) :: c.nexted }, [.use 9 m, .mv 9 1 m])
        else ({ c with recvEntry := none, sendEntry := se, nexted := (x, true) :: c.nexted }, [.use 9 m, .hold 9 m])
    | none => (c, [])
  | .reasmLeave x =>
    match c.cur.lookup x, c.nexted.lookup x with
    | some m, some held =>
      let (c', rl) := c.leave x
      (c', (if held then [.unhold 9 m] else []) ++ rl)
    | _, _ => (c, [])
  | .forward x =>
    if (c.hand.lookup x).isSome && !c.fwd.contains x then ({ c with fwd := x :: c.fwd }, [.hold 3 x]) else (c, [])
  | .forwardReturn x =>
    if c.fwd.contains x then
      let (c', rl) := c.leave x
      ({ c' with fwd := c.fwd.filter (· != x) }, [.unhold 3 x] ++ rl)
    else (c, [])
  | .sweep =>
    -- receiving entry expired: removed, its onExpire deletes the paired sending entry; a sending entry of the layer
    -- expires as well; the request registered by `Do` has no deadline of the layer's
    ({ c with recvEntry := none,
              sendEntry := match c.sendEntry with
                | some (o, true) => if c.recvEntry.isSome then none else some (o, true)
                | _ => none }, [])
  | .sweepRelease =>
    match c.recvEntry with
    | some m => ({ c with recvEntry := none }, [.relAlias m])
    | none => (c, [])
  | .writeDoubleRelease r cp sm =>
    if c.sendEntry.isSome then (c, [.acq 7 cp, .use 1 r, .acq 5 sm, .use 7 cp, .rel 7 cp, .relAlias cp]) else (c, [])
  | .contFailReleasesRequest x sm =>
    match c.hand.lookup x, c.sendEntry with
    | some _, some (o, _) => ({ c with sendEntry := none }, [.acq 5 sm, .rel 5 sm, .relAlias o])
    | _, _ => (c, [])

def bwProg : Prog BwCtl BwStep := ⟨bwStep⟩

def BwStep.asCoded : BwStep → Bool
  | .sweepRelease | .writeDoubleRelease _ _ _ | .contFailReleasesRequest _ _ => false
  | _ => true

/-- The code as it is: the program restricted to the steps the code has (a wrong-shape step does nothing). -/
def obsCoded : Prog ObsCtl ObsStep := ⟨fun c st => if st.asCoded then obsStep c st else (c, [])⟩
def bwCoded : Prog BwCtl BwStep := ⟨fun c st => if st.asCoded then bwStep c st else (c, [])⟩

end CoapVerif.Model.OwnershipPaths
