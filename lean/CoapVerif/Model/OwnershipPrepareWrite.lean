import CoapVerif.Model.OwnershipPaths
/-!
C12 model, part 5: `prepareWriteMessage` of udp/client/conn.go and the hand-over of the retransmission copy to the
`midElement`, in the slot language of `Model/OwnershipPaths.lean`.

```
case message.Confirmable:
    msg := cc.AcquireMessage(req.Context())
    if err := req.Clone(msg); err != nil {           // the body cannot be read / sought
        cc.ReleaseMessage(msg); return nil, err       //   → `cloneFail`: the copy goes back, once
    }
    if request { if err := cc.acquireOutstandingInteraction(ctx); err != nil { return nil, err } }
                                                      //   → `nstartFail`: the copy is dropped (garbage collector)
    if _, loaded := cc.midHandlerContainer.LoadOrStore(mid, &midElement{… msg: msg}); loaded { … return nil, err }
                                                      //   → `midInUse`: the copy is dropped
                                                      //   → `stored`: the copy is the mid element's (`private.msg`)
case message.NonConfirmable:                          //   → `non`: no copy
```
Afterwards the element lives as in part 3 (`midStep`): `ReleaseMessage` under its lock (ACK, RST, response, expiry, the close
function of the write), `GetMessage` (a copy for one retransmission, made under the lock), the retransmission's own
release of that copy.  Several requests may be under way: the elements are told apart by their stored copy.

Slots: 1 application (the request), 2 `msg` inside `prepareWriteMessage`, 3 `midElement.private.msg`, 4 copies made by
`GetMessage`.

`prepareSeeded` is NOT what the code does: the shape of seeded change C12-T — a deferred release of `msg` on every return
before the element is stored, with the explicit release of the `Clone`-failure branch left in place.
-/
namespace CoapVerif.Model.OwnershipPaths
open CoapVerif.Spec.Ownership (Ev)

inductive PrepOutcome | non | cloneFail | nstartFail | midInUse | stored
  deriving Repr, DecidableEq

inductive PwStep
  | appAcquire (r : Nat)
  | appRelease (r : Nat)
  | prepare (r msg : Nat) (o : PrepOutcome)   -- one call of prepareWriteMessage(r)
  | release (msg : Nat)                        -- one midElement.ReleaseMessage of the element that got `msg`
  | getMessage (msg k : Nat) (fail : Bool)     -- one midElement.GetMessage: copy k, Clone may fail
  | finish (k : Nat)                           -- the retransmission wrote copy k and releases it
  | prepareSeeded (r msg : Nat) (o : PrepOutcome)  -- wrong shape (seeded C12-T)
  deriving Repr, DecidableEq

structure PwCtl where
  elems : List Nat := []      -- stored copies of the mid elements whose `private.msg` is not nil
  deriving Repr

def pwStep (c : PwCtl) : PwStep → PwCtl × List Op
  | .appAcquire r => (c, [.acq 1 r])
  | .appRelease r => (c, [.rel 1 r])
  | .prepare r msg o =>
    match o with
    | .non => (c, [.use 1 r])
    | .cloneFail => (c, [.acq 2 msg, .use 1 r, .use 2 msg, .rel 2 msg])
    | .nstartFail => (c, [.acq 2 msg, .use 1 r, .use 2 msg])
    | .midInUse => (c, [.acq 2 msg, .use 1 r, .use 2 msg])
    | .stored => ({ c with elems := msg :: c.elems }, [.acq 2 msg, .use 1 r, .use 2 msg, .mv 2 3 msg])
  | .release msg =>
    if c.elems.contains msg then ({ c with elems := c.elems.filter (· != msg) }, [.rel 3 msg]) else (c, [])
  | .getMessage msg k fail =>
    if c.elems.contains msg then
      (c, [.acq 4 k, .use 3 msg, .use 4 k] ++ (if fail then [.rel 4 k] else []))
    else (c, [])
  | .finish k => (c, [.use 4 k, .rel 4 k])
  | .prepareSeeded r msg o =>
    match o with
    | .non => (c, [.use 1 r])
    | .cloneFail => (c, [.acq 2 msg, .use 1 r, .use 2 msg, .rel 2 msg, .relAlias msg])   -- explicit, then deferred
    | .nstartFail => (c, [.acq 2 msg, .use 1 r, .use 2 msg, .rel 2 msg])
    | .midInUse => (c, [.acq 2 msg, .use 1 r, .use 2 msg, .rel 2 msg])
    | .stored => ({ c with elems := msg :: c.elems }, [.acq 2 msg, .use 1 r, .use 2 msg, .mv 2 3 msg])

def pwProg : Prog PwCtl PwStep := ⟨pwStep⟩

def PwStep.asCoded : PwStep → Bool
  | .prepareSeeded _ _ _ => false
  | _ => true

def pwCoded : Prog PwCtl PwStep := ⟨fun c st => if st.asCoded then pwStep c st else (c, [])⟩

end CoapVerif.Model.OwnershipPaths
