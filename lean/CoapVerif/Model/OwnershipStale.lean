import CoapVerif.Model.OwnershipPaths
/-!
# C12 — the block-wise program with entries that have expired but are not swept yet

`Model/OwnershipPaths.lean` knows a sending entry (`sendingMessagesCache[token]`) only as present or absent.  Between the end
of an entry's validity (`BlockwiseTransferTimeout`, 3 s) and the next housekeeping tick (every 4 s) the element is still
in the map: `Cache.Load`, `getSendingMessageCode` and `Cache.LoadOrStore` treat it as absent (`LoadOrStore` REPLACES it
and answers `loaded = false`: the new element was stored), the replaced original goes to the garbage collector like every
other original the layer kept.  A peer (or an application that chooses its tokens) may start a new exchange under the
same token in that window.

This module puts that window into the program: control state = the state of `bwStep` plus `stale` (the object of the
expired element that still sits in the map), step `expire` (time passes the validity of the layer's own entry; the request
registered by `Do` has the caller's deadline and is not touched), every step of `bwStep` unchanged (`base`) — a step
that leaves a live entry has replaced the stale element, a sweep removes it.

Wrong shape (seeded C12-V): `Cache.LoadOrStore` answers `loaded = true` when it replaced an expired element.
`startSendingMessage` then releases the original response ("somebody else's message is in the cache, mine is not") —
which now IS the cache entry: `respondStaleReleases`.
-/
namespace CoapVerif.Model.OwnershipStale
open CoapVerif.Spec.Ownership CoapVerif.Model.Ownership CoapVerif.Model.OwnershipPaths

inductive BwxStep
  | base (s : BwStep)
  | expire                                     -- the validity of the layer's sending entry ends; no sweep yet
  -- wrong shape (not what the code does)
  | respondStaleReleases (x sm e : Nat)        -- startSendingMessage over a stale element: stored AND released (seeded C12-V)
  deriving Repr, DecidableEq

structure BwxCtl where
  base : BwCtl := {}
  stale : Option Nat := none                   -- expired element still in the map (its message)
  deriving Repr

def isSweep : BwStep → Bool
  | .sweep => true
  | _ => false

def bwxStep (c : BwxCtl) : BwxStep → BwxCtl × List Op
  | .base s =>
    let (b', ops) := bwStep c.base s
    ({ base := b', stale := if b'.sendEntry.isSome || isSweep s then none else c.stale }, ops)
  | .expire =>
    match c.base.sendEntry with
    | some (o, false) => ({ base := { c.base with sendEntry := none }, stale := some o }, [])
    | _ => (c, [])
  | .respondStaleReleases x sm e =>
    match c.stale, c.base.sendEntry, c.base.hand.lookup x with
    | some _, none, some w =>
      -- createSendingMessage, Swap, LoadOrStore(original) replaces the stale element and stores the original - and says
      -- `loaded`: the deferred release gives the stored original back; Handle answers 4.08 (sendEntityIncomplete)
      ({ base := { (c.base.setHand x e) with sendEntry := some (w, false) }, stale := none },
       [.acq 5 sm, .use 4 w, .mv 4 6 w, .mv 5 4 sm, .relAlias w, .acq 5 e, .rel 4 sm, .mv 5 4 e])
    | _, _, _ => (c, [])

def bwxProg : Prog BwxCtl BwxStep := ⟨bwxStep⟩

def BwxStep.asCoded : BwxStep → Bool
  | .base s => s.asCoded
  | .expire => true
  | .respondStaleReleases _ _ _ => false

/-- The code as it is. -/
def bwxCoded : Prog BwxCtl BwxStep := ⟨fun c st => if st.asCoded then bwxStep c st else (c, [])⟩

end CoapVerif.Model.OwnershipStale
