/-!
# C12 — where the content of a decoded message lives

"… it is never recycled while the application legitimately holds it: the content of a response returned from a request
call, of a request inside a handler and of a notification inside a callback stays unchanged until the application
releases it or returns."

A received message is decoded from bytes that sit in the transport's receive memory (the datagram buffer of the udp
session, the stream `bytes.Buffer` of the tcp session), and that memory is used again for whatever the connection
receives next.  `Message.UnmarshalWithDecoder` therefore copies the encoded bytes into the message's own
`bufferUnmarshal` before decoding; token, option values and payload of the decoded message are slices of that copy.

The model: the transport's receive memory `rx` (a list of bytes of any length — no bound on the size of an encoded
message: 65535, 65536, 2^24+1 … are all in the domain), a message whose storage is either its `own` copy or an `alias`
of the first `n` bytes of `rx`, the transport's later writes into `rx` at any offset, and `content` — what the holder
of the message reads.  `unmarshal` is the code as it is (copy, for every length); `unmarshalSeeded limit` is the seeded
shape C12-W (adopt the caller's slice when the encoded message is longer than `limit` = 65535).
-/
namespace CoapVerif.Model.OwnershipStorage

abbrev Bytes := List UInt8

inductive Storage
  | own (b : Bytes)      -- the message's own bufferUnmarshal
  | alias (n : Nat)      -- the first n bytes of the transport's receive memory
  deriving Repr, DecidableEq

/-- what the holder of the message reads, given the current receive memory -/
def content (rx : Bytes) : Storage → Bytes
  | .own b => b
  | .alias n => rx.take n

/-- `UnmarshalWithDecoder(data)` with `data = rx[:n]`: the code as it is -/
def unmarshal (rx : Bytes) (n : Nat) : Storage := .own (rx.take n)

/-- seeded C12-W: frames longer than `limit` are decoded where the transport assembled them -/
def unmarshalSeeded (limit : Nat) (rx : Bytes) (n : Nat) : Storage :=
  if n > limit then .alias n else .own (rx.take n)

/-- the transport receives `d` and puts it at offset `off` of its receive memory (the part that does not fit is appended) -/
def write (rx : Bytes) (off : Nat) (d : Bytes) : Bytes :=
  rx.take off ++ d ++ rx.drop (off + d.length)

/-- any number of later receptions -/
def writes (rx : Bytes) : List (Nat × Bytes) → Bytes
  | [] => rx
  | (off, d) :: r => writes (write rx off d) r

end CoapVerif.Model.OwnershipStorage
