import CoapVerif.Model.TcpCoder
import CoapVerif.Generated.PoolRetry
/-!
# Model of `message/pool/message.go`: `MarshalWithEncoder`, `UnmarshalWithDecoder`, `decode`

Only the codec-facing state of `pool.Message` is modelled: the capacity of the option slice, the two
scratch buffers (contents; `len` = list length) and the message value.

The retry loop of `decode` exists twice: `decodeRetry` in `Model/PoolRetry.lean` is the model the
theorems are about — a well-founded recursion whose measure `len(data) - cap` needs lemmas about the
decoders; `decodeRetryN` below is its executable twin with explicit fuel `len(data) + 1`, free of any
proof, so that the line-protocol driver (which links this file) still builds when a regenerated
constant breaks a lemma and the judge can then search for a failing input.  `Props/C02.lean`
(`exec_twin_eq`) proves the two equal.
-/
set_option linter.unusedVariables false
namespace CoapVerif.Model.PoolMessage
open CoapVerif.Generated.Codec CoapVerif.Generated.OptionDefs
open CoapVerif.Spec.Wire (Bytes Opt Msg)
open CoapVerif.Model.OptionCodec
open CoapVerif.Model.UdpCoder (EncRes)

inductive Coder | udp | tcp
deriving Repr, DecidableEq

def Coder.size : Coder → Msg → Except Err Nat
  | .udp => UdpCoder.size
  | .tcp => TcpCoder.size

def Coder.encode : Coder → Msg → Bytes → Except Err EncRes
  | .udp => UdpCoder.encode
  | .tcp => TcpCoder.encode

def Coder.decode : Coder → Nat → Bytes → Except Err (Msg × Nat)
  | .udp => UdpCoder.decode
  | .tcp => TcpCoder.decode

/-- Codec-facing state of a `pool.Message`. -/
structure PoolMsg where
  optCap : Nat              -- cap(r.msg.Options)
  bufferUnmarshal : Bytes
  bufferMarshal : Bytes
  msg : Msg
deriving Repr

/-- `NewMessage`: options `make(Options, 0, 16)`, two 256-byte scratch buffers, type/MID unset. -/
def newMessage : PoolMsg :=
  ⟨16, List.replicate 256 0, List.replicate 256 0, ⟨-1, -1, 0, [], [], []⟩⟩

/-- `append(b, make([]byte, n)...)` -/
def grow (b : Bytes) (n : Nat) : Bytes := b ++ List.replicate n 0

/-- `MarshalWithEncoder`: returns the produced bytes (`r.bufferMarshal[:n]`) and the new state. -/
def marshalWithEncoder (c : Coder) (r : PoolMsg) : Except Err (Bytes × PoolMsg) := do
  let size ← c.size r.msg
  let bm := if r.bufferMarshal.length < size then grow r.bufferMarshal (size - r.bufferMarshal.length) else r.bufferMarshal
  let res ← c.encode r.msg bm
  if res.tooSmall then .error .tooSmall
  else do
    let out ← sliceTo res.buf res.n
    .ok (out, { r with bufferMarshal := out })

/-! ### The capacity retry of `decode` (executable twin) -/

/-- New option capacity after `ErrOptionsTooSmall`: `len(r.msg.Options) * retryFactor` — the slice is full at
that point, so `len = cap` — replaced by `retryZeroCap` when that is 0, and clamped to `retryCapLimit` if the
source has such a cap.  The three facts are read from the AST of `(*Message).decode` on every run
(`Generated/PoolRetry.lean`); the termination proof of `decodeRetry` needs `retryCapLimit = none`. -/
def newCap (cap : Nat) : Nat :=
  let c := if cap * CoapVerif.Generated.PoolRetry.retryFactor = 0 then CoapVerif.Generated.PoolRetry.retryZeroCap
    else cap * CoapVerif.Generated.PoolRetry.retryFactor
  match CoapVerif.Generated.PoolRetry.retryCapLimit with
  | some l => if c > l then l else c
  | none => c

/-- `Message.decode(decoder)` with explicit fuel (number of retries still allowed). -/
def decodeRetryN (c : Coder) : Nat → Nat → Bytes → Except Err (Msg × Nat) × Nat
  | 0, cap, data => (c.decode cap data, cap)
  | fuel + 1, cap, data =>
    match c.decode cap data with
    | .error .optCap =>
      -- no progress: the real loop would re-enter the identical state (same capacity, same data) forever; the twin
      -- stops here and hands back the capacity error, which the pooled API otherwise never returns
      -- (`Props.C02.pool_unmarshal_total`); the driver prints it as `hang`
      if newCap cap ≤ cap then (.error .optCap, cap) else decodeRetryN c fuel (newCap cap) data
    | r => (r, cap)

/-- `UnmarshalWithDecoder(decoder, data)` on the executable twin. -/
def unmarshalWithDecoderN (c : Coder) (r : PoolMsg) (data : Bytes) : Except Err (Nat × PoolMsg) := do
  let bu := if r.bufferUnmarshal.length < data.length
    then grow r.bufferUnmarshal (data.length - r.bufferUnmarshal.length) else r.bufferUnmarshal
  let bu := goCopy bu data
  let bu ← sliceTo bu data.length
  let (res, cap) := decodeRetryN c (bu.length + 1) r.optCap bu
  match res with
  | .error e => .error e
  | .ok (m, n) => .ok (n, { r with optCap := cap, bufferUnmarshal := bu, msg := m })

end CoapVerif.Model.PoolMessage
