import CoapVerif.Model.OptionValues
import CoapVerif.Spec.OptionOp
/-!
Model of the option-editing part of `message/pool/message.go` (C15): the value buffer with its cursor
(`valueBuffer = valueBuffer[used:]`), growth by `append(valueBuffer, make([]byte, n)...)` (in place when the
capacity allows, otherwise a fresh buffer — both branches exist in the model; which one is taken depends on the
growth policy `gb` of the runtime and every theorem holds for every policy), the retry-after-`ErrTooSmall`
pattern of the setters, `ResetOptionsTo`, `SetPath`, `AddQuery`, `Reset`, `Clone`.

(`Model/PoolMessage.lean` is the codec-facing model of the same Go file and belongs to C01/C02.)

`rawApply` models a *direct* user of the `Options` API who owns one fixed buffer and consumes it monotonically
(what the C15 harness does for its `raw` objects).
-/
namespace CoapVerif.Model.Options
open CoapVerif.Generated.OptionList

/-- The part of `pool.Message` that option editing touches, plus the heap. -/
structure Msg where
  mem : Mem
  opts : Options View
  /-- `valueBuffer` (its unused rest) -/
  vb : Slice
  /-- `origValueBuffer` -/
  orig : Slice
  deriving Repr

/-- `append(s, make([]byte, n)...)` for a byte slice. -/
def appendZeros (gb : Nat → Nat → Nat) (m : Mem) (s : Slice) (n : Nat) : Mem × Slice :=
  if s.len + n ≤ s.cap m then
    (m.write s.bid (s.off + s.len) (List.replicate n 0), ⟨s.bid, s.off, s.len + n⟩)
  else
    let newCap := max (gb (s.cap m) (s.len + n)) (s.len + n)
    (m ++ [m.read ⟨s.bid, s.off, s.len⟩ ++ List.replicate (newCap - s.len) 0], ⟨m.length, 0, s.len + n⟩)

namespace Msg

/-- `NewMessage(ctx)` with `cap(msg.Options) = optCap` (16 in `NewMessage`; other values via `SetMessage`). -/
def new (m : Mem) (optCap : Nat) : Msg :=
  let (m', vb) := m.alloc valueBufferSize
  ⟨m', Options.make optCap, vb, vb⟩

/-- The common shape of `SetOptionString`, `AddOptionString`, `SetOptionUint32`, `AddOptionUint32`,
`ResetOptionsTo`: call, on `ErrTooSmall` grow by `used` and call again, `panic` on any remaining error
(reported as `some e`, the message unchanged except for the grown buffer), else commit. -/
def retry (gb : Nat → Nat → Nat) (r : Msg) (f : Mem → Options View → Slice → M Res) : M (Msg × Option Err) := do
  let res ← f r.mem r.opts r.vb
  let (res, vb) ← (match res.err with
    | some .tooSmall => do
      let (m', vb') := appendZeros gb res.mem r.vb res.used.toNat
      -- `r.msg.Options` is still the header the first call received (and returned)
      let res' ← f m' res.opts vb'
      pure (res', vb')
    | _ => pure (res, r.vb) : M (Res × Slice))
  match res.err with
  | some e => pure ({ r with mem := res.mem, vb := vb }, some e)
  | none =>
    if res.used < 0 then .error .slice
    else
      let vb' ← vb.tail res.used.toNat
      pure ({ r with mem := res.mem, opts := res.opts, vb := vb' }, none)

def setOptionString (g : Nat → Nat) (gb : Nat → Nat → Nat) (r : Msg) (id : Nat) (s : List UInt8) :=
  r.retry gb (fun m o b => Options.setString g m o b id s)
def addOptionString (g : Nat → Nat) (gb : Nat → Nat → Nat) (r : Msg) (id : Nat) (s : List UInt8) :=
  r.retry gb (fun m o b => Options.addString g m o b id s)
def setOptionUint32 (g : Nat → Nat) (gb : Nat → Nat → Nat) (r : Msg) (id : Nat) (v : Nat) :=
  r.retry gb (fun m o b => Options.setUint32 g m o b id v)
def addOptionUint32 (g : Nat → Nat) (gb : Nat → Nat → Nat) (r : Msg) (id : Nat) (v : Nat) :=
  r.retry gb (fun m o b => Options.addUint32 g m o b id v)
/-- `ResetOptionsTo(in)`; `in` are options whose values live somewhere in the heap. -/
def resetOptionsTo (g : Nat → Nat) (gb : Nat → Nat → Nat) (r : Msg) (inp : List (Opt View)) :=
  r.retry gb (fun m o b => Options.resetOptionsTo g m o b inp)
/-- `r.ResetOptionsTo(r.Options()[k:k+n])`: the input is a slice of the message's own option array -/
def resetOptionsToOwnSlice (g : Nat → Nat) (gb : Nat → Nat → Nat) (r : Msg) (k n : Nat) :=
  r.retry gb (fun m o b => Options.resetOptionsToAliased g m o b k n)
/-- `AddQuery(query)` -/
def addQuery (g : Nat → Nat) (gb : Nat → Nat → Nat) (r : Msg) (q : List UInt8) := r.addOptionString g gb uriQuery q

/-- `AddOptionBytes` / `SetOptionBytes` (`isSet`) -/
def putOptionBytes (isSet : Bool) (g : Nat → Nat) (gb : Nat → Nat → Nat) (r : Msg) (id : Nat) (value : List UInt8) : M Msg := do
  let (m1, vb1) := if r.vb.len < value.length then appendZeros gb r.mem r.vb (value.length - r.vb.len) else (r.mem, r.vb)
  let m2 := m1.copyTo vb1 value                      -- n := copy(r.valueBuffer, value)
  let n := min vb1.len value.length
  let v ← vb1.head m2 n                              -- v := r.valueBuffer[:n]
  let o' ← if isSet then r.opts.set g (id, v) else r.opts.add g (id, v)
  let vb2 ← vb1.tail n
  pure { r with mem := m2, opts := o', vb := vb2 }

/-- `SetPath(p) error` -/
def setPath (g : Nat → Nat) (gb : Nat → Nat → Nat) (r : Msg) (p : List UInt8) : M (Msg × Option Err) := do
  let res ← Options.setPath g r.mem r.opts uriPath r.vb p
  let step2 : M (Option (Res × Slice) × Option Err) := (match res.err with
    | some .tooSmall => do
      match ← Options.getPathBufferSize p with
      | .error e => pure (none, some e)
      | .ok expandBy =>
        let (m', vb') := appendZeros gb res.mem r.vb expandBy
        let res' ← Options.setPath g m' res.opts uriPath vb' p
        pure (some (res', vb'), none)
    | _ => pure (some (res, r.vb), none))
  match ← step2 with
  | (none, e) => pure (r, e)
  | (some (res, vb), _) =>
    match res.err with
    | some e => pure ({ r with mem := res.mem, vb := vb }, some e)
    | none =>
      if res.used < 0 then .error .slice
      else
        let vb' ← vb.tail res.used.toNat
        pure ({ r with mem := res.mem, opts := res.opts, vb := vb' }, none)

/-- `Remove(opt)` -/
def remove (r : Msg) (id : Nat) : M Msg := do
  return { r with opts := ← r.opts.remove id }

/-- `Reset()`: `Options = Options[:0]`, `valueBuffer = origValueBuffer` -/
def reset (r : Msg) : M Msg := do
  return { r with opts := ← r.opts.reslice 0, vb := r.orig }

/-- a direct user of the `Options` API with a fixed buffer: take the returned header, advance the buffer on success -/
def rawApply (r : Msg) (f : Mem → Options View → Slice → M Res) : M (Msg × Int × Option Err) := do
  let res ← f r.mem r.opts r.vb
  match res.err with
  | some e => pure ({ r with mem := res.mem, opts := res.opts }, res.used, some e)
  | none =>
    if res.used < 0 then .error .slice
    else
      let vb' ← r.vb.tail res.used.toNat
      pure ({ r with mem := res.mem, opts := res.opts, vb := vb' }, res.used, none)

/-- list of `(id, value bytes)` a reader of the message sees -/
def items (r : Msg) : List (Nat × List UInt8) := r.opts.toList.map (fun x => (x.1, r.mem.read x.2))

/-- The option-editing operations of `pool.Message`, as data (`Spec/OptionOp.lean`; histories are lists of these). -/
abbrev Op := CoapVerif.Spec.OptionOp.Op

/-- the caller's input options of `ResetOptionsTo`: their values live in memory of their own -/
def allocInputs : Mem → List (Nat × List UInt8) → Mem × List (Opt View)
  | m, [] => (m, [])
  | m, x :: rest =>
    let (m1, v) := m.allocBytes x.2
    let (m2, vs) := allocInputs m1 rest
    (m2, (x.1, v) :: vs)

/-- `in` built from the message's own `Options()`: option structs copied by index (modulo the length) into a slice
of their own — their values are still views into the message's value buffer. -/
def selectOwn (o : Options View) (idxs : List Nat) : List (Opt View) :=
  idxs.filterMap (fun i => o.toList[i % o.toList.length]?)

/-- One step of a history.  A setter that `panic`s with an error (a refusal) is recovered by the caller: the
message is in the state the method left it in. -/
def step (g : Nat → Nat) (gb : Nat → Nat → Nat) (r : Msg) : Op → M Msg
  | .setBytes id v => r.putOptionBytes true g gb id v
  | .addBytes id v => r.putOptionBytes false g gb id v
  | .setString id v => do return (← r.setOptionString g gb id v).1
  | .addString id v => do return (← r.addOptionString g gb id v).1
  | .setUint32 id v => do return (← r.setOptionUint32 g gb id v).1
  | .addUint32 id v => do return (← r.addOptionUint32 g gb id v).1
  | .setPath p => do return (← r.setPath g gb p).1
  | .addQuery q => do return (← r.addQuery g gb q).1
  | .remove id => r.remove id
  | .resetTo inp =>
    let (m1, views) := allocInputs r.mem inp
    do return (← ({ r with mem := m1 } : Msg).resetOptionsTo g gb views).1
  | .resetSelf idxs => do return (← r.resetOptionsTo g gb (selectOwn r.opts idxs)).1
  | .reset => r.reset

/-- A whole history. -/
def run (g : Nat → Nat) (gb : Nat → Nat → Nat) : Msg → List Op → M Msg
  | r, [] => pure r
  | r, op :: ops => do run g gb (← r.step g gb op) ops

end Msg
end CoapVerif.Model.Options
