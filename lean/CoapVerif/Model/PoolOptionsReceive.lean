import CoapVerif.Model.PoolOptions
/-!
Model of the *receive* entrance of a pooled message, as far as the option list is concerned (C15):
`pool.Message.UnmarshalWithDecoder` on a message taken from the pool (`Reset`).

What matters for the option list: the datagram is copied into the message's **unmarshal buffer** — a buffer that is
neither the value buffer nor its original — and `Options.Unmarshal` stores every option value as a *sub-slice of that
buffer* (`Option.UnmarshalValue: o.Value = buf`).  A received message that is edited afterwards therefore holds values
in two places: the ones it arrived with (views into the unmarshal buffer) and the ones stored later (views into the
value buffer, which grows on demand).  The heap `Mem` keeps the two apart: the unmarshal buffer is a block of its
own, and growth of the value buffer (`appendZeros`) is in place only inside the value buffer's *own* block.

* `wireBytes inp` — the option part of the datagram as it lies in the unmarshal buffer: in front of every value its
  option header (delta/length nibbles; its bytes are never read through the option list, one placeholder byte stands
  for it);
* `wireViews bid off inp` — the views `Options.Unmarshal` produces: consecutive sub-slices of that one block;
* `recvArr dc arr n` — the option array after `decode`: the array the message had, when `n` options fit its capacity
  (`cap(*options) == len(*options)` ⇒ `ErrOptionsTooSmall`), otherwise a fresh one whose capacity is chosen by the
  restart policy `dc` (Go: twice the current one, 16 for an empty one) until they fit.  Every theorem holds for every
  policy; the capacity is not observable through the list.

The wire can only carry options in ascending number order (deltas are non-negative), so `inp` is sorted by
construction of the format; the theorems take that as hypothesis.
-/
namespace CoapVerif.Model.Options

/-- option part of the datagram: header placeholder, value, next option … -/
def wireBytes : List (Nat × List UInt8) → List UInt8
  | [] => []
  | x :: rest => 0 :: (x.2 ++ wireBytes rest)

/-- the values as `Options.Unmarshal` leaves them: sub-slices of block `bid`, the first option header at `off` -/
def wireViews (bid : Nat) : Nat → List (Nat × List UInt8) → List (Opt View)
  | _, [] => []
  | off, x :: rest => (x.1, ⟨bid, off + 1, x.2.length⟩) :: wireViews bid (off + 1 + x.2.length) rest

/-- the option array `decode` ends up with (restart with a fresh, larger array until `n` options fit) -/
def recvArr (dc : Nat → Nat) (arr : List (Opt View)) (n : Nat) : Nat → List (Opt View)
  | 0 => arr
  | fuel + 1 => if n ≤ arr.length then arr else recvArr dc (List.replicate (dc arr.length) default) n fuel

namespace Msg

/-- A message from the pool (`Reset`) into which a datagram carrying the options `inp` is unmarshalled. -/
def receive (dc : Nat → Nat) (r : Msg) (inp : List (Nat × List UInt8)) : M Msg := do
  let r0 ← r.reset
  let bid := r0.mem.length
  let arr := recvArr dc r0.opts.arr inp.length (inp.length + 1)
  pure { r0 with mem := r0.mem ++ [wireBytes inp],
                 opts := ⟨wireViews bid 0 inp ++ arr.drop inp.length, inp.length⟩ }

end Msg
end CoapVerif.Model.Options
