import CoapVerif.Model.PoolMessage
import CoapVerif.Lemmas.CoderDecode
/-!
# Model of the capacity retry loop of `pool.Message.decode` and of `UnmarshalWithDecoder`

`decodeRetry` is a well-founded recursion: its measure is `len(data) - cap`, justified by
`decode_optCap_lt` (the decoders report `ErrOptionsTooSmall` only while `cap` is below the input
length) and by `newCap_gt` (the new capacity is strictly larger).  The second fact is what fails for
the loop `cap ↦ 2·len(options)` at capacity 0 (DESIGN §6-F2): with that step Lean rejects the definition.
-/
set_option linter.unusedVariables false
namespace CoapVerif.Model.PoolMessage
open CoapVerif.Spec.Wire (Bytes Opt Msg)
open CoapVerif.Model.OptionCodec

/-- Needs the shape facts of the source: the capacity at least doubles, 0 is replaced by a positive value, and there
is NO cap on the capacity (with a cap that is not an error the loop re-enters the same state forever). -/
theorem newCap_gt (cap : Nat) : cap < newCap cap := by
  unfold newCap
  simp only [CoapVerif.Generated.PoolRetry.retryFactor, CoapVerif.Generated.PoolRetry.retryZeroCap,
    CoapVerif.Generated.PoolRetry.retryCapLimit]
  by_cases h : cap * 2 = 0 <;> simp [h] <;> omega

theorem decode_optCap_lt {c : Coder} {cap : Nat} {data : Bytes} (h : c.decode cap data = .error .optCap) :
    cap < data.length := by
  cases c with
  | udp => exact CoapVerif.Lemmas.CoderDecode.udp_decode_optCap h
  | tcp => exact CoapVerif.Lemmas.CoderDecode.tcp_decode_optCap h

/-- `Message.decode(decoder)`: retry with a larger option slice while the decoder reports
`ErrOptionsTooSmall`.  Returns the decoder's result and the final option capacity. -/
def decodeRetry (c : Coder) (cap : Nat) (data : Bytes) : Except Err (Msg × Nat) × Nat :=
  match h : c.decode cap data with
  | .error .optCap => decodeRetry c (newCap cap) data
  | r => (r, cap)
termination_by data.length - cap
decreasing_by
  have h1 := decode_optCap_lt h
  have h2 := newCap_gt cap
  omega

/-- `UnmarshalWithDecoder(decoder, data)`: copy `data` into the message's own buffer, decode from
the copy.  Returns the consumed count and the new state. -/
def unmarshalWithDecoder (c : Coder) (r : PoolMsg) (data : Bytes) : Except Err (Nat × PoolMsg) := do
  let bu := if r.bufferUnmarshal.length < data.length
    then grow r.bufferUnmarshal (data.length - r.bufferUnmarshal.length) else r.bufferUnmarshal
  let bu := goCopy bu data
  let bu ← sliceTo bu data.length
  let (res, cap) := decodeRetry c r.optCap bu
  match res with
  | .error e => .error e
  | .ok (m, n) => .ok (n, { r with optCap := cap, bufferUnmarshal := bu, msg := m })

end CoapVerif.Model.PoolMessage
