import CoapVerif.Generated.WaitShape
/-!
Model of the replaceable single consumer of the receive queue (C11):

* `net/client/receivedMessageReader.go`: `loop` (select on its own `loopDone`, the queue, the connection's
  `Done`; `readingMessages := false` while a message is processed; set back to `true` under the mutex),
  `TryToReplaceLoop` (under the mutex: nothing if the *current* loop is reading, otherwise close the current
  `loopDone`, make a new `(loopDone, readingMessages)` pair current and start a loop on it);
* `udp/client/conn.go: Process` / `tcp/client/conn.go: pushToReceivedMessageQueue`: one socket reader hands messages
  over in arrival order; messages it handles inline (bare ACK, ping/pong, signals) never enter the queue; the
  hand-over blocks while the queue is full;
* handlers as programs: `replace` is a call of `TryToReplaceLoop`, `wait c` a blocking construct (a `select` /
  semaphore acquire) that can only proceed once `c` holds or its deadline has passed.

One `Event` is one atomic step of one goroutine (both critical sections of the mutex are single steps); a schedule
is an arbitrary `List Event`.  A loop whose `loopDone` is closed may still *take* a message if the queue is ready at
the same time (Go's `select` picks among ready cases at random) — the model allows both.
-/
namespace CoapVerif.Model.Reader

/-- what a blocked goroutine is waiting for; evaluated on the connection state -/
inductive Cond
  | acked (k : Nat)        -- the message-ID continuation of exchange k has been woken (inline, by the socket reader)
  | delivered (k : Nat)    -- the response of exchange k has been handed over (by a loop dispatching it)
  | ponged                 -- the pong has been read (inline)
  | slotFree (key limit : Nat)   -- fewer than `limit` holders of limiter entry `key` (limit 0 = unlimited)
  deriving Repr, DecidableEq

inductive Act
  | replace                         -- TryToReplaceLoop
  | startCall (k dur : Nat)         -- a nested blocking call begins (deadline = now + dur)
  | acquire (key limit : Nat)       -- wait for a limiter slot, then hold it
  | send (k : Nat)                  -- the request of exchange k is registered and written (k = 0: a ping, forgets old pongs)
  | wait (c : Cond) (onClose : Bool) -- blocking wait (ends on c, at the call's deadline, or — if the select has the
                                    -- connection context among its cases — when the connection closes: the call fails)
  | endCall (k : Nat)               -- the nested call returns (slots released, result logged)
  | release (key : Nat)             -- one held slot of entry `key` is given back while the call goes on (NSTART: the slot a
                                    -- confirmable request took before it was written, released when its acknowledgement wait ends)
  deriving Repr, DecidableEq

inductive MKind
  | req (prog : List Act)   -- a request: the application handler runs `prog`
  | resp (k : Nat)          -- a response of exchange k that also acknowledges (piggybacked / stream response)
  | ack (k : Nat)           -- bare acknowledgement: handled inline, never queued
  | sep (k : Nat)           -- separate response of exchange k (a `Do`: it also acknowledges the request)
  | note (k : Nat)          -- first notification of observation k sent separately (the observation handler does not acknowledge)
  | pong                    -- handled inline, never queued
  deriving Repr, DecidableEq

structure Msg where
  id : Nat
  kind : MKind
  deriving Repr, DecidableEq

inductive LPc | atSelect | running | exited
  deriving Repr, DecidableEq

structure Loop where
  doneClosed : Bool        -- this loop's `loopDone` is closed
  reading : Bool           -- this loop's `readingMessages`
  pc : LPc
  cur : Option Msg         -- the message being processed
  prog : List Act          -- what is left of its handler
  deadline : Nat           -- deadline of the nested call in progress
  callStart : Nat          -- when it began
  failed : Nat             -- 0 = fine, 1 = the nested call in progress hit its deadline, 2 = the connection closed
  held : List Nat          -- limiter entries held by the nested call in progress
  deriving Repr, DecidableEq

inductive LogEv
  | start (m : Nat) | finish (m : Nat) | nested (k : Nat) (result : Nat) (elapsed : Nat)
  deriving Repr, DecidableEq

structure State where
  cap : Nat
  udp : Bool
  inbox : List Msg            -- on the wire, in order
  hand : Option Msg           -- read by the socket reader, inline part done, waiting for room in the queue
  queue : List Msg
  accepted : List Msg         -- queueable messages in the order the socket reader read them (while the connection is open)
  lost : List Msg             -- accepted, but still in the reader's hand when the connection closed: discarded
  started : List Msg          -- messages taken by loops, in take order
  finished : List Msg
  loops : Nat → Option Loop
  nloops : Nat
  current : Nat               -- the loop `r.private.(loopDone, readingMessages)` belongs to
  acked : List Nat
  delivered : List Nat
  sent : List Nat             -- exchanges whose request is out and whose call has not returned
  ponged : Bool
  holders : List Nat          -- limiter: one element per held slot (its key)
  waitq : List (Nat × Nat)    -- limiter: (key, loop) in the order the goroutines started to wait (both levels are FIFO)
  now : Nat
  closed : Bool
  log : List LogEv

def idleLoop : Loop := ⟨false, true, .atSelect, none, [], 0, 0, 0, []⟩

def init (cap : Nat) (udp : Bool) (inbox : List Msg) : State :=
  { cap := cap, udp := udp, inbox := inbox, hand := none, queue := [], accepted := [], lost := [], started := [], finished := [],
    loops := fun i => if i = 0 then some idleLoop else none, nloops := 1, current := 0,
    acked := [], delivered := [], sent := [], ponged := false, holders := [], waitq := [], now := 0, closed := false, log := [] }

inductive Event
  | feederRead            -- the socket reader reads the next message and does its inline part
  | feederPush            -- … puts the message in its hand into the queue (room permitting)
  | loopTake (l : Nat)    -- loop l, at its select, receives from the queue (or directly from the blocked sender)
  | loopExit (l : Nat)    -- loop l, at its select, sees its loopDone closed / the connection done
  | handlerStep (l : Nat) -- the handler running in loop l performs its next action
  | tick (dt : Nat)
  | close
  deriving Repr, DecidableEq

def setLoop (s : State) (l : Nat) (lp : Loop) : State :=
  { s with loops := fun i => if i = l then some lp else s.loops i }

def holds (c : Cond) (s : State) : Bool :=
  match c with
  | .acked k => s.acked.contains k
  | .delivered k => s.delivered.contains k
  | .ponged => s.ponged
  | .slotFree key limit => limit == 0 || (s.holders.filter (· == key)).length < limit

/-- is the message handled entirely by the socket reader?  A bare ACK that finds a pending message-ID continuation is
    *not*: `handleSpecialMessages` returns false for it and it travels through the queue (to be dropped by `handle`). -/
def inlineOnly (s : State) : MKind → Bool
  | .ack k => !(s.sent.contains k && !s.acked.contains k)
  | .pong => !s.udp      -- stream: a signal, handled inline; datagram: a Reset, which always travels through the queue
  | _ => false

/-- the inline part of reading a message (`handleSpecialMessages` / `handleSignals`) -/
def inlinePart (s : State) (m : Msg) : State :=
  match m.kind with
  | .ack k => { s with acked := k :: s.acked }
  | .resp k => if s.udp then { s with acked := k :: s.acked } else s
  | .pong => if s.sent.contains 0 then { s with ponged := true } else s    -- only a pending ping has a continuation
  | _ => s

/-- dispatch of a message by a loop, before any handler code: responses are handed to the waiting call -/
def dispatch (s : State) (m : Msg) : State :=
  match m.kind with
  | .resp k => if s.sent.contains k then { s with delivered := k :: s.delivered } else s
  -- a response also acknowledges its request (RFC 7252 §5.2.2, the token closure of doInternal wakes the writer)
  | .sep k => if s.sent.contains k then { s with delivered := k :: s.delivered, acked := k :: s.acked } else s
  -- a notification of an observation whose registration request is still waiting for its acknowledgement: `Conn.handle`
  -- acknowledges by the response's token before it dispatches (repair of F42; regenerated fact, false = the shape before it)
  | .note k => if s.sent.contains k then
      { s with delivered := k :: s.delivered,
               acked := if CoapVerif.Generated.WaitShape.handleAcknowledgesByToken then k :: s.acked else s.acked } else s
  | _ => s

def progOf : MKind → List Act
  | .req p => p
  | _ => []

/-- `TryToReplaceLoop` -/
def tryReplace (s : State) : State :=
  match s.loops s.current with
  | some cur =>
    if cur.reading then s
    else
      let s := setLoop s s.current { cur with doneClosed := true }
      let s := setLoop s s.nloops idleLoop
      { s with current := s.nloops, nloops := s.nloops + 1 }
  | none => s

def removeOne (x : Nat) : List Nat → List Nat
  | [] => []
  | y :: ys => if x = y then ys else y :: removeOne x ys

/-- a failed call returns at once: everything up to its `endCall` is skipped -/
def skipToEnd : List Act → List Act
  | [] => []
  | .endCall k :: rest => .endCall k :: rest
  | _ :: rest => skipToEnd rest

/-- one action of the handler running in loop l (the loop record is `lp`, with `act` at the head of its program);
    `none` = the goroutine is blocked -/
def doAct (s : State) (l : Nat) (lp : Loop) (act : Act) (rest : List Act) : Option State :=
  match act with
  | .replace => some (tryReplace (setLoop s l { lp with prog := rest }))
  | .startCall _ dur => some (setLoop s l { lp with prog := rest, deadline := s.now + dur, callStart := s.now, failed := 0, held := [] })
  | .acquire key limit =>
    if limit = 0 then some (setLoop s l { lp with prog := rest })
    else if !s.waitq.contains (key, l) then some { s with waitq := s.waitq ++ [(key, l)] }     -- takes its place in the line
    else if holds (.slotFree key limit) s && (s.waitq.find? (·.1 == key)) == some (key, l) then
      some (setLoop { s with holders := key :: s.holders, waitq := s.waitq.filter (· ≠ (key, l)) } l
        { lp with prog := rest, held := key :: lp.held })
    else if s.now ≥ lp.deadline then
      some (setLoop { s with waitq := s.waitq.filter (· ≠ (key, l)) } l { lp with prog := skipToEnd rest, failed := 1 })
    else none
  | .send k =>
    some (setLoop { s with sent := k :: s.sent, ponged := if k = 0 then false else s.ponged } l { lp with prog := rest })
  | .wait c onClose =>
    if holds c s then some (setLoop s l { lp with prog := rest })
    else if onClose && s.closed then some (setLoop s l { lp with prog := skipToEnd rest, failed := 2 })
    else if s.now ≥ lp.deadline then some (setLoop s l { lp with prog := skipToEnd rest, failed := 1 })
    else none
  | .endCall k =>
    let s := { s with holders := lp.held.foldl (fun h key => removeOne key h) s.holders,
                      sent := s.sent.filter (· ≠ k),
                      log := s.log ++ [.nested k lp.failed (s.now - lp.callStart)] }
    some (setLoop s l { lp with prog := rest, held := [], failed := 0 })
  | .release key =>
    some (setLoop { s with holders := removeOne key s.holders } l { lp with prog := rest, held := removeOne key lp.held })

def step (s : State) : Event → State
  | .feederRead =>
    match s.hand, s.inbox with
    | none, m :: rest =>
      let only := inlineOnly s m.kind
      let s := inlinePart { s with inbox := rest } m
      -- `select { case queue <- req: case <-cc.Context().Done(): }`: once the connection is closed the message is discarded
      if only || s.closed then s else { s with hand := some m, accepted := s.accepted ++ [m] }
    | _, _ => s
  | .feederPush =>
    match s.hand with
    | some m =>
      if s.closed then { s with hand := none, lost := s.lost ++ [m] }
      else if s.queue.length < s.cap then { s with queue := s.queue ++ [m], hand := none } else s
    | none => s
  | .loopTake l =>
    match s.loops l with
    | some lp =>
      if lp.pc = .atSelect then
        let take (m : Msg) (s : State) : State :=
          let s := dispatch { s with started := s.started ++ [m], log := s.log ++ [.start m.id] } m
          setLoop s l { lp with reading := false, pc := .running, cur := some m, prog := progOf m.kind }
        match s.queue with
        | m :: q => take m { s with queue := q }
        | [] =>
          match s.hand with
          | some m => take m { s with hand := none }
          | none => s
      else s
    | none => s
  | .loopExit l =>
    match s.loops l with
    | some lp => if lp.pc = .atSelect && (lp.doneClosed || s.closed) then setLoop s l { lp with pc := .exited } else s
    | none => s
  | .handlerStep l =>
    match s.loops l with
    | some lp =>
      if lp.pc = .running then
        match lp.prog with
        | [] =>
          -- ProcessReceivedMessage returned: `mutex.Lock(); readingMessages.Store(true); mutex.Unlock()`, back to select
          match lp.cur with
          | some m =>
            setLoop { s with finished := s.finished ++ [m], log := s.log ++ [.finish m.id] } l
              { lp with reading := true, pc := .atSelect, cur := none }
          | none => setLoop s l { lp with reading := true, pc := .atSelect }
        | act :: rest =>
          match doAct s l lp act rest with
          | some s' => s'
          | none => s
      else s
    | none => s
  | .tick dt => { s with now := s.now + dt }
  | .close => { s with closed := true }

def run (s : State) (evs : List Event) : State := evs.foldl step s

/-- every blocking wait of a program is preceded (in the same program) by a replacement request -/
def waitsPreceded : List Act → Bool
  | [] => true
  | .replace :: _ => true
  | .wait _ _ :: _ => false
  | .acquire _ 0 :: rest => waitsPreceded rest       -- limit 0 = unlimited: never blocks
  | .acquire _ (_ + 1) :: _ => false
  | .startCall _ _ :: rest => waitsPreceded rest
  | .send _ :: rest => waitsPreceded rest
  | .endCall _ :: rest => waitsPreceded rest
  | .release _ :: rest => waitsPreceded rest

/-- … for every suffix that starts right after a point where the loop may have become current again: since a loop never
    becomes current again once replaced, it is enough that the *first* blocking construct is preceded. -/
def WFProg (p : List Act) : Bool := waitsPreceded p

end CoapVerif.Model.Reader
