import CoapVerif.Model.Reader
import CoapVerif.Model.ReaderPrograms
import CoapVerif.Generated.WaitShape
/-!
NSTART (RFC 7252 §4.7, `udp/client/conn.go`): slot accounting for the library operations of `Model.ReaderPrograms`.

`Conn.acquireOutstandingInteraction` / `releaseOutstandingInteraction` are a counting semaphore of `nStart` slots
(`semaphore.Weighted`: first come, first served; the waiter leaves when its request's context ends).  In the source

* the only caller of `acquireOutstandingInteraction` is `prepareWriteMessage`, in the `Confirmable` branch, for the codes
  GET..DELETE, *before* the message is written and before any `TryToReplaceLoop` (`Generated.WaitShape`: the construct
  `Conn.acquireOutstandingInteraction / acquire` has `precededByReplace = false`);
* the slot is given back by the function `prepareWriteMessage` returns, which `writeMessage` defers: when
  `waitForAcknowledge` has returned — the acknowledgement was matched by the *socket reader* (`handleSpecialMessages`, inline:
  `Model.Reader.inlinePart`), or a response under the request's token was dispatched first (`Model.Reader.dispatch`, `.sep`), or
  the request's context / the connection ended (then the call fails and `endCall` gives everything back);
* a non-confirmable request takes no slot (the `TODO` in `prepareWriteMessage`), nor does a ping, a response, an empty message.

So a slot is held exactly over `[.send k] ++ ackPart`: `acquire nstartKey n · send k · (replace) · wait (acked k) · release nstartKey`.
`nstart = 0` stands for "not limiting" (the harness default is NSTART 1000, which fewer than 1000 concurrent requests never
reach): the programs are then those of `ReaderPrograms` (`doProgN_zero` …).  The stream transport has no NSTART.
-/
namespace CoapVerif.Model.ReaderNStart
open CoapVerif.Model.Reader CoapVerif.Model.ReaderPrograms CoapVerif.Generated.WaitShape

/-- limiter entry of the NSTART semaphore (0 = total limit, 1 and 100+k = endpoint entries) -/
def nstartKey : Nat := 2

/-- does the source wait for an NSTART slot without a replacement request before it?  (today: yes) -/
def nstartWaitPreceded : Bool := preceded "Conn.acquireOutstandingInteraction" "acquire"

/-- the slot is taken before a confirmable request is written … -/
def takeSlot (udp : Bool) (nstart : Nat) : List Act :=
  if udp && nstart != 0 then rep nstartWaitPreceded ++ [.acquire nstartKey nstart] else []

/-- … and given back when its acknowledgement wait is over -/
def giveSlot (udp : Bool) (nstart : Nat) : List Act :=
  if udp && nstart != 0 then [.release nstartKey] else []

/-- the confirmable write: slot, registration + write, acknowledgement wait, slot back -/
def conWrite (udp : Bool) (nstart k : Nat) : List Act :=
  takeSlot udp nstart ++ [.send k] ++ ackPart udp k ++ giveSlot udp nstart

def doProgN (udp : Bool) (epKey epLimit limit nstart k : Nat) : List Act :=
  [.startCall k 30000] ++ limiterPart udp "LimitParallelRequests.Do" epKey epLimit limit ++ conWrite udp nstart k ++
  rep (preceded "Conn.doInternal" "select") ++ [.wait (.delivered k) (wakesOnClose "Conn.doInternal")] ++ [.endCall k]

/-- a non-confirmable request takes no slot: the program does not depend on NSTART -/
def doNonProgN (udp : Bool) (epKey epLimit limit _nstart k : Nat) : List Act :=
  doNonProg udp epKey epLimit limit k

def writeProgN (udp : Bool) (nstart k : Nat) : List Act :=
  [.startCall k 30000] ++ conWrite udp nstart k ++ [.endCall k]

def observeProgN (udp : Bool) (epKey epLimit limit nstart k : Nat) : List Act :=
  [.startCall k 20000] ++ limiterPart udp "LimitParallelRequests.DoObserve" epKey epLimit limit ++
  rep (handed udp "Conn.doObserve" "Handler.NewObservation") ++ conWrite udp nstart k ++
  rep (preceded "Handler.NewObservation" "select") ++ [.wait (.delivered k) (wakesOnClose "Handler.NewObservation")] ++ [.endCall k]

/-- number of NSTART slots in use -/
def slotsInUse (s : State) : Nat := (s.holders.filter (· == nstartKey)).length

/-- is the handler of loop `l` waiting in the NSTART semaphore? -/
def waitsForSlot (s : State) (l : Nat) : Bool :=
  match s.loops l with
  | some lp => lp.pc == .running && (match lp.prog with
      | .acquire key _ :: _ => key == nstartKey && s.waitq.contains (key, l)
      | _ => false)
  | none => false

/-- the goroutine of loop `l` holds a slot and stands in the acknowledgement wait of exchange `k`: what is left of its
    program is `wait (acked k) · release nstartKey · …` -/
def holdsSlotInAckWait (s : State) (l k : Nat) : Bool :=
  match s.loops l with
  | some lp => lp.pc == .running && lp.held.contains nstartKey && (match lp.prog with
      | .wait (.acked k') _ :: .release key :: _ => k' == k && key == nstartKey
      | _ => false)
  | none => false

end CoapVerif.Model.ReaderNStart
