import CoapVerif.Model.Reader
import CoapVerif.Generated.WaitShape
/-!
The blocking library operations a handler can call on its own connection, as `Model.Reader` programs.  Where a
`replace` (call of `TryToReplaceLoop`) stands is **not** written by hand: it is placed before a blocking construct
exactly when `Generated.WaitShape` says that the source has such a call before that construct in the same function.

* `Client.Do` = `limitParallelRequests.Do`: `acquireEndpoint` (select on ctx / slot), `limit.Acquire`, then
  `Conn.do` → `doInternal`: register + write; a confirmable datagram request waits for its ACK in
  `waitForAcknowledge`; then the select on the response.
* `Client.DoObserve` = `limitParallelRequests.DoObserve`, then `NewObservation`: write (same ACK wait), then the select
  on the first notification.
* `Conn.Ping` / `Client.Ping`: `asyncPing` / `AsyncPing`, then the select on the pong (which the socket reader handles inline).

A hand-over may also be made by the *caller* of the function that holds the blocking construct (`Generated.WaitShape.handovers`,
recognised per connection package): `Conn.Ping` before `Client.Ping`, `Conn.doObserve` before `NewObservation`, and the hook a
connection installs in the limiter, called first thing in `LimitParallelRequests.Do/DoObserve`.  The `replace` then stands
where the source has it: before the ping is written, before the observe request is written, before the first limiter wait.
In today's source the list may be empty (F11, F12, F24 open) or not (fixed): the programs, the predictions of the driver and
the obligations in `Findings/C11.lean` follow the regenerated facts.
-/
namespace CoapVerif.Model.ReaderPrograms
open CoapVerif.Model.Reader CoapVerif.Generated.WaitShape

/-- all blocking constructs of kind `kind` in function `fn` are preceded by a replacement request (and there is one) -/
def preceded (fn kind : String) : Bool :=
  let ws := waits.filter (fun w => w.func == fn && w.kind == kind)
  !ws.isEmpty && ws.all (·.precededByReplace)

/-- the select of `fn` has the connection context among its cases -/
def wakesOnClose (fn : String) : Bool :=
  (waits.filter (fun w => w.func == fn && w.kind == "select")).all
    (fun w => w.cases.any (fun c => c == "<-cc.Context().Done()" || c == "<-cc.session.Context().Done()" || c == "<-h.cc.Context().Done()"))

def rep (b : Bool) : List Act := if b then [.replace] else []

def connFile (udp : Bool) : String := if udp then "udp/client/conn.go" else "tcp/client/conn.go"

/-- on connections of this transport, `fn` hands the reader loop over before it enters `callee` -/
def handed (udp : Bool) (fn callee : String) : Bool :=
  handovers.any (fun h => h.file == connFile udp && h.func == fn && h.callee == callee)

def totalKey : Nat := 0

/-- limiter prefix shared by Do and DoObserve (`fn` = the function that holds the `limit.Acquire`) -/
def limiterPart (udp : Bool) (fn : String) (epKey epLimit limit : Nat) : List Act :=
  rep (preceded "LimitParallelRequests.acquireEndpoint" "select" || handed udp fn "LimitParallelRequests.acquireEndpoint") ++
  [.acquire epKey epLimit] ++
  rep (preceded fn "acquire") ++ [.acquire totalKey limit]

/-- write of a request on the datagram transport (confirmable): `waitForAcknowledge` -/
def ackPart (udp : Bool) (k : Nat) : List Act :=
  if udp then rep (preceded "Conn.waitForAcknowledge" "select") ++ [.wait (.acked k) (wakesOnClose "Conn.waitForAcknowledge")] else []

def doProg (udp : Bool) (epKey epLimit limit k : Nat) : List Act :=
  [.startCall k 30000] ++ limiterPart udp "LimitParallelRequests.Do" epKey epLimit limit ++ [.send k] ++ ackPart udp k ++
  rep (preceded "Conn.doInternal" "select") ++ [.wait (.delivered k) (wakesOnClose "Conn.doInternal")] ++ [.endCall k]

/-- `Do` with a non-confirmable request: on the datagram transport the write does not wait for an acknowledgement -/
def doNonProg (udp : Bool) (epKey epLimit limit k : Nat) : List Act :=
  [.startCall k 30000] ++ limiterPart udp "LimitParallelRequests.Do" epKey epLimit limit ++ [.send k] ++
  rep (preceded "Conn.doInternal" "select") ++ [.wait (.delivered k) (wakesOnClose "Conn.doInternal")] ++ [.endCall k]

/-- one-way confirmable `WriteMessage`: on the datagram transport it waits for the ACK in `waitForAcknowledge` (the ACK is read by the
    socket reader, no loop is needed to complete it); on the stream transport it returns at once -/
def writeProg (udp : Bool) (k : Nat) : List Act :=
  [.startCall k 30000, .send k] ++ ackPart udp k ++ [.endCall k]

/-- application code that takes `ms` without touching the connection (a blocking wait nobody asked a replacement for, which
    nothing but the clock ends): exchange `sleepBase + ms` is never sent, so it is never delivered -/
def sleepBase : Nat := 50000
def sleepProg (ms : Nat) : List Act :=
  [.startCall (sleepBase + ms) ms, .wait (.delivered (sleepBase + ms)) false, .endCall (sleepBase + ms)]

def observeProg (udp : Bool) (epKey epLimit limit k : Nat) : List Act :=
  [.startCall k 20000] ++ limiterPart udp "LimitParallelRequests.DoObserve" epKey epLimit limit ++
  rep (handed udp "Conn.doObserve" "Handler.NewObservation") ++ [.send k] ++ ackPart udp k ++
  rep (preceded "Handler.NewObservation" "select") ++ [.wait (.delivered k) (wakesOnClose "Handler.NewObservation")] ++ [.endCall k]

/-- the transport's own `Conn.Ping` waits for the pong itself (it has a select of its own in the connection's file); otherwise
    it is a wrapper of `Client.Ping`, or absent (then `Client.Ping` is promoted) -/
def pingOwnWait (udp : Bool) : Bool :=
  waits.any (fun w => w.file == connFile udp && w.func == "Conn.Ping" && w.kind == "select")

/-- the selects of `Conn.Ping` in this transport's file are all preceded by a replacement request -/
def pingOwnPreceded (udp : Bool) : Bool :=
  (waits.filter (fun w => w.file == connFile udp && w.func == "Conn.Ping" && w.kind == "select")).all (·.precededByReplace)

/-- … and have the connection's context among their cases -/
def pingOwnWakesOnClose (udp : Bool) : Bool :=
  (waits.filter (fun w => w.file == connFile udp && w.func == "Conn.Ping" && w.kind == "select")).all
    (fun w => w.cases.any (fun c => c == "<-cc.Context().Done()" || c == "<-cc.session.Context().Done()"))

/-- `cc.Ping(ctx)`: (the hand-over of `Conn.Ping`, if the connection has one,) `asyncPing` / `AsyncPing` writes the ping, then the
    select on the pong — in `Conn.Ping` itself when it has one, else in `Client.Ping` -/
def pingProg (udp : Bool) : List Act :=
  if pingOwnWait udp then
    rep (pingOwnPreceded udp) ++ [.send 0] ++ [.startCall 0 10000] ++ [.wait .ponged (pingOwnWakesOnClose udp)] ++ [.endCall 0]
  else
    rep (handed udp "Conn.Ping" "Client.Ping") ++ [.send 0] ++
    [.startCall 0 10000] ++ rep (preceded "Client.Ping" "select") ++ [.wait .ponged (wakesOnClose "Client.Ping")] ++ [.endCall 0]

end CoapVerif.Model.ReaderPrograms
