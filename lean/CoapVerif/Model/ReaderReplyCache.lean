/-!
Model of the reply cache of a datagram connection as far as C11 needs it ("never processed twice"): what decides whether a
received confirmable / non-confirmable message is handed to the application's handler or answered from the cache
(`udp/client/conn.go`: `handleReq` → `checkResponseCache`, `processResponse` → `addResponseToCache`, `CheckExpirations`).

An entry is a message ID with the time at which it expires (store time + EXCHANGE_LIFETIME).  Nothing but the clock removes an
entry: `sweep` (CheckExpirations) drops what has expired.  The number of entries is not bounded — a connection may see any number
of exchanges inside one lifetime (the message-ID space allows 65 536, the eleventh seeded round's C11-W put a bound of 4 096 on
the cache and evicted the oldest entry).  `Cap` is that bounded variant, kept as the witness that the bound breaks the clause.
-/
namespace CoapVerif.Model.ReaderReplyCache

/-- message ID ↦ expiry time, newest first -/
abbrev Cache := List (Nat × Nat)

structure St where
  cache : Cache := []
  now : Nat := 0
  dispatched : List Nat := []     -- message IDs handed to the application's handler, one element per dispatch
  deriving Repr

/-- a live entry answers the copy -/
def found (c : Cache) (now mid : Nat) : Bool := c.any fun e => e.1 == mid && now < e.2

inductive Ev
  | recv (mid : Nat)      -- a confirmable / non-confirmable message of the peer with this message ID has been taken from the queue
  | sweep                 -- CheckExpirations
  | tick (d : Nat)        -- time passes
  deriving Repr, DecidableEq

/-- `life` = EXCHANGE_LIFETIME.  A message that is not found is dispatched and its reply stored (every handler of the histories
    in question answers; LoadOrStore: the entry is new because the look-up just failed or found only an expired one). -/
def step (life : Nat) (s : St) : Ev → St
  | .recv mid =>
    if found s.cache s.now mid then s
    else { s with cache := (mid, s.now + life) :: s.cache, dispatched := s.dispatched ++ [mid] }
  | .sweep => { s with cache := s.cache.filter fun e => s.now < e.2 }
  | .tick d => { s with now := s.now + d }

def run (life : Nat) : St → List Ev → St
  | s, [] => s
  | s, e :: es => run life (step life s e) es

/-- the bounded variant: at most `cap` entries, the oldest makes room -/
def stepCap (life cap : Nat) (s : St) : Ev → St
  | .recv mid =>
    if found s.cache s.now mid then s
    else { s with cache := ((mid, s.now + life) :: s.cache).take cap, dispatched := s.dispatched ++ [mid] }
  | e => step life s e

def runCap (life cap : Nat) : St → List Ev → St
  | s, [] => s
  | s, e :: es => runCap life cap (stepCap life cap s e) es

def elapsed : List Ev → Nat
  | [] => 0
  | .tick d :: es => d + elapsed es
  | _ :: es => elapsed es

end CoapVerif.Model.ReaderReplyCache
