import CoapVerif.Generated.Retransmit
/-!
Model of the confirmable-request path of `udp/client/conn.go` for C06:
`doInternal` → `writeMessage` → `prepareWriteMessage` (private clone, NSTART semaphore
`acquireOutstandingInteraction`, pending table `midHandlerContainer`) → `waitForAcknowledge`;
`handleSpecialMessages` (any message carrying a pending message ID removes the entry and wakes the
writer); `CheckExpirations` → `checkMidHandlerContainer` (`midElement.IsExpired` / `Retransmit` /
`GetMessage`); the deferred removal and slot release when `writeMessage` returns; the token handler of
`doInternal` with its one-slot response channel.

Events are primitive: time advances (`advance`), a context ends (`cancel`, also used for a context
deadline that fires), housekeeping runs with a caller-chosen `now` (`tick`).  A tick is atomic.
The comparison operator of the exhaustion test and the addend of the retransmission test are
regenerated from the AST (`Generated/Retransmit.lean`).
-/
namespace CoapVerif.Model.Retransmit
open CoapVerif.Generated.Retransmit

structure Params where
  ackTimeout : Nat
  maxRetransmit : Nat
  nstart : Nat
  deriving Repr

inductive Phase | waitSem | waitAck | waitResp | done
  deriving Repr, DecidableEq

inductive Res | ok (tag : Nat) | ctx | deadline | nstart
  deriving Repr, DecidableEq

inductive Kind | ack | rst | pig (tag : Nat)
  deriving Repr, DecidableEq

inductive Why | ctx | deadline
  deriving Repr, DecidableEq

def Why.res : Why → Res
  | .ctx => .ctx
  | .deadline => .deadline

/-- One request call (`Conn.Do`). `buf` is the one-slot response channel of `doInternal`. -/
structure Call where
  id : Nat
  msg : Nat                  -- content of the request message when the call was made (= the private clone)
  deadline : Option Nat
  phase : Phase
  buf : Option Nat
  req : Nat                  -- content of the caller's own message now (the caller keeps the *pool.Message it passed to Do)
  touched : Bool             -- ghost: the caller edited its message while the call was queued for an NSTART slot
  deriving Repr, DecidableEq

/-- One entry of `midHandlerContainer` (`midElement`): the private clone, start, deadline, retransmit count. -/
structure Pend where
  id : Nat
  start : Nat
  deadline : Option Nat
  n : Nat
  msg : Nat
  deriving Repr, DecidableEq

inductive Entry
  | tx (id k t msg : Nat)          -- k-th transmission (0 = first) of request `id` at time `t`
  | ret (id : Nat) (r : Res) (t : Nat)
  | stop (id t : Nat)              -- ghost: the writer was woken by a message with its ID, or its context ended
  | got (id tag : Nat)             -- ghost: a response carrying the call's token reached the connection
  deriving Repr, DecidableEq

structure State where
  now : Nat
  calls : List Call                -- in the order the calls were made (semaphore waiters are served in this order)
  pend : List Pend
  log : List Entry                 -- most recent first
  deriving Repr

inductive Ev
  | send (id msg : Nat) (deadline : Option Nat)   -- absolute deadline
  | advance (d : Nat)
  | tick (ahead : Nat)
  | recvMid (id : Nat) (k : Kind)
  | resp (id tag : Nat)
  | cancel (id : Nat) (why : Why)
  | mut (id msg : Nat)
  deriving Repr, DecidableEq

def init : State := ⟨0, [], [], []⟩

def findCall (cs : List Call) (id : Nat) : Option Call := cs.find? (fun c => c.id == id)

def updCall (cs : List Call) (id : Nat) (f : Call → Call) : List Call :=
  cs.map (fun c => if c.id = id then f c else c)

def setPhase (p : Phase) (c : Call) : Call := { c with phase := p }
def setBuf (tag : Nat) (c : Call) : Call := { c with buf := some tag }
/-- The caller edits the message it passed to `Do` (not allowed while `Do` runs: the message belongs to the call;
    modelled to show what the code does). -/
def editReq (m : Nat) (c : Call) : Call := { c with req := m, touched := c.touched || c.phase == .waitSem }

/-- Calls holding an outstanding-interaction slot: `writeMessage` has acquired it and has not returned. -/
def inflight (cs : List Call) : Nat := cs.countP (fun c => c.phase == .waitAck)

/-- `acquireOutstandingInteraction` succeeds for the longest-waiting call if a slot is free: the clone (taken in
    `prepareWriteMessage` when the call was made, before the wait) goes into the pending table and the request is
    written — `session.WriteMessage(req)`: from the caller's message as it is *now*. -/
def admitNext (P : Params) (s : State) : State :=
  if inflight s.calls < P.nstart then
    match s.calls.find? (fun c => c.phase == .waitSem) with
    | some c =>
      { s with calls := updCall s.calls c.id (setPhase .waitAck),
               pend := s.pend ++ [⟨c.id, s.now, c.deadline, 0, c.msg⟩],
               log := .tx c.id 0 s.now c.req :: s.log }   -- the first datagram is written from the caller's message
    | none => s
  else s

/-- The call returns. -/
def finish (s : State) (id : Nat) (r : Res) : State :=
  { s with calls := updCall s.calls id (setPhase .done), log := .ret id r s.now :: s.log }

/-- Ghost: remember that the writer of `id` stopped waiting for an acknowledgement. -/
def addStop (s : State) (id : Nat) : State := { s with log := .stop id s.now :: s.log }

def dropPend (ps : List Pend) (id : Nat) : List Pend := ps.filter (fun e => e.id != id)

def isPending (ps : List Pend) (id : Nat) : Bool := ps.any (fun e => e.id == id)

/-- `writeMessage` returns nil: deferred removal of the pending entry, slot released (next waiter admitted);
    `doInternal` takes a response that is already in its channel, otherwise waits for one. -/
def ackedPre (s : State) (c : Call) : State :=
  let s1 := { s with pend := dropPend s.pend c.id }
  let s2 := match c.buf with
    | some tag => finish s1 c.id (.ok tag)
    | none => { s1 with calls := updCall s1.calls c.id (setPhase .waitResp) }
  addStop s2 c.id

def acked (P : Params) (s : State) (c : Call) : State := admitNext P (ackedPre s c)

/-- A response carrying the call's token reaches the token handler of `doInternal` (one shot, one-slot channel).
    If the request is still pending the handler first removes the entry and wakes the writer (the response is an
    implicit acknowledgement, RFC 7252 §5.2.2) — `responseWakesWriter` is read from the source. -/
def deliver (P : Params) (s0 : State) (id tag : Nat) : State :=
  match findCall s0.calls id with
  | some c =>
    let s := { s0 with log := .got id tag :: s0.log }
    match c.phase with
    | .done => s
    | .waitResp => finish s id (.ok tag)
    | _ =>
      match c.buf with
      | none =>
        let s1 := { s with calls := updCall s.calls id (setBuf tag) }
        if responseWakesWriter && c.phase == .waitAck && isPending s.pend id then acked P s1 (setBuf tag c) else s1
      | some _ => s
  | none => s0

/-- `handleSpecialMessages`: a message with a pending message ID removes the entry and wakes the writer,
    whatever its type; a piggybacked response then goes on to the token handler. -/
def recvMid (P : Params) (s : State) (id : Nat) (k : Kind) : State :=
  let s1 :=
    if isPending s.pend id then
      match findCall s.calls id with
      | some c => acked P s c
      | none => s
    else s
  match k with
  | .pig tag => deliver P s1 id tag
  | _ => s1

/-- The call's context ends (cancellation or deadline). -/
def cancel (P : Params) (s : State) (id : Nat) (why : Why) : State :=
  match findCall s.calls id with
  | some c =>
    match c.phase with
    | .done => s
    | .waitSem => addStop (finish s id why.res) id
    | .waitResp => addStop (finish s id why.res) id
    | .waitAck => admitNext P (addStop (finish { s with pend := dropPend s.pend id } id why.res) id)
  | none => s

def exhausted (P : Params) (n : Nat) : Bool :=
  if expiredWhenGE then n ≥ P.maxRetransmit else n > P.maxRetransmit

def pastDeadline (t : Nat) : Option Nat → Bool
  | some d => t > d
  | none => false

/-- `midElement.IsExpired`, second conjunct (F30 fix): all copies are out *and* the timeout of the last one has passed
    (`now.After(start + ackTimeout·(retransmit + lastCopyAddend))`).  Whether the code has this conjunct is the
    regenerated `exhaustionWaitsLastTimeout`; without it exhaustion is reported by the first pass after the last copy. -/
def lastTimeoutPassed (P : Params) (t : Nat) (e : Pend) : Bool :=
  !exhaustionWaitsLastTimeout || decide (t > e.start + (e.n + lastCopyAddend) * P.ackTimeout)

/-- `checkMidHandlerContainer` for one entry at housekeeping time `t`. -/
def tickEntry (P : Params) (t : Nat) (e : Pend) : Option Pend × Option Entry :=
  if pastDeadline t e.deadline || (exhausted P e.n && lastTimeoutPassed P t e) then (none, none)
  else if t > e.start + (e.n + retransmitAddend) * P.ackTimeout then
    -- the copy is written; the entry stays for the answer to this copy until a later pass finds it expired
    -- (`dropsInPassOfLastCopy`: would the same pass test expiry again and drop it — regenerated from the source)
    (if dropsInPassOfLastCopy && exhausted P (e.n + 1) then none else some { e with n := e.n + 1 },
     some (.tx e.id (e.n + 1) t e.msg))
  else (some e, none)

def tickList (P : Params) (t : Nat) : List Pend → List Pend × List Entry
  | [] => ([], [])
  | e :: r =>
    let rest := tickList P t r
    let x := tickEntry P t e
    ((match x.1 with | some e' => e' :: rest.1 | none => rest.1),
     (match x.2 with | some l => l :: rest.2 | none => rest.2))

def tick (P : Params) (s : State) (ahead : Nat) : State :=
  let r := tickList P (s.now + ahead) s.pend
  { s with pend := r.1, log := r.2 ++ s.log }

def send (P : Params) (s : State) (id msg : Nat) (dl : Option Nat) : State :=
  if (findCall s.calls id).isSome then s
  else if P.nstart = 0 then
    { s with calls := s.calls ++ [⟨id, msg, dl, .done, none, msg, false⟩], log := .ret id .nstart s.now :: s.log }
  else admitNext P { s with calls := s.calls ++ [⟨id, msg, dl, .waitSem, none, msg, false⟩] }

def step (P : Params) (s : State) : Ev → State
  | .send id msg dl => send P s id msg dl
  | .advance d => { s with now := s.now + d }
  | .tick ahead => tick P s ahead
  | .recvMid id k => recvMid P s id k
  | .resp id tag => deliver P s id tag
  | .cancel id why => cancel P s id why
  | .mut id msg => { s with calls := updCall s.calls id (editReq msg) }

def runFrom (P : Params) (s : State) (evs : List Ev) : State := evs.foldl (step P) s
def run (P : Params) (evs : List Ev) : State := runFrom P init evs

/-! ### sleeping: context deadlines that fall into the interval fire in order -/

def nextDeadline (s : State) (limit : Nat) : Option (Nat × Nat) :=
  s.calls.foldl (fun (best : Option (Nat × Nat)) c =>
    match c.deadline with
    | some d =>
      if c.phase != .done && d ≤ limit then
        match best with
        | some (_, bd) => if d < bd then some (c.id, d) else best
        | none => some (c.id, d)
      else best
    | none => best) none

/-- The primitive events a `sleep d` stands for in state `s`. -/
def sleepEvents (P : Params) (s : State) (d : Nat) : List Ev :=
  let limit := s.now + d
  let rec go (fuel : Nat) (s : State) (acc : List Ev) : List Ev :=
    match fuel with
    | 0 => acc ++ [.advance (limit - s.now)]
    | fuel + 1 =>
      match nextDeadline s limit with
      | some (id, dl) =>
        let evs := [Ev.advance (dl - s.now), Ev.cancel id .deadline]
        go fuel (runFrom P s evs) (acc ++ evs)
      | none => acc ++ [.advance (limit - s.now)]
  go s.calls.length s []

end CoapVerif.Model.Retransmit
