import CoapVerif.Model.RetransmitKinds
import CoapVerif.Spec.Retransmit
/-!
C06: the history the model emits, in the vocabulary of the specification's judge.  One judge step per model event: the
stimulus, and what `Model.RetransmitKinds.step` emitted in that step (transmissions, returns).  The driver prints exactly
these steps (`drv_c06 model`), the theorem `model_history_accepted` (Props/C06Judge.lean) is about them.
-/
namespace CoapVerif.Model.RetransmitHistory
open CoapVerif.Model.Retransmit CoapVerif.Model.RetransmitKinds
open CoapVerif.Spec.Retransmit (Cfg Step Tx Ret)

def cfgOf (P : Params) : Cfg := ⟨P.ackTimeout, P.maxRetransmit, P.nstart⟩

def specKind : Kind → Spec.Retransmit.Kind
  | .ack => .ack
  | .rst => .rst
  | .pig tag => .pig tag

def specRes : XRes → Spec.Retransmit.Res
  | .base (.ok tag) => .ok tag
  | .base .ctx => .ctx
  | .base .deadline => .deadline
  | .base .nstart => .nstart
  | .acked => .acked

/-- The stimulus as the judge sees it.  A context deadline that fires is, to the judge, the end of the caller's context
    like a cancellation (the judge has the deadline itself from the `send`). -/
def specEv : XEv → Spec.Retransmit.Ev
  | .send id _ dl => .send id dl
  | .ping id dl => .ping id dl
  | .wcon id dl => .wcon id dl
  | .advance d => .sleep d
  | .tick a => .tick a
  | .recvMid id k => .recvMid id (specKind k)
  | .resp id tag => .resp id false tag
  | .cancel id _ => .cancel id
  | .mut id _ => .mut id

def txOf : Out → Option Tx
  | .tx id t same => some ⟨id, t, same⟩
  | _ => none

def retOf : Out → Option Ret
  | .ret id r t => some ⟨id, specRes r, t⟩
  | _ => none

def stepOf (e : XEv) (outs : List Out) : Step := ⟨specEv e, outs.filterMap txOf, outs.filterMap retOf⟩

/-- The history emitted from state `s` by a list of events. -/
def historyFrom (P : Params) : XState → List XEv → List Step
  | _, [] => []
  | s, e :: r =>
    let a := step P s e
    stepOf e a.2 :: historyFrom P a.1 r

def history (P : Params) (evs : List XEv) : List Step := historyFrom P RetransmitKinds.init evs

end CoapVerif.Model.RetransmitHistory
