import CoapVerif.Model.Retransmit
/-!
C06, the confirmable messages of `udp/client/conn.go` that are **not** requests of `Conn.Do`:

* `Conn.Ping(ctx)` / `AsyncPing` → `asyncPing`: a confirmable Empty message with a message ID of its own; the message
  itself (no clone) is stored in a `midElement` **without deadline** (`deadline: time.Time{}`), the entry goes into the same
  `midHandlerContainer` as the requests' entries and is retransmitted / given up by the same `checkMidHandlerContainer`;
  **no NSTART slot** (`asyncPing` never calls `acquireOutstandingInteraction`); any message carrying the ID removes the entry
  (`handleSpecialMessages`), the handler reports the pong for a Reset or an Acknowledgement; `Ping` returns then, or when its
  context ends — its deferred `cancel()` removes the entry; after the attempts are exhausted the entry is dropped silently and
  `Ping` goes on waiting for its context.
* `Conn.WriteMessage(m)` with a confirmable `m` whose code is not a request method (a separate response, a notification) →
  `writeMessage` → `prepareWriteMessage`: clone, **no NSTART slot** (`req.Code() >= GET && req.Code() <= DELETE` only), entry with
  the deadline of the message's context, first write, `waitForAcknowledge`: returns nil as soon as *any* message with the ID
  comes back, the context's error when that ends; the deferred `LoadAndDelete` removes the entry.  Nothing waits for a response.

These exchanges never touch the NSTART semaphore nor a token handler, and message IDs of concurrently pending exchanges are
distinct: they run beside the request machinery of `Model.Retransmit` (`base`), sharing its clock and the housekeeping pass
(`tickList`, the very function the requests' entries go through).

The state machine of this file is also the one the driver replays: `step` returns what the endpoint emits (transmissions,
returns) in that step; a piggybacked / separate response for a request that has not been transmitted yet is not injected (it
cannot precede the request — same rule as the harness).
-/
namespace CoapVerif.Model.RetransmitKinds
open CoapVerif.Model.Retransmit

inductive XKind | ping | wcon
  deriving Repr, DecidableEq

/-- One `Conn.Ping` / `Conn.WriteMessage(confirmable non-request)` call. -/
structure XCall where
  id : Nat
  kind : XKind
  deadline : Option Nat      -- of the caller's context (absolute); used by `sleepEvents` only
  waiting : Bool             -- the call has not returned
  deriving Repr, DecidableEq

structure XState where
  base : State
  xcalls : List XCall
  xpend : List Pend          -- their entries of `midHandlerContainer` (kept apart from the requests': no slot, no token)
  deriving Repr

inductive XRes | base (r : Res) | acked
  deriving Repr, DecidableEq

/-- What the endpoint is seen to do. -/
inductive Out
  | tx (id t : Nat) (same : Bool)          -- a transmission; `same`: byte-identical to the first transmission of `id`
  | ret (id : Nat) (r : XRes) (t : Nat)    -- a call returns
  deriving Repr, DecidableEq

inductive XEv
  | send (id msg : Nat) (dl : Option Nat)   -- `Conn.Do`; deadline relative to now
  | ping (id : Nat) (dl : Option Nat)       -- `Conn.Ping(ctx)`
  | wcon (id : Nat) (dl : Option Nat)       -- `Conn.WriteMessage` of a confirmable non-request
  | advance (d : Nat)
  | tick (ahead : Nat)
  | recvMid (id : Nat) (k : Kind)
  | resp (id tag : Nat)
  | cancel (id : Nat) (why : Why)
  | mut (id msg : Nat)
  deriving Repr, DecidableEq

def init : XState := ⟨Retransmit.init, [], []⟩

def isX (s : XState) (id : Nat) : Bool := s.xcalls.any (fun x => x.id == id)

def known (s : XState) (id : Nat) : Bool := (findCall s.base.calls id).isSome || isX s id

/-- Bytes of the first transmission of a request (the reference every copy is compared with). -/
def firstMsg (log : List Entry) (id : Nat) : Option Nat :=
  log.findSome? (fun e => match e with | .tx i 0 _ m => if i == id then some m else none | _ => none)

/-- The request has not been transmitted (it waits for its NSTART slot, or ended before getting one, or does not exist). -/
def queued (s : State) (id : Nat) : Bool :=
  !s.log.any (fun e => match e with | .tx i _ _ _ => i == id | _ => false)

def outOf (log : List Entry) : Entry → Option Out
  | .tx id _ t m => some (.tx id t (firstMsg log id == some m))
  | .ret id r t => some (.ret id (.base r) t)
  | _ => none

/-- The request machinery makes a move: what it added to its log is what is emitted. -/
def liftBase (s : XState) (b : State) : XState × List Out :=
  ({ s with base := b }, (b.log.take (b.log.length - s.base.log.length)).filterMap (outOf b.log))

def setDone (xs : List XCall) (id : Nat) : List XCall :=
  xs.map (fun x => if x.id = id then { x with waiting := false } else x)

def findX (xs : List XCall) (id : Nat) : Option XCall := xs.find? (fun x => x.id == id)

/-- Deadline of the `midElement`: `asyncPing` stores none (`time.Time{}`), `prepareWriteMessage` that of the message's context. -/
def entryDeadline : XKind → Option Nat → Option Nat
  | .ping, _ => none
  | .wcon, dl => dl

/-- `asyncPing` / `writeMessage` of a non-request: entry stored, first write, no slot. -/
def xsend (s : XState) (kind : XKind) (id : Nat) (dl : Option Nat) : XState × List Out :=
  if known s id then (s, [])
  else
    let dlAbs := dl.map (· + s.base.now)
    ({ s with xcalls := s.xcalls ++ [⟨id, kind, dlAbs, true⟩],
              xpend := s.xpend ++ [⟨id, s.base.now, entryDeadline kind dlAbs, 0, 0⟩] },
     [.tx id s.base.now true])

/-- A message carrying the ID of a pending ping / write: entry removed, handler called (pong for Reset / Acknowledgement —
    the only types the events of this model carry; the writer of `writeMessage` is woken by any). -/
def xrecv (s : XState) (id : Nat) : XState × List Out :=
  if isPending s.xpend id then
    ({ s with xpend := dropPend s.xpend id, xcalls := setDone s.xcalls id }, [.ret id .acked s.base.now])
  else (s, [])

/-- The context of `Ping` / of the written message ends: the call returns its error, the deferred removal takes the entry. -/
def xcancel (s : XState) (id : Nat) (why : Why) : XState × List Out :=
  match findX s.xcalls id with
  | some x =>
    if x.waiting then
      ({ s with xpend := dropPend s.xpend id, xcalls := setDone s.xcalls id }, [.ret id (.base why.res) s.base.now])
    else (s, [])
  | none => (s, [])

def txOut : Entry → Option Out
  | .tx id _ t _ => some (.tx id t true)    -- retransmissions of a ping / write carry the stored message itself
  | _ => none

def step (P : Params) (s : XState) : XEv → XState × List Out
  | .send id msg dl =>
    if known s id then (s, []) else liftBase s (Retransmit.send P s.base id msg (dl.map (· + s.base.now)))
  | .ping id dl => xsend s .ping id dl
  | .wcon id dl => xsend s .wcon id dl
  | .advance d => ({ s with base := { s.base with now := s.base.now + d } }, [])
  | .tick ahead =>
    let r := liftBase s (Retransmit.tick P s.base ahead)
    let x := tickList P (s.base.now + ahead) s.xpend
    ({ r.1 with xpend := x.1 }, r.2 ++ x.2.filterMap txOut)
  | .recvMid id k =>
    if isX s id then xrecv s id
    else match k with
      | .pig _ => if queued s.base id then (s, []) else liftBase s (Retransmit.recvMid P s.base id k)
      | _ => liftBase s (Retransmit.recvMid P s.base id k)
  | .resp id tag =>
    if isX s id || queued s.base id then (s, []) else liftBase s (Retransmit.deliver P s.base id tag)
  | .cancel id why =>
    if isX s id then xcancel s id why else liftBase s (Retransmit.cancel P s.base id why)
  | .mut id msg => liftBase s { s.base with calls := updCall s.base.calls id (editReq msg) }

/-- All that is emitted by a list of events, in order. -/
def runFrom (P : Params) (s : XState) : List XEv → XState × List Out
  | [] => (s, [])
  | e :: r =>
    let a := step P s e
    let b := runFrom P a.1 r
    (b.1, a.2 ++ b.2)

/-! ### sleeping: context deadlines (of requests, pings and writes) that fall into the interval fire in order -/

def nextDeadline (s : XState) (limit : Nat) : Option (Nat × Nat) :=
  let pick := fun (best : Option (Nat × Nat)) (id : Nat) (dl : Option Nat) (alive : Bool) =>
    match dl with
    | some d =>
      if alive && d ≤ limit then
        match best with
        | some (_, bd) => if d < bd then some (id, d) else best
        | none => some (id, d)
      else best
    | none => best
  let b := s.base.calls.foldl (fun best c => pick best c.id c.deadline (c.phase != .done)) none
  s.xcalls.foldl (fun best x => pick best x.id x.deadline x.waiting) b

/-- The primitive events a `sleep d` stands for in state `s`. -/
def sleepEvents (P : Params) (s : XState) (d : Nat) : List XEv :=
  let limit := s.base.now + d
  let rec go (fuel : Nat) (s : XState) (acc : List XEv) : List XEv :=
    match fuel with
    | 0 => acc ++ [.advance (limit - s.base.now)]
    | fuel + 1 =>
      match nextDeadline s limit with
      | some (id, dl) =>
        let evs := [XEv.advance (dl - s.base.now), XEv.cancel id .deadline]
        go fuel (runFrom P s evs).1 (acc ++ evs)
      | none => acc ++ [.advance (limit - s.base.now)]
  go (s.base.calls.length + s.xcalls.length) s []

end CoapVerif.Model.RetransmitKinds
