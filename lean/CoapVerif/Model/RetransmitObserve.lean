import CoapVerif.Model.Retransmit
/-!
C06, finding F42 (fixed): the **observe entrance** of a confirmable request, minimally.

The flag `wakes` of `step` is, for today's source, the regenerated fact `Generated.Retransmit.responseAcknowledgesByToken`
(`wakesToday` below; extractor recogniser "Conn.handle acknowledges a response by its token before dispatching it", fails
closed): since the repair of F42 `Conn.handle` calls `acknowledgeByResponse` first, which finds the message ID of the request
that is being written under the response's token (`requestMessageIDs`), removes the pending entry and wakes the writer.
The text below describes the entrance as it was before the repair (`wakes = false`).

`Client.Observe` / `Conn.DoObserve` → `net/observation: Handler.NewObservation`: the observation is registered under the
request's token, then `h.cc.WriteMessage(req)` — `udp/client/conn.go: writeMessage`: NSTART slot, pending entry under the
message ID, first write, `waitForAcknowledge` — and only after that returned does `NewObservation` look into
`respObservationChan` (or at the request's context).  A notification that arrives meanwhile is handed, by token, to
`Observation.handle`, which puts it into `respObservationChan` (one slot) — and that is all: nothing on this path knows the
message ID of the registration request, so the pending entry stays, the request goes on being retransmitted, and the
writer goes on waiting for a message carrying the ID (`wakes = false`; `doInternal`'s token handler does remove the entry
since the repair of F21: `wakes = true` is that behaviour, the direction of a repair).

One exchange; the housekeeping pass is `Model.Retransmit.tickEntry`, the function the requests' entries go through.
-/
namespace CoapVerif.Model.RetransmitObserve
open CoapVerif.Model.Retransmit

inductive OEv
  | start                 -- DoObserve is called (no deadline)
  | advance (d : Nat)
  | tick (ahead : Nat)
  | ack                   -- a message carrying the message ID of the registration request
  | notif (tag : Nat)     -- the first notification (by token), not carrying that ID
  | cancel                -- the caller's context ends
  deriving Repr, DecidableEq

inductive ORes | ok (tag : Nat) | ctx
  deriving Repr, DecidableEq

structure OState where
  now : Nat := 0
  started : Bool := false
  pend : Option Pend := none        -- the entry of midHandlerContainer
  writing : Bool := false           -- writeMessage has not returned (the slot is held)
  chan : Option Nat := none         -- respObservationChan
  ret : Option (ORes × Nat) := none -- DoObserve has returned
  copies : List Nat := []           -- times of the transmissions, most recent first
  deriving Repr, DecidableEq

/-- `writeMessage` returns nil: `NewObservation` takes what is in the channel, or goes on waiting for it. -/
def woken (s : OState) : OState :=
  let s := { s with pend := none, writing := false }
  match s.chan with
  | some tag => { s with ret := some (.ok tag, s.now) }
  | none => s

def step (P : Params) (wakes : Bool) (s : OState) : OEv → OState
  | .start =>
    if s.started then s
    else { s with started := true, writing := true, pend := some ⟨0, s.now, none, 0, 0⟩, copies := [s.now] }
  | .advance d => { s with now := s.now + d }
  | .tick ahead =>
    match s.pend with
    | some e =>
      let r := tickEntry P (s.now + ahead) e
      { s with pend := r.1, copies := (match r.2 with | some _ => (s.now + ahead) :: s.copies | none => s.copies) }
    | none => s
  | .ack => if s.pend.isSome then woken s else s
  | .notif tag =>
    if s.ret.isSome then s
    else
      let s := { s with chan := if s.chan.isSome then s.chan else some tag }
      if s.writing then (if wakes && s.pend.isSome then woken s else s)
      else (match s.chan with | some t => { s with ret := some (.ok t, s.now) } | none => s)
  | .cancel =>
    if s.ret.isSome || !s.started then s
    else { s with pend := none, writing := false, ret := some (.ctx, s.now) }

def run (P : Params) (wakes : Bool) (evs : List OEv) : OState := evs.foldl (step P wakes) {}

/-- the flag as today's source has it (regenerated on every run) -/
def wakesToday : Bool := CoapVerif.Generated.Retransmit.responseAcknowledgesByToken

/-- the entrance as today's source has it -/
def runToday (P : Params) (evs : List OEv) : OState := run P wakesToday evs

end CoapVerif.Model.RetransmitObserve
