import CoapVerif.Go.Basic
import CoapVerif.Model.RouterPat
import CoapVerif.Generated.RouterLockShape
import CoapVerif.Generated.OptionDefs
/-!
# C17 — model of mux/regexp.go and mux/router.go (core Lean only)

Follows the Go code as it is:

* `braceIndices` — the balanced-brace scan with its two error exits (strings are lists of Unicode scalars; Go
  scans bytes, which is the same scan because `{ } :` are ASCII and UTF-8 is self-synchronising; indices are
  character indices here, byte indices there, and are only used to slice the same string);
* `newRouteRegexp` — checked slicing `path[end:idxs[i]]`, `path[idxs[i]+1:end-1]`, `strings.SplitN(_, ":", 2)`,
  the name/pattern emptiness test, and the construction of `^` QuoteMeta(raw) `(?P<vI>patt)` … QuoteMeta(rest) `$`
  as a regex AST `Re` (quoted literals are literal nodes: `regexp.QuoteMeta` is part of the trusted package),
  the `NumSubexp` panic for user capture groups;
* `ms` — a backtracking matcher for `Re` that returns ALL ways to match a prefix, in Go's leftmost-first
  priority order, with capture positions; `find` = `FindStringSubmatchIndex`, `matchString` = `MatchString`
  (unanchored search; the anchors are nodes of the expression);
* `extractVars` — `input[matches[2*i+2]:matches[2*i+3]]` with checked indexing;
* `Router`: `handle`, `handleFunc`, `handleRemove`, `defaultHandle`, `use`, `matchRoute` (the scan that keeps the
  pattern with the greatest `len(pattern)` — a BYTE length — replacing only on strictly greater, over an
  iteration order that is a parameter), `serveCOAP` (default handler read first, `""` → `"/"`, nil handler,
  middlewares applied from the last to the first).
-/
namespace CoapVerif.Model.Router
open CoapVerif.Generated.RouterLockShape (defaultPatternText emptyPathReplacement uriPathOptionID
  observationCleansUpOnEveryError discoveryCleansUpOnFailedWrite)
open CoapVerif.Generated.OptionDefs (coapOptionDefs)

/-! ## Failures -/

inductive ErrKind
  | nilHandler | unbalanced | missing | regex | notRegistered
  deriving DecidableEq, Repr

inductive PanicKind
  | slice | index | captureGroups | nilFunc | handleFuncErr
  deriving DecidableEq, Repr

inductive Fail
  | err (e : ErrKind)
  | panic (p : PanicKind)
  | unsupported
  deriving DecidableEq, Repr

/-! ## Go slicing -/

/-- `s[lo:hi]` on a string, panicking exactly when Go does. -/
def goSlice (s : Str) (lo hi : Int) : Except Fail Str :=
  if 0 ≤ lo ∧ lo ≤ hi ∧ hi ≤ (s.length : Int) then .ok ((s.drop lo.toNat).take (hi.toNat - lo.toNat))
  else .error (.panic .slice)

/-- `xs[i]` on an int slice -/
def goIndex (xs : List Int) (i : Nat) : Except Fail Int :=
  match xs[i]? with
  | some v => .ok v
  | none => .error (.panic .index)

/-! ## braceIndices -/

/-- the loop of `braceIndices`; `i` is the index of the head of `rest`. Returns the final level and the indices. -/
def braceLoop : Str → Nat → Int → Nat → List Nat → Except Fail (Int × List Nat)
  | [], _, level, _, acc => .ok (level, acc)
  | c :: t, i, level, idx, acc =>
    if c = '{' then
      let level' := level + 1
      braceLoop t (i + 1) level' (if level' = 1 then i else idx) acc
    else if c = '}' then
      let level' := level - 1
      if level' = 0 then braceLoop t (i + 1) level' idx (acc ++ [idx, i + 1])
      else if level' < 0 then .error (.err .unbalanced)
      else braceLoop t (i + 1) level' idx acc
    else braceLoop t (i + 1) level idx acc

def braceIndices (s : Str) : Except Fail (List Nat) :=
  match braceLoop s 0 0 0 [] with
  | .error e => .error e
  | .ok (level, idxs) => if level ≠ 0 then .error (.err .unbalanced) else .ok idxs

/-! ## The compiled expression -/

/-- What `regexp.Compile` yields for the strings `newRouteRegexp` builds. -/
inductive Re
  | eps
  | chr (c : Char)
  | cls (neg : Bool) (items : List ClsItem)
  | cat (a b : Re)
  | alt (a b : Re)
  | star (a : Re) (greedy : Bool)
  | grp (i : Nat) (a : Re)      -- capture group number i (1-based, as in the submatch array)
  | bol                          -- `^` (no multi-line flag: beginning of text)
  | eol                          -- `$` (end of text)
  deriving DecidableEq, Repr

def Pat.toRe : Pat → Re
  | .eps => .eps
  | .chr c => .chr c
  | .cls n it => .cls n it
  | .cat a b => .cat a.toRe b.toRe
  | .alt a b => .alt a.toRe b.toRe
  | .star a g => .star a.toRe g

/-- `regexp.QuoteMeta(raw)` compiled: the characters of `raw`, verbatim -/
def litRe : Str → Re
  | [] => .eps
  | c :: t => .cat (.chr c) (litRe t)

/-! ## Backtracking matcher (leftmost-first priorities) -/

structure St where
  pos : Nat                         -- characters consumed so far (index into the input)
  rem : Str                         -- what is left
  caps : List (Nat × Nat × Nat)     -- (group, start, end), most recent first
  deriving DecidableEq, Repr

/-- iterations of a star: every iteration must consume something (Go drops empty iterations) -/
def starAux (f : St → List St) (greedy : Bool) : Nat → St → List St
  | 0, σ => [σ]
  | n + 1, σ =>
    let iter := ((f σ).filter (fun σ' => σ'.rem.length < σ.rem.length)).flatMap (starAux f greedy n)
    if greedy then iter ++ [σ] else σ :: iter

/-- all ways `r` can match a prefix of `σ.rem`, in priority order -/
def ms : Re → St → List St
  | .eps, σ => [σ]
  | .chr c, σ =>
    match σ.rem with
    | [] => []
    | d :: t => if d = c then [⟨σ.pos + 1, t, σ.caps⟩] else []
  | .cls n items, σ =>
    match σ.rem with
    | [] => []
    | d :: t => if clsHas n items d then [⟨σ.pos + 1, t, σ.caps⟩] else []
  | .cat a b, σ => (ms a σ).flatMap (ms b)
  | .alt a b, σ => ms a σ ++ ms b σ
  | .star a g, σ => starAux (ms a) g σ.rem.length σ
  | .grp i a, σ => (ms a σ).map (fun σ' => { σ' with caps := (i, σ.pos, σ'.pos) :: σ'.caps })
  | .bol, σ => if σ.pos = 0 then [σ] else []
  | .eol, σ => if σ.rem = [] then [σ] else []

/-- first match when the search starts at offset `i` (rest = input from there), else later offsets -/
def searchFrom (re : Re) : Nat → Str → Option (Nat × St)
  | i, [] => ((ms re ⟨i, [], []⟩).head?).map (fun σ => (i, σ))
  | i, c :: t =>
    match (ms re ⟨i, c :: t, []⟩).head? with
    | some σ => some (i, σ)
    | none => searchFrom re (i + 1) t

def matchString (re : Re) (s : Str) : Bool := (searchFrom re 0 s).isSome

/-- the most recent span recorded for group `g` -/
def capLookup : List (Nat × Nat × Nat) → Nat → Option (Nat × Nat)
  | [], _ => none
  | (g', a, b) :: t, g => if g' = g then some (a, b) else capLookup t g

/-- the two integers of group `g` in the submatch array: its span, or −1 −1 when the group did not take part -/
def capPair (caps : List (Nat × Nat × Nat)) (g : Nat) : Int × Int :=
  match capLookup caps g with
  | some (a, b) => ((a : Int), (b : Int))
  | none => (-1, -1)

/-- `FindStringSubmatchIndex`: `[]` (nil) when there is no match, else 2·(numSubexp+1) integers -/
def find (re : Re) (numSubexp : Nat) (s : Str) : List Int :=
  match searchFrom re 0 s with
  | none => []
  | some (start, σ) =>
    [(start : Int), (σ.pos : Int)] ++
      (List.range numSubexp).flatMap (fun g => [(capPair σ.caps (g + 1)).1, (capPair σ.caps (g + 1)).2])

/-! ## newRouteRegexp -/

structure CPart where
  raw : Str
  name : Str
  pattText : Str
  pat : Pat
  hasCap : Bool
  deriving DecidableEq, Repr

structure RouteRegexp where
  template : Str
  regexp : Re
  numSubexp : Nat
  varsN : List Str
  deriving DecidableEq, Repr

/-- `strings.SplitN(s, ":", 2)` -/
def splitColon : Str → Str × Option Str
  | [] => ([], none)
  | c :: t => if c = ':' then ([], some t) else let (a, b) := splitColon t; (c :: a, b)

def defaultPattern : Str := defaultPatternText.toList

/-- the `for i := 0; i < len(idxs); i += 2` loop; `e` is `end` -/
def partsLoop (path : Str) : List Nat → Nat → List CPart → Except Fail (List CPart × Nat)
  | [], e, acc => .ok (acc, e)
  | [_], _, _ => .error (.panic .index)
  | o :: c :: rest, e, acc => do
    let raw ← goSlice path e o
    let inner ← goSlice path ((o : Int) + 1) ((c : Int) - 1)
    let (name, p2) := splitColon inner
    let patt := p2.getD defaultPattern
    if name = [] ∨ patt = [] then .error (.err .missing)
    else
      match parsePat patt with
      | .error .syntax => .error (.err .regex)
      | .error .unsupported => .error .unsupported
      | .ok (p, hc) => partsLoop path rest c (acc ++ [⟨raw, name, patt, p, hc⟩])

/-- `(?P<v0>p0)` is capture group 1, … -/
def compileParts : Nat → List CPart → Str → Re
  | _, [], trailing => .cat (litRe trailing) .eol
  | i, p :: ps, trailing => .cat (litRe p.raw) (.cat (.grp (i + 1) p.pat.toRe) (compileParts (i + 1) ps trailing))

def compile (parts : List CPart) (trailing : Str) : Re := .cat .bol (compileParts 0 parts trailing)

def parseTemplate (path : Str) : Except Fail (List CPart × Str) := do
  let idxs ← braceIndices path
  let (parts, e) ← partsLoop path idxs 0 []
  let trailing ← goSlice path e path.length
  pure (parts, trailing)

def newRouteRegexp (path : Str) : Except Fail RouteRegexp := do
  let (parts, trailing) ← parseTemplate path
  -- reg.NumSubexp() != len(idxs)/2  ⇔  some variable pattern contains a capturing group
  if parts.any (fun p => p.hasCap) then .error (.panic .captureGroups)
  else pure { template := path, regexp := compile parts trailing, numSubexp := parts.length, varsN := parts.map (·.name) }

/-! ## extractVars -/

def mapSet (m : List (Str × Str)) (k v : Str) : List (Str × Str) :=
  match m with
  | [] => [(k, v)]
  | (k', v') :: t => if k' = k then (k, v) :: t else (k', v') :: mapSet t k v

/-- `for i, name := range names { output[name] = input[matches[2*i+2]:matches[2*i+3]] }` -/
def extractVars (input : Str) (mt : List Int) : Nat → List Str → List (Str × Str) → Except Fail (List (Str × Str))
  | _, [], out => .ok out
  | i, name :: names, out => do
    let a ← goIndex mt (2 * i + 2)
    let b ← goIndex mt (2 * i + 3)
    let v ← goSlice input a b
    extractVars input mt (i + 1) names (mapSet out name v)

structure RouteParams where
  path : Str := []
  vars : Option (List (Str × Str)) := none      -- nil map vs made map
  pathTemplate : Str := []
  deriving DecidableEq, Repr

def extractRouteParams (rx : RouteRegexp) (path : Str) (rp : RouteParams) : Except Fail RouteParams :=
  let mt := find rx.regexp rx.numSubexp path
  if mt.length > 0 then do
    let vs ← extractVars path mt 0 rx.varsN (rp.vars.getD [])
    pure { rp with vars := some vs }
  else .ok rp

/-! ## Router -/

inductive Handler
  | named (n : String)
  | nilFunc                      -- HandlerFunc(nil): a non-nil interface holding a nil func
  deriving DecidableEq, Repr

structure Route where
  h : Handler
  pattern : Str
  rx : RouteRegexp
  deriving DecidableEq, Repr

structure Router where
  middlewares : List String := []
  defaultHandler : Option Handler := some (.named "notfound")    -- the NotFound responder of NewRouter
  z : List (Str × Route) := []
  deriving DecidableEq, Repr

def filterPath (s : Str) : Str := if s = [] then emptyPathReplacement.toList else s

/-- `len(s)` of a Go string: bytes of the UTF-8 encoding -/
def byteLen (s : Str) : Nat := (s.map (fun c => c.utf8Size)).sum

def zSet (z : List (Str × Route)) (k : Str) (v : Route) : List (Str × Route) :=
  match z with
  | [] => [(k, v)]
  | (k', v') :: t => if k' = k then (k, v) :: t else (k', v') :: zSet t k v

def zErase (z : List (Str × Route)) (k : Str) : List (Str × Route) := z.filter (fun e => e.1 ≠ k)

def zHas (z : List (Str × Route)) (k : Str) : Bool := z.any (fun e => e.1 = k)

def zGet : List (Str × Route) → Str → Option Route
  | [], _ => none
  | (k', v) :: t, k => if k' = k then some v else zGet t k

/-- `Handle(pattern, handler)`; `none` = a nil Handler interface -/
def Router.handle (r : Router) (pattern : Str) (h : Option Handler) : Except Fail Router :=
  let pattern := filterPath pattern
  match h with
  | none => .error (.err .nilHandler)
  | some h =>
    match newRouteRegexp pattern with
    | .error e => .error e
    | .ok rx => .ok { r with z := zSet r.z pattern ⟨h, pattern, rx⟩ }

/-- `HandleFunc(pattern, f)`; `none` = a nil func: wrapped into a non-nil `HandlerFunc`; errors become panics -/
def Router.handleFunc (r : Router) (pattern : Str) (f : Option String) : Except Fail Router :=
  let h : Handler := match f with | some n => .named n | none => .nilFunc
  match r.handle pattern (some h) with
  | .error (.err _) => .error (.panic .handleFuncErr)       -- panic(fmt.Errorf("cannot handle pattern…"))
  | .error e => .error e
  | .ok r' => .ok r'

def Router.handleRemove (r : Router) (pattern : Str) : Except Fail Router :=
  let pattern := filterPath pattern
  if zHas r.z pattern then .ok { r with z := zErase r.z pattern } else .error (.err .notRegistered)

def Router.defaultHandle (r : Router) (h : Option Handler) : Router := { r with defaultHandler := h }

def Router.use (r : Router) (mw : String) : Router := { r with middlewares := r.middlewares ++ [mw] }

def pathMatch (rt : Route) (path : Str) : Bool := matchString rt.rx.regexp path

/-- one iteration of the `for pattern, route := range r.z` loop of `Match` -/
def scanStep (path : Str) (acc : Option (Str × Route) × Nat) (e : Str × Route) : Option (Str × Route) × Nat :=
  if !pathMatch e.2 path then acc
  else if acc.1.isNone ∨ byteLen e.1 > acc.2 then (some e, byteLen e.1)
  else acc

/-- the scan under the read lock, over the entries in map-iteration order `order` -/
def scan (order : List (Str × Route)) (path : Str) : Option (Str × Route) :=
  (order.foldl (scanStep path) (none, 0)).1

/-- `Router.Match(path, routeParams)`; `order` = the order in which Go happens to range over `r.z` -/
def matchRoute (order : List (Str × Route)) (path : Str) (rp : RouteParams) :
    Except Fail (Option (Str × Route) × RouteParams) :=
  let path := filterPath path
  match scan order path with
  | none => .ok (none, rp)
  | some (pattern, route) => do
    let rp1 : RouteParams := { rp with path := path, vars := some (rp.vars.getD []), pathTemplate := pattern }
    let rp2 ← extractRouteParams route.rx path rp1
    pure (some (pattern, route), rp2)

inductive Ev
  | enter (mw : String)
  | handler (h : String)
  | exit (mw : String)
  deriving DecidableEq, Repr

/-- A handler, as far as the harness can see it: the events its invocation produces, or a panic after them. -/
structure Run where
  evs : List Ev
  panics : Bool
  deriving DecidableEq, Repr

def Handler.run : Handler → Run
  | .named n => ⟨[.handler n], false⟩
  | .nilFunc => ⟨[], true⟩

/-- a recording middleware: logs, calls the next handler, logs again (not after a panic) -/
def applyMw (mw : String) (next : Run) : Run :=
  if next.panics then ⟨.enter mw :: next.evs, true⟩ else ⟨.enter mw :: next.evs ++ [.exit mw], false⟩

/-- `for i := len(r.middlewares) - 1; i >= 0; i-- { h = r.middlewares[i].Middleware(h) }`, for any notion of handler and
    of applying a middleware; the list is given in loop order (last registered first) -/
def wrapLoopG {M H : Type} (apply : M → H → H) : List M → H → H
  | [], h => h
  | mw :: before, h => wrapLoopG apply before (apply mw h)

def wrapLoop : List String → Run → Run := wrapLoopG applyMw

inductive Outcome
  | invoked (h : Handler) (pattern : Option Str) (rp : RouteParams) (run : Run)
  | nothing                      -- `if h == nil { return }`
  | fail (f : Fail)
  deriving DecidableEq, Repr

/-- `ServeCOAP` with the two critical sections kept apart: the default handler is read from `r0` (first section),
    the scan runs over `order` (entries of the map at the time of the second section). `path = none` means
    `Options.Path()` returned `ErrOptionNotFound` (then `path == ""`). -/
def serveWith (mws : List String) (dflt : Option Handler) (order : List (Str × Route)) (path : Option Str) : Outcome :=
  let p := path.getD []
  match matchRoute order p {} with
  | .error f => .fail f
  | .ok (m, rp) =>
    let h : Option Handler := match m with
      | none => dflt
      | some (_, route) => some route.h
    match h with
    | none => .nothing
    | some h => .invoked h (m.map (·.1)) rp (wrapLoop mws.reverse h.run)

def Router.serveCOAP (r : Router) (order : List (Str × Route)) (path : Option Str) : Outcome :=
  serveWith r.middlewares r.defaultHandler order path

/-! ## From the wire to the router

A request arrives as bytes; the udp/tcp decoders turn its options into `message.Options`, skipping every option whose
value length lies outside the range of its definition in `CoapOptionDefs` (regenerated: `Generated/OptionDefs.lean`);
the connection hands every message it does not consume itself — whatever its code — to the handler installed by
`options.WithMux`, which is `mux.ToHandler(router)` itself (regenerated fact `muxApplyDirect`); `Options.Path()` joins
the surviving Uri-Path values. -/

/-- does the decoder keep an option with number `id` and a value of `len` bytes? -/
def optionKept (id len : Nat) : Bool :=
  match coapOptionDefs.find? (fun d => d.1 = id) with
  | some (_, mn, mx, _) => decide (mn ≤ len) && decide (len ≤ mx)
  | none => true

/-- the Uri-Path values that survive decoding, in order -/
def decodedSegs (segs : List Str) : List Str := segs.filter (fun s => optionKept uriPathOptionID (byteLen s))

/-- `Options.Path()`: `none` = ErrOptionNotFound (no Uri-Path option), else every value preceded by `/` -/
def wirePath (segs : List Str) : Option Str :=
  match segs with
  | [] => none
  | _ => some (segs.flatMap (fun s => '/' :: s))

/-- a message with code `code` and the Uri-Path option values `segs` received by a connection whose handler was installed
    through `options.WithMux(router)`; the code plays no part -/
def Router.wireServe (r : Router) (order : List (Str × Route)) (_code : Nat) (segs : List Str) : Outcome :=
  r.serveCOAP order (wirePath (decodedSegs segs))

/-! ## Token tables in front of the handler

Two tables are consulted with the token of a received message BEFORE the handler installed by `WithMux`: the observation
table of the connection (`observation.Handler.Handle`) and, on udp servers, the server-wide multicast table
(`udp/server` handler).  A message whose token is listed goes to that exchange's callback and never reaches the router.
Exchanges that FAIL (a registration that times out, a discovery whose datagram cannot be written) return an error to
the application; whether they drop their token on that exit is a regenerated fact. -/

abbrev Token := List Nat

structure PreMux where
  obs : List Token := []        -- tokens of the connection's observation table
  mcast : List Token := []      -- tokens of the udp server's multicast table
  deriving DecidableEq, Repr

inductive FailedExchange
  | observe (tok : Token)       -- DoObserve / Observe returned an error (deadline, connection closed)
  | discovery (tok : Token)     -- Discover / DiscoveryRequest returned a write error
  deriving DecidableEq, Repr

def PreMux.fail (t : PreMux) : FailedExchange → PreMux
  | .observe tok => if observationCleansUpOnEveryError then t else { t with obs := tok :: t.obs }
  | .discovery tok => if discoveryCleansUpOnFailedWrite then t else { t with mcast := tok :: t.mcast }

/-- a message with token `tok` received after the failed exchanges `failed` (no other exchange is pending) -/
def Router.connServe (r : Router) (failed : List FailedExchange) (order : List (Str × Route)) (code : Nat) (tok : Token)
    (segs : List Str) : Outcome :=
  let t := failed.foldl PreMux.fail {}
  if tok ∈ t.obs ∨ tok ∈ t.mcast then .nothing      -- swallowed by the callback of a dead exchange
  else r.wireServe order code segs

end CoapVerif.Model.Router
