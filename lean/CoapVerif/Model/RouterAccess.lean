import CoapVerif.Model.Router
/-!
# C17 — the router's accessors and the error handler as operations of the router state machine (core Lean only)

Follows mux/router.go as it is:

* `GetRoute(pattern)` — `FilterPath`, then the map lookup; a copy of the stored route or nil;
* `GetRoutes()` — `maps.Clone(r.z)`: the entries of the table (a clone: what the caller does with it cannot reach the router);
* `Route.GetRouteRegexp()` — `regexMatcher.regexp.String()`: the text `newRouteRegexp` handed to `regexp.Compile`,
  `^` QuoteMeta(raw) `(?P<vI>patt)` … QuoteMeta(rest) `$` (rebuilt here from the template; `regexp.QuoteMeta` puts a backslash
  in front of each of `\.+*?()|[]{}^$`);
* `SetErrorHandler(h)` — replaces `errors`, which only the NotFound responder installed by `NewRouter` calls, and only when
  writing its response fails;
* `Op` / `Router.apply` / `Router.run` — a history of registrations: an operation that fails (error or panic) leaves the
  router as it was.
-/
namespace CoapVerif.Model.Router

/-! ## GetRouteRegexp -/

/-- the characters `regexp.QuoteMeta` escapes -/
def isRegexpMeta (c : Char) : Bool := "\\.+*?()|[]{}^$".toList.contains c

def quoteMeta : Str → Str
  | [] => []
  | c :: t => if isRegexpMeta c then '\\' :: c :: quoteMeta t else c :: quoteMeta t

/-- `fmt.Fprintf(pattern, "%s(?P<%s>%s)", regexp.QuoteMeta(raw), varGroupName(i), patt)` for every part -/
def regexpParts : Nat → List CPart → Str
  | _, [] => []
  | i, p :: ps => quoteMeta p.raw ++ "(?P<v".toList ++ (toString i).toList ++ ['>'] ++ p.pattText ++ [')'] ++ regexpParts (i + 1) ps

def regexpText (parts : List CPart) (trailing : Str) : Str :=
  ['^'] ++ regexpParts 0 parts ++ quoteMeta trailing ++ ['$']

/-- `route.GetRouteRegexp()` for a route stored by `Handle` (its `regexp` is never nil) -/
def Route.getRouteRegexp (rt : Route) : Except Fail Str :=
  match parseTemplate rt.rx.template with
  | .ok (parts, trailing) => .ok (regexpText parts trailing)
  | .error e => .error e

/-! ## GetRoute, GetRoutes -/

def Router.getRoute (r : Router) (pattern : Str) : Option Route := zGet r.z (filterPath pattern)

def Router.getRoutes (r : Router) : List (Str × Route) := r.z

/-! ## Histories of registrations -/

inductive Op
  | handle (pattern : Str) (h : Option Handler)
  | handleFunc (pattern : Str) (f : Option String)
  | handleRemove (pattern : Str)
  | defaultHandle (h : Option Handler)
  | use (mw : String)
  deriving DecidableEq, Repr

def okOr (r : Router) : Except Fail Router → Router
  | .ok r' => r'
  | .error _ => r

def Router.apply (r : Router) : Op → Router
  | .handle p h => okOr r (r.handle p h)
  | .handleFunc p f => okOr r (r.handleFunc p f)
  | .handleRemove p => okOr r (r.handleRemove p)
  | .defaultHandle h => r.defaultHandle h
  | .use m => r.use m

def Router.run (r : Router) (ops : List Op) : Router := ops.foldl Router.apply r

/-! ## SetErrorHandler -/

/-- the router together with its `errors` field; `"print"` stands for the `fmt.Println` of `NewRouter` -/
structure RouterE where
  r : Router := {}
  errors : String := "print"
  deriving DecidableEq, Repr

def RouterE.setErrorHandler (x : RouterE) (h : String) : RouterE := { x with errors := h }

/-- the error handlers called during one dispatch whose response writer refuses `SetResponse` (`writerFails`): only the
    built-in NotFound responder writes a response on its own, and reports the failure to the CURRENT `errors` -/
def RouterE.errorsCalled (x : RouterE) (order : List (Str × Route)) (path : Option Str) (writerFails : Bool) : List String :=
  match x.r.serveCOAP order path with
  | .invoked (.named "notfound") none _ run => if writerFails && !run.panics then [x.errors] else []
  | _ => []

end CoapVerif.Model.Router
