import CoapVerif.Model.Router
import CoapVerif.Model.RouterAccess
/-!
# C17 — long runs: a route table that is modified again and again (core Lean only)

A long-running server registers and removes routes all the time (resources that come and go).  The operation
`churn <n> <prefix> <h>` of the line protocol is such a run in one line: `n` modifications of the route table, the `i`-th
(from 0) being `Handle(<prefix><i/2>, h)` for even `i` and `HandleRemove(<prefix><i/2>)` for odd `i`.  There is no bound on
`n`: the model replays the run operation by operation on `Router.handle` / `Router.handleRemove` (mux/router.go as it is: the
table is a map, nothing in the router counts its modifications), so 2^16, 2^16 ± 1, 2^17 … modifications between two
dispatches are ordinary inputs.
-/
namespace CoapVerif.Model.Router

/-- `<prefix><j>` with `j` in decimal (`strconv.Itoa`) -/
def churnPat (pre : Str) (j : Nat) : Str := pre ++ (toString j).toList

/-- the `i`-th modification of a run -/
def churnOp (pre : Str) (h : Handler) (i : Nat) : Op :=
  if i % 2 = 0 then .handle (churnPat pre (i / 2)) (some h) else .handleRemove (churnPat pre (i / 2))

/-- the modifications number `i`, `i+1`, …, `i+n-1` -/
def churnFrom (pre : Str) (h : Handler) (i n : Nat) : List Op := (List.range' i n).map (churnOp pre h)

/-- a run of `n` modifications -/
def churnOps (pre : Str) (h : Handler) (n : Nat) : List Op := churnFrom pre h 0 n

/-- the answer of one operation (what `Handle` / `HandleRemove` return); `DefaultHandle` and `Use` cannot fail -/
def Router.answer (r : Router) : Op → Except Fail Router
  | .handle p h => r.handle p h
  | .handleFunc p f => r.handleFunc p f
  | .handleRemove p => r.handleRemove p
  | .defaultHandle h => .ok (r.defaultHandle h)
  | .use m => .ok (r.use m)

/-- the run as the harness executes it: it stops at the first answer that is not ok and reports its index -/
def churnLoop (pre : Str) (h : Handler) : Nat → Nat → Router → Router × Option (Nat × Fail)
  | 0, _, r => (r, none)
  | k + 1, i, r =>
    match r.answer (churnOp pre h i) with
    | .ok r' => churnLoop pre h k (i + 1) r'
    | .error f => (r, some (i, f))

def Router.churn (r : Router) (pre : Str) (h : Handler) (n : Nat) : Router × Option (Nat × Fail) := churnLoop pre h n 0 r

end CoapVerif.Model.Router
