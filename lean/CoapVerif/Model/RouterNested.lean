import CoapVerif.Model.Router
/-!
# C17 — one message object dispatched more than once; routers mounted inside routers (core Lean only)

`Router.ServeCOAP(w, req)` as it is in mux/router.go, for a `*mux.Message` that is NOT fresh: the path is read from the
message's CURRENT Uri-Path options (`req.Options().Path()`) at every call, and `Match` works on the `RouteParams` object the
message already carries — it overwrites `Path`, `PathTemplate` and the variables of the matched pattern, keeps the map and
whatever other names an earlier dispatch left in it, and leaves the object untouched when nothing matches.

* `serveWithRp` — `serveWith` with the incoming `RouteParams` as a parameter (`serveWith` = the fresh object of `mux.ToHandler`);
* `MsgObj` — a message object: its current path and its `RouteParams`; `MsgObj.setPath` rewrites the Uri-Path options only;
* `serveNested` — a route of the outer router whose handler is a MOUNT (`.named "mount:<v>"`): it rewrites the message's path
  to `/` + the value of the route variable `v` and hands the SAME message to the inner router.
-/
namespace CoapVerif.Model.Router

def serveWithRp (mws : List String) (dflt : Option Handler) (order : List (Str × Route)) (path : Option Str)
    (rp : RouteParams) : Outcome :=
  let p := path.getD []
  match matchRoute order p rp with
  | .error f => .fail f
  | .ok (m, rp') =>
    let h : Option Handler := match m with
      | none => dflt
      | some (_, route) => some route.h
    match h with
    | none => .nothing
    | some h => .invoked h (m.map (·.1)) rp' (wrapLoop mws.reverse h.run)

structure MsgObj where
  path : Option Str := none       -- what `Options().Path()` yields now (`none` = no Uri-Path option)
  rp : RouteParams := {}          -- the object `req.RouteParams` points to
  deriving DecidableEq, Repr

def MsgObj.setPath (m : MsgObj) (path : Option Str) : MsgObj := { m with path := path }

/-- the `RouteParams` object after a dispatch -/
def Outcome.rpAfter (o : Outcome) (rp : RouteParams) : RouteParams :=
  match o with
  | .invoked _ _ rp' _ => rp'
  | _ => rp

def Router.serveMsg (r : Router) (order : List (Str × Route)) (m : MsgObj) : Outcome × MsgObj :=
  let o := serveWithRp r.middlewares r.defaultHandler order m.path m.rp
  (o, { m with rp := o.rpAfter m.rp })

/-- the mount handlers of the harness are registered under the handler name `mount:<hex of the variable name>` -/
def mountPrefix : String := "mount:"

def varLookup (vs : List (Str × Str)) (k : Str) : Str :=
  match vs.find? (fun kv => kv.1 = k) with
  | some kv => kv.2
  | none => []

inductive NestedOutcome
  | plain (o : Outcome)
  | nested (v : Str) (inner : Outcome)       -- through the mount for variable `v`; `inner` = what the inner router did
  deriving DecidableEq, Repr

/-- `mountVar h` = the variable a mount handler strips to (decoded by the caller from the handler's name) -/
def serveNested (outer inner : Router) (mountVar : Handler → Option Str) (oOrder iOrder : List (Str × Route)) (m : MsgObj) :
    NestedOutcome × MsgObj :=
  let (o, m1) := outer.serveMsg oOrder m
  match o with
  | .invoked h (some _) rp1 _ =>
    match mountVar h with
    | some v =>
      -- r.MustSetPath("/" + r.RouteParams.Vars[v]); inner.ServeCOAP(w, r)
      let m2 := m1.setPath (some ('/' :: varLookup (rp1.vars.getD []) v))
      let (oi, m3) := inner.serveMsg iOrder m2
      (.nested v oi, m3)
    | none => (.plain o, m1)
  | _ => (.plain o, m1)

end CoapVerif.Model.Router
