/-!
# C17 — the regular-expression subset the router model understands (core Lean only)

Go's `regexp` package is TRUSTED (DESIGN §7).  This file fixes *which part* of its syntax the model speaks
about: `parsePat` turns the text of a `{name:pattern}` variable into a small AST `Pat`, answers `syntax`
where `regexp.Compile("^"+pattern+"$")` / the compilation of the whole route expression fails, and answers
`unsupported` for everything outside the modelled subset (the generators of checks/c17.py never produce such
a pattern; the driver prints `unsupported` and the check reports a generator bug).

Subset (RE2 syntax, Perl flags, as `regexp.Compile` uses them):
* literal characters (any Unicode scalar other than `\ . + * ? ( ) | [ ] { } ^ $`; a lone `]` or `}` and a `{`
  that does not start a well-formed counted repetition are literals, as in Go);
* `.` (any character except `\n`), escapes `\d \D \w \W \s \S`, `\n \t \r \f \v \a`, `\` + ASCII punctuation;
* bracket classes `[...]`, `[^...]` with single characters, ranges `a-z`, the escapes above, a leading `]`,
  `-` anywhere (Perl mode); negated classes contain `\n` (flag ClassNL);
* grouping `(?:...)`; a capturing group `(...)` is parsed (transparent) and *recorded*: the route compiler
  panics on it, as the source does; alternation `|` (empty alternatives allowed); concatenation;
* repetition `* + ?`, counted `{n} {n,} {n,m}` with n, m ≤ 6, each optionally lazy (`*?` …); two repetition
  operators in a row are a syntax error (Perl mode); a repetition with nothing to repeat is a syntax error;
* NOT in the subset (→ `unsupported`): `^ $ \A \z \b \B`, flags `(?i)` …, named groups, `\pL`, `\x..`, octal,
  `\Q..\E`, POSIX `[:alpha:]`, counted repetition with a bound > 6 or a leading zero, and `*`, `+`, `{n,}`
  applied to a sub-expression that can match the empty string (there Go deviates from backtracking order).

Repetitions are expanded while parsing exactly as `regexp/syntax.Simplify` does (`x+ = xx*`,
`x{2,4} = xx(?:x(?:x)?)?`, `x{3,} = xxx+`), so `Pat` only has `eps chr cls cat alt star`.
-/
namespace CoapVerif.Model.Router

abbrev Str := List Char

inductive PerlClass
  | digit | word | space
  deriving DecidableEq, Repr

inductive ClsItem
  | range (lo hi : Char)
  | perl (k : PerlClass) (neg : Bool)
  deriving DecidableEq, Repr

def PerlClass.has : PerlClass → Char → Bool
  | .digit, c => decide ('0' ≤ c) && decide (c ≤ '9')
  | .word, c => (decide ('0' ≤ c) && decide (c ≤ '9')) || (decide ('A' ≤ c) && decide (c ≤ 'Z'))
      || (decide ('a' ≤ c) && decide (c ≤ 'z')) || c == '_'
  | .space, c => c == '\t' || c == '\n' || c == Char.ofNat 12 || c == '\r' || c == ' '

def ClsItem.has : ClsItem → Char → Bool
  | .range lo hi, c => decide (lo ≤ c) && decide (c ≤ hi)
  | .perl k neg, c => (k.has c) != neg

/-- membership in a (possibly negated) bracket class -/
def clsHas (neg : Bool) (items : List ClsItem) (c : Char) : Bool := (items.any (fun it => it.has c)) != neg

/-- The regular expressions of the subset (after expansion of `+ ? {n,m}`); `greedy` only matters for priorities. -/
inductive Pat
  | eps
  | chr (c : Char)
  | cls (neg : Bool) (items : List ClsItem)
  | cat (a b : Pat)
  | alt (a b : Pat)
  | star (a : Pat) (greedy : Bool)
  deriving DecidableEq, Repr

namespace Pat

def nullable : Pat → Bool
  | eps => true
  | chr _ => false
  | cls _ _ => false
  | cat a b => a.nullable && b.nullable
  | alt a b => a.nullable || b.nullable
  | star _ _ => true

/-- `.` : any character but newline -/
def dot : Pat := .cls true [.range '\n' '\n']

def quest (a : Pat) (greedy : Bool) : Pat := if greedy then .alt a .eps else .alt .eps a

def plus (a : Pat) (greedy : Bool) : Pat := .cat a (.star a greedy)

def copies : Nat → Pat → Pat → Pat
  | 0, _, tail => tail
  | n + 1, a, tail => .cat a (copies n a tail)

/-- `(?:x(?:x(?:x)?)?)?` with `k` nested optional copies -/
def optNest : Nat → Pat → Bool → Pat
  | 0, _, _ => .eps
  | k + 1, a, g => quest (.cat a (optNest k a g)) g

end Pat

inductive PErr
  | syntax        -- regexp.Compile fails
  | unsupported   -- outside the modelled subset
  deriving DecidableEq, Repr

def isDigit (c : Char) : Bool := decide ('0' ≤ c) && decide (c ≤ '9')

def isAlnum (c : Char) : Bool :=
  isDigit c || (decide ('A' ≤ c) && decide (c ≤ 'Z')) || (decide ('a' ≤ c) && decide (c ≤ 'z'))

/-- ASCII punctuation in Go's sense for escapes: `c < 0x80 && !isalnum(c)` (printable ones only are supported here) -/
def isPunctEsc (c : Char) : Bool := decide (c.toNat < 128) && decide (32 < c.toNat) && decide (c.toNat < 127) && !isAlnum c

def takeDigits : Str → Str × Str
  | [] => ([], [])
  | c :: t => if isDigit c then let (d, r) := takeDigits t; (c :: d, r) else ([], c :: t)

def digitsVal (ds : Str) : Nat := ds.foldl (fun n c => n * 10 + (c.toNat - '0'.toNat)) 0

inductive RepParse
  | notRepeat                                   -- `{` is a literal
  | unsupported
  | rep (min : Nat) (max : Option Nat) (rest : Str)

/-- `s` starts just after `{`.  Mirrors regexp/syntax parseRepeat + parseInt. -/
def parseRepeat (s : Str) : RepParse :=
  let (d1, r1) := takeDigits s
  if d1.isEmpty then .notRepeat
  else if d1.length ≥ 2 && d1.head? == some '0' then .unsupported
  else
    let n := digitsVal d1
    match r1 with
    | '}' :: r => if n > 6 then .unsupported else .rep n (some n) r
    | ',' :: '}' :: r => if n > 6 then .unsupported else .rep n none r
    | ',' :: r2 =>
      let (d2, r3) := takeDigits r2
      if d2.isEmpty then .notRepeat
      else if d2.length ≥ 2 && d2.head? == some '0' then .unsupported
      else
        match r3 with
        | '}' :: r => if n > 6 || digitsVal d2 > 6 then .unsupported else .rep n (some (digitsVal d2)) r
        | _ => .notRepeat
    | _ => .notRepeat

/-- does `s` start with a repetition operator? (for the "invalid nested repetition operator" error) -/
def startsWithRepeatOp (s : Str) : Except PErr Bool :=
  match s with
  | '*' :: _ => .ok true
  | '+' :: _ => .ok true
  | '?' :: _ => .ok true
  | '{' :: r =>
    match parseRepeat r with
    | .notRepeat => .ok false
    | .unsupported => .error .unsupported
    | .rep _ _ _ => .ok true
  | _ => .ok false

def stripLazy (s : Str) : Bool × Str :=
  match s with
  | '?' :: r => (false, r)
  | _ => (true, s)

/-- after an atom `a`: an optional repetition operator (with optional lazy mark), which must not be followed by another one -/
def applyRep (a : Pat) (s : Str) : Except PErr (Pat × Str) :=
  let finish (mk : Bool → Except PErr Pat) (r : Str) : Except PErr (Pat × Str) := do
    let (g, r') := stripLazy r
    let nested ← startsWithRepeatOp r'
    if nested then .error .syntax
    else
      let p ← mk g
      pure (p, r')
  match s with
  | '*' :: r => finish (fun g => if a.nullable then .error .unsupported else .ok (.star a g)) r
  | '+' :: r => finish (fun g => if a.nullable then .error .unsupported else .ok (Pat.plus a g)) r
  | '?' :: r => finish (fun g => .ok (Pat.quest a g)) r
  | '{' :: r =>
    match parseRepeat r with
    | .notRepeat => .ok (a, s)
    | .unsupported => .error .unsupported
    | .rep n none r' =>
      finish (fun g =>
        if a.nullable then .error .unsupported
        else if n = 0 then .ok (.star a g)
        else .ok (Pat.copies (n - 1) a (Pat.plus a g))) r'
    | .rep n (some m) r' =>
      if m < n then .error .syntax
      else finish (fun g =>
        if n = 0 && m = 0 then .ok .eps
        else if n = 1 && m = 1 then .ok a
        else .ok (Pat.copies n a (Pat.optNest (m - n) a g))) r'
  | _ => .ok (a, s)

/-- one escape; `s` starts just after the backslash.  Returns a class item set or a literal. -/
inductive Esc
  | lit (c : Char)
  | perl (k : PerlClass) (neg : Bool)

def parseEscape (s : Str) : Except PErr (Esc × Str) :=
  match s with
  | [] => .error .syntax            -- trailing backslash
  | c :: r =>
    if c == 'd' then .ok (.perl .digit false, r)
    else if c == 'D' then .ok (.perl .digit true, r)
    else if c == 'w' then .ok (.perl .word false, r)
    else if c == 'W' then .ok (.perl .word true, r)
    else if c == 's' then .ok (.perl .space false, r)
    else if c == 'S' then .ok (.perl .space true, r)
    else if c == 'n' then .ok (.lit '\n', r)
    else if c == 't' then .ok (.lit '\t', r)
    else if c == 'r' then .ok (.lit '\r', r)
    else if c == 'f' then .ok (.lit (Char.ofNat 12), r)
    else if c == 'v' then .ok (.lit (Char.ofNat 11), r)
    else if c == 'a' then .ok (.lit (Char.ofNat 7), r)
    else if isPunctEsc c then .ok (.lit c, r)
    else .error .unsupported

/-- one character of a bracket class (single char or escape that denotes a char) -/
def parseClassChar (s : Str) : Except PErr (Char × Str) :=
  match s with
  | [] => .error .syntax            -- missing closing ]
  | '\\' :: r =>
    match parseEscape r with
    | .ok (.lit c, r') => .ok (c, r')
    | .ok (.perl _ _, _) => .error .unsupported   -- `[a-\d]`: invalid escape in Go; kept out of the subset
    | .error e => .error e
  | c :: r => .ok (c, r)

/-- items of a bracket class; `s` starts after `[` / `[^`; `first` = no item read yet. Fuel = remaining length. -/
def parseClassItems : Nat → Str → Bool → List ClsItem → Except PErr (List ClsItem × Str)
  | 0, _, _, _ => .error .unsupported
  | f + 1, s, first, acc =>
    match s with
    | [] => .error .syntax          -- missing closing ]
    | c :: r =>
      if c == ']' && !first then .ok (acc, r)
      else if c == '[' && r.head? == some ':' then .error .unsupported
      else
        let perlItem : Option (ClsItem × Str) :=
          match s with
          | '\\' :: r1 =>
            match parseEscape r1 with
            | .ok (.perl k n, r2) => some (.perl k n, r2)
            | _ => none
          | _ => none
        match perlItem with
        | some (it, r2) => parseClassItems f r2 false (acc ++ [it])
        | none =>
          match parseClassChar s with
          | .error e => .error e
          | .ok (lo, r1) =>
            match r1 with
            | '-' :: r2 =>
              if r2.head? == some ']' then parseClassItems f r1 false (acc ++ [.range lo lo])
              else
                match parseClassChar r2 with
                | .error e => .error e
                | .ok (hi, r3) =>
                  if hi < lo then .error .syntax
                  else parseClassItems f r3 false (acc ++ [.range lo hi])
            | _ => parseClassItems f r1 false (acc ++ [.range lo lo])

def parseClass (s : Str) : Except PErr (Pat × Str) :=
  let (neg, s') := match s with
    | '^' :: r => (true, r)
    | _ => (false, s)
  match parseClassItems (s'.length + 1) s' true [] with
  | .ok (items, r) => .ok (.cls neg items, r)
  | .error e => .error e

mutual
/-- alternation; stops in front of `)` or at the end -/
def parseAlt : Nat → Str → Except PErr (Pat × Bool × Str)
  | 0, _ => .error .unsupported
  | f + 1, s =>
    match parseCat f s with
    | .error e => .error e
    | .ok (a, ca, r) =>
      match r with
      | '|' :: r' =>
        match parseAlt f r' with
        | .error e => .error e
        | .ok (b, cb, r'') => .ok (.alt a b, ca || cb, r'')
      | _ => .ok (a, ca, r)
/-- concatenation; stops in front of `|`, `)` or at the end -/
def parseCat : Nat → Str → Except PErr (Pat × Bool × Str)
  | 0, _ => .error .unsupported
  | f + 1, s =>
    match s with
    | [] => .ok (.eps, false, [])
    | c :: _ =>
      if c == '|' || c == ')' then .ok (.eps, false, s)
      else
        match parseAtom f s with
        | .error e => .error e
        | .ok (a, ca, r) =>
          match applyRep a r with
          | .error e => .error e
          | .ok (a', r') =>
            match parseCat f r' with
            | .error e => .error e
            | .ok (b, cb, r'') => .ok (.cat a' b, ca || cb, r'')
/-- one atom (before its repetition operator); the Bool says "contains a capturing group" -/
def parseAtom : Nat → Str → Except PErr (Pat × Bool × Str)
  | 0, _ => .error .unsupported
  | f + 1, s =>
    match s with
    | [] => .error .syntax
    | '(' :: '?' :: ':' :: r =>
      match parseAlt f r with
      | .error e => .error e
      | .ok (a, ca, r') =>
        match r' with
        | ')' :: r'' => .ok (a, ca, r'')
        | _ => .error .syntax        -- missing closing )
    | '(' :: '?' :: _ => .error .unsupported
    | '(' :: r =>
      match parseAlt f r with
      | .error e => .error e
      | .ok (a, _, r') =>
        match r' with
        | ')' :: r'' => .ok (a, true, r'')
        | _ => .error .syntax
    | '[' :: r =>
      match parseClass r with
      | .error e => .error e
      | .ok (a, r') => .ok (a, false, r')
    | '\\' :: r =>
      match parseEscape r with
      | .error e => .error e
      | .ok (.lit c, r') => .ok (.chr c, false, r')
      | .ok (.perl k n, r') => .ok (.cls false [.perl k n], false, r')
    | '.' :: r => .ok (Pat.dot, false, r)
    | '^' :: _ => .error .unsupported
    | '$' :: _ => .error .unsupported
    | '*' :: _ => .error .syntax     -- missing argument to repetition operator
    | '+' :: _ => .error .syntax
    | '?' :: _ => .error .syntax
    | '{' :: r =>
      match parseRepeat r with
      | .notRepeat => .ok (.chr '{', false, r)
      | .unsupported => .error .unsupported
      | .rep _ _ _ => .error .syntax  -- missing argument to repetition operator
    | c :: r => .ok (.chr c, false, r)
end

/-- The pattern of one route variable: `ok (pat, hasCapturingGroup)`, `syntax` error, or `unsupported`. -/
def parsePat (s : Str) : Except PErr (Pat × Bool) :=
  match parseAlt (4 * s.length + 8) s with
  | .error e => .error e
  | .ok (a, ca, []) => .ok (a, ca)
  | .ok (_, _, _ :: _) => .error .syntax    -- unexpected )

end CoapVerif.Model.Router
