import CoapVerif.Model.Router
/-!
# C17 — the whole option list of a received request, not only its Uri-Path values

`Model/Router.lean` ("From the wire to the router") starts from the list of Uri-Path values.  A request on the wire is a list of
options, each written as (delta to the number of the option before it, value); Uri-Path options are those whose NUMBER —
reconstructed by the decoder — is 11.  Here is the decoder's loop over the whole list, `message/options.go: Options.Unmarshal`:

```go
prev := 0
for … {
    oid, err := math.SafeCastTo[OptionID](prev + delta)      // uint16: an error ends the decoding, the message is dropped
    proc, err = option.Unmarshal(data[:length], optionDefs, oid)   // leaves option.ID at 0 when it SKIPS the option
    if option.ID != 0 { *options = append(*options, option) }
    prev = <delta base>                                       // regenerated fact `optionDeltaBase`
}
```

`Option.Unmarshal` skips an option whose value length lies outside the window of its definition (`optionKept`, from the
regenerated table).  The delta base of the next option is a regenerated fact (AST of the loop): the computed number `oid`
(`.computed`, RFC 7252 §3.1) or the ID of the decoded option object (`.decoded`: 0 after a skipped option); any other shape
of the loop fails closed in the extractor.  `Options.Path()` then joins the values of the decoded options whose ID is Uri-Path.
-/
namespace CoapVerif.Model.Router
open CoapVerif.Generated.RouterLockShape (uriPathOptionID optionDeltaBaseIsComputedNumber)

/-- an option as it stands on the wire: delta to the number of the option before it, value -/
abbrev WireOpt := Nat × Str

/-- what the loop of `Options.Unmarshal` assigns to `prev` after an option -/
inductive DeltaBase
  | computed      -- `prev = int(oid)`: the number just computed
  | decoded       -- `prev = option.ID`: the ID of the decoded object, 0 when the option was skipped
  deriving DecidableEq, Repr

/-- the shape found in /repo (regenerated) -/
def optionDeltaBase : DeltaBase := if optionDeltaBaseIsComputedNumber then .computed else .decoded

/-- `math.SafeCastTo[OptionID]`: OptionID is a uint16 -/
def optionIDMax : Nat := 65535

/-- `Options.Unmarshal` over the options of a message (after the header/token, up to the payload marker): the decoded
    (ID, value) list, `none` = the decoder reports an error and the message never reaches a handler -/
def unmarshalOpts (base : DeltaBase) : Nat → List WireOpt → Option (List (Nat × Str))
  | _, [] => some []
  | prev, (d, v) :: rest =>
    let oid := prev + d
    if oid > optionIDMax then none
    else
      let id := if optionKept oid (byteLen v) then oid else 0        -- Option.Unmarshal: ID stays 0 when skipped
      let next := match base with
        | .computed => oid
        | .decoded => id
      match unmarshalOpts base next rest with
      | none => none
      | some out => some (if id ≠ 0 then (id, v) :: out else out)

/-- the values `Options.Path()` joins: those of the decoded options whose ID is Uri-Path (the decoded list is sorted by ID
    when the delta base is the computed number, which is what `Options.Find`'s binary search relies on) -/
def uriPathValues (opts : List (Nat × Str)) : List Str :=
  (opts.filter (fun o => o.1 = uriPathOptionID)).map (·.2)

/-- a message with code `code` and the option list `ws` received by a connection whose handler was installed through
    `options.WithMux(router)`; a decoding error drops the message -/
def Router.wireOptsServe (r : Router) (order : List (Str × Route)) (_code : Nat) (ws : List WireOpt) : Outcome :=
  match unmarshalOpts optionDeltaBase 0 ws with
  | none => .nothing
  | some opts => r.serveCOAP order (wirePath (uriPathValues opts))

/-- … after failed exchanges (see `Router.connServe`) -/
def Router.connOptsServe (r : Router) (failed : List FailedExchange) (order : List (Str × Route)) (code : Nat) (tok : Token)
    (ws : List WireOpt) : Outcome :=
  let t := failed.foldl PreMux.fail {}
  if tok ∈ t.obs ∨ tok ∈ t.mcast then .nothing
  else r.wireOptsServe order code ws

end CoapVerif.Model.Router
