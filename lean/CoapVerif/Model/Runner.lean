/-!
C18 / C09, the housekeeping runner (`pkg/runner/periodic`, and the default one-goroutine-per-registration runner of
`options/config`).  Connections and servers register a function `now ↦ still wanted?`; the runner calls every registered
function once per period and forgets a function as soon as it has answered "no".  "Closed at the first housekeeping tick
after the period" (C18) and "a closed datagram peer's shutdown is completed by the server's sweep" (C09) both rest on it:
a runner that skips, replaces or drops a live registration silently disables a monitor.

State: the live registrations in registration order, each with the flag "answers no at its next call".
-/
namespace CoapVerif.Model.Runner

structure Reg where
  id : Nat
  finishing : Bool := false
  deriving Repr, DecidableEq

inductive Op
  | reg (k : Nat)      -- a function is registered (the harness uses fresh ids)
  | fin (k : Nat)      -- function k will answer "no" at its next call
  | tick               -- one period elapses
  deriving Repr, DecidableEq

/-- `callsAtReg`: the default runner calls a function once at registration, the shared ticker does not. -/
def step (callsAtReg : Bool) (s : List Reg) : Op → List Reg × List Nat
  | .reg k => (s ++ [{ id := k }], if callsAtReg then [k] else [])
  | .fin k => (s.map (fun r => if r.id = k then { r with finishing := true } else r), [])
  | .tick => (s.filter (fun r => !r.finishing), s.map (·.id))

def run (callsAtReg : Bool) (s : List Reg) : List Op → List Reg × List (List Nat)
  | [] => (s, [])
  | o :: r =>
    let (s1, c) := step callsAtReg s o
    let (s2, cs) := run callsAtReg s1 r
    (s2, c :: cs)

def ids (s : List Reg) : List Nat := s.map (·.id)

end CoapVerif.Model.Runner
