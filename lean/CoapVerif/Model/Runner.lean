/-!
C18 / C09 / C13, the housekeeping runner (`pkg/runner/periodic`, and the default one-goroutine-per-registration runner of
`options/config`).  Connections and servers register a function `now ↦ still wanted?`; the runner calls every registered
function once per period and forgets a function as soon as it has answered "no".  "Closed at the first housekeeping tick
after the period" (C18), "a closed datagram peer's shutdown is completed by the server's sweep" (C09) and "every table
entry is removed by the expiry sweep at the latest" (C13) all rest on it: a runner that skips, replaces or drops a live
registration silently disables a monitor / a sweep.

State: the live registrations in registration order, each with the flags "answers no at its next call" and "registers
another function during its next call" (a connection dialled from inside a housekeeping callback, a server started there).
-/
namespace CoapVerif.Model.Runner

structure Reg where
  id : Nat
  finishing : Bool := false
  nest : Option Nat := none
  deriving Repr, DecidableEq

inductive Op
  | reg (k : Nat)          -- a function is registered (the harness uses fresh ids)
  | fin (k : Nat)          -- function k will answer "no" at its next call
  | nest (k j : Nat)       -- function k will register function j during its next call
  | tick                   -- one period elapses
  deriving Repr, DecidableEq

def ids (s : List Reg) : List Nat := s.map (·.id)
def nestIds (s : List Reg) : List Nat := s.filterMap (·.nest)

/-- what survives a tick: the registrations that did not answer "no", their one-shot flags used up -/
def survivors (s : List Reg) : List Reg := (s.filter (fun r => !r.finishing)).map (fun r => { r with nest := none })

/-- `callsAtReg`: the default runner calls a function once at registration, the shared ticker does not. -/
def step (callsAtReg : Bool) (s : List Reg) : Op → List Reg × List Nat
  | .reg k => (s ++ [{ id := k }], if callsAtReg then [k] else [])
  | .fin k => (s.map (fun r => if r.id = k then { r with finishing := true } else r), [])
  | .nest k j => (s.map (fun r => if r.id = k then { r with nest := some j } else r), [])
  | .tick => (survivors s ++ (nestIds s).map (fun j => { id := j }),
              ids s ++ (if callsAtReg then nestIds s else []))

def run (callsAtReg : Bool) (s : List Reg) : List Op → List Reg × List (List Nat)
  | [] => (s, [])
  | o :: r =>
    let (s1, c) := step callsAtReg s o
    let (s2, cs) := run callsAtReg s1 r
    (s2, c :: cs)

end CoapVerif.Model.Runner
