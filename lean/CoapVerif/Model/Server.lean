import CoapVerif.Spec.Server
/-!
Model of the datagram server's dispatch (`udp/server/server.go`): `getConnKey` (normalisation of the local address),
`getOrCreateConn` (peer table, fallback of a concrete local address to the wildcard entry created by `NewConn`),
`Serve` (decode/process errors close only the offending peer's connection, the loop continues), closed entries are
replaced on the next datagram, and the wrapper handler that routes responses for discovery tokens to the receiver
registered for that token (`discover.go`, `cfg.Handler` wrapper).
-/
namespace CoapVerif.Model.Server
open CoapVerif.Spec.Server

/-- `getConnKey`: local part of the key; `none` = normalised away (multicast, unspecified) -/
def normLocal : Local → Option Nat
  | .concrete ip => some ip
  | .multicast _ => none
  | .unspecified => none

abbrev Key := Nat × Option Nat

structure Conn where
  key : Key
  seen : List Nat := []     -- tags of datagrams processed by this logical connection, in order
  deriving Repr, DecidableEq

structure State where
  conns : List Conn := []   -- live entries of the peer table (at most one per key, see `Props.C10.one_conn_per_key`)
  closed : List Conn := []  -- connections that were closed (with what they had seen), in order of closing
  deriving Repr, DecidableEq

def find (t : List Conn) (k : Key) : Option Conn := t.find? (fun c => c.key == k)

/-- `getOrCreateConn`: exact key, else (concrete local address only) the wildcard entry of the same remote, else create -/
def lookupKey (t : List Conn) (remote : Nat) (loc : Local) : Option Conn :=
  match find t (remote, normLocal loc) with
  | some c => some c
  | none =>
    match loc with
    | .concrete _ => find t (remote, none)
    | _ => none

inductive Ev
  | dgram (d : Dgram)                 -- a datagram arrives
  | newConn (remote : Nat) (listener : Local)   -- server-initiated connection: `NewConn(addr)` keys by the LISTENER's local address (wildcard-bound: any; bound to a concrete address: that address), looked up like a datagram's
  | closePeer (remote : Nat) (loc : Local)   -- the connection of that peer is closed (inactivity, application, peer error)
  deriving Repr, DecidableEq

def step (s : State) : Ev → State
  | .dgram d =>
    match lookupKey s.conns d.remote d.loc with
    | some c =>
      if d.wellFormed then
        { s with conns := s.conns.map (fun x => if x.key == c.key then { x with seen := x.seen ++ [d.tag] } else x) }
      else
        -- Process fails: only this peer's connection is closed, the error is reported, the read loop continues
        { conns := s.conns.filter (fun x => x.key != c.key), closed := s.closed ++ [c] }
    | none =>
      let k : Key := (d.remote, normLocal d.loc)
      if d.wellFormed then { s with conns := s.conns ++ [{ key := k, seen := [d.tag] }] }
      else { s with closed := s.closed ++ [{ key := k }] }
  | .newConn remote lis =>
    match lookupKey s.conns remote lis with
    | some _ => s
    | none => { s with conns := s.conns ++ [{ key := (remote, normLocal lis) }] }
  | .closePeer remote loc =>
    match lookupKey s.conns remote loc with
    | some c => { conns := s.conns.filter (fun x => x.key != c.key), closed := s.closed ++ [c] }
    | none => s

def run (s : State) (evs : List Ev) : State := evs.foldl step s

/-- the entries that belong to one remote address -/
def part (remote : Nat) (t : List Conn) : List Conn := t.filter (fun c => c.key.1 == remote)

/-- everything the connections (closed and live) of one remote address have seen, connection by connection -/
def view (s : State) (remote : Nat) : List Conn × List Conn := (part remote s.closed, part remote s.conns)

def evRemote : Ev → Nat
  | .dgram d => d.remote
  | .newConn r _ => r
  | .closePeer r _ => r

/-! ### discovery routing (`discover.go` + the `cfg.Handler` wrapper of `getOrCreateConn`) -/

structure Resp where
  token : Nat
  conn : Nat        -- id of the connection the response arrived on (= the peer that sent it)
  tag : Nat
  deriving Repr, DecidableEq

inductive Routed
  | toReceiver (token : Nat) (conn : Nat) (tag : Nat)   -- receiverFunc registered for `token`, called with w.Conn() = conn
  | toDefault (conn : Nat) (tag : Nat)
  deriving Repr, DecidableEq

/-- the wrapper: `multicastHandler.Load(r.Token().Hash())` then the receiver, else the server's handler -/
def route (registered : List Nat) (r : Resp) : Routed :=
  if registered.contains r.token then .toReceiver r.token r.conn r.tag else .toDefault r.conn r.tag

/-! ### discovery registration (`DiscoveryRequest`)

`multicastHandler.LoadOrStore(token)`: a call whose token is already registered is refused and returns *before* any
deferred clean-up is installed, so it leaves the table alone; only the call that registered an entry deletes it when it
ends.  `running` = the (discovery id, token) pairs currently registered, in registration order. -/

inductive DEv
  | start (id tok : Nat)     -- DiscoveryRequest is called (LoadOrStore)
  | finish (id : Nat)        -- the call with this id returns (its deferred deletes run, if it had registered)
  | resp (r : Resp)          -- a response datagram arrives
  deriving Repr, DecidableEq

inductive DOut
  | registered
  | refused                  -- ErrKeyAlreadyExists
  | done
  | toReceiverOf (id : Nat) (conn : Nat) (tag : Nat)   -- the receiver passed by discovery `id`, with the sender's connection
  | toDefault (conn : Nat) (tag : Nat)
  deriving Repr, DecidableEq

def dstep (s : List (Nat × Nat)) : DEv → List (Nat × Nat) × DOut
  | .start id tok => if s.any (fun e => e.2 == tok) then (s, .refused) else (s ++ [(id, tok)], .registered)
  | .finish id => (s.filter (fun e => e.1 != id), .done)
  | .resp r =>
    match s.find? (fun e => e.2 == r.token) with
    | some e => (s, .toReceiverOf e.1 r.conn r.tag)
    | none => (s, .toDefault r.conn r.tag)

def drun (s : List (Nat × Nat)) (evs : List DEv) : List (Nat × Nat) := evs.foldl (fun s e => (dstep s e).1) s

/-- outputs of a whole history -/
def dtrace : List (Nat × Nat) → List DEv → List DOut
  | _, [] => []
  | s, e :: es => (dstep s e).2 :: dtrace (dstep s e).1 es

end CoapVerif.Model.Server
