import CoapVerif.Model.Server
/-!
C10, eleventh seeded round: the discovery tables of `udp/server` (`multicastHandler`, `multicastRequests`) are not keyed by
the token but by a NUMBER derived from it (`message.Token.Hash()`, a method of another package).  Tokens are byte strings of
length 0..8; the model keeps them as they are and takes the key function as a parameter:

* `kstep key` - the tables as the code keys them: `LoadOrStore(token.Hash())`, `Load(r.Token().Hash())`; the deferred deletes
  are reached by the registering call only (as in `Model/Server.lean: dstep`);
* `tstep` - the same with the token itself as the key: what the property's words describe ("the receiver registered for
  their token").

`Props/C10Tokens.lean` proves that the two agree on every history whose tokens have pairwise different keys, that under
`tstep` a receiver is only ever handed a message that carries the token it registered, and (section `DoesNotHold`) that a key
which forgets the token's length (bytes packed into the number) hands a message with another token to a receiver.
-/
namespace CoapVerif.Model.ServerTokenKeys
open CoapVerif.Model.Server (DOut)

/-- a token: its bytes -/
abbrev Token := List Nat

structure KResp where
  token : Token
  conn : Nat        -- the connection the message arrived on (= the peer that sent it)
  tag : Nat
  deriving Repr, DecidableEq

inductive KEv
  | start (id : Nat) (tok : Token)   -- DiscoveryRequest is called
  | finish (id : Nat)                -- the call returns
  | msg (r : KResp)                  -- a message (response or request, from any peer) arrives at the server
  deriving Repr, DecidableEq

/-- the tables keyed by `key token` (the code: `key` = `message.Token.Hash`) -/
def kstep (key : Token → Nat) (s : List (Nat × Token)) : KEv → List (Nat × Token) × DOut
  | .start id tok => if s.any (fun e => key e.2 == key tok) then (s, .refused) else (s ++ [(id, tok)], .registered)
  | .finish id => (s.filter (fun e => e.1 != id), .done)
  | .msg r =>
    match s.find? (fun e => key e.2 == key r.token) with
    | some e => (s, .toReceiverOf e.1 r.conn r.tag)
    | none => (s, .toDefault r.conn r.tag)

/-- the tables keyed by the token itself -/
def tstep (s : List (Nat × Token)) : KEv → List (Nat × Token) × DOut
  | .start id tok => if s.any (fun e => e.2 == tok) then (s, .refused) else (s ++ [(id, tok)], .registered)
  | .finish id => (s.filter (fun e => e.1 != id), .done)
  | .msg r =>
    match s.find? (fun e => e.2 == r.token) with
    | some e => (s, .toReceiverOf e.1 r.conn r.tag)
    | none => (s, .toDefault r.conn r.tag)

def ktrace (key : Token → Nat) : List (Nat × Token) → List KEv → List DOut
  | _, [] => []
  | s, e :: es => (kstep key s e).2 :: ktrace key (kstep key s e).1 es

def ttrace : List (Nat × Token) → List KEv → List DOut
  | _, [] => []
  | s, e :: es => (tstep s e).2 :: ttrace (tstep s e).1 es

def trun (s : List (Nat × Token)) (evs : List KEv) : List (Nat × Token) := evs.foldl (fun s e => (tstep s e).1) s

/-- the tokens an event mentions -/
def evToks : KEv → List Token
  | .start _ tok => [tok]
  | .finish _ => []
  | .msg r => [r.token]

/-- a key that forgets the length: the bytes packed big-endian into the number (seeded C10-V) -/
def packKey (t : Token) : Nat := t.foldl (fun a b => a * 256 + b) 0

/-- the history of a `discover tok D1:S1 …` line: all discoveries start; responder k (connection k) answers with D_k and sends
    a stray with S_k; client k (connection 100+k) sends a request with S_k; the discoveries end -/
def lineEvents (pairs : List (Token × Token)) : List KEv :=
  let ix := pairs.zipIdx
  ix.map (fun p => KEv.start p.2 p.1.1)
  ++ (ix.map (fun p => [KEv.msg ⟨p.1.1, p.2, 0⟩, KEv.msg ⟨p.1.2, p.2, 1⟩])).flatten
  ++ ix.map (fun p => KEv.msg ⟨p.1.2, 100 + p.2, 2⟩)
  ++ ix.map (fun p => KEv.finish p.2)

end CoapVerif.Model.ServerTokenKeys
