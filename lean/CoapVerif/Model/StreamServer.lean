import CoapVerif.Spec.StreamServer
import CoapVerif.Generated.ConnRegistry
/-!
Model of the connection bookkeeping of the stream and DTLS servers (`tcp/server/server.go`, `dtls/server/server.go`:
`Serve`, `serveConnection`; `pkg/connections/connections.go`), as the code is.

**Keys of the three servers' connection tables.**
* `udp/server`: the peer table `Server.conns` is keyed by `getConnKey(raddr, laddr)` = remote address + normalised LOCAL
  address (`Model/Server.lean: normLocal`): one logical connection per (remote, local) pair, as the property words it.
* `tcp/server` and `dtls/server`: every accepted `net.Conn` gets its own `client.Conn` and its own goroutine
  (`serveConnection`): the connection object IS the logical connection, messages are never looked up in a table.  The only
  table is the registry `connections.Connections`, a `sync.Map`.  It is used by two things: the housekeeping pass
  (`CheckExpirations` of every registered connection that is not done: inactivity monitor / keep-alive) and the end of
  `Serve` (`connections.Close()` closes every registered connection; then `wg.Wait()` waits for every `serveConnection`).
  Its KEY is a regenerated fact (`Generated/ConnRegistry.lean: key`, recognised in `Store` / `Delete` by the extractor,
  which fails closed on any other shape) and the model branches on it:
  - `.connection` (the code since b69b0e7, repair of F40): `Store(conn, conn)` / `Delete(conn)` - one entry per connection;
  - `.remoteAddr` (the code before, and the world of seeded C10-T): `Store(conn.RemoteAddr().String(), conn)` overwrites,
    `Delete` removes whatever is registered under the remote address of the connection that ended.

`live` = connections whose `serveConnection` is inside `cc.Run()`.  `reg` = the registry (remote ↦ connection id).
-/
namespace CoapVerif.Model.StreamServer
open CoapVerif.Spec.StreamServer
open CoapVerif.Generated.ConnRegistry (RegKey)

structure State where
  live : List SConn := []
  reg : List (Nat × Nat) := []
  stopped : Bool := false
  deriving Repr, DecidableEq

/-- the registry key of a connection -/
def regKeyOf : RegKey → SConn → Nat
  | .remoteAddr, x => x.remote
  | .connection, x => x.id

/-- `Connections.Store`: `sync.Map.Store(<key>, conn)` -/
def regStore (reg : List (Nat × Nat)) (r c : Nat) : List (Nat × Nat) := reg.filter (fun e => e.1 != r) ++ [(r, c)]

/-- `Connections.Delete`: `sync.Map.Delete(<key>)` - by key, whoever is registered there -/
def regDelete (reg : List (Nat × Nat)) (r : Nat) : List (Nat × Nat) := reg.filter (fun e => e.1 != r)

def registered (s : State) (c : Nat) : Bool := s.reg.any (fun e => e.2 == c)

def step (k : RegKey) (s : State) : Ev → State
  | .opn c r l =>
    if s.stopped || s.live.any (fun x => x.id == c) then s
    else { s with live := s.live ++ [⟨c, r, l⟩], reg := regStore s.reg (regKeyOf k ⟨c, r, l⟩) c }
  | .req _ => s
  | .cls c =>
    match s.live.find? (fun x => x.id == c) with
    | some x => { s with live := s.live.filter (fun y => y.id != c), reg := regDelete s.reg (regKeyOf k x) }
    | none => s
  | .sweep => s
  | .stop =>
    -- `connections.Close()` closes the registered connections; a connection that is not registered stays in its blocking
    -- Read until its peer hangs up, and `Serve` stays in `wg.Wait()`
    { s with stopped := true, live := s.live.filter (fun x => !registered s x.id), reg := [] }

def run (k : RegKey) (s : State) (evs : List Ev) : State := evs.foldl (step k) s

/-- what an event shows: `opn`/`req` served?  `sweep`: the connections the pass visits; `stop`: does Serve return? -/
inductive Out
  | served (b : Bool)
  | none
  | visited (ids : List Nat)
  | serveEnded (b : Bool)
  deriving Repr, DecidableEq

/-- observation of event `e` made in the state AFTER it (for `stop`: judged on the state before it, passed as `s0`) -/
def out (s0 s : State) : Ev → Out
  | .opn c _ _ => .served (s.live.any (fun x => x.id == c))
  | .req c => .served (s.live.any (fun x => x.id == c))
  | .cls _ => .none
  | .sweep => .visited ((s.reg.map (·.2)).filter (fun c => s.live.any (fun x => x.id == c)))
  | .stop => .serveEnded (s0.live.all (fun x => registered s0 x.id))

end CoapVerif.Model.StreamServer
