import CoapVerif.Model.StreamServer
/-!
C10, eleventh seeded round (C10-W): the ACCEPT LOOP of the stream / DTLS servers (`tcp/server/server.go`, `dtls/server/server.go`:
`Serve`, `checkAcceptError`) under connection attempts that FAIL.

`Accept` can return an error although the listener is not closed and the server's context is alive: the process is short of
file descriptors (EMFILE / ENFILE, e.g. under a connection flood), a peer reset its connection while it sat in the backlog
(ECONNABORTED), a DTLS peer was refused by the application's filter.  The code as it is: `checkAcceptError` answers `true`
(keep serving) for every such error and `Serve` calls `Accept` again at once - nothing of the server's state changes, in
particular nothing that is remembered over the server's life.

The history vocabulary of `Spec/StreamServer.lean` is extended by the event `acceptFail`; the state carries the number of
failed Accepts of the server's LIFE (`failures`) - the quantity a pause that grows with it would depend on - so that the theorems
of `Props/C10Accept.lean` can say that no observable of the server depends on it: a history with failures equals the history
without them, for any number of failures (there is no bound; the k-th failure may come arbitrarily late).
-/
namespace CoapVerif.Model.StreamServerAccept
open CoapVerif.Spec.StreamServer CoapVerif.Model.StreamServer
open CoapVerif.Generated.ConnRegistry (RegKey)

inductive AEv
  | ev (e : Ev)       -- an event of `Spec.StreamServer.Ev`
  | acceptFail        -- `Accept` returns a transient error (listener open, context alive)
  deriving Repr, DecidableEq

structure AState where
  srv : State := {}
  failures : Nat := 0      -- failed Accepts since the server was started
  deriving Repr, DecidableEq

def astep (k : RegKey) (s : AState) : AEv → AState
  | .ev e => { s with srv := step k s.srv e }
  | .acceptFail => { s with failures := s.failures + 1 }   -- `default: return true`; `continue`; `Accept` again

def arun (k : RegKey) (s : AState) (evs : List AEv) : AState := evs.foldl (astep k) s

/-- the history without its failed Accepts -/
def strip : List AEv → List Ev
  | [] => []
  | .ev e :: t => e :: strip t
  | .acceptFail :: t => strip t

/-- after a failed Accept: is the accept loop inside `Accept` again (without delay)?  It is unless the server was stopped. -/
def accepting (s : AState) : Bool := !s.srv.stopped

/-- specification: a failed Accept opens and closes nothing -/
def openStepA (t : List SpecConn) : AEv → List SpecConn
  | .ev e => openStep t e
  | .acceptFail => t

def openSpecA (evs : List AEv) : List SpecConn := evs.foldl openStepA []

end CoapVerif.Model.StreamServerAccept
