import CoapVerif.Spec.SeqMap
import CoapVerif.Generated.SyncShape
/-!
Model of `pkg/sync/map.go` (after the F7 repair: `LoadOrStore` is one write-locked section).

The Go map is an association list in insertion order (`set` replaces in place or appends, `erase` removes the entry);
that keys are unique is an invariant proved separately (`Lemmas/SyncMap.lean`).  Every method is given as

* its **shape** — the list of sections (lock kind, primitive operations in source order) that `shape_agrees` compares
  with what the extractor reads from the source on every run, and
* the **effect** of its critical section as a function on the association list.

All methods except `Range` consist of exactly one locked section, hence one atomic step; `Range` releases the read lock
around every callback: it is a sequence of read-locked steps, each of which advances Go's map iterator once.
Go's iteration order (and which entries an iteration that races with writers produces) is not modelled: the order is an
oracle supplied with the call, and the model allows *every* oracle.
-/
namespace CoapVerif.Model.SyncMap
open CoapVerif.Spec.SeqMap (Val Entries RFn Res Op applyR)
open CoapVerif.Generated.SyncShape (Lock Prim Section)

/-! ### the Go map -/

/-- `v, ok := m.data[key]` -/
def mget (k : Nat) : Entries → Option Val
  | [] => none
  | (k', v) :: t => if k' = k then some v else mget k t

/-- `m.data[key] = value` -/
def mset (k : Nat) (v : Val) : Entries → Entries
  | [] => [(k, v)]
  | (k', v') :: t => if k' = k then (k, v) :: t else (k', v') :: mset k v t

/-- `delete(m.data, key)` -/
def merase (k : Nat) : Entries → Entries
  | [] => []
  | (k', v') :: t => if k' = k then t else (k', v') :: merase k t

/-- canonical listing (sorted by key): what `CopyData`, `LoadAndDeleteAll` and `Range2` report once the harness has
    sorted the Go map they return / visit -/
def insertSorted (k : Nat) (v : Val) : Entries → Entries
  | [] => [(k, v)]
  | (k', v') :: t => if k < k' then (k, v) :: (k', v') :: t else if k = k' then (k, v) :: t else (k', v') :: insertSorted k v t

def canon (m : Entries) : Entries := m.foldr (fun e acc => insertSorted e.1 e.2 acc) []

/-! ### effect of the single critical section of each method: `(result, new map)` -/

def msetOpt (k : Nat) (v : Option Val) (m : Entries) : Entries :=
  match v with
  | some v => mset k v m
  | none => merase k m

/-- the methods of `Map` that are one locked section -/
def mapSection (op : Op) (m : Entries) : Option (Entries × Res) :=
  match op with
  | .store k v => some (mset k v m, .unit)
  | .load k => some (m, .opt (mget k m))
  | .loadOrStore k v =>
    -- Lock; v, ok := data[key]; if ok return v, true; data[key] = value; return value, false
    match mget k m with
    | some o => some (m, .stored o true)
    | none => some (mset k v m, .stored v false)
  | .replace k v => some (mset k v m, .opt (mget k m))
  | .delete k => some (merase k m, .unit)
  | .loadAndDelete k => some (merase k m, .opt (mget k m))
  | .loadAndDeleteAll => some ([], .dump (canon m))
  | .copyData => some (m, .dump (canon m))
  | .length => some (m, .num m.length)
  | .range2 => some (m, .dump (canon m))
  | .storeWithFunc k v => some (mset k v m, .unit)
  | .loadWithFunc k d => some (m, .optCb ((mget k m).map (·.add d)) (mget k m))
  | .loadOrStoreWithFunc k d v =>
    match mget k m with
    | some o => some (m, .storedCb (o.add d) true (some o))
    | none => some (mset k v m, .storedCb v false none)
  | .replaceWithFunc k f => some (msetOpt k (applyR f (mget k m)) m, .optCb (mget k m) (mget k m))
  | .deleteWithFunc k => some (merase k m, .optCb none (mget k m))
  | .loadAndDeleteWithFunc k d => some (merase k m, .optCb ((mget k m).map (·.add d)) (mget k m))
  | _ => none

/-! ### shapes (hand-written next to the effects above; compared with the generated ones by `shape_agrees`) -/

def mapShapes : List (String × List Section) := [
  ("Store", [(.w, [.write])]),
  ("Load", [(.r, [.read])]),
  ("LoadOrStore", [(.w, [.read, .write])]),
  ("Replace", [(.w, [.read, .write])]),
  ("Delete", [(.w, [.delete])]),
  ("LoadAndDelete", [(.w, [.read, .delete])]),
  ("LoadAndDeleteAll", [(.w, [.take, .swap])]),
  ("CopyData", [(.r, [.copy])]),
  ("Length", [(.r, [.len])]),
  ("Range", [(.r, [.iterate, .loopBegin]), (.none, [.cb "f"]), (.r, [.loopEnd])]),
  ("Range2", [(.r, [.iterate, .loopBegin, .cb "f", .loopEnd])]),
  ("StoreWithFunc", [(.w, [.cb "createFunc", .write])]),
  ("LoadWithFunc", [(.r, [.read, .cb "onLoadFunc"])]),
  ("LoadOrStoreWithFunc", [(.w, [.read, .cb "onLoadFunc", .cb "createFunc", .write])]),
  ("ReplaceWithFunc", [(.w, [.read, .cb "onReplaceFunc", .delete, .write])]),
  ("DeleteWithFunc", [(.none, [.call "LoadAndDeleteWithFunc", .argBegin, .cb "onDeleteFunc", .argEnd])]),
  ("LoadAndDeleteWithFunc", [(.none, [.call "ReplaceWithFunc", .argBegin, .cb "onLoadFunc", .argEnd])])
]

/-- the Go method that implements an operation of the model -/
def methodOf : Op → Option String
  | .store .. => some "Store" | .load .. => some "Load" | .loadOrStore .. => some "LoadOrStore"
  | .replace .. => some "Replace" | .delete .. => some "Delete" | .loadAndDelete .. => some "LoadAndDelete"
  | .loadAndDeleteAll => some "LoadAndDeleteAll" | .copyData => some "CopyData" | .length => some "Length"
  | .range .. => some "Range" | .range2 => some "Range2" | .storeWithFunc .. => some "StoreWithFunc"
  | .loadWithFunc .. => some "LoadWithFunc" | .loadOrStoreWithFunc .. => some "LoadOrStoreWithFunc"
  | .replaceWithFunc .. => some "ReplaceWithFunc" | .deleteWithFunc .. => some "DeleteWithFunc"
  | .loadAndDeleteWithFunc .. => some "LoadAndDeleteWithFunc"
  | _ => none

/-- Number of locked sections a call of `name` executes, following calls of other methods of the object (loops count
    once: this is used for the straight-line methods only).  `none` = unknown method or recursion deeper than `fuel`. -/
def lockedSections (table : List (String × List Section)) : Nat → String → Option Nat
  | 0, _ => none
  | fuel + 1, name =>
    match table.lookup name with
    | none => none
    | some secs =>
      secs.foldl (fun acc sec =>
        match acc with
        | none => none
        | some n =>
          let own := if sec.1 = Lock.none then 0 else 1
          sec.2.foldl (fun acc p =>
            match acc, p with
            | some n, Prim.call m => (lockedSections table fuel m).map (· + n)
            | a, _ => a) (some (n + own))) (some 0)

end CoapVerif.Model.SyncMap
