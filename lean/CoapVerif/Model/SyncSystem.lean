import CoapVerif.Spec.SeqMap
/-!
A concurrent system of threads calling operations of a shared object whose methods are sequences of **atomic steps**
(one step = one critical section together with the lock-free code around it).  A schedule is an arbitrary list of
thread ids; scheduling a thread runs its next atomic step.  The run produces the history of call / return events that
`Spec.SeqMap.Lin` talks about: the call event is emitted with the first step of an operation and the return event with
its last step (the tightest intervals a real execution can show).
-/
namespace CoapVerif.Model.SyncSystem
open CoapVerif.Spec.SeqMap (Op Res Ev)

/-- An implementation: `δ` shared state, `P` what a program invokes (an operation plus whatever nondeterminism the
    environment resolves for it, e.g. the order in which Go iterates a map), `L` the local state of a running call. -/
structure Impl (δ P L : Type) where
  view : P → Op                       -- the operation as the history shows it
  start : P → L                       -- local state when the call starts
  step : L → δ → δ × (L ⊕ Res)        -- one atomic step: continue, or return a result

inductive TSt (P L : Type)
  | idle (prog : List P)              -- between calls; `prog` = calls still to make
  | run (l : L) (prog : List P)       -- inside a call
  deriving Repr

def upd {β : Type} (f : Nat → β) (i : Nat) (v : β) : Nat → β := fun j => if j = i then v else f j

/-- schedule thread `t` once -/
def sched1 {δ P L : Type} (I : Impl δ P L) (d : δ) (ths : Nat → TSt P L) (t : Nat) : δ × (Nat → TSt P L) × List Ev :=
  match ths t with
  | .idle [] => (d, ths, [])
  | .idle (p :: rest) =>
    match I.step (I.start p) d with
    | (d', .inl l') => (d', upd ths t (.run l' rest), [.call t (I.view p)])
    | (d', .inr r) => (d', upd ths t (.idle rest), [.call t (I.view p), .ret t r])
  | .run l rest =>
    match I.step l d with
    | (d', .inl l') => (d', upd ths t (.run l' rest), [])
    | (d', .inr r) => (d', upd ths t (.idle rest), [.ret t r])

/-- the history of a whole schedule -/
def history {δ P L : Type} (I : Impl δ P L) (d : δ) (ths : Nat → TSt P L) : List Nat → List Ev
  | [] => []
  | t :: ts =>
    let r := sched1 I d ths t
    r.2.2 ++ history I r.1 r.2.1 ts

/-- final shared state of a schedule -/
def finalState {δ P L : Type} (I : Impl δ P L) (d : δ) (ths : Nat → TSt P L) : List Nat → δ
  | [] => d
  | t :: ts =>
    let r := sched1 I d ths t
    finalState I r.1 r.2.1 ts

end CoapVerif.Model.SyncSystem
