import CoapVerif.Generated.TableShape
/-!
Model of the per-connection tables for C13 ("no per-exchange state outlives the exchange").

The *sites* are the insertions found in today's source (`Generated.TableShape.insertions`, re-read from
the AST on every run): token and message-ID continuations (`udp/client/conn.go`, `tcp/client/conn.go`),
the token → message-ID entry of a confirmable request that is being written (`udp/client/conn.go`
`requestMessageIDs`: inserted by `writeMessage`, removed by its deferred `Delete`, read by `Conn.handle` — repair of F42),
the response cache, block-wise receive/send caches (`net/blockwise/blockwise.go`), the observation table
(`net/observation/handler.go`), limiter endpoint queues (`limitParallelRequests.go`), the per-message-ID lock
map (`udp/client/mutexmap.go`), the discovery tables (`udp/server/discover.go`).  Each site is classified by
the removal the source pairs with it:

* `bracket`   removed when the function that inserted it returns, on every path (deferred call; closure
              appended to `closeFns` — counted only if the extractor also finds `defer closeFn()` in *every*
              caller of the inserting function, which is the case for `writeMessage` and `writeMessageAsync`:
              an asynchronously written confirmable message loses its entry when the write returns, it does
              not rely on the sweep; `defer l.Unlock()` with a reference count);
* `handle`    removed by a cancel closure that the inserting function *returns to its caller* (`AsyncPing`):
              the source guarantees the removal only if that caller invokes the closure.  The library's own
              caller `Client.Ping` defers it (`Generated.TableShape.pingDefersCancel`, read from the AST); an
              application that calls `AsyncPing` directly carries the obligation itself.  In the entry machine
              "the exchange returns" (`finish`) for a handle site *means* that the closure has been invoked;
* `expiring`  stored in an expiring cache with a deadline; removed by the housekeeping tick after it;
* `bracketExpiring` both;
* `live`      removed by an error-guarded deferred clean-up when the registering call fails, kept while
              the registration is live, removed when the application cancels it (observations).

`TState` is the multiset of entries; `TEvent`s are insertion, early removal (first match, completed
transfer), return of an exchange, cancellation of a live registration and the housekeeping tick.
The machine does **not** forbid an insertion on behalf of an exchange that has already returned or been
cancelled (a deferred delete followed by an asynchronous re-insert, e.g. from a receive path): such an entry
simply stays.  That this does not happen is the explicit hypothesis `WellTimed` of the theorems, and the
harness asserts it on the real code (no table grows when a peer message for an ended exchange is processed).
Two small separate models follow the reference-counted lock map and the limiter's endpoint entries.
-/
namespace CoapVerif.Model.Tables
open CoapVerif.Generated.TableShape

inductive Cls | bracket | handle | expiring | bracketExpiring | live
  deriving Repr, DecidableEq

def isBracketTag (x : String) : Bool :=
  x == "defer" || x.startsWith "closeFns:" || x.startsWith "caller-defer:" || x == "defer-unlock"

/-- classification of a site by the removals the extractor found; `none` = nothing pairs with the insertion -/
def classify (removal : List String) : Option Cls :=
  let br := removal.any isBracketTag
  let ex := removal.contains "expiry"
  let lv := removal.any (·.startsWith "errdefer:")
  let hd := removal.contains "returned-closure"
  if lv then some .live
  else if br && ex then some .bracketExpiring
  else if br then some .bracket
  else if hd then some .handle
  else if ex then some .expiring
  else none

/-- the sites of today's source -/
def sites : List Insertion := insertions

def siteCls (i : Nat) : Option Cls := (sites[i]?).bind (fun s => classify s.removal)

/-- every insertion has its removal on every exit path, or lives in an expiring cache, or is a live registration -/
def bracketedB : Bool := sites.all (fun s => (classify s.removal).isSome)

/-- the sites the model treats as brackets (removed when the inserting function returns): (function, table) -/
def expectedBrackets : List (String × String) := [
  ("BlockWise.Do", "sendingMessagesCache"),
  ("LimitParallelRequests.acquireEndpoint", "endpointQueues"),
  ("Conn.doInternal", "tokenHandlerContainer"),
  ("Conn.prepareWriteMessage", "midHandlerContainer"),
  ("Conn.writeMessage", "requestMessageIDs"),
  ("MutexMap.Lock", "ma"),
  ("Server.DiscoveryRequest", "multicastRequests"),
  ("Server.DiscoveryRequest", "multicastHandler")]

/-- the sites whose removal is a cancel closure handed to the caller: (function, table) -/
def expectedHandles : List (String × String) := [
  ("Conn.asyncPing", "tokenHandlerContainer"),
  ("Conn.asyncPing", "midHandlerContainer")]

def isBracketCls : Option Cls → Bool
  | some .bracket => true | some .bracketExpiring => true | _ => false

/-- the handle sites are handles, and the library's own user of them (`Client.Ping`) defers the closure -/
def handleSitesAgreeB : Bool :=
  expectedHandles.all (fun p =>
    sites.any (fun s => s.func == p.1 && s.table == p.2) &&
    (sites.filter (fun s => s.func == p.1 && s.table == p.2)).all (fun s => classify s.removal == some .handle)) &&
  pingDefersCancel

/-- every site with one of these (function, table) pairs is a bracket, and each pair occurs -/
def bracketSitesAgreeB : Bool :=
  expectedBrackets.all (fun p =>
    sites.any (fun s => s.func == p.1 && s.table == p.2) &&
    (sites.filter (fun s => s.func == p.1 && s.table == p.2)).all (fun s => isBracketCls (classify s.removal)))

structure Entry where
  site : Nat
  key : Nat
  owner : Nat
  deadline : Int
  deriving Repr, DecidableEq

structure TState where
  entries : List Entry := []
  ended : List Nat := []       -- exchanges whose inserting function has returned
  failed : List Nat := []      -- … with an error
  cancelled : List Nat := []   -- live registrations the application cancelled
  deriving Repr

inductive TEvent
  | insert (site key owner : Nat) (deadline : Int)
  | consume (site key : Nat)
  | finish (owner : Nat) (ok : Bool)
  | cancelLive (owner : Nat)
  | tick (now : Int)
  deriving Repr, DecidableEq

/-- removed when the exchange returns (for a handle site: when the holder invokes the closure, see above) -/
def isBracket : Option Cls → Bool
  | some .bracket => true | some .bracketExpiring => true | some .handle => true | _ => false
def isExpiring : Option Cls → Bool
  | some .expiring => true | some .bracketExpiring => true | _ => false
def isLive : Option Cls → Bool
  | some .live => true | _ => false

def tstep (s : TState) : TEvent → TState
  | .insert site key owner deadline =>
    -- register-if-absent (whoever the owner is, whenever it happens)
    if s.entries.any (fun e => e.site == site && e.key == key) then s
    else { s with entries := ⟨site, key, owner, deadline⟩ :: s.entries }
  | .consume site key => { s with entries := s.entries.filter (fun e => !(e.site == site && e.key == key)) }
  | .finish owner ok =>
    { s with ended := owner :: s.ended,
             failed := if ok then s.failed else owner :: s.failed,
             entries := s.entries.filter (fun e =>
               !(e.owner == owner && (isBracket (siteCls e.site) || (!ok && isLive (siteCls e.site))))) }
  | .cancelLive owner =>
    { s with cancelled := owner :: s.cancelled,
             entries := s.entries.filter (fun e => !(e.owner == owner && isLive (siteCls e.site))) }
  | .tick now =>
    { s with entries := s.entries.filter (fun e => !(isExpiring (siteCls e.site) && e.deadline < now)) }

def trun (evs : List TEvent) : TState := evs.foldl tstep {}

/-- **No insertion after the owner returned**: in the history `evs` continued from state `s`, every insertion is made on
    behalf of an exchange that has neither returned nor been cancelled at that moment. -/
def WellTimed : TState → List TEvent → Prop
  | _, [] => True
  | s, e :: es =>
    (match e with
     | .insert _ _ owner _ => owner ∉ s.ended ∧ owner ∉ s.cancelled
     | _ => True) ∧ WellTimed (tstep s e) es

/-- number of entries of one table (by the table's field name) -/
def tableSize (s : TState) (table : String) : Nat :=
  (s.entries.filter (fun e => match sites[e.site]? with | some i => i.table == table | none => false)).length

/-- tables all of whose sites are brackets: their size is bounded by the work in progress at every moment -/
def bracketOnly (table : String) : Bool :=
  (sites.filter (·.table == table)).all (fun s => classify s.removal == some .bracket || classify s.removal == some .handle) &&
  (sites.any (·.table == table))

/-! ### The reference-counted lock map (`udp/client/mutexmap.go`) -/

/-- `ma`: key ↦ reference count of its entry -/
abbrev LockMap := Nat → Option Nat

inductive LEvent | lock (k : Nat) | unlock (k : Nat)
  deriving Repr, DecidableEq

/-- `Lock`: read-or-create the entry, `cnt++`.  `Unlock`: the entry must exist (else the code panics = `none`);
    `cnt--`, delete at `cnt < 1`. -/
def lstep (m : LockMap) : LEvent → Option LockMap
  | .lock k => some (fun i => if i = k then some ((m k).getD 0 + 1) else m i)
  | .unlock k =>
    match m k with
    | none => none
    | some n => some (fun i => if i = k then (if n - 1 < 1 then none else some (n - 1)) else m i)

def lrun : LockMap → List LEvent → Option LockMap
  | m, [] => some m
  | m, e :: es => match lstep m e with
    | some m' => lrun m' es
    | none => none

/-- the number of goroutines that hold or wait for each key (locks minus unlocks), kept beside the map -/
def hstep (c : Nat → Nat) : LEvent → (Nat → Nat)
  | .lock k => fun i => if i = k then c i + 1 else c i
  | .unlock k => fun i => if i = k then c i - 1 else c i

/-- a history in which only holders unlock (`defer l.Unlock()` after `l := Lock(k)`) -/
def LValid : (Nat → Nat) → List LEvent → Prop
  | _, [] => True
  | c, .lock k :: es => LValid (hstep c (.lock k)) es
  | c, .unlock k :: es => c k > 0 ∧ LValid (hstep c (.unlock k)) es

def hrun (c : Nat → Nat) (es : List LEvent) : Nat → Nat := es.foldl hstep c

/-! ### Endpoint entries of the limiter (`limitParallelRequests.go`: acquireEndpoint / releaseEndpoint / cancelEndpoint) -/

/-- key ↦ (processedCounter, queued waiters) -/
abbrev Queues := Nat → Option (Nat × Nat)

inductive QEvent | acquire (k : Nat) | release (k : Nat) | cancelWaiter (k : Nat)
  deriving Repr, DecidableEq

def qstep (limit : Nat) (q : Queues) : QEvent → Queues
  | .acquire k =>
    match q k with
    | none => fun i => if i = k then some (1, 0) else q i
    | some (c, w) => fun i => if i = k then (if c < limit then some (c + 1, w) else some (c, w + 1)) else q i
  | .release k =>
    match q k with
    | none => q
    | some (c, w) =>
      fun i => if i = k then (if w > 0 then some (c, w - 1) else if c - 1 = 0 then none else some (c - 1, w)) else q i
  | .cancelWaiter k =>
    match q k with
    | none => q
    | some (c, w) => fun i => if i = k then some (c, w - 1) else q i

/-- requests that hold or wait for an endpoint slot, kept beside the table -/
def ostep (c : Nat → Nat) : QEvent → (Nat → Nat)
  | .acquire k => fun i => if i = k then c i + 1 else c i
  | .release k => fun i => if i = k then c i - 1 else c i
  | .cancelWaiter k => fun i => if i = k then c i - 1 else c i

end CoapVerif.Model.Tables
