import CoapVerif.Model.UdpCoder
/-!
# Model of `tcp/coder/coder.go`: `getHeader`, `Size`, `Encode`, `DecodeHeader`, `DecodeWithHeader`, `Decode`

Same conventions as `Model/UdpCoder.lean`.  `uint32` arithmetic is modulo 2^32 where the source
computes in `uint32`; the declared stream length is computed in 64 bits (no reachable wrap) and
refused above `math.MaxUint32`, as the source does.
-/
set_option linter.unusedVariables false
namespace CoapVerif.Model.TcpCoder
open CoapVerif.Generated.Codec CoapVerif.Generated.OptionDefs
open CoapVerif.Spec.Wire (Bytes Opt Msg)
open CoapVerif.Model.OptionCodec
open CoapVerif.Model.UdpCoder (EncRes)

def u32 (n : Nat) : Nat := n % 4294967296

/-- `getHeader(messageLength)`: length nibble and extended-length bytes. -/
def getHeader (messageLength : Nat) : Nat × Bytes :=
  if messageLength < msgLen13Base then (messageLength % 256, [])
  else if messageLength < msgLen14Base then
    let extLen := messageLength - msgLen13Base
    (13, [UInt8.ofNat extLen])
  else if messageLength < msgLen15Base then
    let extLen := (messageLength - msgLen14Base) % 65536
    (14, [UInt8.ofNat (extLen / 256), UInt8.ofNat (extLen % 256)])
  else if messageLength < messageMaxLen then
    let extLen := u32 (messageLength - msgLen15Base)
    (15, [UInt8.ofNat (extLen / 16777216), UInt8.ofNat (extLen / 65536 % 256), UInt8.ofNat (extLen / 256 % 256),
          UInt8.ofNat (extLen % 256)])
  else (0, [])

/-- `Coder.Encode(m, buf)`; `buf` may be nil (`Size` passes nil), which only matters through `len`. -/
def encode (m : Msg) (buf : Bytes) : Except Err EncRes :=
  if m.token.length > maxTokenSize then .error .badToken
  else if m.code > 255 then .error .badCode                   -- `codes.Code` is a uint16, the header has one byte
  else do
    let payloadLen := m.payload.length
    let payloadLen := if payloadLen > 0 then payloadLen + 1 else payloadLen
    let (optionsLen, small, _) ← optionsMarshal none m.options
    if !small then .error .panic        -- `!errors.Is(err, ErrTooSmall)`; unreachable, see `optionsMarshal_nil`
    else
      let bufLen := payloadLen + optionsLen
      let (lenNib, extLenBytes) := getHeader bufLen
      -- hdr [14]byte filled front to back: first byte, extended length, code, token
      let hdrLen := 1 + extLenBytes.length + m.token.length + 1
      let first : UInt8 := UInt8.ofNat m.token.length ||| (UInt8.ofNat lenNib <<< 4)
      let hdr : Bytes := first :: (extLenBytes ++ (UInt8.ofNat m.code :: m.token))
      let bufLen := bufLen + hdrLen
      if buf.length < bufLen then .ok ⟨bufLen, true, buf⟩
      else do
        let h ← sliceTo hdr hdrLen
        let buf := goCopy buf h
        let ((optionsLen, small), buf) ← withSub buf hdrLen fun sub => do
          let (n, s, sub') ← optionsMarshal (some sub) m.options
          .ok ((n, s), sub')
        if small then .ok ⟨bufLen, true, buf⟩
        else if m.payload.length > 0 then do
          let ((), buf) ← withSub buf (hdrLen + optionsLen) fun sub => .ok ((), goCopy sub [0xff])
          let ((), buf) ← withSub buf (hdrLen + optionsLen + 1) fun sub => .ok ((), goCopy sub m.payload)
          .ok ⟨bufLen, false, buf⟩
        else .ok ⟨bufLen, false, buf⟩

/-- `Coder.Size(m)` = `Encode(m, nil)` with `ErrTooSmall` cleared. -/
def size (m : Msg) : Except Err Nat := do
  let r ← encode m []
  .ok r.n

/-- `MessageHeader` -/
structure Header where
  token : Bytes
  length : Nat
  messageLength : Nat
  code : Nat
deriving Repr, DecidableEq

/-- Second half of `DecodeHeader` (after the extended length): declared length, code, token. -/
def decodeHeaderRest (tkl opLen : Nat) (data : Bytes) (hdrOff : Nat) : Except Err Header :=
  let messageLength := hdrOff + 1 + tkl + opLen            -- computed in uint64
  if messageLength > 4294967295 then .error .invalidLen   -- > math.MaxUint32
  else if data.length < 1 then .error .shortRead
  else do
    let code ← idx data 0
    let data ← sliceFrom data 1
    let hdrOff := hdrOff + 1
    if data.length < tkl then .error .shortRead
    else do
      let token ← (if tkl > 0 then sliceTo data tkl else pure [] : Except Err Bytes)
      let hdrOff := hdrOff + tkl
      .ok ⟨token, hdrOff, messageLength, code.toNat⟩

/-- `Coder.DecodeHeader(data, h)` -/
def decodeHeader (data : Bytes) : Except Err Header :=
  if data.length = 0 then .error .shortRead
  else do
    let firstByte ← idx data 0
    let data ← sliceFrom data 1
    let hdrOff := 1
    let lenNib := ((firstByte &&& 0xf0) >>> 4).toNat
    let tkl := (firstByte &&& 0x0f).toNat
    if tkl > maxTokenSize then .error .badToken          -- RFC 8323 §3.2: TKL 9-15 are reserved
    else
      if lenNib < msgLen13Base then decodeHeaderRest tkl lenNib data hdrOff
      else if lenNib = 13 then
        if data.length < 1 then .error .shortRead
        else do
          let extLen ← idx data 0
          let data ← sliceFrom data 1
          decodeHeaderRest tkl (msgLen13Base + extLen.toNat) data (hdrOff + 1)
      else if lenNib = 14 then
        if data.length < 2 then .error .shortRead
        else do
          let extLen ← getU16 data
          let data ← sliceFrom data 2
          decodeHeaderRest tkl (msgLen14Base + extLen) data (hdrOff + 2)
      else if lenNib = 15 then
        if data.length < 4 then .error .shortRead
        else do
          let extLen ← getU32 data
          let data ← sliceFrom data 4
          decodeHeaderRest tkl (msgLen15Base + extLen) data (hdrOff + 4)
      else decodeHeaderRest tkl 0 data hdrOff

/-- Signal-code → option-definition table of `DecodeWithHeader`. -/
def defsFor (code : Nat) : Defs :=
  if code = codeCSM then tcpSignalCSMOptionDefs
  else if code = codePing ∨ code = codePong then tcpSignalPingPongOptionDefs
  else if code = codeRelease then tcpSignalReleaseOptionDefs
  else if code = codeAbort then tcpSignalAbortOptionDefs
  else coapOptionDefs

/-- `Coder.DecodeWithHeader(data, header, m)` into a message with empty payload and an option slice
with `len = 0`, `cap = cap`. -/
def decodeWithHeader (cap : Nat) (data : Bytes) (h : Header) : Except Err (Msg × Nat) := do
  let processed := h.length
  let (opts, proc) ← optionsUnmarshal (defsFor h.code) cap 0 data
  let data ← sliceFrom data proc
  let processed := u32 (processed + u32 proc)
  let processed := u32 (processed + u32 data.length)
  .ok (⟨0, 0, h.code, h.token, opts, data⟩, processed)

/-- `Coder.Decode(data, m)` -/
def decode (cap : Nat) (data : Bytes) : Except Err (Msg × Nat) := do
  let h ← decodeHeader data
  if u32 data.length < h.messageLength then .error .shortRead
  else do
    let d ← sliceTo data h.messageLength               -- data[header.Length:header.MessageLength]
    let d ← sliceFrom d h.length
    decodeWithHeader cap d h

end CoapVerif.Model.TcpCoder
