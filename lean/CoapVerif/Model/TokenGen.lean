import CoapVerif.Generated.TokenHash
/-!
Model of the default token generator (`message/getToken.go`: `GetToken`), the mechanism "random 8-byte tokens by default" of C03.

The system's random source is the sequence of its reads: `src k` = the bytes the k-th read of the process returned.  `GetToken` as
the code is — `b := make(Token, 8); rand.Read(b); return b` — has no state of its own: every call is one read of the source and the
token is what that read returned.  The only state is therefore the number of reads made so far (tokens drawn for requests of any
connection, pings, CSMs, block-wise fetches and tokens drawn and never used all count).
-/
namespace CoapVerif.Model.TokenGen

abbrev Token := List UInt8

/-- the random source of the process as the sequence of its reads (each of `Generated.TokenHash.randomTokenLen` bytes) -/
abbrev Source := Nat → Token

structure Gen where
  reads : Nat := 0
  deriving Repr, DecidableEq

/-- `message.GetToken`: one read of the source, the token is what it returned -/
def getToken (src : Source) (g : Gen) : Token × Gen := (src g.reads, { reads := g.reads + 1 })

/-- the next `n` tokens, in the order they are handed out -/
def draw (src : Source) : Nat → Gen → List Token
  | 0, _ => []
  | n + 1, g => (getToken src g).1 :: draw src n (getToken src g).2

/-- the generator after `n` draws -/
def after (n : Nat) (g : Gen) : Gen := { reads := g.reads + n }

/-- the reads `lo … lo+n-1` of the source returned pairwise different byte strings (for 8 random bytes: all but a fraction
    of at most n²/2⁶⁵ of the sources) -/
def SrcFresh (src : Source) (lo n : Nat) : Prop := ∀ i j, i < n → j < n → src (lo + i) = src (lo + j) → i = j

end CoapVerif.Model.TokenGen
