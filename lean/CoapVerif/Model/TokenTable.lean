import CoapVerif.Generated.TableShape
import CoapVerif.Generated.TokenHash
/-!
Model of the token-handler table of a client connection and of the hand-over of a response to the
waiting caller (C03):

* `udp/client/conn.go`: `doInternal` (register-if-absent under `token.Hash()`, deferred
  `LoadAndDelete`, one-slot `respChan` with non-blocking send — the closure first lets the response
  acknowledge its own request —, `select` on request context / connection context / `respChan`), `writeMessage` + `waitForAcknowledge` (confirmable requests wait
  for the message-ID continuation first), `handleSpecialMessages` (message-ID continuation woken by
  *any* message with that ID, bare ACK dropped), `handleReq` (response cache consulted first, filled
  for confirmable messages), `handle` (`LoadAndDelete` on the hash of the received token, else
  observation/default handler).
* `tcp/client/conn.go`: `doInternal`, `handle` (`LoadAndDelete`), `blockwiseHandle` (`Load`, used when
  block-wise transfer is negotiated).
* `net/blockwise/blockwise.go: Do`: a second table keyed by the same hash (`sendingMessagesCache`)
  is consulted first when block-wise transfer is on and is released only when the call returns.

The hash is a parameter `h` (uninterpreted); the driver instantiates it with `crc64` below, whose
polynomial is regenerated from the source.  One `Event` is one atomic step of one goroutine; a
schedule is an arbitrary `List Event`.
-/
namespace CoapVerif.Model.TokenTable

abbrev Token := List UInt8

/-- transport: datagram (message IDs, ACKs) or stream; `bw`: block-wise transfer active on this connection
    (udp: configured; tcp: configured and announced by the peer's CSM). -/
structure Cfg where
  udp : Bool
  bw : Bool
  deriving Repr, DecidableEq

inductive Kind | ack | rst | pig | con | non | resp
  deriving Repr, DecidableEq

/-- A message received from the peer. `seq` is the arrival number (`cc.Sequence()`), `tag` the content. -/
structure Msg where
  kind : Kind
  tok : Token
  mid : Nat
  tag : String
  seq : Nat
  deriving Repr, DecidableEq

inductive Pc | waitAck | waitResp | returned
  deriving Repr, DecidableEq

inductive Res | ok (m : Msg) | exists_ | badToken | ctx | closed
  deriving Repr, DecidableEq

structure Caller where
  tok : Token
  mid : Nat
  pc : Pc
  slot : Option Msg      -- `respChan` (capacity 1)
  res : Option Res
  deriving Repr, DecidableEq

structure State where
  callers : Nat → Option Caller
  table : Nat → Option Nat      -- tokenHandlerContainer: hash ↦ caller whose closure is stored
  bwSend : Nat → Option Nat     -- blockwise sendingMessagesCache: hash ↦ caller (only when cfg.bw)
  mids : Nat → Option Nat       -- midHandlerContainer: message ID ↦ caller waiting for the ACK
  queue : List Msg              -- receivedMessageReader queue (FIFO)
  cache : List Nat              -- response cache: message IDs of confirmable messages already handled
  dflt : List Msg               -- messages that reached the observation / default handler
  nextSeq : Nat
  closed : Bool
  order : List Nat              -- caller ids in start order (printing only)

def init : State :=
  { callers := fun _ => none, table := fun _ => none, bwSend := fun _ => none, mids := fun _ => none,
    queue := [], cache := [], dflt := [], nextSeq := 0, closed := false, order := [] }

inductive Event
  | doStart (c : Nat) (tok : Token) (con : Bool) (mid : Nat)
  | arrive (kind : Kind) (tok : Token) (mid : Nat) (tag : String)
  | process
  | ret (c : Nat)
  | cancel (c : Nat)
  | close
  | retClosed (c : Nat)
  deriving Repr, DecidableEq

def upd {α : Type} (f : Nat → Option α) (k : Nat) (v : Option α) : Nat → Option α :=
  fun i => if i = k then v else f i

/-- non-blocking send into the caller's one-slot channel -/
def handover (s : State) (c : Nat) (m : Msg) : State :=
  match s.callers c with
  | some cl =>
    match cl.slot with
    | none => { s with callers := upd s.callers c (some { cl with slot := some m }) }
    | some _ => s
  | none => s

/-- `handleSpecialMessages`: a pending message-ID continuation is removed and its writer woken. -/
def wakeMid (s : State) (mid : Nat) : State :=
  match s.mids mid with
  | none => s
  | some c =>
    let s := { s with mids := upd s.mids mid none }
    match s.callers c with
    | some cl => if cl.pc = .waitAck then { s with callers := upd s.callers c (some { cl with pc := .waitResp }) } else s
    | none => s

/-- the token closure of `doInternal` (datagram transport) first treats the response as the acknowledgement of its own
    request (RFC 7252 §5.2.2): the caller's message-ID continuation is removed and a writer still waiting for the ACK woken -/
def wakeCaller (s : State) (c : Nat) : State :=
  match s.callers c with
  | none => s
  | some cl =>
    let s := { s with mids := upd s.mids cl.mid none }
    if cl.pc = .waitAck then { s with callers := upd s.callers c (some { cl with pc := .waitResp }) } else s

/-- the caller leaves without a response: every deferred removal runs. -/
def leave (h : Token → Nat) (s : State) (c : Nat) (r : Res) : State :=
  match s.callers c with
  | some cl =>
    if cl.pc = .returned then s
    else { s with callers := upd s.callers c (some { cl with pc := .returned, res := some r }),
                  table := upd s.table (h cl.tok) none,
                  bwSend := upd s.bwSend (h cl.tok) none,
                  mids := upd s.mids cl.mid none }
  | none => s

/-- which lookup `handle` performs: `true` = `LoadAndDelete`, `false` = `Load` (stream transport with block-wise) -/
def deliverDeletes (cfg : Cfg) : Bool := cfg.udp || !cfg.bw

/-- the call returns at once with an error; nothing is registered -/
def reject (s : State) (c : Nat) (tok : Token) (mid : Nat) (r : Res) : State :=
  { s with callers := upd s.callers c (some ⟨tok, mid, .returned, none, some r⟩), order := s.order ++ [c] }

/-- `LoadOrStore` found no entry: the closure is stored, the request written; a confirmable datagram request
    first waits for its ACK -/
def register (h : Token → Nat) (cfg : Cfg) (s : State) (c : Nat) (tok : Token) (con : Bool) (mid : Nat) : State :=
  { s with callers := upd s.callers c (some ⟨tok, mid, if cfg.udp && con then .waitAck else .waitResp, none, none⟩),
           table := upd s.table (h tok) (some c),
           bwSend := if cfg.bw then upd s.bwSend (h tok) (some c) else s.bwSend,
           mids := if cfg.udp && con then upd s.mids mid (some c) else s.mids,
           order := s.order ++ [c] }

/-- `handle`: look the token's hash up (removing the entry unless `blockwiseHandle`'s `Load` is used); a hit hands the
    message over, a miss goes to the observation / default handler -/
def deliver (h : Token → Nat) (cfg : Cfg) (s : State) (m : Msg) : State :=
  match s.table (h m.tok) with
  | some c =>
    let s1 := handover { s with table := if deliverDeletes cfg then upd s.table (h m.tok) none else s.table } c m
    if cfg.udp then wakeCaller s1 c else s1
  | none => { s with dflt := s.dflt ++ [m] }

/-- `checkResponseCache`: a confirmable / non-confirmable datagram whose message ID is cached is answered from the cache -/
def dedupHit (cfg : Cfg) (s : State) (m : Msg) : Bool :=
  cfg.udp && (m.kind = .con || m.kind = .non) && s.cache.contains m.mid

/-- `processResponse`: the (empty) acknowledgement of a confirmable message is cached under its message ID -/
def remember (cfg : Cfg) (s : State) (m : Msg) : State :=
  if cfg.udp && m.kind = .con then { s with cache := m.mid :: s.cache } else s

/-- the caller takes the message out of its channel and returns it; the deferred removals run -/
def finish (h : Token → Nat) (s : State) (c : Nat) : State :=
  match s.callers c with
  | some cl =>
    if cl.pc = .waitResp then
      match cl.slot with
      | some m =>
        { s with callers := upd s.callers c (some { cl with pc := .returned, slot := none, res := some (.ok m) }),
                 table := upd s.table (h cl.tok) none,
                 bwSend := upd s.bwSend (h cl.tok) none }
      | none => s
    else s
  | none => s

/-- `cc.Sequence()` -/
def bump (s : State) : State := { s with nextSeq := s.nextSeq + 1 }

/-- `Process` / `pushToReceivedMessageQueue`: a bare ACK is dropped, anything else queued -/
def enqueue (s : State) (m : Msg) : State :=
  if m.kind = .ack then s else { s with queue := s.queue ++ [m] }

/-- the message is numbered, a pending message-ID continuation is woken (datagram transport), then `enqueue` -/
def receive (cfg : Cfg) (s : State) (kind : Kind) (tok : Token) (mid : Nat) (tag : String) : State :=
  enqueue (if cfg.udp then wakeMid (bump s) mid else bump s) ⟨kind, tok, mid, tag, s.nextSeq⟩

def step (h : Token → Nat) (cfg : Cfg) (s : State) : Event → State
  | .doStart c tok con mid =>
    match s.callers c with
    | some _ => s
    | none =>
      if tok = [] then reject s c tok mid .badToken
      else if cfg.bw && (s.bwSend (h tok)).isSome then reject s c tok mid .badToken
      else if (s.table (h tok)).isSome then reject s c tok mid .exists_
      else if s.closed then reject s c tok mid .closed
      else register h cfg s c tok con mid
  | .arrive kind tok mid tag => if s.closed then s else receive cfg s kind tok mid tag
  | .process =>
    match s.queue with
    | [] => s
    | m :: q =>
      if dedupHit cfg { s with queue := q } m then { s with queue := q }
      else remember cfg (deliver h cfg { s with queue := q } m) m
  | .ret c => finish h s c
  | .cancel c => leave h s c .ctx
  | .close => { s with closed := true }
  | .retClosed c => if s.closed then leave h s c .closed else s

def run (h : Token → Nat) (cfg : Cfg) (evs : List Event) : State := evs.foldl (step h cfg) init

/-! ### The real key function: CRC-64/ISO as in `hash/crc64` (`message.Token.Hash`) -/

/-- one step of `crc64.MakeTable`'s inner loop (reflected polynomial); 64-bit words as naturals below 2^64 -/
def crcShift (c : Nat) : Nat :=
  if c % 2 = 1 then (c / 2) ^^^ Generated.TokenHash.crc64Poly else c / 2

/-- `crc64.MakeTable(crc64.ISO)[i]` -/
def crcTableEntry (i : Nat) : Nat :=
  crcShift (crcShift (crcShift (crcShift (crcShift (crcShift (crcShift (crcShift i)))))))

/-- `crc64.Checksum(t, crc64.MakeTable(crc64.ISO))`: `crc = ^crc; for b { crc = tab[byte(crc)^b] ^ (crc >> 8) }; return ^crc` -/
def crc64 (t : Token) : Nat :=
  let ones := 2 ^ 64 - 1
  ones ^^^ t.foldl (fun crc b => crcTableEntry ((crc ^^^ b.toNat) % 256) ^^^ (crc / 256)) ones

/-! ### Shape of the code this model follows (compared with `Generated.TableShape` in `Props/C03.lean`) -/

/-- (file, function, operation, key expression) of every lookup on a token-handler table -/
def expectedLookups : List (String × String × String × String) := [
  ("tcp/client/conn.go", "Conn.doInternal", "LoadAndDelete", "token.Hash()"),
  ("tcp/client/conn.go", "Conn.asyncPing", "LoadAndDelete", "token.Hash()"),
  ("tcp/client/conn.go", "Conn.blockwiseHandle", "Load", "r.Token().Hash()"),
  ("tcp/client/conn.go", "Conn.handle", "LoadAndDelete", "r.Token().Hash()"),
  ("tcp/client/conn.go", "Conn.handleSignals", "LoadAndDelete", "r.Token().Hash()"),
  ("udp/client/conn.go", "Conn.doInternal", "LoadAndDelete", "token.Hash()"),
  ("udp/client/conn.go", "Conn.handle", "LoadAndDelete", "rm.Token().Hash()"),
  ("udp/client/conn.go", "Conn.handle", "LoadAndDelete", "m.Token().Hash()")]

/-- (file, function, operation, key, removal) of the registrations on the token-handler tables -/
def expectedRegistrations : List (String × String × String × String × List String) := [
  ("tcp/client/conn.go", "Conn.doInternal", "LoadOrStore", "token.Hash()", ["defer"]),
  ("tcp/client/conn.go", "Conn.asyncPing", "LoadOrStore", "token.Hash()", ["returned-closure"]),
  ("udp/client/conn.go", "Conn.doInternal", "LoadOrStore", "token.Hash()", ["defer"])]

end CoapVerif.Model.TokenTable
