/-!
Token values and caller-owned request messages (C13, tenth seeded round).

`Model/Tables.lean` removes the entry of a cancelled live registration *by owner* (`cancelLive owner`).  In the code the
removal is by key: `Observation.Cancel` pulls out whatever sits under the hash of the token the `Observation` object holds.
The two agree as long as that token is the one the entry was stored under - a **value fixed at registration**
(`NewObservation` stores `req.Token()`, `pool.Message.Token()` hands out a copy).  The keys of the other tables C13 counts
(token continuations, block-wise send cache, message-ID continuations) are `uint64` / `int32` hashes computed when the
entry is made: values by their Go type.

This file is the small machine underneath `cancelLive`: request messages owned by the application (`slot ↦ token written
in it`), an observation table keyed by token, and handles.  `kstep` is the code (a handle holds the token value);
`kstepAlias` is the machine in which a handle shares the token bytes of the message it was registered from (it holds the
slot) - the negative shape.  `Props/C13Token.lean` proves that in `kstep` cancellation removes exactly the entry made at
registration whatever the application writes into its messages afterwards, and that only live registrations have entries.
Tie to the code: the `mobs` / `mdo` / `mwrite` histories of the harness (second use of a message object) and its
aliasing probe (`keychanged:observations`).
-/
namespace CoapVerif.Model.TokenValue

inductive KEv
  | setToken (slot tok : Nat)     -- the application writes a request with token `tok` into its message object `slot`
  | observe (slot : Nat)          -- DoObserve(message `slot`): register-if-absent under the message's token; fresh handle id
  | cancel (owner : Nat)          -- Observation.Cancel on handle `owner`
  deriving Repr, DecidableEq

structure KState where
  msgs : Nat → Nat := fun _ => 0               -- slot ↦ token in the caller's message object
  obs : List (Nat × Nat) := []                  -- observation table: (key, owner)
  stored : Nat → Option Nat := fun _ => none    -- handle ↦ token VALUE it holds (none: no such handle / registration refused)
  from_ : Nat → Nat := fun _ => 0               -- handle ↦ slot it was registered from (used by the aliasing machine only)
  cancelled : List Nat := []
  nextId : Nat := 0

def kstep (s : KState) : KEv → KState
  | .setToken slot tok => { s with msgs := fun i => if i = slot then tok else s.msgs i }
  | .observe slot =>
    let k := s.msgs slot
    let id := s.nextId
    if s.obs.any (fun e => e.1 == k) then { s with nextId := id + 1 }       -- ErrKeyAlreadyExists: nothing stored, no handle
    else { s with obs := (k, id) :: s.obs, stored := fun i => if i = id then some k else s.stored i,
                  from_ := fun i => if i = id then slot else s.from_ i, nextId := id + 1 }
  | .cancel owner =>
    match s.stored owner with
    | none => s
    | some k => { s with obs := s.obs.filter (fun e => e.1 != k), cancelled := owner :: s.cancelled }

def krun (s : KState) (evs : List KEv) : KState := evs.foldl kstep s

/-- the aliasing machine: Cancel reads the token from the message object the handle was registered from -/
def kstepAlias (s : KState) : KEv → KState
  | .cancel owner =>
    match s.stored owner with
    | none => s
    | some _ => { s with obs := s.obs.filter (fun e => e.1 != s.msgs (s.from_ owner)), cancelled := owner :: s.cancelled }
  | e => kstep s e

def krunAlias (s : KState) (evs : List KEv) : KState := evs.foldl kstepAlias s

end CoapVerif.Model.TokenValue
