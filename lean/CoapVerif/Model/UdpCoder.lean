import CoapVerif.Model.OptionCodec
/-!
# Model of `udp/coder/coder.go`: `Size`, `Encode`, `Decode`

Statement by statement, with checked slicing (see `Model/OptionCodec.lean`).  `Encode` works on the
contents of the destination buffer (`len(buf)` = list length) and returns the contents afterwards, so
"writes nothing outside the buffer" is "never `Err.panic`" (every write is bounds-checked) and the
returned list always has the length of the buffer.  Each `buf = buf[k:]` opens a `withSub` scope.
-/
set_option linter.unusedVariables false
namespace CoapVerif.Model.UdpCoder
open CoapVerif.Generated.Codec CoapVerif.Generated.OptionDefs
open CoapVerif.Spec.Wire (Bytes Opt Msg)
open CoapVerif.Model.OptionCodec

/-- `message.ValidateMID` -/
def validateMID (mid : Int) : Bool := decide (0 ≤ mid) && decide (mid ≤ (maxMID : Int))

/-- `message.ValidateType`: (0 <= typ <= 255) -/
def validateType (typ : Int) : Bool := decide (0 ≤ typ) && decide (typ ≤ 255)

/-- `Coder.Size(m)` -/
def size (m : Msg) : Except Err Nat :=
  if m.token.length > maxTokenSize then .error .badToken
  else do
    let size := 4 + m.token.length
    let payloadLen := m.payload.length
    let (optionsLen, small, _) ← optionsMarshal none m.options
    if !small then .error .panic        -- `!errors.Is(err, ErrTooSmall)`: would return (-1, nil); unreachable, see `size_ok`
    else
      let payloadLen := if payloadLen > 0 then payloadLen + 1 else payloadLen
      .ok (size + payloadLen + optionsLen)

/-- Result of an encoder call: the returned count, `ErrTooSmall` or nil, and the buffer contents. -/
structure EncRes where
  n : Nat
  tooSmall : Bool
  buf : Bytes
deriving Repr, DecidableEq

/-- `Coder.Encode(m, buf)`.  `.error` = the call returned `(-1, err)` (or `Err.panic`). -/
def encode (m : Msg) (buf : Bytes) : Except Err EncRes :=
  if !validateMID m.mid then .error .badMID
  else if !validateType m.typ then .error .badType
  else if m.code > 255 then .error .badCode                   -- `codes.Code` is a uint16, the header has one byte
  else
    match size m with
    | .error e => .error e
    | .ok size =>
      if buf.length < size then .ok ⟨size, true, buf⟩
      else do
        let mid := (m.mid % 65536).toNat                       -- math.CastTo[uint16](m.MessageID)
        let b ← setAt buf 0 (((1 : UInt8) <<< 6) ||| (byteOfInt m.typ <<< 4) ||| UInt8.ofNat (0xf &&& m.token.length))
        let b ← setAt b 1 (UInt8.ofNat m.code)
        let b ← setAt b 2 (UInt8.ofNat (mid / 256))
        let b ← setAt b 3 (UInt8.ofNat (mid % 256))
        let (r, b) ← withSub b 4 fun buf =>                     -- buf = buf[4:]
          if m.token.length > maxTokenSize then .error .badToken
          else
            let buf := goCopy buf m.token
            withSub buf m.token.length fun buf => do            -- buf = buf[len(m.Token):]
              let (optionsLen, small, buf) ← optionsMarshal (some buf) m.options
              if small then .ok (true, buf)                     -- return size, ErrTooSmall
              else
                withSub buf optionsLen fun buf =>               -- buf = buf[optionsLen:]
                  if m.payload.length > 0 then do
                    let buf ← setAt buf 0 0xff
                    withSub buf 1 fun buf => .ok (false, goCopy buf m.payload)
                  else .ok (false, goCopy buf m.payload)
        .ok ⟨size, r, b⟩

/-- `Coder.Decode(data, m)` into a message whose option slice has `len = 0`, `cap = cap`. -/
def decode (cap : Nat) (data : Bytes) : Except Err (Msg × Nat) :=
  let size := data.length
  if size < 4 then .error .truncated
  else do
    let b0 ← idx data 0
    if b0 >>> 6 ≠ 1 then .error .badVersion
    else
      let typ := ((b0 >>> 4) &&& 0x3).toNat
      let tokenLen := (b0 &&& 0xf).toNat
      if tokenLen > 8 then .error .badToken
      else do
        let code ← idx data 1
        let d24 ← sliceTo data 4
        let d24 ← sliceFrom d24 2
        let messageID ← getU16 d24
        let data ← sliceFrom data 4
        if data.length < tokenLen then .error .truncated
        else do
          let token ← sliceTo data tokenLen
          let data ← sliceFrom data tokenLen
          let (opts, proc) ← optionsUnmarshal coapOptionDefs cap 0 data
          let data ← sliceFrom data proc
          .ok (⟨(typ : Int), (messageID : Int), code.toNat, token, opts, data⟩, size)

end CoapVerif.Model.UdpCoder
