/-!
Model of the writing side of a stream connection (`tcp/client/session.go: Session.WriteMessage` →
`net/conn.go: Conn.WriteWithContext`): several goroutines write messages on one connection; each `WriteMessage` marshals its
message into one frame and hands the WHOLE frame to `WriteWithContext` in a single call, which holds the connection's write
lock until every byte of it is written (facts `writeMessageSingleWrite`, read from the AST on every run, and C09's
`writeHoldsLock`).  So the unit of interleaving is the frame: a schedule names, step by step, the writer whose next frame
goes out.

`runPieces` is the same machine with frames cut into pieces that are scheduled one by one (what a `WriteMessage` that calls
`WriteWithContext` per piece would do): used only for the negative result.
-/
namespace CoapVerif.Model.WritePath

abbrev Bytes := List UInt8

/-- what is left to write per writer, and what went out so far (writer, frame) -/
structure St where
  queues : List (List Bytes)
  out : List (Nat × Bytes) := []
  deriving Repr

/-- writer `i` writes its next frame (a step for a writer with nothing left changes nothing) -/
def step (s : St) (i : Nat) : St :=
  match s.queues[i]? with
  | some (f :: rest) => { queues := s.queues.set i rest, out := s.out ++ [(i, f)] }
  | _ => s

def run (queues : List (List Bytes)) (sched : List Nat) : St := sched.foldl step { queues := queues }

/-- the byte stream the peer reads -/
def stream (s : St) : Bytes := (s.out.map (·.2)).flatten

/-- the frames writer `i` has written, in the order they went out -/
def writtenBy (s : St) (i : Nat) : List Bytes := (s.out.filter (·.1 == i)).map (·.2)

def drained (s : St) : Bool := s.queues.all (·.isEmpty)

end CoapVerif.Model.WritePath
