import CoapVerif.Go.Basic
import CoapVerif.Model.PoolRetry
import CoapVerif.Spec.Wire
import CoapVerif.Lemmas.OptionEncode
import CoapVerif.Lemmas.OptionRoundTrip
import CoapVerif.Lemmas.CoderEncode
import CoapVerif.Lemmas.CoderRoundTrip
import CoapVerif.Lemmas.PoolRetry
/-!
# C01 — Wire codecs are exact inverses on every well-formed message (UDP and TCP)

Statement (properties.jsonl): for every CoAP message that satisfies the wire-format preconditions
(token of 0-8 bytes, options in ascending number order with non-zero numbers, registry-legal value
lengths and at most 65804 value bytes, code 0-255, and for datagram framing a valid type and 16-bit
message ID), encoding it with the datagram or the stream coder and decoding the result yields an
equal message and consumes exactly the bytes produced.  The size reported in advance equals the
number of bytes the encoder writes, and encoding into a too-small buffer fails by reporting that
same size without touching memory beyond the buffer.  Anything outside the preconditions (oversized
token, invalid type or message ID) is refused with an error rather than silently truncated.

* Preconditions = `Spec.Wire.WF` (decidable); RFC encoders = `Spec.Wire.encUdp` / `encTcp` (no buffers).
* Models = `Model/{OptionCodec,UdpCoder,TcpCoder,PoolMessage}.lean`: the Go code statement by statement,
  destination buffers as contents with bounds-checked writes (`Err.panic` = the Go runtime would panic),
  constants and option tables from `Generated/` (regenerated from /repo on every run).
* All theorems quantify over every message, every buffer (contents and length) and every option
  capacity; nothing is enumerated.
* The last sentence of the statement is FALSE of the current code for message types 4..255 (DESIGN §6-F15,
  known finding, witness in `Findings/C01.lean`); `udp_rejects_partial` proves the part that holds.
-/
namespace CoapVerif.Props.C01
open CoapVerif CoapVerif.Model CoapVerif.Model.OptionCodec CoapVerif.Model.PoolMessage
open CoapVerif.Generated.Codec CoapVerif.Generated.OptionDefs
open CoapVerif.Spec.Wire
open CoapVerif.Lemmas.OptionCodec CoapVerif.Lemmas.OptionEncode CoapVerif.Lemmas.OptionRoundTrip
open CoapVerif.Lemmas.CoderDecode CoapVerif.Lemmas.CoderEncode CoapVerif.Lemmas.CoderRoundTrip CoapVerif.Lemmas.PoolRetry

/-! ## Tie: the tables the code consults are the registries of the specification -/

/-- `message.CoapOptionDefs` (regenerated) = RFC 7252 Table 4 (+ RFC 7641/7959/7967), and no entry has
format `ValueUnknown`. -/
theorem registry_eq_rfc : regOf coapOptionDefs = rfcRegistry ∧ noUnknown coapOptionDefs = true := by decide

/-- The four signalling tables of `message/tcpOptions.go` = RFC 8323 §5.3–5.6. -/
theorem signal_registries_eq_rfc :
    regOf tcpSignalCSMOptionDefs = csmRegistry ∧ regOf tcpSignalPingPongOptionDefs = pingPongRegistry ∧
    regOf tcpSignalReleaseOptionDefs = releaseRegistry ∧ regOf tcpSignalAbortOptionDefs = abortRegistry := by decide

/-- `DecodeWithHeader` selects the table by the RFC 8323 signalling code, for every code. -/
theorem signal_table_selection (code : Nat) : regOf (TcpCoder.defsFor code) = registryFor .tcp code :=
  defsFor_regOf code

/-! ## Option delta/length nibble + extension (mechanism 1) -/

/-- `parseExtOpt` inverts the extension encoding in all three classes (0–12 / 13–268 / 269–65804). -/
theorem ext_codec_roundtrip (v : Nat) (h : v ≤ 65804) (r : Bytes) :
    nib v < 15 ∧ parseExtOpt (ext v ++ r) (nib v) = .ok ((ext v).length, v) := by
  refine ⟨nib_lt v, ?_⟩
  rw [parseExtOpt_eq, decExt_ext v h r]
  simp

/-- `marshalOptionHeader` into a large-enough buffer writes the RFC header (first byte with both
nibbles, then the two extensions) and nothing else. -/
theorem optHeader_roundtrip (d l : Nat) (hd : d ≤ 65804) (hl : l ≤ 65804) (buf : Bytes)
    (hfit : 1 + (ext d).length + (ext l).length ≤ buf.length) :
    marshalOptionHeader buf (d : Int) (l : Int) =
      .ok (1 + (ext d).length + (ext l).length, false,
        UInt8.ofNat (nib d * 16 + nib l) :: (ext d ++ ext l) ++ buf.drop (1 + (ext d).length + (ext l).length)) ∧
    (UInt8.ofNat (nib d * 16 + nib l)).toNat / 16 = nib d ∧ (UInt8.ofNat (nib d * 16 + nib l)).toNat % 16 = nib l := by
  obtain ⟨w, hw, _, hf⟩ := header_spec buf (d : Int) (l : Int)
  have hh := hdrB_nat d l hd hl
  have hlen : (hdrB (d : Int) (l : Int)).length = 1 + (ext d).length + (ext l).length := by
    rw [hh]; simp; omega
  rw [hlen] at hw hf
  have hnl : ¬ (buf.length < 1 + (ext d).length + (ext l).length) := by omega
  refine ⟨?_, ?_, ?_⟩
  · rw [hw, hf hfit, hh]; simp [hnl]
  · rw [hdr_toNat _ _ (nib_lt d) (nib_lt l)]; have := nib_lt l; omega
  · rw [hdr_toNat _ _ (nib_lt d) (nib_lt l)]; have := nib_lt l; omega

/-! ## Two-pass `Options.Marshal` sharing one code path (mechanism 2) -/

/-- For every option list and every buffer: `Options.Marshal` never panics, never changes the length of
the buffer, returns the same length the nil-buffer (sizing) pass returns, reports "too small" exactly
when the buffer is shorter than that, and otherwise has written exactly `optsB` at the front. -/
theorem options_marshal_contract (os : List Opt) (buf : Bytes) :
    optionsMarshal none os = .ok ((optsB 0 os).length, true, []) ∧
    ∃ w, optionsMarshal (some buf) os = .ok ((optsB 0 os).length, decide (buf.length < (optsB 0 os).length), w) ∧
      w.length = buf.length ∧ ((optsB 0 os).length ≤ buf.length → w = optsB 0 os ++ buf.drop (optsB 0 os).length) :=
  ⟨optionsMarshal_nil os, optionsMarshal_spec os buf⟩

/-- On ascending lists with expressible deltas and lengths the bytes written are the RFC 7252 §3.1 bytes. -/
theorem options_marshal_eq_spec (reg : List (Nat × Nat × Nat)) (os : List Opt) (h : optsWF reg 0 os = true) :
    optsB 0 os = encOpts 0 os :=
  optsB_eq_encOpts os 0 (optsWF_encodable reg os 0 h)

/-- `Options.Unmarshal ∘ Options.Marshal = id` (induction over the list, running previous ID generalised):
marshal into any large-enough buffer, unmarshal what was written, with any capacity ≥ the number of options. -/
theorem options_unmarshal_marshal (defs : Defs) (hu : noUnknown defs = true) (os : List Opt)
    (hwf : optsWF (regOf defs) 0 os = true) (buf : Bytes) (hfit : (encOpts 0 os).length ≤ buf.length)
    (cap : Nat) (hc : os.length ≤ cap) :
    ∃ w, optionsMarshal (some buf) os = .ok ((encOpts 0 os).length, false, w) ∧
      w = encOpts 0 os ++ buf.drop (encOpts 0 os).length ∧
      optionsUnmarshal defs cap 0 (w.take (encOpts 0 os).length) = .ok (os, (encOpts 0 os).length) := by
  obtain ⟨w, hw, _, hf⟩ := optionsMarshal_spec os buf
  rw [options_marshal_eq_spec _ os hwf] at hw hf
  have hnl : ¬ (buf.length < (encOpts 0 os).length) := by omega
  refine ⟨w, by rw [hw]; simp [hnl], hf hfit, ?_⟩
  rw [hf hfit, List.take_left' rfl]
  unfold optionsUnmarshal
  rw [unmarshalLoop_eq]
  have := decLoop_encOpts defs hu os [] cap 0 0 hwf (by omega)
  simp only [encPayload, List.isEmpty_nil, ↓reduceIte, List.append_nil] at this
  rw [this]
  simp

/-! ## Datagram coder -/

/-- The size reported in advance is the length of the RFC encoding. -/
theorem udp_size_eq (m : Msg) (h : WF .udp m = true) : UdpCoder.size m = .ok (encUdp m).length := by
  obtain ⟨_, _, htk, _⟩ := udp_valid_of_WF m h
  rw [udp_size m htk, ← udpB_length, udpB_eq_spec m h]

/-- Buffer at least `size`: no panic, returns `(size, nil)`, the buffer then starts with exactly the RFC
encoding and everything behind it is untouched. -/
theorem udp_encode_eq_spec (m : Msg) (h : WF .udp m = true) (buf : Bytes) (hfit : (encUdp m).length ≤ buf.length) :
    UdpCoder.encode m buf = .ok ⟨(encUdp m).length, false, encUdp m ++ buf.drop (encUdp m).length⟩ := by
  obtain ⟨hmid, htyp, htk, hcd⟩ := udp_valid_of_WF m h
  have := udp_encode_big m hmid htyp hcd htk buf (by rw [udpB_eq_spec m h]; exact hfit)
  rwa [udpB_eq_spec m h] at this

/-- Every buffer shorter than `size` (contents and length arbitrary): returns `(size, ErrTooSmall)`, never
panics, and the buffer is returned exactly as it was — nothing is written, inside or outside. -/
theorem udp_encode_small (m : Msg) (h : WF .udp m = true) (buf : Bytes) (hc : buf.length < (encUdp m).length) :
    UdpCoder.encode m buf = .ok ⟨(encUdp m).length, true, buf⟩ := by
  obtain ⟨hmid, htyp, htk, hcd⟩ := udp_valid_of_WF m h
  have := CoapVerif.Lemmas.CoderEncode.udp_encode_small m hmid htyp hcd htk buf (by rw [udpB_eq_spec m h]; exact hc)
  rwa [udpB_eq_spec m h] at this

/-- Decoding the encoding yields the message and consumes exactly the bytes produced. -/
theorem udp_decode_encode (m : Msg) (h : WF .udp m = true) (cap : Nat) (hc : m.options.length ≤ cap) :
    UdpCoder.decode cap (encUdp m) = .ok (canon .udp m, (encUdp m).length) := by
  rw [udp_decode_eq]; exact udpDec_encUdp m h cap hc

/-- End to end through the real call sequence: `Size`, `Encode` into a buffer of that size, `Decode`. -/
theorem udp_roundtrip (m : Msg) (h : WF .udp m = true) (buf : Bytes) (hb : buf.length = (encUdp m).length) :
    ∃ r, UdpCoder.encode m buf = .ok r ∧ r.tooSmall = false ∧
      UdpCoder.decode m.options.length (r.buf.take r.n) = .ok (m, r.n) := by
  refine ⟨_, udp_encode_eq_spec m h buf (by omega), rfl, ?_⟩
  simp only [List.take_left' rfl]
  exact udp_decode_encode m h _ (Nat.le_refl _)

/-- PARTIAL (known finding F15).  Full statement of the property: a message with token longer than 8
bytes, code above 255, type outside 0..3 or message ID outside 0..65535 is refused with an error, for every
buffer.  Proved: the same with type outside 0..255 — `message.ValidateType` admits 4..255 and the encoder then
keeps only two bits (see `Findings/C01.lean` for the witness that the full statement is false).  The code
clause holds since the fix of F27 (`Encode` refuses `m.Code > 0xff`; `codes.Code` is a `uint16`). -/
theorem udp_rejects_partial (m : Msg) (buf : Bytes)
    (h : m.token.length > 8 ∨ m.code > 255 ∨ m.typ < 0 ∨ m.typ > 255 ∨ m.mid < 0 ∨ m.mid > 65535) :
    ∃ e, UdpCoder.encode m buf = .error e ∧ e ≠ .panic := by
  unfold UdpCoder.encode
  by_cases hm : 0 ≤ m.mid ∧ m.mid ≤ 65535
  · have hm' : UdpCoder.validateMID m.mid = true := by
      simp only [UdpCoder.validateMID, maxMID, Bool.and_eq_true, decide_eq_true_eq]
      exact ⟨hm.1, decide_eq_true (by omega)⟩
    by_cases ht : 0 ≤ m.typ ∧ m.typ ≤ 255
    · have ht' : UdpCoder.validateType m.typ = true := by
        simp only [UdpCoder.validateType, Bool.and_eq_true, decide_eq_true_eq]; exact ht
      by_cases hc : m.code > 255
      · exact ⟨.badCode, by simp [hm', ht', hc], by decide⟩
      · have htk : m.token.length > 8 := by omega
        have hs : UdpCoder.size m = .error .badToken := by
          unfold UdpCoder.size; simp [maxTokenSize, htk]
        exact ⟨.badToken, by simp [hm', ht', hc, hs], by decide⟩
    · have ht' : UdpCoder.validateType m.typ = false := by
        unfold UdpCoder.validateType
        by_cases h0 : 0 ≤ m.typ
        · have : ¬ (m.typ ≤ 255) := by omega
          simp [h0, this]
        · simp [h0]
      exact ⟨.badType, by simp [hm', ht'], by decide⟩
  · have hm' : UdpCoder.validateMID m.mid = false := by
      unfold UdpCoder.validateMID
      by_cases h0 : 0 ≤ m.mid
      · have : ¬ (m.mid ≤ ((maxMID : Nat) : Int)) := by simp only [maxMID]; omega
        simp [h0, this]
      · simp [h0]
    exact ⟨.badMID, by simp [hm'], by decide⟩

/-! ## Stream coder -/

/-- All four length classes 0–12 / 13–268 / 269–65804 / 65805+: `getHeader` is the RFC 8323 §3.2 length
nibble and extended length (thresholds and bases from the regenerated constants), and the decoder's
extended-length parser inverts it. -/
theorem tcp_header_classes (l : Nat) (h : l < messageMaxLen) (r : Bytes) :
    TcpCoder.getHeader l = (lenNib l, extLen l) ∧
    tcpExt (lenNib l) (extLen l ++ r) = .ok (l, r, 1 + (extLen l).length) ∧
    (l ≤ 12 → lenNib l = l ∧ extLen l = []) ∧
    (13 ≤ l ∧ l ≤ 268 → lenNib l = 13 ∧ (extLen l).length = 1) ∧
    (269 ≤ l ∧ l ≤ 65804 → lenNib l = 14 ∧ (extLen l).length = 2) ∧
    (65805 ≤ l → lenNib l = 15 ∧ (extLen l).length = 4) := by
  refine ⟨getHeader_eq l h, tcpExt_extLen l (by simp [messageMaxLen] at h; omega) r, ?_, ?_, ?_, ?_⟩
  · intro h1; simp [lenNib, extLen, h1]
  · intro ⟨h1, h2⟩
    have : ¬ l ≤ 12 := by omega
    simp [lenNib, extLen, this, h2]
  · intro ⟨h1, h2⟩
    have a : ¬ l ≤ 12 := by omega
    have b : ¬ l ≤ 268 := by omega
    simp [lenNib, extLen, a, b, h2]
  · intro h1
    have a : ¬ l ≤ 12 := by omega
    have b : ¬ l ≤ 268 := by omega
    have c : ¬ l ≤ 65804 := by omega
    simp [lenNib, extLen, a, b, c, be32]

/-- `Size` (= `Encode(m, nil)`) is the length of the RFC encoding. -/
theorem tcp_size_eq (m : Msg) (h : WF .tcp m = true) : TcpCoder.size m = .ok (encTcp m).length := by
  have h' := h
  simp only [WF, Bool.and_eq_true, decide_eq_true_eq] at h'
  obtain ⟨⟨⟨htk, hcd⟩, _⟩, _⟩ := h'
  unfold TcpCoder.size
  rw [tcp_encode_spec m htk (by omega) [], tcpB_eq_spec m h]
  have : 0 < (encTcp m).length := by unfold encTcp; simp
  simp [this, bind, Except.bind]

theorem tcp_encode_eq_spec (m : Msg) (h : WF .tcp m = true) (buf : Bytes) (hfit : (encTcp m).length ≤ buf.length) :
    TcpCoder.encode m buf = .ok ⟨(encTcp m).length, false, encTcp m ++ buf.drop (encTcp m).length⟩ := by
  have h' := h
  simp only [WF, Bool.and_eq_true, decide_eq_true_eq] at h'
  obtain ⟨⟨⟨htk, hcd⟩, _⟩, _⟩ := h'
  rw [tcp_encode_spec m htk (by omega) buf, tcpB_eq_spec m h]
  have : ¬ (buf.length < (encTcp m).length) := by omega
  simp [this]

theorem tcp_encode_small (m : Msg) (h : WF .tcp m = true) (buf : Bytes) (hc : buf.length < (encTcp m).length) :
    TcpCoder.encode m buf = .ok ⟨(encTcp m).length, true, buf⟩ := by
  have h' := h
  simp only [WF, Bool.and_eq_true, decide_eq_true_eq] at h'
  obtain ⟨⟨⟨htk, hcd⟩, _⟩, _⟩ := h'
  rw [tcp_encode_spec m htk (by omega) buf, tcpB_eq_spec m h]
  simp [hc]

/-- Header pre-parse of an encoded frame (followed by anything): consumes exactly the header bytes, declares
exactly the frame length, returns code and token. -/
theorem tcp_decodeHeader_encode (m : Msg) (h : WF .tcp m = true) (rest : Bytes) :
    TcpCoder.decodeHeader (encTcp m ++ rest) =
      .ok ⟨m.token, (encTcp m).length - (encBody m).length, (encTcp m).length, m.code⟩ := by
  simp only [WF, Bool.and_eq_true, decide_eq_true_eq] at h
  obtain ⟨⟨⟨htk, hcode⟩, _⟩, hb⟩ := h
  rw [tcp_decodeHeader_eq, tcpHdr_encTcp m htk hcode hb rest]
  congr 2
  unfold encTcp
  simp only [List.length_cons, List.length_append]
  omega

theorem tcp_decode_encode (m : Msg) (h : WF .tcp m = true) (cap : Nat) (hc : m.options.length ≤ cap) :
    TcpCoder.decode cap (encTcp m) = .ok (canon .tcp m, (encTcp m).length) := by
  rw [tcp_decode_eq]; exact tcpDec_encTcp m h cap hc

/-- An oversized token or a code above 255 is refused by `Encode` and `Size` (= `Encode(m, nil)`), for every buffer. -/
theorem tcp_rejects (m : Msg) (buf : Bytes) (h : m.token.length > 8 ∨ m.code > 255) :
    (∃ e, TcpCoder.encode m buf = .error e ∧ e ≠ .panic) ∧ (∃ e, TcpCoder.size m = .error e ∧ e ≠ .panic) := by
  have key : ∀ b : Bytes, ∃ e, TcpCoder.encode m b = .error e ∧ e ≠ .panic := by
    intro b
    unfold TcpCoder.encode
    by_cases htk : m.token.length > 8
    · exact ⟨.badToken, by simp [maxTokenSize, htk], by decide⟩
    · have hc : m.code > 255 := by omega
      exact ⟨.badCode, by simp [maxTokenSize, htk, hc], by decide⟩
  refine ⟨key buf, ?_⟩
  obtain ⟨e, he, hne⟩ := key []
  exact ⟨e, by unfold TcpCoder.size; simp [he, bind, Except.bind], hne⟩

/-! ## Pooled marshal / unmarshal -/

def wireOf : Coder → Msg → Bytes
  | .udp => encUdp
  | .tcp => encTcp

def framingOf : Coder → Framing
  | .udp => .udp
  | .tcp => .tcp

/-- `MarshalWithEncoder` produces exactly the RFC encoding (scratch buffer grown as needed). -/
theorem pool_marshal (c : Coder) (r : PoolMsg) (h : WF (framingOf c) r.msg = true) :
    ∃ r', marshalWithEncoder c r = .ok (wireOf c r.msg, r') := by
  unfold marshalWithEncoder
  cases c with
  | udp =>
    simp only [Coder.size, Coder.encode, wireOf, framingOf] at h ⊢
    simp only [bind, Except.bind, udp_size_eq r.msg h]
    have hfit : (encUdp r.msg).length ≤ (if r.bufferMarshal.length < (encUdp r.msg).length then
        grow r.bufferMarshal ((encUdp r.msg).length - r.bufferMarshal.length) else r.bufferMarshal).length := by
      split
      · simp [grow]; omega
      · omega
    rw [udp_encode_eq_spec r.msg h _ hfit]
    simp [sliceTo]
  | tcp =>
    simp only [Coder.size, Coder.encode, wireOf, framingOf] at h ⊢
    simp only [bind, Except.bind, tcp_size_eq r.msg h]
    have hfit : (encTcp r.msg).length ≤ (if r.bufferMarshal.length < (encTcp r.msg).length then
        grow r.bufferMarshal ((encTcp r.msg).length - r.bufferMarshal.length) else r.bufferMarshal).length := by
      split
      · simp [grow]; omega
      · omega
    rw [tcp_encode_eq_spec r.msg h _ hfit]
    simp [sliceTo]

/-- The message's own receive buffer after the copy is exactly the caller's data. -/
theorem pool_copy (bu data : Bytes) :
    sliceTo (goCopy (if bu.length < data.length then grow bu (data.length - bu.length) else bu) data) data.length = .ok data := by
  have hl : data.length ≤ (if bu.length < data.length then grow bu (data.length - bu.length) else bu).length := by
    split
    · simp [grow]; omega
    · omega
  rw [goCopy_fits _ _ hl]
  simp [sliceTo]

/-- Pooled round trip: whatever the state of the receiving message (any option capacity, including 0,
any scratch-buffer contents), unmarshalling the marshalled bytes yields the message and consumes all bytes. -/
theorem pool_roundtrip (c : Coder) (src dst : PoolMsg) (h : WF (framingOf c) src.msg = true) :
    ∃ src' dst', marshalWithEncoder c src = .ok (wireOf c src.msg, src') ∧
      unmarshalWithDecoder c dst (wireOf c src.msg) = .ok ((wireOf c src.msg).length, dst') ∧
      dst'.msg = canon (framingOf c) src.msg ∧ dst'.bufferUnmarshal = wireOf c src.msg := by
  obtain ⟨src', hs⟩ := pool_marshal c src h
  refine ⟨src', ?_⟩
  unfold unmarshalWithDecoder
  simp only [bind, Except.bind, pool_copy]
  have hbig := decodeRetry_eq_big c dst.optCap (max (wireOf c src.msg).length src.msg.options.length) (wireOf c src.msg)
    (Nat.le_max_left _ _)
  have hdec : c.decode (max (wireOf c src.msg).length src.msg.options.length) (wireOf c src.msg) =
      .ok (canon (framingOf c) src.msg, (wireOf c src.msg).length) := by
    cases c with
    | udp => exact udp_decode_encode src.msg h _ (Nat.le_max_right _ _)
    | tcp => exact tcp_decode_encode src.msg h _ (Nat.le_max_right _ _)
  rw [hdec] at hbig
  rcases hr : decodeRetry c dst.optCap (wireOf c src.msg) with ⟨res, cap'⟩
  rw [hr] at hbig
  simp only at hbig
  subst hbig
  exact ⟨_, hs, rfl, rfl, rfl⟩

/-! ## Non-vacuity: a message with all three extension classes, a payload and an 8-byte token -/

def exMsg : Msg :=
  ⟨1, 0xBEEF, 0x45, [1, 2, 3, 4, 5, 6, 7, 8],
   [⟨11, [0x61]⟩, ⟨11, []⟩, ⟨30, List.replicate 13 7⟩, ⟨2000, List.replicate 269 9⟩, ⟨65535, [1]⟩], [0xCA, 0xFE]⟩

set_option maxRecDepth 20000
example : WF .udp exMsg = true ∧ WF .tcp exMsg = true := by decide
example : (encUdp exMsg).length = 312 ∧ (encTcp exMsg).length = 312 := by decide
example : UdpCoder.decode 5 (encUdp exMsg) = .ok (exMsg, (encUdp exMsg).length) :=
  udp_decode_encode exMsg (by decide) 5 (by decide)
example : UdpCoder.encode exMsg (List.replicate 100 0) = .ok ⟨(encUdp exMsg).length, true, List.replicate 100 0⟩ :=
  udp_encode_small exMsg (by decide) (List.replicate 100 0) (by decide)
example : TcpCoder.getHeader 65805 = (15, [0, 0, 0, 0]) ∧ TcpCoder.getHeader 268 = (13, [255]) := by decide
example : ∃ e, UdpCoder.encode { exMsg with mid := 65536 } [] = .error e ∧ e ≠ .panic :=
  udp_rejects_partial _ _ (by decide)
example : ∃ e, UdpCoder.encode { exMsg with code := 300 } [] = .error e ∧ e ≠ .panic :=
  udp_rejects_partial _ _ (by decide)

end CoapVerif.Props.C01

section Audit
open CoapVerif.Props.C01
#print axioms registry_eq_rfc
#print axioms signal_registries_eq_rfc
#print axioms signal_table_selection
#print axioms ext_codec_roundtrip
#print axioms optHeader_roundtrip
#print axioms options_marshal_contract
#print axioms options_marshal_eq_spec
#print axioms options_unmarshal_marshal
#print axioms udp_size_eq
#print axioms udp_encode_eq_spec
#print axioms udp_encode_small
#print axioms udp_decode_encode
#print axioms udp_roundtrip
#print axioms udp_rejects_partial
#print axioms tcp_header_classes
#print axioms tcp_size_eq
#print axioms tcp_encode_eq_spec
#print axioms tcp_encode_small
#print axioms tcp_decodeHeader_encode
#print axioms tcp_decode_encode
#print axioms tcp_rejects
#print axioms pool_marshal
#print axioms pool_copy
#print axioms pool_roundtrip
end Audit
